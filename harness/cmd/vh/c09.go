package main

// C09 — Corruption of stored data is detected, never served as valid.
//
// A real store (several txs, several entries, kv/tx metadata, plain/embedded/compressed values,
// tiny chunk files, both header versions) is built and closed. Its directory is then copied many
// times; in each copy bytes of the tx log (tx/*.tx) and of the value logs (val_*/*.val) are altered
// (systematically at every field of every record, plus seeded random bit flips) and the copy is
// opened and read through every integrity-checked API. HOW a copy is opened and read varies from case to case
// (c09Variant): value-log cache size {0,1,4,64} x tx-log cache size {default,1} x a read SEQUENCE that interposes lenient
// accesses (skipIntegrityCheck=true: ExportTx, ReadTx, ReadTxHeader, ReadTxEntry) before / between the checked ones and
// permutes the checked phases, so that whatever a lenient or another checked path left in a cache is then consumed by a
// checked path. Lenient answers are not judged; the checked ones are, as always.
//
// ORACLE (model independent; ground truth = the same probe on the unaltered copy): every call either
// returns an error or exactly the pristine content. A panic, a hang, a huge allocation or different
// content returned without error is a failure with a per-call-site signature.
//
// TIE to the Lean model (Tx/Record.lean): for every altered record the raw tx-log stream is sent to
// `c09 parse` and the outcome class (ok + canonical record | error class | panic) is compared with the
// real ReadTx; pristine records are compared byte for byte with `c09 ser`; value reads with `c09 rv`, repeated
// value reads of the sandwich sequences with `c09 rvc` (Tx/ValueCache.lean: the read through the cached bytes).

import (
	"bytes"
	"context"
	"crypto/sha256"
	"encoding/binary"
	"encoding/json"
	"errors"
	"fmt"
	"io"
	"os"
	"path/filepath"
	"runtime"
	"runtime/debug"
	"runtime/metrics"
	"sort"
	"strings"
	"sync"
	"sync/atomic"
	"syscall"
	"time"

	"github.com/codenotary/immudb/embedded/appendable"
	"github.com/codenotary/immudb/embedded/store"

	"verif/harness/internal/hx"
)

func init() { runners["C09"] = runC09 }

const (
	c09MaxEntries = 6
	c09MaxKeyLen  = 24
	c09MaxValLen  = 400
	c09HugeAlloc  = 128 << 20 // bytes allocated by ONE api call = failure
	c09GuardVLen  = 32 << 20  // once the huge-allocation finding is recorded, value reads believing more than this are skipped
	c09FixedTs    = 1790000000
)

// ---------------------------------------------------------------- configuration

type c09Cfg struct {
	Name     string
	Embedded bool
	MaxIO    int
	Comp     int
	FileSize int
	NTx      int
}

func (c c09Cfg) opts(ver int) *store.Options {
	idx := store.DefaultIndexOptions().WithCacheSize(64).WithFlushBufferSize(1 << 12).WithMaxBufferedDataSize(1 << 16).
		WithMaxGlobalBufferedDataSize(1 << 16)
	aht := store.DefaultAHTOptions().WithWriteBufferSize(1 << 12)
	return store.DefaultOptions().WithSynced(false).WithWriteTxHeaderVersion(ver).WithMaxConcurrency(2).
		WithFileSize(c.FileSize).WithEmbeddedValues(c.Embedded).WithMaxIOConcurrency(c.MaxIO).
		WithCompressionFormat(c.Comp).WithMaxTxEntries(c09MaxEntries).WithMaxKeyLen(c09MaxKeyLen).
		WithMaxValueLen(c09MaxValLen).WithMultiIndexing(true).WithLogger(quietLogger()).
		WithWriteBufferSize(1 << 13).WithIndexOptions(idx).WithAHTOptions(aht).WithMaxActiveTransactions(8).WithMaxWaitees(8).
		WithTimeFunc(func() time.Time { return time.Unix(c09FixedTs, 0) }) // deterministic record bytes (replays)
}

// c09Variant: HOW an (altered) copy is opened and read. The caches are run-time options (nothing of them is
// persisted), so every copy of the same pristine directory can be opened with its own cache configuration; Seq names
// the read SEQUENCE: which lenient (skipIntegrityCheck=true) accesses are made, and when, relative to the
// integrity-checked ones, and in which order the checked phases run. The zero value is the plain checked probe
// (value cache off, default tx-log cache, no lenient access) = the ground-truth probe.
type c09Variant struct {
	VCache  int    `json:"vcache"`  // store.Options.VLogCacheSize (0 = off = immudb's default)
	TxCache int    `json:"txcache"` // store.Options.TxLogCacheSize (0 = immudb's default)
	Seq     string `json:"seq"`     // "+"-joined: {bulk|pertx|sandwich}-{export|readtx|all}, export-first, get-first
}

func (v c09Variant) String() string {
	seq := v.Seq
	if seq == "" {
		seq = "checked-only"
	}
	return fmt.Sprintf("vcache=%d,txcache=%d,seq=%s", v.VCache, v.TxCache, seq)
}

// c09Seq: the decoded read sequence.
type c09Seq struct {
	when        string // "" | "bulk" (all lenient accesses before any checked one) | "pertx" (lenient accesses of tx i right before the checked reads of tx i) | "sandwich" (checked, lenient, checked again)
	export      bool   // lenient ExportTx(skipIntegrityCheck=true): the only lenient path that reads VALUES
	readtx      bool   // lenient ReadTx / ReadTxHeader / ReadTxEntry (+ checked ReadValue of the entries they return)
	exportFirst bool   // the checked ExportTx loop runs before the checked ReadTx/ReadValue loop
	getFirst    bool   // index + Get + Resolve run before the checked ReadTx/ReadValue loop
}

func (v c09Variant) seq() c09Seq {
	var q c09Seq
	for _, tok := range strings.Split(v.Seq, "+") {
		switch tok {
		case "", "checked-only":
		case "export-first":
			q.exportFirst = true
		case "get-first":
			q.getFirst = true
		default:
			p := strings.SplitN(tok, "-", 2)
			if len(p) == 2 {
				q.when = p[0]
				q.export = p[1] == "export" || p[1] == "all"
				q.readtx = p[1] == "readtx" || p[1] == "all"
			}
		}
	}
	return q
}

var c09Seqs = []string{"checked-only", "bulk-export", "pertx-all", "sandwich-export", "get-first+bulk-export", "bulk-readtx",
	"pertx-export", "export-first", "sandwich-all", "bulk-all", "get-first"}
var c09VCaches = []int{0, 64, 1, 4}
var c09TxCaches = []int{0, 1}

// c09VariantAt enumerates the cross product (the three periods 11, 4 and 8 are pairwise compatible: 88 consecutive
// indices visit every combination of sequence x value-cache size x tx-cache size).
func c09VariantAt(i int) c09Variant {
	if i < 0 {
		i = -i
	}
	return c09Variant{Seq: c09Seqs[i%len(c09Seqs)], VCache: c09VCaches[i%len(c09VCaches)], TxCache: c09TxCaches[(i/len(c09VCaches))%len(c09TxCaches)]}
}

func (c c09Cfg) optsV(ver int, v c09Variant) *store.Options {
	o := c.opts(ver).WithVLogCacheSize(v.VCache)
	if v.TxCache > 0 {
		o = o.WithTxLogCacheSize(v.TxCache)
	}
	return o
}

// ---------------------------------------------------------------- logical view of a multiapp directory

type c09Chunk struct {
	path string
	base int64 // header length (4 + metadata)
	n    int64 // data bytes
}

type c09Log struct {
	dir      string
	fileSize int
	chunks   []c09Chunk
}

func c09LoadLog(dir, ext string, fileSize int) (*c09Log, error) {
	ents, err := os.ReadDir(dir)
	if err != nil {
		return nil, err
	}
	l := &c09Log{dir: dir, fileSize: fileSize}
	var names []string
	for _, e := range ents {
		if strings.HasSuffix(e.Name(), "."+ext) {
			names = append(names, e.Name())
		}
	}
	sort.Strings(names)
	for i, nm := range names {
		if nm != fmt.Sprintf("%08d.%s", i, ext) {
			return nil, fmt.Errorf("unexpected chunk name %s in %s", nm, dir)
		}
		p := filepath.Join(dir, nm)
		b, err := os.ReadFile(p)
		if err != nil {
			return nil, err
		}
		if len(b) < 4 {
			return nil, fmt.Errorf("short chunk %s", p)
		}
		base := int64(4 + binary.BigEndian.Uint32(b))
		if base > int64(len(b)) {
			return nil, fmt.Errorf("bad chunk header %s", p)
		}
		l.chunks = append(l.chunks, c09Chunk{path: p, base: base, n: int64(len(b)) - base})
	}
	return l, nil
}

// content returns the logical byte stream of an UNCOMPRESSED log (chunk i holds [i*fileSize, (i+1)*fileSize)).
func (l *c09Log) content() ([]byte, error) {
	var out []byte
	for i, c := range l.chunks {
		b, err := os.ReadFile(c.path)
		if err != nil {
			return nil, err
		}
		d := b[c.base:]
		if i < len(l.chunks)-1 && len(d) != l.fileSize {
			return nil, fmt.Errorf("chunk %s holds %d bytes, expected %d", c.path, len(d), l.fileSize)
		}
		out = append(out, d...)
	}
	return out, nil
}

// where maps a logical offset to (chunk index, position in the chunk's data).
func (l *c09Log) where(off int64) (int, int64) { return int(off / int64(l.fileSize)), off % int64(l.fileSize) }

// patchAt overwrites data bytes of one chunk file (position relative to the chunk's data start).
func (l *c09Log) patchAt(chunk int, pos int64, bs []byte) error {
	if chunk < 0 || chunk >= len(l.chunks) || pos < 0 || pos+int64(len(bs)) > l.chunks[chunk].n {
		return fmt.Errorf("patch outside chunk data (%d,%d,+%d)", chunk, pos, len(bs))
	}
	f, err := os.OpenFile(l.chunks[chunk].path, os.O_RDWR, 0)
	if err != nil {
		return err
	}
	defer f.Close()
	_, err = f.WriteAt(bs, l.chunks[chunk].base+pos)
	return err
}

// patch overwrites logical bytes of an uncompressed log (may span chunks).
func (l *c09Log) patch(off int64, bs []byte) error {
	for i := range bs {
		c, p := l.where(off + int64(i))
		if err := l.patchAt(c, p, bs[i:i+1]); err != nil {
			return err
		}
	}
	return nil
}

// ---------------------------------------------------------------- pristine content and record layout

type c09Field struct {
	Name  string // e.g. "id", "e2.vLen"
	Off   int    // relative to the record start
	Len   int
	Num   bool // big-endian number (length / count / offset / id)
	Entry int  // -1 = header / trailer
}

type c09Entry struct {
	Key, Md []byte
	VLen    int
	VOff    int64
	HVal    [32]byte
}

type c09Tx struct {
	ID      uint64
	Off     int64 // logical offset of the record in the tx log
	Size    int
	Raw     []byte
	Fields  []c09Field
	Entries []c09Entry
	Summary string // canonical full record (same format as the Lean driver)
	Hdr     c09Hdr   // raw header fields (re-serialisation, c09restruct.go)
	Alh     [32]byte // the committed trailing Alh
}

type c09Store struct {
	cfg     c09Cfg
	dir     string // pristine directory
	n       uint64
	txs     []*c09Tx // 1-based
	keys    [][]byte
	pairs   [][2]uint64
	base    *c09Obs
	txLogSz int64
	vRanges []c09VRange
	// what the harness handed to Set / WithMetadata / Commit, per transaction (ground truth recorded at commit time)
	committed  []c09CommitTx
	txLogBytes []byte // pristine logical tx log
}

type c09VRange struct {
	Tx, Entry int
	Log       string // "tx" or "val_<i>"
	Off       int64  // decoded offset inside that log
	Len       int
}

func mdBytes(md *store.KVMetadata) []byte {
	if md == nil {
		return nil
	}
	return md.Bytes()
}

func txmdBytes(md *store.TxMetadata) []byte {
	if md == nil {
		return nil
	}
	return md.Bytes()
}

// c09Summary renders a read transaction exactly like Driver/C09.lean `fmtRecord`.
func c09Summary(tx *store.Tx, alh [32]byte) string {
	h := tx.Header()
	var sb strings.Builder
	fmt.Fprintf(&sb, "%d:%d:%d:%s:%s:%d:%s:%d:%s|", h.ID, uint64(h.Ts), h.BlTxID, hx.Hex(h.BlRoot[:]), hx.Hex(h.PrevAlh[:]),
		h.Version, hx.Hex(txmdBytes(h.Metadata)), h.NEntries, hx.Hex(h.Eh[:]))
	es := tx.Entries()
	if len(es) == 0 {
		sb.WriteString("_")
	}
	for i, e := range es {
		if i > 0 {
			sb.WriteString(";")
		}
		hv := e.HVal()
		fmt.Fprintf(&sb, "%s,%s,%d,%d,%s", hx.Hex(mdBytes(e.Metadata())), hx.Hex(e.Key()), e.VLen(), uint64(e.VOff()), hx.Hex(hv[:]))
	}
	sb.WriteString("|" + hx.Hex(alh[:]))
	return sb.String()
}

// c09Covered renders what the Alh commits to (no vLen / vOff): the content the ORACLE compares.
func c09Covered(tx *store.Tx) string {
	h := tx.Header()
	alh := h.Alh()
	var sb strings.Builder
	fmt.Fprintf(&sb, "%d:%d:%d:%s:%s:%d:%s:%d:%s|", h.ID, uint64(h.Ts), h.BlTxID, hx.Hex(h.BlRoot[:]), hx.Hex(h.PrevAlh[:]),
		h.Version, hx.Hex(txmdBytes(h.Metadata)), h.NEntries, hx.Hex(h.Eh[:]))
	for _, e := range tx.Entries() {
		hv := e.HVal()
		fmt.Fprintf(&sb, "%s,%s,%s;", c09MdStr(e.Metadata()), hx.Hex(e.Key()), hx.Hex(hv[:]))
	}
	sb.WriteString("|" + hx.Hex(alh[:]))
	return sb.String()
}

func c09HdrStr(h *store.TxHeader) string {
	alh, p := safeAlh(h)
	if p {
		return "alh-panic"
	}
	return hdrTok(h) + "|" + hx.Hex(alh[:])
}

// c09Layout reconstructs the on-disk record of a transaction from its content (the layout written by
// performPrecommit) together with the field map used by the systematic mutations.
func c09Layout(h *store.TxHeader, es []c09Entry, alh [32]byte) ([]byte, []c09Field) {
	var b []byte
	var fs []c09Field
	add := func(name string, bs []byte, num bool, entry int) {
		fs = append(fs, c09Field{Name: name, Off: len(b), Len: len(bs), Num: num, Entry: entry})
		b = append(b, bs...)
	}
	u16 := func(v int) []byte { x := make([]byte, 2); binary.BigEndian.PutUint16(x, uint16(v)); return x }
	u32 := func(v int) []byte { x := make([]byte, 4); binary.BigEndian.PutUint32(x, uint32(v)); return x }
	u64 := func(v uint64) []byte { x := make([]byte, 8); binary.BigEndian.PutUint64(x, v); return x }
	add("id", u64(h.ID), true, -1)
	add("ts", u64(uint64(h.Ts)), true, -1)
	add("blTxID", u64(h.BlTxID), true, -1)
	add("blRoot", h.BlRoot[:], false, -1)
	add("prevAlh", h.PrevAlh[:], false, -1)
	add("version", u16(h.Version), true, -1)
	if h.Version == 0 {
		add("nentries", u16(h.NEntries), true, -1)
	} else {
		md := txmdBytes(h.Metadata)
		add("txmdLen", u16(len(md)), true, -1)
		if len(md) > 0 {
			add("txmd", md, false, -1)
		}
		add("nentries", u32(h.NEntries), true, -1)
	}
	for i, e := range es {
		p := fmt.Sprintf("e%d.", i)
		add(p+"kvmdLen", u16(len(e.Md)), true, i)
		if len(e.Md) > 0 {
			add(p+"kvmd", e.Md, false, i)
		}
		add(p+"kLen", u16(len(e.Key)), true, i)
		add(p+"key", e.Key, false, i)
		add(p+"vLen", u32(e.VLen), true, i)
		add(p+"vOff", u64(uint64(e.VOff)), true, i)
		add(p+"hVal", e.HVal[:], false, i)
	}
	add("alh", alh[:], false, -1)
	return b, fs
}

// ---------------------------------------------------------------- building the pristine store

func c09Build(rng *hx.Rng, cfg c09Cfg, dir string) (uint64, [][]byte, []c09CommitTx, error) {
	ctx := context.Background()
	keyPool := [][]byte{[]byte("k0"), []byte("key-1"), []byte("k2-longer-key-xx"), {0x00, 0xff, 0x01}, []byte("k4"), []byte("k5")}
	n := uint64(0)
	var committed []c09CommitTx
	g := newC09Grinder()
	defer g.close()
	nV0 := cfg.NTx / 3
	for phase := 0; phase < 2; phase++ {
		ver := phase
		st, err := store.Open(dir, cfg.opts(ver))
		if err != nil {
			return 0, nil, nil, err
		}
		if err := st.InitIndexing(&store.IndexSpec{}); err != nil {
			st.Close()
			return 0, nil, nil, err
		}
		cnt := nV0
		if phase == 1 {
			cnt = cfg.NTx - nV0
		}
		for k := 0; k < cnt; k++ {
			tx, err := st.NewWriteOnlyTx(ctx)
			if err != nil {
				st.Close()
				return 0, nil, nil, err
			}
			ne := 1 + rng.Intn(4)
			if k == 0 {
				ne = c09MaxEntries
			}
			ctx0 := c09CommitTx{Version: ver}
			var pend []c09Pending
			var txmd *store.TxMetadata
			perm := rng.Intn(len(keyPool))
			for e := 0; e < ne; e++ {
				key := keyPool[(perm+e)%len(keyPool)]
				var md *store.KVMetadata
				if ver == 1 && rng.Chance(45) {
					md = store.NewKVMetadata()
					switch rng.Intn(5) {
					case 0:
						md.AsDeleted(true)
					case 1:
						md.ExpiresAt(time.Unix(int64(4000000000+rng.Intn(1000)), 0))
					case 2:
						md.AsNonIndexable(true)
					case 3:
						md.AsDeleted(true)
						md.ExpiresAt(time.Unix(int64(4000000000+rng.Intn(1000)), 0))
						md.AsNonIndexable(true)
					default:
						md.ExpiresAt(time.Unix(int64(4100000000+rng.Intn(1000)), 0))
						md.AsNonIndexable(rng.Bool())
					}
				}
				var val []byte
				switch rng.Intn(6) {
				case 0: // empty value
				case 1:
					val = rng.Bytes(1 + rng.Intn(3))
				case 2:
					val = rng.Bytes(cfg.FileSize/2 + rng.Intn(40)) // crosses a chunk boundary sooner or later
					if len(val) > c09MaxValLen {
						val = val[:c09MaxValLen]
					}
				default:
					val = []byte(fmt.Sprintf("value-%d-%d-%s", n+1, e, strings.Repeat("v", rng.Intn(40))))
				}
				pend = append(pend, c09Pending{key: key, md: md, val: val})
			}
			if ver == 1 && k == 1 {
				// boundary: the largest tx metadata the writer accepts (truncatedUptoTx + 256-byte extra = maxTxMetadataLen)
				md := store.NewTxMetadata()
				md.WithTruncatedTxID(1)
				if err := md.WithExtra(rng.Bytes(256)); err != nil {
					st.Close()
					return 0, nil, nil, err
				}
				txmd = md
			} else if ver == 1 {
				switch rng.Intn(4) {
				case 0:
					md := store.NewTxMetadata()
					md.WithExtra(rng.Bytes(1 + rng.Intn(12)))
					txmd = md
				case 1:
					md := store.NewTxMetadata()
					md.WithTruncatedTxID(uint64(1 + rng.Intn(3)))
					if rng.Bool() {
						md.WithExtra([]byte("x"))
					}
					txmd = md
				}
			}
			// every other transaction: content chosen so that the record can grow by one byte inside its committed extent
			// (its Alh ends with the byte that follows it: 0x00, the top byte of the next tx id), see c09Grinder
			if (n+1)%2 == 1 {
				ctx0.Ground = g.grind(ver, txmd, pend, 0x00)
			}
			pred, pok := g.predict(ver, txmd, pend)
			for _, p := range pend {
				if err := tx.Set(p.key, p.md, p.val); err != nil {
					st.Close()
					return 0, nil, nil, err
				}
				ctx0.Entries = append(ctx0.Entries, c09CommitEntryOf(p.key, p.md, p.val))
			}
			if txmd != nil {
				tx.WithMetadata(txmd)
				ctx0.TxMd = append([]byte{}, txmd.Bytes()...)
			}
			hdr, err := tx.AsyncCommit(ctx)
			if err != nil {
				st.Close()
				return 0, nil, nil, fmt.Errorf("commit: %w", err)
			}
			alh, _ := safeAlh(hdr)
			ctx0.Predicted = pok && pred == alh
			if !ctx0.Predicted && os.Getenv("C09_DEBUG") != "" {
				fmt.Fprintf(os.Stderr, "alh of tx %d (v%d, txmd=%v, ground=%v) not predicted (pok=%v): blTxID=%d\n", n+1, ver, txmd != nil, ctx0.Ground, pok, hdr.BlTxID)
			}
			g.done(alh)
			committed = append(committed, ctx0)
			n++
		}
		wctx, cancel := context.WithTimeout(ctx, 20*time.Second)
		err = st.WaitForIndexingUpto(wctx, n)
		cancel()
		if err != nil {
			st.Close()
			return 0, nil, nil, fmt.Errorf("indexing: %w", err)
		}
		if err := st.Close(); err != nil {
			return 0, nil, nil, err
		}
	}
	return n, keyPool, committed, nil
}

// ---------------------------------------------------------------- the probe (used for ground truth AND for every copy)

type c09Res struct {
	API   string
	Err   string // error class ("" = no error)
	Msg   string
	Val   string // canonical content
	Full  string // ReadTx only: full record summary for the Lean tie
	Panic string // innermost immudb function of the panic stack
	Alloc uint64
	VLen  int // ReadValue/ExportTx: the vLen the store believed
	// ReadValue of an entry handed out by a LENIENT read: "ok" / "mismatch" = does the returned value have the digest
	// and the length the ENTRY states (the entry itself is not authenticated, ReadValue's own check is what is judged)
	Self string
}

type c09Obs struct {
	order []string
	m     map[string]*c09Res
	last  atomic.Value
	seq   atomic.Int64
	mu    sync.Mutex // guards order/m (the watchdog snapshots them when a call hangs)
	abort bool // a panic happened: the store instance may hold locks, stop probing it
}

var c09AllocSample = []metrics.Sample{{Name: "/gc/heap/allocs:bytes"}}

func c09Allocs() uint64 {
	metrics.Read(c09AllocSample)
	return c09AllocSample[0].Value.Uint64()
}

func c09PanicSite(stack []byte) string {
	lines := strings.Split(string(stack), "\n")
	seenPanic := false
	for _, l := range lines {
		if strings.HasPrefix(l, "panic(") {
			seenPanic = true
			continue
		}
		if !seenPanic || strings.HasPrefix(l, "\t") {
			continue
		}
		if i := strings.Index(l, "github.com/codenotary/immudb/"); i == 0 {
			f := l[len("github.com/codenotary/immudb/"):]
			if j := strings.LastIndex(f, "("); j > 0 {
				f = f[:j]
			}
			if j := strings.LastIndex(f, "/"); j >= 0 {
				f = f[j+1:]
			}
			f = strings.NewReplacer("(*", "", ")", "").Replace(f)
			f = strings.TrimPrefix(f, "store.")
			f = strings.TrimPrefix(f, "ImmuStore.")
			return f
		}
	}
	return "unknown"
}

func c09ErrClass(err error) string {
	if strings.HasPrefix(err.Error(), "skipped-") {
		return err.Error()
	}
	switch {
	case errors.Is(err, store.ErrCorruptedTxDataMaxTxEntriesExceeded):
		return "maxentries"
	case errors.Is(err, store.ErrCorruptedTxDataUnknownHeaderVersion):
		return "version"
	case errors.Is(err, store.ErrCorruptedTxDataMaxKeyLenExceeded):
		return "maxkeylen"
	case errors.Is(err, store.ErrCorruptedTxData):
		return "txdata"
	case errors.Is(err, store.ErrCorruptedData):
		return "data"
	case errors.Is(err, store.ErrMetadataUnsupported):
		return "mdunsupported"
	case errors.Is(err, store.ErrUnexpectedError):
		return "unexpected"
	case errors.Is(err, io.EOF):
		return "eof"
	}
	return "other"
}

// c09SlowCall: threshold of the C09_DEBUG "slow call" trace (C09_SLOW_MS, default 2000 ms).
func c09SlowCall() time.Duration {
	ms := 2000
	if v := os.Getenv("C09_SLOW_MS"); v != "" {
		fmt.Sscanf(v, "%d", &ms)
	}
	return time.Duration(ms) * time.Millisecond
}

func (o *c09Obs) call(api, key string, f func(res *c09Res) (string, error)) *c09Res {
	res := &c09Res{API: api}
	o.last.Store(key)
	o.seq.Add(1)
	if o.abort {
		return res
	}
	a0 := c09Allocs()
	t0 := time.Now()
	defer func() {
		if d := time.Since(t0); os.Getenv("C09_DEBUG") != "" && d > c09SlowCall() {
			fmt.Fprintf(os.Stderr, "slow call %s: %v alloc=%dMiB err=%s vlen=%d\n", key, d, res.Alloc>>20, res.Err, res.VLen)
		}
	}()
	func() {
		defer func() {
			if e := recover(); e != nil {
				res.Panic = c09PanicSite(debug.Stack())
				res.Msg = fmt.Sprint(e)
				o.abort = true
			}
		}()
		v, err := f(res)
		if err != nil {
			res.Err = c09ErrClass(err)
			res.Msg = err.Error()
		} else {
			res.Val = v
		}
	}()
	res.Alloc = c09Allocs() - a0
	o.put(key, res)
	return res
}

func (o *c09Obs) put(key string, res *c09Res) {
	o.mu.Lock()
	o.order = append(o.order, key)
	o.m[key] = res
	o.mu.Unlock()
}

type c09Plan struct {
	n         uint64
	keys      [][]byte
	pairs     [][2]uint64
	withIndex bool
	skipHuge  bool // do not call value reads whose believed vLen is huge (after the finding has been recorded once)
	// after the ExportTx deadlock has been confirmed once, do not call ExportTx again on an instance whose ExportTx failed
	noExportAfterErr bool
	pv               c09Variant
	// compressed value logs, after the huge-allocation finding has been exercised c09MaxHugeComp times in this run: do not
	// read values of a transaction one of whose entries states a LARGER vLen than committed (multiapp.ReadAt continues
	// after the short read at an offset inside the compressed blob) or another vOff (a length prefix is read from arbitrary
	// bytes): singleapp.ReadAt allocates whatever the 4 bytes there say - gigabytes, a minute per call on a busy machine
	skipGrown bool
	pristVLen map[uint64][]int
	pristVOff map[uint64][]int64
}

// Call keys: "<API>[!skip][#<pass>]:<args>". "!skip" marks a LENIENT call (skipIntegrityCheck=true): its answer is not
// judged (the caller asked for no check), only panics / hangs / allocations are. "#<pass>" marks a repeated or
// derived CHECKED call: it is judged against the ground truth of the plain call ("ReadValue#2:3:1" and "ReadValue#L:3:1"
// against "ReadValue:3:1").
func c09BaseKey(k string) string {
	i := strings.Index(k, ":")
	head, tail := k, ""
	if i >= 0 {
		head, tail = k[:i], k[i:]
	}
	if j := strings.Index(head, "#"); j >= 0 {
		head = head[:j]
	}
	return head + tail
}

func c09Lenient(api string) bool { return strings.Contains(api, "!skip") }

// c09SigAPI: the API name used in failure signatures (lenient / repeated calls share the signature of the plain API).
func c09SigAPI(api string) string {
	if j := strings.IndexAny(api, "!#"); j >= 0 {
		return api[:j]
	}
	return api
}

// c09Probe opens the directory and reads everything through the integrity-checked APIs, in the order and with the
// interposed lenient accesses given by plan.pv.
func c09Probe(o *c09Obs, dir string, cfg c09Cfg, plan c09Plan) *c09Obs {
	pv := plan.pv
	q := pv.seq()
	var st *store.ImmuStore
	r := o.call("Open", "Open", func(*c09Res) (string, error) {
		var err error
		st, err = store.Open(dir, cfg.optsV(1, pv))
		return "ok", err
	})
	if r.Err != "" || r.Panic != "" || st == nil {
		return o
	}
	defer func() {
		done := make(chan struct{})
		go func() {
			defer func() { recover(); close(done) }()
			st.Close()
		}()
		select {
		case <-done:
		case <-time.After(10 * time.Second):
		}
	}()
	o.call("Open", "Open:state", func(*c09Res) (string, error) {
		id, alh := st.CommittedAlh()
		return fmt.Sprintf("%d:%s", id, hx.Hex(alh[:])), nil
	})
	tx := store.NewTx(st.MaxTxEntries(), st.MaxKeyLen())
	ltx := store.NewTx(st.MaxTxEntries(), st.MaxKeyLen()) // holder of the lenient reads (the checked holder keeps its entries)
	grown := map[uint64]bool{}
	if plan.skipGrown {
		for id := uint64(1); id <= plan.n; id++ {
			txid := id
			o.call("ReadTx!skip", fmt.Sprintf("ReadTx!skip#g:%d", txid), func(*c09Res) (string, error) {
				if err := st.ReadTx(txid, true, ltx); err != nil {
					return "", err
				}
				pv, po := plan.pristVLen[txid], plan.pristVOff[txid]
				for i, e := range ltx.Entries() {
					if i >= len(pv) || e.VLen() > pv[i] || (e.VLen() > 0 && e.VOff() != po[i]) {
						grown[txid] = true
					}
				}
				return "ok", nil
			})
		}
	}
	skipGrown := func(api, key string, id uint64) bool {
		if grown[id] {
			o.put(key, &c09Res{API: api, Err: "skipped-relocated-value-compressed"})
		}
		return grown[id]
	}
	firstBad := uint64(0)
	maxVLen := map[uint64]int{}
	exportFailed := false

	// ---- lenient accesses of one transaction
	lenientExport := func(id uint64) {
		if o.abort || (exportFailed && plan.noExportAfterErr) {
			return
		}
		if !q.readtx {
			// the entries the lenient export is about to read (for the tie: which offsets get cached with which length)
			o.call("ReadTx!skip", fmt.Sprintf("ReadTx!skip:%d", id), func(res *c09Res) (string, error) {
				if err := st.ReadTx(id, true, ltx); err != nil {
					return "", err
				}
				if alh, p := safeAlh(ltx.Header()); !p {
					res.Full = c09Summary(ltx, alh)
				}
				return "ok", nil
			})
		}
		if skipGrown("ExportTx!skip", fmt.Sprintf("ExportTx!skip:%d", id), id) {
			return
		}
		rr := o.call("ExportTx!skip", fmt.Sprintf("ExportTx!skip:%d", id), func(res *c09Res) (string, error) {
			b, err := st.ExportTx(id, false, true, ltx)
			if err != nil {
				return "", err
			}
			return hx.Hex(b), nil
		})
		if rr.Err != "" {
			exportFailed = true
		}
	}
	readValueOf := func(api, key string, id uint64, e *store.TxEntry) {
		if skipGrown(api, key, id) {
			return
		}
		if plan.skipHuge && e.VLen() > c09GuardVLen {
			o.put(key, &c09Res{API: api, Err: "skipped-huge-vlen", VLen: e.VLen()})
			return
		}
		o.call(api, key, func(res *c09Res) (string, error) {
			res.VLen = e.VLen()
			v, err := st.ReadValue(e)
			if err != nil {
				return "", err
			}
			if api == "ReadValue#L" || api == "ReadValue#E" {
				res.Self = "ok"
				if sha256.Sum256(v) != e.HVal() || len(v) != e.VLen() {
					res.Self = "mismatch"
				}
			}
			return hx.Hex(v), nil
		})
	}
	lenientRead := func(id uint64) {
		var entries []*store.TxEntry
		o.call("ReadTx!skip", fmt.Sprintf("ReadTx!skip:%d", id), func(res *c09Res) (string, error) {
			if err := st.ReadTx(id, true, ltx); err != nil {
				return "", err
			}
			alh, p := safeAlh(ltx.Header())
			if !p {
				res.Full = c09Summary(ltx, alh)
			}
			entries = ltx.Entries()
			return "ok", nil
		})
		// ReadValue is integrity-checked whatever the origin of the entry (this is how pkg/database reads with
		// skipIntegrityCheck: ReadTxEntry(…, true) then ReadValue): error, or the pristine value of that entry
		for i, e := range entries {
			readValueOf("ReadValue#L", fmt.Sprintf("ReadValue#L:%d:%d", id, i), id, e)
		}
		o.call("ReadTxHeader!skip", fmt.Sprintf("ReadTxHeader!skip:%d", id), func(*c09Res) (string, error) {
			_, err := st.ReadTxHeader(id, false, true)
			return "ok", err
		})
		for _, k := range plan.keys[:2] {
			key := k
			var ent *store.TxEntry
			rr := o.call("ReadTxEntry!skip", fmt.Sprintf("ReadTxEntry!skip:%d:%s", id, hx.Hex(key)), func(*c09Res) (string, error) {
				e, _, err := st.ReadTxEntry(id, key, true)
				if errors.Is(err, store.ErrKeyNotFound) {
					return "not-found", nil
				}
				ent = e
				return "ok", err
			})
			if rr.Err == "" && rr.Panic == "" && ent != nil {
				readValueOf("ReadValue#E", fmt.Sprintf("ReadValue#E:%d:%s", id, hx.Hex(key)), id, ent)
			}
		}
	}
	lenient := func(id uint64) {
		if q.readtx {
			lenientRead(id)
		}
		if q.export {
			lenientExport(id)
		}
	}

	// ---- the checked phases
	checkedTx := func(id uint64, pass string) []*store.TxEntry {
		var entries []*store.TxEntry
		rr := o.call("ReadTx"+pass, fmt.Sprintf("ReadTx%s:%d", pass, id), func(res *c09Res) (string, error) {
			if err := st.ReadTx(id, false, tx); err != nil {
				return "", err
			}
			res.Full = c09Summary(tx, tx.Header().Alh())
			entries = tx.Entries()
			return c09Covered(tx), nil
		})
		if (rr.Err != "" || rr.Panic != "") && firstBad == 0 {
			firstBad = id
		}
		return entries
	}
	phaseReads := func() {
		for id := uint64(1); id <= plan.n; id++ {
			if q.when == "pertx" {
				lenient(id)
			}
			entries := checkedTx(id, "")
			// values of the entries as THIS store sees them
			for i, e := range entries {
				readValueOf("ReadValue", fmt.Sprintf("ReadValue:%d:%d", id, i), id, e)
			}
			maxV := 0
			for _, e := range entries {
				if e.VLen() > maxV {
					maxV = e.VLen()
				}
			}
			maxVLen[id] = maxV
			if q.when == "sandwich" {
				// checked reads (above) - lenient accesses - the same checked reads again
				lenient(id)
				for i, e := range checkedTx(id, "#2") {
					readValueOf("ReadValue#2", fmt.Sprintf("ReadValue#2:%d:%d", id, i), id, e)
				}
			}
			o.call("ReadTxHeader", fmt.Sprintf("ReadTxHeader:%d", id), func(*c09Res) (string, error) {
				h, err := st.ReadTxHeader(id, false, false)
				if err != nil {
					return "", err
				}
				return c09HdrStr(h), nil
			})
		}
	}
	phaseEntries := func() {
		for id := uint64(1); id <= plan.n; id++ {
			for _, k := range plan.keys {
				key := k
				o.call("ReadTxEntry", fmt.Sprintf("ReadTxEntry:%d:%s", id, hx.Hex(key)), func(*c09Res) (string, error) {
					e, h, err := st.ReadTxEntry(id, key, false)
					if errors.Is(err, store.ErrKeyNotFound) {
						return "not-found", nil
					}
					if err != nil {
						return "", err
					}
					hv := e.HVal()
					return fmt.Sprintf("%s,%s,%s|%s", c09MdStr(e.Metadata()), hx.Hex(e.Key()), hx.Hex(hv[:]), c09HdrStr(h)), nil
				})
			}
		}
	}
	// sequential scans (PrevAlh chaining on top of the per-record check)
	phaseScans := func() {
		for _, desc := range []bool{false, true} {
			name := "TxReaderAsc"
			start := uint64(1)
			if desc {
				name, start = "TxReaderDesc", plan.n
			}
			var rd *store.TxReader
			rr := o.call(name, name+":new", func(*c09Res) (string, error) {
				var err error
				rd, err = st.NewTxReader(start, desc, tx)
				return "ok", err
			})
			if rr.Err != "" || rr.Panic != "" {
				continue
			}
			for k := uint64(0); k < plan.n; k++ {
				id := start + k
				if desc {
					id = start - k
				}
				rr := o.call(name, fmt.Sprintf("%s:%d", name, id), func(*c09Res) (string, error) {
					t, err := rd.Read()
					if err != nil {
						return "", err
					}
					return c09Covered(t), nil
				})
				if rr.Err != "" || rr.Panic != "" {
					break
				}
			}
		}
	}
	phaseProofs := func() {
		for _, pr := range plan.pairs {
			s, t := pr[0], pr[1]
			o.call("DualProof", fmt.Sprintf("DualProof:%d:%d", s, t), func(*c09Res) (string, error) {
				sh, err := st.ReadTxHeader(s, false, false)
				if err != nil {
					return "", err
				}
				th, err := st.ReadTxHeader(t, false, false)
				if err != nil {
					return "", err
				}
				p, err := st.DualProof(sh, th)
				if err != nil {
					return "", err
				}
				return dualTok(p, s, t, sh.Alh(), th.Alh()), nil
			})
		}
	}
	// index (rebuilt from the tx log when the copy carries no index directory) and Get
	phaseIndexGet := func() {
		if !plan.withIndex || o.abort {
			return
		}
		r := o.call("InitIndexing", "InitIndexing", func(*c09Res) (string, error) {
			return "ok", st.InitIndexing(&store.IndexSpec{})
		})
		if r.Err != "" || r.Panic != "" {
			return
		}
		upto := plan.n
		if firstBad > 0 {
			upto = firstBad - 1
		}
		if upto > 0 {
			ctx, cancel := context.WithTimeout(context.Background(), 3*time.Second)
			t0 := time.Now()
			werr := st.WaitForIndexingUpto(ctx, upto)
			cancel()
			if os.Getenv("C09_DEBUG") != "" && time.Since(t0) > time.Second {
				fmt.Fprintf(os.Stderr, "slow wait-for-indexing upto=%d firstBad=%d n=%d err=%v %s dir=%s\n", upto, firstBad, plan.n, werr, pv, dir)
			}
		}
		for _, k := range plan.keys {
			key := k
			o.call("Get", "Get:"+hx.Hex(key), func(res *c09Res) (string, error) {
				vr, err := st.Get(context.Background(), key)
				if errors.Is(err, store.ErrKeyNotFound) {
					return "not-found", nil
				}
				if err != nil {
					return "", err
				}
				res.VLen = int(vr.Len())
				if plan.skipHuge && res.VLen > c09GuardVLen {
					return "", errors.New("skipped-huge-vlen")
				}
				if grown[vr.Tx()] {
					return "", errors.New("skipped-relocated-value-compressed")
				}
				v, err := vr.Resolve()
				if err != nil {
					return "", err
				}
				hv := vr.HVal()
				return fmt.Sprintf("%d|%s|%s|%s", vr.Tx(), hx.Hex(v), c09MdStr(vr.KVMetadata()), hx.Hex(hv[:])), nil
			})
		}
	}
	// an ExportTx that fails on a value read can leave a store-wide mutex locked (finding C09:ExportTx:hang): it only
	// blocks later ExportTx calls, so exports may run at any point of the sequence
	phaseExport := func(known bool) {
		for id := uint64(1); id <= plan.n && !o.abort; id++ {
			if known && plan.skipHuge && maxVLen[id] > c09GuardVLen {
				continue
			}
			if exportFailed && plan.noExportAfterErr {
				o.put(fmt.Sprintf("ExportTx:%d", id), &c09Res{API: "ExportTx", Err: "skipped-after-export-error"})
				continue
			}
			if skipGrown("ExportTx", fmt.Sprintf("ExportTx:%d", id), id) {
				continue
			}
			rr := o.call("ExportTx", fmt.Sprintf("ExportTx:%d", id), func(res *c09Res) (string, error) {
				res.VLen = maxVLen[id]
				b, err := st.ExportTx(id, false, false, tx)
				if err != nil {
					return "", err
				}
				return hx.Hex(b), nil
			})
			if rr.Err != "" {
				exportFailed = true
			}
		}
	}

	// ---- the sequence
	if q.when == "bulk" {
		for id := uint64(1); id <= plan.n; id++ {
			lenient(id)
		}
	}
	if q.getFirst {
		// which transactions are readable bounds the wait for the indexer (header reads touch no value)
		for id := uint64(1); id <= plan.n && firstBad == 0; id++ {
			checkedTx(id, "#0")
		}
		phaseIndexGet()
	}
	if q.exportFirst {
		phaseExport(false)
	}
	phaseReads()
	phaseEntries()
	phaseScans()
	phaseProofs()
	if !q.getFirst {
		phaseIndexGet()
	}
	if !q.exportFirst {
		phaseExport(true)
	}
	return o
}

// c09ProbeTimed runs the probe under a watchdog. Wall-clock (and CPU-share) bounds are load dependent: a call that
// allocates and clears gigabytes (compressed value logs: `make([]byte, clen)` with an arbitrary length prefix) takes a
// minute on a busy machine and is NOT a hang. A hang is reported only for
//   (a) a DEADLOCK: no call returned for `stall`, and then for a confirmation window of c09Confirm every goroutine
//       that is inside immudb code is parked (mutex / semaphore / channel / select / sleep) with the probe goroutine
//       sitting on the same frames all the time — a parked goroutine needs no CPU, so this does not depend on the load; or
//   (b) NON-TERMINATION: the call is still busy after the process has burnt c09HardCapCPU of CPU time since the call
//       began (a CPU budget does not shrink when other jobs take the cores; a call that clears 3.4 GiB needs 1-2 CPU
//       minutes), or after c09HardCapWall of wall-clock time as a backstop.
// A call that exceeded `stall` but returned is counted (c09SlowCalls -> evidence), not failed. On a hang the goroutine
// is abandoned, its observation is not read.
func c09ProbeTimed(dir string, cfg c09Cfg, plan c09Plan, stall time.Duration) (*c09Obs, string) {
	o := &c09Obs{m: map[string]*c09Res{}}
	o.last.Store("Open")
	done := make(chan struct{})
	go func() {
		defer close(done)
		c09Probe(o, dir, cfg, plan)
	}()
	seen := o.seq.Load()
	lastMove := time.Now()
	cpuAtMove := c09CPU()
	var lastSample, parkedSince time.Time
	parkedSig := ""
	slow := false
	tick := time.NewTicker(50 * time.Millisecond)
	defer tick.Stop()
	for {
		select {
		case <-done:
			if slow {
				c09SlowCalls++
			}
			return o, ""
		case <-tick.C:
			if cur := o.seq.Load(); cur != seen {
				if slow {
					c09SlowCalls++
				}
				seen, lastMove, parkedSince, parkedSig, slow = cur, time.Now(), time.Time{}, "", false
				cpuAtMove = c09CPU()
				continue
			}
			idle := time.Since(lastMove)
			if idle <= stall || time.Since(lastSample) < time.Second {
				continue
			}
			lastSample = time.Now()
			slow = true
			hung := idle > c09HardCapWall || c09CPU()-cpuAtMove > c09HardCapCPU
			if busy, sig := c09ImmudbGoroutines(); busy == 0 && sig != "" {
				if sig == parkedSig && !parkedSince.IsZero() {
					hung = hung || time.Since(parkedSince) >= c09Confirm
				} else {
					parkedSig, parkedSince = sig, time.Now()
				}
			} else {
				parkedSig, parkedSince = "", time.Time{}
			}
			if !hung {
				continue
			}
			// the goroutine is abandoned inside the hung call; hand out a snapshot of what completed
			o.mu.Lock()
			snap := &c09Obs{m: map[string]*c09Res{}, order: append([]string{}, o.order...)}
			for k, v := range o.m {
				c := *v
				snap.m[k] = &c
			}
			o.mu.Unlock()
			return snap, o.last.Load().(string)
		}
	}
}

const (
	c09Confirm = 20 * time.Second // a deadlock verdict needs every immudb goroutine parked for this long
	// a call still busy after this much CPU time of the process (or this much wall-clock time) is reported as not terminating
	c09HardCapCPU  = 15 * time.Minute
	c09HardCapWall = 60 * time.Minute
)

// calls that exceeded the stall bound but returned (reported in the evidence, not failures)
var c09SlowCalls int

// c09ImmudbGoroutines looks at the stacks of all goroutines that are inside immudb code: how many of them are NOT
// parked, and the frames of the probe goroutine ("" if it is not inside immudb code).
func c09ImmudbGoroutines() (busy int, probeSig string) {
	buf := make([]byte, 4<<20)
	buf = buf[:runtime.Stack(buf, true)]
	parked := []string{"sync.Mutex.Lock", "sync.RWMutex", "semacquire", "chan receive", "chan send", "select", "sync.Cond.Wait",
		"sync.WaitGroup.Wait", "sleep", "IO wait"}
	for _, g := range strings.Split(string(buf), "\n\n") {
		if !strings.Contains(g, "github.com/codenotary/immudb/") || !strings.HasPrefix(g, "goroutine ") {
			continue
		}
		hdr := g
		if k := strings.Index(g, "\n"); k >= 0 {
			hdr = g[:k]
		}
		state := ""
		if a, b := strings.Index(hdr, "["), strings.LastIndex(hdr, "]"); a >= 0 && b > a {
			state = hdr[a+1 : b]
			if c := strings.Index(state, ","); c >= 0 {
				state = state[:c]
			}
		}
		isParked := false
		for _, p := range parked {
			if strings.HasPrefix(state, p) {
				isParked = true
			}
		}
		if !isParked {
			busy++
		}
		if strings.Contains(g, "main.c09Probe") {
			var fr []string
			for _, l := range strings.Split(g, "\n")[1:] {
				if !strings.HasPrefix(l, "\t") {
					if k := strings.LastIndex(l, "("); k > 0 {
						l = l[:k]
					}
					fr = append(fr, l)
				}
			}
			probeSig = state + "|" + strings.Join(fr, "|")
		}
	}
	return
}

// c09CPU: user+system CPU time consumed by this process so far.
func c09CPU() time.Duration {
	var ru syscall.Rusage
	if err := syscall.Getrusage(syscall.RUSAGE_SELF, &ru); err != nil {
		return 0
	}
	return time.Duration(ru.Utime.Nano() + ru.Stime.Nano())
}

// ---------------------------------------------------------------- copying and patching

func c09CopyDir(src, dst string, skip map[string]bool) error {
	return filepath.Walk(src, func(p string, info os.FileInfo, err error) error {
		if err != nil {
			return err
		}
		rel, _ := filepath.Rel(src, p)
		if rel == "." {
			return os.MkdirAll(dst, 0o755)
		}
		top := strings.Split(rel, string(filepath.Separator))[0]
		if skip[top] {
			if info.IsDir() {
				return filepath.SkipDir
			}
			return nil
		}
		if info.IsDir() {
			return os.MkdirAll(filepath.Join(dst, rel), 0o755)
		}
		b, err := os.ReadFile(p)
		if err != nil {
			return err
		}
		return os.WriteFile(filepath.Join(dst, rel), b, 0o644)
	})
}

type c09Patch struct {
	Log   string `json:"log"` // "tx" | "val_<i>"
	Off   int64  `json:"off"` // logical offset (uncompressed) or chunk*fileSize+pos (compressed vlog)
	Bytes []byte `json:"bytes"`
	Xor   bool   `json:"xor"`
}

type c09Mut struct {
	Kind    string     `json:"kind"`
	Tx      int        `json:"tx"`    // record hit (0 = none / value log)
	Field   string     `json:"field"` // field hit
	Patches []c09Patch `json:"patches"`
	// structure-aware alterations (c09restruct.go): exploration class, what happens behind the record, and the altered
	// content (entries as the altered bytes encode them) for the digest-function tie
	Class string     `json:"class,omitempty"`
	Tail  string     `json:"tail,omitempty"`
	Alt   *c09AltRec `json:"alt,omitempty"`
}

func (s *c09Store) logFor(dir, name string) (*c09Log, error) {
	ext := "val"
	if name == "tx" {
		ext = "tx"
	}
	return c09LoadLog(filepath.Join(dir, name), ext, s.cfg.FileSize)
}

func (s *c09Store) apply(dir string, m c09Mut) error {
	logs := map[string]*c09Log{}
	for _, p := range m.Patches {
		l := logs[p.Log]
		if l == nil {
			var err error
			l, err = s.logFor(dir, p.Log)
			if err != nil {
				return err
			}
			logs[p.Log] = l
		}
		for i := range p.Bytes {
			c, pos := l.where(p.Off + int64(i))
			if p.Log != "tx" && s.cfg.Comp != appendable.NoCompression {
				c, pos = int(p.Off/int64(s.cfg.FileSize)), p.Off%int64(s.cfg.FileSize)+int64(i)
			}
			nb := p.Bytes[i]
			if !p.Xor && p.Log == "tx" && c == len(l.chunks)-1 && pos == l.chunks[c].n && pos < int64(s.cfg.FileSize) {
				l.chunks[c].n++ // a record re-serialised longer than the last committed one extends the log
			}
			if p.Xor {
				if c < 0 || c >= len(l.chunks) || pos >= l.chunks[c].n {
					return fmt.Errorf("xor outside data")
				}
				old := make([]byte, 1)
				f, err := os.Open(l.chunks[c].path)
				if err != nil {
					return err
				}
				_, err = f.ReadAt(old, l.chunks[c].base+pos)
				f.Close()
				if err != nil {
					return err
				}
				nb ^= old[0]
			}
			if err := l.patchAt(c, pos, []byte{nb}); err != nil {
				return err
			}
		}
	}
	return nil
}

// ---------------------------------------------------------------- ground truth

func (s *c09Store) loadPristine(r *hx.Result) error {
	cfg := s.cfg
	// (1) commit log -> record offsets
	cl, err := c09LoadLog(filepath.Join(s.dir, "commit"), "txi", cfg.FileSize)
	if err != nil {
		return err
	}
	cb, err := cl.content()
	if err != nil {
		return err
	}
	if len(cb) != int(s.n)*44 {
		return fmt.Errorf("commit log holds %d bytes for %d txs", len(cb), s.n)
	}
	tl, err := s.logFor(s.dir, "tx")
	if err != nil {
		return err
	}
	tb, err := tl.content()
	if err != nil {
		return err
	}
	s.txLogSz = int64(len(tb))
	s.txLogBytes = tb
	// (2) content through the real API on a copy
	work := hx.TempDir("c09p")
	defer os.RemoveAll(work)
	cp := filepath.Join(work, "st")
	if err := c09CopyDir(s.dir, cp, nil); err != nil {
		return err
	}
	st, err := store.Open(cp, cfg.opts(1))
	if err != nil {
		return err
	}
	tx := store.NewTx(st.MaxTxEntries(), st.MaxKeyLen())
	s.txs = make([]*c09Tx, s.n+1)
	for id := uint64(1); id <= s.n; id++ {
		if err := st.ReadTx(id, false, tx); err != nil {
			st.Close()
			return fmt.Errorf("pristine ReadTx(%d): %w", id, err)
		}
		h := tx.Header()
		if h.Metadata != nil && len(h.Metadata.Bytes()) == 0 {
			h.Metadata = nil
		}
		t := &c09Tx{ID: id}
		t.Off = int64(binary.BigEndian.Uint64(cb[(id-1)*44:]))
		t.Size = int(binary.BigEndian.Uint32(cb[(id-1)*44+8:]))
		for i, e := range tx.Entries() {
			ce := c09Entry{Key: e.Key(), Md: mdBytes(e.Metadata()), VLen: e.VLen(), VOff: e.VOff(), HVal: e.HVal()}
			t.Entries = append(t.Entries, ce)
			if ce.VLen > 0 {
				vr := c09VRange{Tx: int(id), Entry: i, Off: ce.VOff & (1<<56 - 1), Len: ce.VLen}
				if cfg.Embedded {
					vr.Log = "tx"
				} else {
					vr.Log = fmt.Sprintf("val_%d", byte(ce.VOff>>56)-1)
				}
				s.vRanges = append(s.vRanges, vr)
			}
		}
		alh := h.Alh()
		t.Raw, t.Fields = c09Layout(h, t.Entries, alh)
		t.Hdr, t.Alh = c09HdrOf(h), alh
		if !bytes.Equal(c09LayoutRaw(t.Hdr, t.Entries, alh), t.Raw) {
			st.Close()
			return fmt.Errorf("tx %d: raw re-serialisation differs from the field layout (harness defect)", id)
		}
		s.checkCommitted(r, id, tx)
		if int(id) <= len(s.committed) {
			c := s.committed[id-1]
			if c.Ground {
				r.Count("grind.content-chosen")
			}
			if c.Predicted {
				r.Count("grind.alh-predicted")
			} else {
				r.Count("grind.alh-not-predicted")
			}
			if alh[31] == 0 {
				r.Count(fmt.Sprintf("grind.alh-ends-with-00.v%d", h.Version))
			}
		}
		t.Summary = c09Summary(tx, alh)
		if t.Size != len(t.Raw) || t.Off+int64(t.Size) > int64(len(tb)) || !bytes.Equal(tb[t.Off:t.Off+int64(t.Size)], t.Raw) {
			st.Close()
			return fmt.Errorf("tx %d: reconstructed record does not match the tx log at offset %d (size clog=%d mine=%d)", id, t.Off, t.Size, len(t.Raw))
		}
		var calh [32]byte
		copy(calh[:], cb[(id-1)*44+12:])
		if calh != alh {
			st.Close()
			return fmt.Errorf("tx %d: commit-log Alh differs", id)
		}
		s.txs[id] = t
		// tie: serializeTx and parseTx of the model on the pristine record
		r.Corr("c09 ser "+t.Summary, hx.Hex(t.Raw))
		r.Corr(fmt.Sprintf("c09 parse %d %d %s", c09MaxEntries, c09MaxKeyLen, hx.Hex(tb[t.Off:])), "ok "+t.Summary)
		r.Count("pristine.tx.v" + fmt.Sprint(h.Version))
		r.CountN("pristine.entries", len(t.Entries))
		if h.Metadata != nil {
			r.Count("pristine.tx.with-txmd")
		}
		for _, e := range t.Entries {
			if len(e.Md) > 0 {
				r.Count("pristine.entry.with-kvmd")
			}
			if e.VLen == 0 {
				r.Count("pristine.entry.empty-value")
			}
		}
	}
	st.Close()
	r.CountN("pristine.txlog.chunks."+cfg.Name, len(tl.chunks))
	// (3) the ground-truth observation
	for t := uint64(1); t <= s.n; t++ {
		for _, d := range []uint64{0, 1, 3} {
			if t > d {
				s.pairs = append(s.pairs, [2]uint64{t - d, t})
			}
		}
	}
	if len(s.pairs) > 12 {
		s.pairs = s.pairs[len(s.pairs)-12:]
	}
	cp2 := filepath.Join(work, "st2")
	if err := c09CopyDir(s.dir, cp2, nil); err != nil {
		return err
	}
	base, hang := c09ProbeTimed(cp2, cfg, c09Plan{n: s.n, keys: s.keys, pairs: s.pairs, withIndex: true}, 60*time.Second)
	if hang != "" || base == nil {
		return fmt.Errorf("pristine probe hangs at %s", hang)
	}
	for _, k := range base.order {
		res := base.m[k]
		if res.Err != "" || res.Panic != "" {
			return fmt.Errorf("pristine probe: %s -> err=%s panic=%s %s", k, res.Err, res.Panic, res.Msg)
		}
	}
	// content of every key at every tx (for Get answers of a partially rebuilt index)
	s.base = base
	s.checkCommittedValues(r)
	return nil
}

// keyAt returns "value|md|hval" of key at tx (pristine), "" if the tx does not set the key.
func (s *c09Store) keyAt(key []byte, tx uint64) (string, bool) {
	if tx < 1 || tx > s.n {
		return "", false
	}
	t := s.txs[tx]
	for i, e := range t.Entries {
		if bytes.Equal(e.Key, key) {
			v := s.base.m[fmt.Sprintf("ReadValue:%d:%d", tx, i)]
			if v == nil {
				return "", false
			}
			return fmt.Sprintf("%s|%s|%s", v.Val, c09MdStrBytes(e.Md), hx.Hex(e.HVal[:])), true
		}
	}
	return "", false
}

// ---------------------------------------------------------------- oracle

func c09API(key string) string {
	if i := strings.Index(key, ":"); i > 0 {
		key = key[:i]
	}
	return c09SigAPI(key)
}

func (s *c09Store) judge(r *hx.Result, got *c09Obs, hang string, m c09Mut, pv c09Variant) (detected, harmless int) {
	replay := map[string]interface{}{"cfg": s.cfg, "mutation": m, "variant": pv, "seed": r.Seed}
	if hang != "" {
		r.Fail("C09:"+c09API(hang)+":hang", fmt.Sprintf("call %s did not return within the timeout after %s (%s)", hang, m.Kind, pv), replay)
	}
	if got == nil {
		return
	}
	for _, k := range got.order {
		res := got.m[k]
		api := res.API       // counters keep the exact call kind ("ReadValue#2", "ExportTx!skip")
		sapi := c09SigAPI(api) // signatures name the API
		r.OracleChecks++
		switch {
		case res.Panic != "":
			r.Count("outcome." + api + ".panic")
			r.Fail("C09:"+res.Panic+":panic", fmt.Sprintf("%s panicked in %s (%s) after mutation %s field=%s tx=%d (%s)", k, res.Panic, res.Msg, m.Kind, m.Field, m.Tx, pv),
				map[string]interface{}{"cfg": s.cfg, "mutation": m, "variant": pv, "call": k})
			continue
		case res.Alloc > c09HugeAlloc:
			cls := "huge-allocation"
			if res.VLen > c09HugeAlloc {
				cls = "huge-allocation-from-vlen"
			}
			r.Count("outcome." + api + "." + cls)
			r.Fail("C09:"+sapi+":"+cls, fmt.Sprintf("%s allocated %d MiB (believed vLen=%d) after mutation %s field=%s tx=%d (%s); result err=%q", k, res.Alloc>>20, res.VLen, m.Kind, m.Field, m.Tx, pv, res.Err),
				map[string]interface{}{"cfg": s.cfg, "mutation": m, "variant": pv, "call": k})
		}
		if c09Lenient(api) {
			// the caller asked for NO integrity check: whatever is returned is not judged (no panic, no hang, no huge
			// allocation is all that is required of a lenient call); what matters is what the CHECKED calls return afterwards
			if res.Err != "" {
				r.Count("outcome." + api + ".error")
			} else {
				r.Count("outcome." + api + ".ok")
			}
			continue
		}
		if strings.HasPrefix(res.Err, "skipped-") {
			r.Count("outcome." + api + "." + res.Err)
			continue
		}
		if res.Err != "" {
			detected++
			r.Count("outcome." + api + ".error." + res.Err)
			if res.Err == "other" {
				oe, _ := r.Extra["unclassified_errors"].(map[string]int)
				if oe == nil {
					oe = map[string]int{}
					r.Extra["unclassified_errors"] = oe
				}
				if len(oe) < 30 || oe[api+": "+res.Msg] > 0 {
					oe[api+": "+res.Msg]++
				}
			}
			continue
		}
		if res.Self != "" {
			// ReadValue of an entry that a lenient read handed out: the value must carry the digest and length of THAT entry
			if res.Self == "ok" {
				harmless++
				r.Count("outcome." + api + ".self-authentic")
				continue
			}
			cls := "wrong-value-served"
			if res.VLen == 0 {
				cls = "wrong-value-served-vlen0"
			}
			r.Count("outcome." + api + "." + cls)
			r.Fail("C09:"+sapi+":"+cls, fmt.Sprintf("%s returned without error a value that does not have the entry's digest/length after mutation %s field=%s tx=%d (%s): got %.120s", k, m.Kind, m.Field, m.Tx, pv, res.Val),
				map[string]interface{}{"cfg": s.cfg, "mutation": m, "variant": pv, "call": k, "got": res.Val})
			continue
		}
		base := s.base.m[c09BaseKey(k)]
		want := ""
		if base != nil {
			want = base.Val
		}
		if api == "Get" && res.Val != "not-found" && res.Val != want {
			// a partially rebuilt index may legitimately serve an older committed version: compare with the
			// pristine content of that key AT THE TX THE ANSWER NAMES
			parts := strings.SplitN(res.Val, "|", 2)
			var txid uint64
			fmt.Sscanf(parts[0], "%d", &txid)
			keyHex := strings.TrimPrefix(k, "Get:")
			var key []byte
			if keyHex != "-" {
				key, _ = hexDecode(keyHex)
			}
			if w, ok := s.keyAt(key, txid); ok && len(parts) == 2 && parts[1] == w {
				r.Count("outcome.Get.older-genuine-version")
				harmless++
				continue
			}
		}
		if api == "Get" && res.Val == "not-found" && want != "not-found" {
			r.Count("outcome.Get.not-indexed")
			detected++
			continue
		}
		if api == "ReadTxEntry" && res.Val == "not-found" && want != "not-found" {
			// ErrKeyNotFound IS an error; note that it is returned before the record is validated
			r.Count("outcome.ReadTxEntry.error.key-not-found-before-validation")
			detected++
			continue
		}
		if base == nil || res.Val != want {
			what := "content"
			cls := "wrong-content-served"
			if sapi == "ReadValue" || api == "Get" {
				what, cls = "value", "wrong-value-served"
				if res.VLen == 0 {
					cls = "wrong-value-served-vlen0"
				}
			}
			if api == "ExportTx" && s.vlenZeroed(got, k) {
				cls = "wrong-content-served-vlen0"
			}
			if api == "ExportTx" && strings.HasSuffix(res.Val, "000101") && strings.HasSuffix(want, "000100") {
				cls = "unreadable-value-exported-as-truncated"
			}
			r.Count("outcome." + api + "." + cls)
			r.Fail("C09:"+sapi+":"+cls, fmt.Sprintf("%s returned different %s without error after mutation %s field=%s tx=%d (%s): got %.120s want %.120s", k, what, m.Kind, m.Field, m.Tx, pv, res.Val, want),
				map[string]interface{}{"cfg": s.cfg, "mutation": m, "variant": pv, "call": k, "got": res.Val, "want": want})
			continue
		}
		harmless++
		r.Count("outcome." + api + ".pristine-content")
	}
	return
}

// vlenZeroed: does the store believe vLen = 0 for an entry of that tx whose pristine value is not empty?
func (s *c09Store) vlenZeroed(got *c09Obs, call string) bool {
	var id uint64
	if _, err := fmt.Sscanf(call, "ExportTx:%d", &id); err != nil || id < 1 || id > s.n {
		return false
	}
	rt := got.m[fmt.Sprintf("ReadTx:%d", id)]
	if rt == nil || rt.Full == "" {
		return false
	}
	parts := strings.Split(rt.Full, "|")
	if len(parts) != 3 {
		return false
	}
	for i, es := range strings.Split(parts[1], ";") {
		f := strings.Split(es, ",")
		if len(f) == 5 && f[2] == "0" && i < len(s.txs[id].Entries) && s.txs[id].Entries[i].VLen > 0 {
			return true
		}
	}
	return false
}

func hexDecode(s string) ([]byte, error) {
	if s == "-" {
		return nil, nil
	}
	b := make([]byte, len(s)/2)
	_, err := fmt.Sscanf(s, "%x", &b)
	return b, err
}

// ---------------------------------------------------------------- one corruption case

type c09Runner struct {
	r     *hx.Result
	s     *c09Store
	work  string
	cases int
	// variant rotation: every mutation class walks through the cross product sequence x value cache x tx cache on its own
	// counter (the classes are interleaved round-robin, a global counter would alias with that period)
	vStart int
	vCount map[string]int
}

// variantFor: the next variant for the class of this mutation.
func (cr *c09Runner) variantFor(m c09Mut) c09Variant {
	if cr.vCount == nil {
		cr.vCount = map[string]int{}
	}
	cls := m.Kind
	if i := strings.Index(cls, "."); i > 0 {
		cls = cls[:i]
	}
	if strings.HasPrefix(m.Kind, "random.") {
		cls = m.Kind[:strings.LastIndex(m.Kind, ".")] // random.tx / random.val
	}
	if m.Tx == 0 && len(m.Patches) > 0 && m.Patches[0].Log != "tx" {
		cls = "valuelog" // everything that alters a value log
	}
	i := cr.vCount[cls]
	cr.vCount[cls]++
	return c09VariantAt(cr.vStart + i)
}

// Expensive failure classes are confirmed a bounded number of times per run and then no longer re-triggered
// (a hang costs the watchdog delay, a multi-GiB allocation costs seconds of page faults).
var c09Budget struct {
	skipHuge         bool // the huge-allocation finding has been exercised: skip value reads believing > c09GuardVLen
	noExportAfterErr bool // the ExportTx deadlock has been confirmed: no ExportTx after an ExportTx error on the same instance
	hangs            int
	hugeComp         int  // probes of compressed configurations in which a multi-GiB allocation from a length prefix was seen
}

const c09MaxHugeComp = 6

const c09Stall = 10 * time.Second

func (cr *c09Runner) run(m c09Mut, withIndex bool) {
	pv := cr.variantFor(m)
	cr.runV(m, withIndex || pv.seq().getFirst, pv)
}

func (cr *c09Runner) runV(m c09Mut, withIndex bool, pv c09Variant) {
	r, s := cr.r, cr.s
	r.NextCase()
	cr.cases++
	dst := filepath.Join(cr.work, fmt.Sprintf("c%d", cr.cases))
	skip := map[string]bool{}
	rebuild := false
	for _, p := range m.Patches {
		if p.Log == "tx" {
			rebuild = true
		}
	}
	if withIndex && rebuild {
		skip["index"] = true // force the indexer to re-read the (altered) tx log
	}
	if err := c09CopyDir(s.dir, dst, skip); err != nil {
		r.Notes = append(r.Notes, "copy: "+err.Error())
		return
	}
	defer os.RemoveAll(dst)
	if err := s.apply(dst, m); err != nil {
		r.Notes = append(r.Notes, "apply "+m.Kind+": "+err.Error())
		r.Count("mutation.not-applicable")
		return
	}
	r.Count("mutation." + m.Kind)
	if m.Field != "" {
		f := m.Field
		if i := strings.Index(f, "."); i > 0 && f[0] == 'e' {
			f = "entry." + f[i+1:]
		}
		if i := strings.Index(f, "+"); i > 0 {
			f = f[:i]
		}
		if strings.HasPrefix(f, "tx") && strings.Contains(f, ".value") {
			f = "value-bytes"
		}
		if strings.Contains(f, ".clen") {
			f = "value-clen"
		}
		r.Count("field." + f)
	}
	plan := c09Plan{n: s.n, keys: s.keys, pairs: s.pairs, withIndex: withIndex, skipHuge: c09Budget.skipHuge, noExportAfterErr: c09Budget.noExportAfterErr, pv: pv}
	if s.cfg.Comp != appendable.NoCompression && c09Budget.hugeComp >= c09MaxHugeComp {
		plan.skipGrown, plan.pristVLen, plan.pristVOff = true, map[uint64][]int{}, map[uint64][]int64{}
		for id := uint64(1); id <= s.n; id++ {
			for _, e := range s.txs[id].Entries {
				plan.pristVLen[id] = append(plan.pristVLen[id], e.VLen)
				plan.pristVOff[id] = append(plan.pristVOff[id], e.VOff)
			}
		}
		r.Count("variant.skip-relocated-values-on-compressed-logs")
	}
	q := pv.seq()
	r.Count(fmt.Sprintf("variant.vcache.%d", pv.VCache))
	r.Count(fmt.Sprintf("variant.txcache.%d", pv.TxCache))
	for _, tok := range strings.Split(pv.Seq, "+") {
		if tok == "" {
			tok = "checked-only"
		}
		r.Count("variant.seq." + tok)
	}
	if pv.VCache > 0 && q.export && q.when != "" {
		r.Count("variant.lenient-export-then-checked-with-vcache")
	}
	tProbe := time.Now()
	got, hang := c09ProbeTimed(dst, s.cfg, plan, c09Stall)
	if pm, _ := r.Extra["probe_ms_by_seq"].(map[string][2]float64); true {
		if pm == nil {
			pm = map[string][2]float64{}
			r.Extra["probe_ms_by_seq"] = pm
		}
		k := fmt.Sprintf("%s/index=%v", strings.TrimPrefix(pv.String(), fmt.Sprintf("vcache=%d,txcache=%d,", pv.VCache, pv.TxCache)), withIndex)
		v := pm[k]
		pm[k] = [2]float64{v[0] + 1, v[1] + float64(time.Since(tProbe).Milliseconds())}
	}
	if hang != "" {
		c09Budget.hangs++
		if c09API(hang) == "ExportTx" {
			c09Budget.noExportAfterErr = true
		}
	}
	if strings.HasPrefix(m.Kind, "f6.vlen-huge") {
		c09Budget.skipHuge = true
	}
	det, harm := s.judge(r, got, hang, m, pv)
	if got != nil && s.cfg.Comp != appendable.NoCompression {
		for _, k := range got.order {
			if res := got.m[k]; res.Alloc > c09HugeAlloc && res.VLen <= c09GuardVLen {
				c09Budget.hugeComp++
				break
			}
		}
	}
	nontrivial := det > 0
	r.Eval(fmt.Sprintf("%s/%s/%v/%s", s.cfg.Name, m.Kind, m.Patches, pv), nontrivial)
	if got != nil && (cr.cases%97 == 5 || strings.HasPrefix(m.Kind, "f6.")) {
		calls := map[string]int{}
		for _, k := range got.order {
			res := got.m[k]
			switch {
			case res.Panic != "":
				calls["panic"]++
			case res.Err != "":
				calls["error"]++
			default:
				calls["ok"]++
			}
		}
		r.Sample(map[string]interface{}{"kind": "case", "cfg": s.cfg.Name, "mutation": m.Kind, "field": m.Field, "tx": m.Tx, "variant": pv.String(), "calls": calls, "hang": hang})
	}
	if det == 0 {
		r.Count("case.no-call-noticed")
	} else {
		r.Count("case.detected-by-some-call")
	}
	_ = harm
	if m.Kind == "control.none" && (det > 0 || hang != "") {
		sig := "C09:store:unaltered-copy-differs"
		if pv == (c09Variant{}) {
			sig = "C09:harness:control-copy-differs"
		}
		r.Fail(sig, "an UNALTERED copy read with "+pv.String()+" did not reproduce the ground truth of the plain checked probe (a read answered differently because of the cache configuration / read sequence, or a harness defect)",
			map[string]interface{}{"cfg": s.cfg, "mutation": m, "variant": pv})
	}
	if got == nil {
		return
	}
	// ---- tie to the Lean model
	if m.Tx > 0 {
		cr.corrParse(dst, got, uint64(m.Tx))
	}
	if m.Alt != nil {
		cr.corrDigest(m.Alt)
	}
	if s.cfg.Comp == appendable.NoCompression {
		cr.corrValues(dst, got, m, pv)
	}
}

func (cr *c09Runner) corrParse(dir string, got *c09Obs, id uint64) {
	s := cr.s
	res := got.m[fmt.Sprintf("ReadTx:%d", id)]
	if res == nil {
		return
	}
	tl, err := s.logFor(dir, "tx")
	if err != nil {
		return
	}
	tb, err := tl.content()
	if err != nil {
		return
	}
	impl := ""
	switch {
	case res.Panic != "":
		impl = "panic"
	case res.Err != "":
		impl = "err:" + res.Err
	default:
		impl = "ok " + res.Full
	}
	cr.r.Corr(fmt.Sprintf("c09 parse %d %d %s", c09MaxEntries, c09MaxKeyLen, hx.Hex(tb[s.txs[id].Off:])), impl)
	cr.r.Count("tie.parse." + strings.SplitN(impl, " ", 2)[0])
	// sequential scans: the step at the altered tx and at its neighbour (PrevAlh / Alh chaining)
	alhOf := func(cov string) string { // covered summary: header|entries|alh
		p := strings.Split(cov, "|")
		return p[len(p)-1]
	}
	prevOf := func(cov string) string {
		h := strings.Split(strings.Split(cov, "|")[0], ":")
		if len(h) < 5 {
			return ""
		}
		return h[4]
	}
	for _, desc := range []bool{false, true} {
		name, dir := "TxReaderAsc", "asc"
		if desc {
			name, dir = "TxReaderDesc", "desc"
		}
		for _, x := range []uint64{id, id + 1, id - 1} {
			if x < 1 || x > s.n {
				continue
			}
			cur := got.m[fmt.Sprintf("%s:%d", name, x)]
			if cur == nil {
				continue
			}
			before := x - 1
			if desc {
				before = x + 1
			}
			curTok := "none"
			if pb := got.m[fmt.Sprintf("%s:%d", name, before)]; pb != nil && before >= 1 && before <= s.n {
				if pb.Val == "" {
					continue // the scan stopped before this step
				}
				if desc {
					curTok = prevOf(pb.Val)
				} else {
					curTok = alhOf(pb.Val)
				}
			}
			impl := ""
			switch {
			case cur.Panic != "":
				impl = "panic"
			case cur.Err != "":
				impl = "err:" + cur.Err
			case desc:
				impl = "ok " + prevOf(cur.Val)
			default:
				impl = "ok " + alhOf(cur.Val)
			}
			cr.r.Corr(fmt.Sprintf("c09 step %s %d %d %s %s", dir, c09MaxEntries, c09MaxKeyLen, curTok, hx.Hex(tb[s.txs[x].Off:])), impl)
			cr.r.Count("tie.step." + dir + "." + strings.SplitN(impl, " ", 2)[0])
		}
	}
}

// c09Slice: the bytes a value read of (vOff, vLen) finds on the logical logs (false = the read fails before anything is cached).
func c09Slice(cfg c09Cfg, logs [][]byte, txLog []byte, vOff uint64, vLen int) ([]byte, bool) {
	id := int(vOff >> 56)
	var log []byte
	switch {
	case cfg.Embedded && id == 0:
		log = txLog
	case !cfg.Embedded && id >= 1 && id <= len(logs):
		log = logs[id-1]
	default:
		return nil, false
	}
	if vOff>>63&1 == 1 || vLen <= 0 {
		return nil, false
	}
	off := vOff & (1<<55 - 1)
	if off+uint64(vLen) > uint64(len(log)) {
		return nil, false
	}
	return log[off : off+uint64(vLen)], true
}

func (cr *c09Runner) corrValues(dir string, got *c09Obs, m c09Mut, pv c09Variant) {
	s := cr.s
	// only the transactions whose record or values were hit
	hit := map[int]bool{}
	if m.Tx > 0 {
		hit[m.Tx] = true
	}
	for _, p := range m.Patches {
		for _, vr := range s.vRanges {
			if vr.Log == p.Log && p.Off+int64(len(p.Bytes)) > vr.Off-8 && p.Off < vr.Off+int64(vr.Len)+8 {
				hit[vr.Tx] = true
			}
		}
	}
	if len(hit) == 0 {
		return
	}
	var logs [][]byte
	var txLog []byte
	if s.cfg.Embedded {
		tl, err := s.logFor(dir, "tx")
		if err != nil {
			return
		}
		txLog, _ = tl.content()
	} else {
		for i := 0; i < s.cfg.MaxIO; i++ {
			l, err := s.logFor(dir, fmt.Sprintf("val_%d", i))
			if err != nil {
				return
			}
			b, err := l.content()
			if err != nil {
				return
			}
			logs = append(logs, b)
		}
	}
	emb := "0"
	if s.cfg.Embedded {
		emb = "1"
	}
	// Value cache on: the cache is keyed by vOff alone and keeps the bytes of the FIRST read of that offset. It is
	// transparent (Lean: cached_read_transparent) unless two entries read in this case (by a checked or a lenient call)
	// name the same offset with different lengths; those entries are left to the oracle.
	offLens := map[string]map[string]bool{}
	if pv.VCache > 0 {
		for _, k := range got.order {
			res := got.m[k]
			if !strings.HasPrefix(res.API, "ReadTx") || res.Full == "" {
				continue
			}
			parts := strings.Split(res.Full, "|")
			if len(parts) != 3 || parts[1] == "_" {
				continue
			}
			for _, es := range strings.Split(parts[1], ";") {
				if f := strings.Split(es, ","); len(f) == 5 && f[2] != "0" {
					if offLens[f[3]] == nil {
						offLens[f[3]] = map[string]bool{}
					}
					offLens[f[3]][f[2]] = true
				}
			}
		}
	}
	for id := range hit {
		rt := got.m[fmt.Sprintf("ReadTx:%d", id)]
		if rt == nil || rt.Full == "" {
			continue
		}
		// entries as the (altered) store read them
		parts := strings.Split(rt.Full, "|")
		if len(parts) != 3 || parts[1] == "_" {
			continue
		}
		for i, es := range strings.Split(parts[1], ";") {
			f := strings.Split(es, ",")
			rv := got.m[fmt.Sprintf("ReadValue:%d:%d", id, i)]
			if rv == nil || len(f) != 5 || rv.Err == "skipped-huge-vlen" {
				continue
			}
			if len(offLens[f[3]]) > 1 {
				cr.r.Count("tie.rv.skipped-offset-cached-with-another-length")
				continue
			}
			implOf := func(rv *c09Res) string {
				switch {
				case rv.Panic != "":
					return "panic"
				case rv.Err == "data":
					return "err:data"
				case rv.Err == "unexpected":
					return "err:unexpected"
				case rv.Err != "":
					return "err:io"
				}
				return "ok " + rv.Val
			}
			impl := implOf(rv)
			cr.r.Corr(fmt.Sprintf("c09 rv %s %d %d %s %s %s %s %s", emb, s.cfg.MaxIO, c09MaxValLen, f[2], f[3], f[4], hx.Csv(logs), hx.Hex(txLog)), impl)
			cr.r.Count("tie.rv." + strings.SplitN(impl, " ", 2)[0])
			// the repeated read of a sandwich sequence goes through the model WITH the cache state the first read left
			// (readValueC): "off" = no cache, "none" = nothing cached for this offset, else the cached bytes
			if rv2 := got.m[fmt.Sprintf("ReadValue#2:%d:%d", id, i)]; rv2 != nil && rv2.Err != "skipped-huge-vlen" {
				if rt2 := got.m[fmt.Sprintf("ReadTx#2:%d", id)]; rt2 == nil || rt2.Full != rt.Full {
					continue
				}
				cached := "off"
				if pv.VCache > 0 {
					cached = "none"
					var vOff uint64
					var vLen int
					fmt.Sscanf(f[3], "%d", &vOff)
					fmt.Sscanf(f[2], "%d", &vLen)
					if b, ok := c09Slice(s.cfg, logs, txLog, vOff, vLen); ok && vLen <= c09MaxValLen {
						cached = hx.Hex(b)
					}
				}
				impl2 := implOf(rv2)
				cr.r.Corr(fmt.Sprintf("c09 rvc %s %d %d %s %s %s %s %s %s", emb, s.cfg.MaxIO, c09MaxValLen, f[2], f[3], f[4], hx.Csv(logs), hx.Hex(txLog), cached), impl2)
				cr.r.Count("tie.rvc." + strings.SplitN(impl2, " ", 2)[0])
				if cached != "off" && cached != "none" {
					cr.r.Count("tie.rvc.through-cached-bytes")
				}
			}
		}
	}
}

// ---------------------------------------------------------------- mutation streams

func be(n int, v uint64) []byte {
	b := make([]byte, 8)
	binary.BigEndian.PutUint64(b, v)
	return b[8-n:]
}

func beVal(b []byte) uint64 {
	var v uint64
	for _, x := range b {
		v = v<<8 | uint64(x)
	}
	return v
}

// systematic mutations of one record
func (s *c09Store) recordMutations(t *c09Tx, rng *hx.Rng, full bool) []c09Mut {
	var out []c09Mut
	seen := map[string]bool{}
	add := func(kind, field string, off int, bs []byte, xor bool) {
		if off < 0 || off+len(bs) > t.Size {
			return
		}
		k := fmt.Sprintf("%d/%x/%v", off, bs, xor)
		if seen[k] {
			return
		}
		if !xor && bytes.Equal(t.Raw[off:off+len(bs)], bs) {
			return
		}
		seen[k] = true
		out = append(out, c09Mut{Kind: kind, Tx: int(t.ID), Field: field,
			Patches: []c09Patch{{Log: "tx", Off: t.Off + int64(off), Bytes: bs, Xor: xor}}})
	}
	for _, f := range t.Fields {
		if f.Name == "alh" {
			// the trailing Alh itself: flips are detected; a CONSISTENT rewrite is K2 (separate probe)
			add("alh.flip", f.Name, f.Off+rng.Intn(32), []byte{1 << uint(rng.Intn(8))}, true)
			continue
		}
		// boundaries ±1: low bit and high bit
		for _, d := range []int{-1, 0, 1} {
			add("boundary.lowbit", f.Name, f.Off+d, []byte{0x01}, true)
			if full {
				add("boundary.highbit", f.Name, f.Off+d, []byte{0x80}, true)
			}
		}
		add("boundary.lowbit", f.Name, f.Off+f.Len-1, []byte{0x01}, true)
		if f.Num {
			cur := beVal(t.Raw[f.Off : f.Off+f.Len])
			max := uint64(1)<<(8*uint(f.Len)) - 1
			if f.Len == 8 {
				max = ^uint64(0)
			}
			for _, v := range []uint64{0, 1, max, cur + 1, cur - 1} {
				add("num.set", f.Name, f.Off, be(f.Len, v&max), false)
			}
			if strings.HasSuffix(f.Name, "vOff") {
				off := cur & (1<<56 - 1)
				for _, id := range []uint64{0, 1, 2, uint64(s.cfg.MaxIO), uint64(s.cfg.MaxIO) + 1, 127, 128, 255} {
					add("voff.vlogid", f.Name, f.Off, be(8, id<<56|off), false)
				}
				add("voff.bit55", f.Name, f.Off, be(8, cur|1<<55), false)
				add("voff.off+1", f.Name, f.Off, be(8, cur+1), false)
				add("voff.far", f.Name, f.Off, be(8, cur&^(1<<56-1)|1<<40), false)
				// vOff is not covered by the Alh: point it at ANOTHER committed value of the same length (one read before
				// this entry, one read after it), only the digest comparison can tell
				if me := t.Entries[f.Entry]; me.VLen > 0 {
					var before, after *c09Entry
					for id := uint64(1); id <= s.n; id++ {
						for j := range s.txs[id].Entries {
							o := &s.txs[id].Entries[j]
							if o.VLen != me.VLen || o.HVal == me.HVal || o.VOff == me.VOff {
								continue
							}
							if id < t.ID || (id == t.ID && j < f.Entry) {
								before = o
							} else if after == nil {
								after = o
							}
						}
					}
					for _, o := range []*c09Entry{before, after} {
						if o != nil {
							add("voff.alias", f.Name, f.Off, be(8, uint64(o.VOff)), false)
						}
					}
				}
			}
			if strings.HasSuffix(f.Name, "vLen") {
				add("vlen.set", f.Name, f.Off, be(4, 1<<24), false)
				add("vlen.set", f.Name, f.Off, be(4, cur*2+1), false)
			}
		} else {
			// digests / byte strings: a random bit, all zero
			add("bytes.flip", f.Name, f.Off+rng.Intn(f.Len), []byte{1 << uint(rng.Intn(8))}, true)
			if full {
				add("bytes.zero", f.Name, f.Off, make([]byte, f.Len), false)
			}
		}
	}
	return out
}

// non-canonical / overrunning metadata written over the metadata bytes of a record
func (s *c09Store) metadataMutations(t *c09Tx) []c09Mut {
	var out []c09Mut
	for _, f := range t.Fields {
		if f.Name == "txmd" {
			// extra attribute declaring more bytes than present
			if f.Len >= 3 {
				bs := append([]byte{}, t.Raw[f.Off:f.Off+f.Len]...)
				// find the extra attribute (code 1) at the start or after a truncated attribute (9 bytes)
				pos := 0
				if bs[0] == 0 && f.Len >= 12 {
					pos = 9
				}
				if bs[pos] == 1 {
					binary.BigEndian.PutUint16(bs[pos+1:], uint16(f.Len)) // > available
					out = append(out, c09Mut{Kind: "txmd.extra-overrun", Tx: int(t.ID), Field: f.Name,
						Patches: []c09Patch{{Log: "tx", Off: t.Off + int64(f.Off), Bytes: bs}}})
					bs2 := append([]byte{}, bs...)
					binary.BigEndian.PutUint16(bs2[pos+1:], 0xffff)
					out = append(out, c09Mut{Kind: "txmd.extra-overrun", Tx: int(t.ID), Field: f.Name,
						Patches: []c09Patch{{Log: "tx", Off: t.Off + int64(f.Off), Bytes: bs2}}})
				}
			}
			if f.Len >= 268 {
				// a decodable extra attribute LONGER than maxExtraLen: {extra(5 bytes)} then {extra(257 bytes)} (the later wins)
				bs := append([]byte{1, 0, 5, 'a', 'b', 'c', 'd', 'e', 1, 0x01, 0x01}, bytes.Repeat([]byte{0x5a}, 257)...)
				out = append(out, c09Mut{Kind: "txmd.extra-too-long", Tx: int(t.ID), Field: f.Name,
					Patches: []c09Patch{{Log: "tx", Off: t.Off + int64(f.Off), Bytes: bs}}})
			}
			out = append(out, c09Mut{Kind: "txmd.unknown-attr", Tx: int(t.ID), Field: f.Name,
				Patches: []c09Patch{{Log: "tx", Off: t.Off + int64(f.Off), Bytes: []byte{7}}}})
		}
		if strings.HasSuffix(f.Name, "kvmd") {
			out = append(out, c09Mut{Kind: "kvmd.unknown-attr", Tx: int(t.ID), Field: f.Name,
				Patches: []c09Patch{{Log: "tx", Off: t.Off + int64(f.Off), Bytes: []byte{9}}}})
			if f.Len >= 2 {
				// duplicate attribute codes: parsed metadata differs from the raw bytes
				bs := bytes.Repeat([]byte{t.Raw[f.Off]}, f.Len)
				if t.Raw[f.Off] != 1 {
					out = append(out, c09Mut{Kind: "kvmd.noncanonical", Tx: int(t.ID), Field: f.Name,
						Patches: []c09Patch{{Log: "tx", Off: t.Off + int64(f.Off), Bytes: bs}}})
				}
			}
		}
	}
	return out
}

// value-range mutations (value logs, or the value prefix inside the tx log when embedded)
func (s *c09Store) valueMutations(rng *hx.Rng, full bool) []c09Mut {
	var out []c09Mut
	hugeClenDone := false
	for _, vr := range s.vRanges {
		offs := []int64{0, int64(vr.Len) - 1, int64(rng.Intn(vr.Len))}
		if full {
			offs = append(offs, int64(vr.Len)/2)
		}
		comp := s.cfg.Comp != appendable.NoCompression
		span := int64(vr.Len)
		if comp {
			// [clen u32][compressed bytes]: hit the length prefix and the compressed payload
			offs = []int64{0, 1, 3, 4, 5 + int64(rng.Intn(8))}
			span = 12
		}
		_ = span
		seen := map[int64]bool{}
		for _, o := range offs {
			if seen[o] {
				continue
			}
			seen[o] = true
			out = append(out, c09Mut{Kind: "value.flip", Tx: 0, Field: fmt.Sprintf("tx%d.e%d.value+%d", vr.Tx, vr.Entry, o),
				Patches: []c09Patch{{Log: vr.Log, Off: vr.Off + o, Bytes: []byte{1 << uint(rng.Intn(8))}, Xor: true}}})
		}
		if comp {
			vals := []uint32{0, 1, 1 << 20}
			if !hugeClenDone {
				hugeClenDone = true
				vals = append(vals, 1<<28+3) // one >128 MiB probe per configuration (singleapp.ReadAt allocates clen bytes)
			}
			for _, v := range vals {
				out = append(out, c09Mut{Kind: "value.clen.set", Tx: 0, Field: fmt.Sprintf("tx%d.e%d.clen=%d", vr.Tx, vr.Entry, v),
					Patches: []c09Patch{{Log: vr.Log, Off: vr.Off, Bytes: be(4, uint64(v))}}})
			}
		}
	}
	return out
}

// seeded random bit flips over the data bytes of a log (bitflip.py pattern: toggle one bit at a bit offset)
func (s *c09Store) randomFlips(rng *hx.Rng, logName string, bits int) (c09Mut, bool) {
	l, err := s.logFor(s.dir, logName)
	if err != nil || len(l.chunks) == 0 {
		return c09Mut{}, false
	}
	m := c09Mut{Kind: fmt.Sprintf("random.%s.%dbit", strings.TrimRight(logName, "_0123456789"), bits)}
	if bits > 1 {
		m.Kind = fmt.Sprintf("random.%s.multibit", strings.TrimRight(logName, "_0123456789"))
	}
	// multi-bit flips cluster inside a window (same record) half of the time
	var anchor int64 = -1
	for b := 0; b < bits; b++ {
		c := rng.Intn(len(l.chunks))
		if l.chunks[c].n == 0 {
			continue
		}
		lim := int(l.chunks[c].n)
		if lim > s.cfg.FileSize {
			lim = s.cfg.FileSize // a compressed blob may overhang the nominal chunk size; stay addressable
		}
		pos := int64(rng.Intn(lim))
		off := int64(c)*int64(s.cfg.FileSize) + pos
		if anchor >= 0 && rng.Bool() && logName == "tx" {
			off = anchor + int64(rng.Intn(64))
			if off >= s.txLogSz {
				off = anchor
			}
		}
		if anchor < 0 {
			anchor = off
		}
		m.Patches = append(m.Patches, c09Patch{Log: logName, Off: off, Bytes: []byte{1 << uint(rng.Intn(8))}, Xor: true})
	}
	if logName == "tx" && len(m.Patches) > 0 {
		// the record containing the first flip (for the model tie)
		for id := uint64(1); id <= s.n; id++ {
			t := s.txs[id]
			if m.Patches[0].Off >= t.Off && m.Patches[0].Off < t.Off+int64(t.Size) {
				m.Tx = int(id)
				for _, f := range t.Fields {
					if int64(f.Off) <= m.Patches[0].Off-t.Off && m.Patches[0].Off-t.Off < int64(f.Off+f.Len) {
						m.Field = f.Name
					}
				}
			}
		}
	}
	return m, len(m.Patches) > 0
}

// K2: alter a key byte AND rewrite Eh/Alh consistently. Single-record reads accept it.
func (s *c09Store) consistentRewrite(t *c09Tx, hdr *store.TxHeader) (c09Mut, bool) {
	if len(t.Entries) == 0 {
		return c09Mut{}, false
	}
	es := append([]c09Entry{}, t.Entries...)
	k := append([]byte{}, es[0].Key...)
	k[len(k)-1] ^= 0x01
	es[0].Key = k
	ents := make([]*store.TxEntry, len(es))
	for i, e := range es {
		var md *store.KVMetadata
		if len(e.Md) > 0 {
			md = s.kvmdOf(t, i)
		}
		ents[i] = store.NewTxEntry(e.Key, md, e.VLen, e.HVal, e.VOff)
	}
	h := *hdr
	ntx := store.NewTxWithEntries(&h, ents)
	if err := ntx.BuildHashTree(); err != nil {
		return c09Mut{}, false
	}
	nh := ntx.Header()
	if nh.Metadata != nil && len(nh.Metadata.Bytes()) == 0 {
		nh.Metadata = nil
	}
	raw, _ := c09Layout(nh, es, nh.Alh())
	if len(raw) != t.Size {
		return c09Mut{}, false
	}
	return c09Mut{Kind: "k2.consistent-rewrite", Tx: int(t.ID), Field: "e0.key+alh",
		Patches: []c09Patch{{Log: "tx", Off: t.Off, Bytes: raw}}}, true
}

// kvmdOf re-reads the pristine metadata object of an entry (needed to rebuild digests for K2).
func (s *c09Store) kvmdOf(t *c09Tx, i int) *store.KVMetadata {
	md := store.NewKVMetadata()
	b := t.Entries[i].Md
	for j := 0; j < len(b); {
		switch b[j] {
		case 0:
			md.AsDeleted(true)
			j++
		case 1:
			md.ExpiresAt(time.Unix(int64(binary.BigEndian.Uint64(b[j+1:])), 0))
			j += 9
		case 2:
			md.AsNonIndexable(true)
			j++
		default:
			return md
		}
	}
	return md
}

// ---------------------------------------------------------------- driver of one configuration

func c09RunCfg(r *hx.Result, rng *hx.Rng, cfg c09Cfg, thorough bool, budget time.Duration) error {
	start := time.Now()
	work := hx.TempDir("c09")
	defer os.RemoveAll(work)
	s := &c09Store{cfg: cfg, dir: filepath.Join(work, "pristine")}
	n, keys, committed, err := c09Build(rng.Fork(), cfg, s.dir)
	if err != nil {
		return fmt.Errorf("%s: build: %w", cfg.Name, err)
	}
	s.n, s.keys, s.committed = n, keys, committed
	tBuild := time.Since(start)
	r.NextCase()
	if err := s.loadPristine(r); err != nil {
		return fmt.Errorf("%s: %w", cfg.Name, err)
	}
	if err := r.Flush(); err != nil {
		return err
	}
	tPristine := time.Since(start) - tBuild
	defer func() {
		tm, _ := r.Extra["timing_s"].(map[string]float64)
		if tm == nil {
			tm = map[string]float64{}
			r.Extra["timing_s"] = tm
		}
		tm[cfg.Name+".build"] = tBuild.Seconds()
		tm[cfg.Name+".pristine"] = tPristine.Seconds()
	}()
	r.Sample(map[string]interface{}{"kind": "store", "cfg": cfg, "txs": n, "txlog_bytes": s.txLogSz, "value_ranges": len(s.vRanges),
		"calls_per_probe": len(s.base.order)})
	cr := &c09Runner{r: r, s: s, work: work, vStart: rng.Intn(88)}

	// (0) control: an unaltered copy must reproduce the ground truth exactly, under every read sequence and with the
	// caches off / tiny / large (the answers of the checked APIs must not depend on any of this)
	cr.runV(c09Mut{Kind: "control.none"}, true, c09Variant{})
	for i := range c09Seqs {
		cr.runV(c09Mut{Kind: "control.none"}, true, c09VariantAt(cr.vStart+1+i))
	}

	// (1) targeted probes for the suspected defects (F6) and the documented limit (K2); not charged to the budget
	t0 := time.Now()
	cr.targeted(rng.Fork())
	defer func(d time.Duration) {
		if tm, ok := r.Extra["timing_s"].(map[string]float64); ok {
			tm[cfg.Name+".targeted"] = d.Seconds()
		}
	}(time.Since(t0))
	// (1b) structure-aware alterations: records re-serialised with one grammar element inserted / removed / replaced,
	// all length fields consistent, no hash recomputed (c09restruct.go); every class once, then within a budget of its own
	t1 := time.Now()
	cr.restructPhase(rng.Fork(), budget/5)
	if err := r.Flush(); err != nil {
		return err
	}
	defer func(d time.Duration) {
		if tm, ok := r.Extra["timing_s"].(map[string]float64); ok {
			tm[cfg.Name+".restruct"] = d.Seconds()
		}
	}(time.Since(t1))
	start = time.Now()

	// (2) systematic stream, round-robin over the records so that a budget cut keeps all records covered
	var all [][]c09Mut
	for id := uint64(1); id <= n; id++ {
		ms := s.recordMutations(s.txs[id], rng.Fork(), thorough)
		ms = append(ms, s.metadataMutations(s.txs[id])...)
		all = append(all, ms)
	}
	vms := s.valueMutations(rng.Fork(), thorough)
	all = append(all, vms)
	idx := 0
	left := true
	sysBudget := budget * 7 / 10
	for left && time.Since(start) < sysBudget {
		left = false
		for _, ms := range all {
			// quick tier: stride through the list so that all field kinds are visited early
			if idx < len(ms) {
				left = true
				k := (idx * 37) % len(ms)
				if gcd(37, len(ms)) != 1 {
					k = idx
				}
				cr.run(ms[k], cr.cases%4 == 0)
			}
			if time.Since(start) >= sysBudget {
				break
			}
		}
		idx++
		if cr.cases%50 == 0 {
			if err := r.Flush(); err != nil {
				return err
			}
		}
	}
	total := 0
	for _, ms := range all {
		total += len(ms)
	}
	r.CountN("systematic.planned."+cfg.Name, total)
	if left {
		r.Count("systematic.cut-by-budget." + cfg.Name)
	}
	// (3) seeded random single- and multi-bit flips
	logs := []string{"tx"}
	if !cfg.Embedded {
		for i := 0; i < cfg.MaxIO; i++ {
			logs = append(logs, fmt.Sprintf("val_%d", i))
		}
	}
	for time.Since(start) < budget {
		ln := logs[rng.Intn(len(logs))]
		if rng.Chance(50) {
			ln = "tx"
		}
		bits := 1
		if rng.Chance(40) {
			bits = 2 + rng.Intn(7)
		}
		if m, ok := s.randomFlips(rng, ln, bits); ok {
			cr.run(m, cr.cases%4 == 0)
		}
		if cr.cases%50 == 0 {
			if err := r.Flush(); err != nil {
				return err
			}
		}
	}
	r.CountN("cases."+cfg.Name, cr.cases)
	return r.Flush()
}

func gcd(a, b int) int {
	for b != 0 {
		a, b = b, a%b
	}
	return a
}

// targeted probes: crafted values of the uncovered fields vOff / vLen, and the K2 consistent rewrite
func (cr *c09Runner) targeted(rng *hx.Rng) {
	s := cr.s
	// an entry with a non-empty value that is the LATEST indexable version of its key (so that Get serves it),
	// in a transaction with at least two non-empty values if possible
	later := map[string]bool{}
	best, bestI, bestScore := uint64(0), 0, -1
	for id := s.n; id >= 1; id-- {
		t := s.txs[id]
		nonEmpty := 0
		for _, e := range t.Entries {
			if e.VLen > 0 {
				nonEmpty++
			}
		}
		for i, e := range t.Entries {
			if e.VLen > 0 && len(e.Md) == 0 && !later[string(e.Key)] {
				score := 0
				if nonEmpty >= 2 && i == 0 {
					score = 1
				}
				if score > bestScore {
					best, bestI, bestScore = id, i, score
				}
			}
		}
		for _, e := range t.Entries {
			later[string(e.Key)] = true
		}
	}
	for id := best; id >= 1 && id <= best; id++ {
		t := s.txs[id]
		for i, e := range t.Entries {
			if i != bestI {
				continue
			}
			var fOff, fLen c09Field
			for _, f := range t.Fields {
				if f.Name == fmt.Sprintf("e%d.vOff", i) {
					fOff = f
				}
				if f.Name == fmt.Sprintf("e%d.vLen", i) {
					fLen = f
				}
			}
			off := uint64(e.VOff) & (1<<56 - 1)
			// F6a: vlog id outside 1..MaxIOConcurrency
			for _, vid := range []uint64{uint64(s.cfg.MaxIO) + 1, 200} {
				cr.runV(c09Mut{Kind: "f6.voff-vlogid-out-of-range", Tx: int(id), Field: fOff.Name,
					Patches: []c09Patch{{Log: "tx", Off: t.Off + int64(fOff.Off), Bytes: be(8, vid<<56|off)}}}, false, c09Variant{})
			}
			// F6b: vLen up to 4 GiB
			// F6b: the allocation follows the stored vLen (up to 4 GiB); 256 MiB is enough to show it, once per run
			if !c09Budget.skipHuge {
				cr.runV(c09Mut{Kind: "f6.vlen-huge", Tx: int(id), Field: fLen.Name,
					Patches: []c09Patch{{Log: "tx", Off: t.Off + int64(fLen.Off), Bytes: be(4, 1<<28+5)}}}, true, c09Variant{})
			}
			// vLen := 0 (value served as empty without any check)
			cr.runV(c09Mut{Kind: "vlen.zero", Tx: int(id), Field: fLen.Name,
				Patches: []c09Patch{{Log: "tx", Off: t.Off + int64(fLen.Off), Bytes: be(4, 0)}}}, true, c09Variant{})
			// lenient-then-checked: one bit of THIS value (the latest version of its key, so Get serves it) flipped on disk,
			// read through the sequences that put a lenient access / another checked API before the checked value reads,
			// value cache large and small
			for _, vr := range s.vRanges {
				if vr.Tx != int(id) || vr.Entry != i || s.cfg.Comp != appendable.NoCompression {
					continue
				}
				pos := int64(rng.Intn(vr.Len))
				for k, seq := range []string{"bulk-export", "pertx-all", "sandwich-export", "get-first+bulk-export", "export-first", "checked-only"} {
					pv := c09Variant{VCache: []int{64, 8}[k%2], TxCache: k % 2, Seq: seq}
					cr.runV(c09Mut{Kind: "value.flip", Field: fmt.Sprintf("tx%d.e%d.value+%d", vr.Tx, vr.Entry, pos),
						Patches: []c09Patch{{Log: vr.Log, Off: vr.Off + pos, Bytes: []byte{1 << uint(rng.Intn(8))}, Xor: true}}}, true, pv)
				}
			}
			// vOff aliasing (uncovered field pointed at another committed value of the same length), cache on: first two available
			nAlias := 0
			for aid := uint64(1); aid <= s.n && nAlias < 2; aid++ {
				for _, am := range s.recordMutations(s.txs[aid], rng.Fork(), false) {
					if am.Kind == "voff.alias" && nAlias < 2 {
						cr.runV(am, true, c09Variant{VCache: 64, TxCache: nAlias, Seq: []string{"checked-only", "bulk-export"}[nAlias]})
						nAlias++
					}
				}
			}
			goto k2
		}
	}
k2:
	// tx-metadata parser / serialiser panics (first transaction carrying each kind)
	seenKind := map[string]bool{}
	for id := uint64(1); id <= s.n; id++ {
		for _, m := range s.metadataMutations(s.txs[id]) {
			if (m.Kind == "txmd.extra-too-long" || m.Kind == "txmd.extra-overrun") && !seenKind[m.Kind] {
				seenKind[m.Kind] = true
				cr.runV(m, false, c09Variant{})
			}
		}
	}
	// K2 on a v0 and on a v1 record (not the last tx: Open compares the last Alh with the commit log)
	done := map[int]bool{}
	cp := filepath.Join(cr.work, "k2src")
	if err := c09CopyDir(s.dir, cp, nil); err != nil {
		return
	}
	defer os.RemoveAll(cp)
	st, err := store.Open(cp, s.cfg.opts(1))
	if err != nil {
		return
	}
	var muts []c09Mut
	for id := uint64(1); id < s.n; id++ {
		h, err := st.ReadTxHeader(id, false, false)
		if err != nil || done[h.Version] {
			continue
		}
		if m, ok := s.consistentRewrite(s.txs[id], h); ok {
			done[h.Version] = true
			muts = append(muts, m)
		}
	}
	// and on the LAST tx: Open must notice (commit-log Alh)
	if h, err := st.ReadTxHeader(s.n, false, false); err == nil {
		if m, ok := s.consistentRewrite(s.txs[s.n], h); ok {
			m.Kind = "k2.consistent-rewrite-last-tx"
			muts = append(muts, m)
		}
	}
	st.Close()
	for _, m := range muts {
		cr.runK2(m)
	}
}

// runK2: the consistent rewrite is EXPECTED to be accepted by single-record reads (documented limit K2);
// it is reported with its own signature instead of the generic wrong-content one.
func (cr *c09Runner) runK2(m c09Mut) {
	r, s := cr.r, cr.s
	r.NextCase()
	cr.cases++
	dst := filepath.Join(cr.work, fmt.Sprintf("k2-%d", cr.cases))
	if err := c09CopyDir(s.dir, dst, map[string]bool{"index": true}); err != nil {
		return
	}
	defer os.RemoveAll(dst)
	if err := s.apply(dst, m); err != nil {
		r.Notes = append(r.Notes, "apply k2: "+err.Error())
		return
	}
	r.Count("mutation." + m.Kind)
	got, hang := c09ProbeTimed(dst, s.cfg, c09Plan{n: s.n, keys: s.keys, pairs: s.pairs, withIndex: true, skipHuge: true, noExportAfterErr: true}, c09Stall)
	if hang != "" || got == nil {
		r.Fail("C09:"+c09API(hang)+":hang", "hang after consistent rewrite", map[string]interface{}{"cfg": s.cfg, "mutation": m})
		return
	}
	_ = hang
	accepted := []string{}
	detectedBy := []string{}
	for _, k := range got.order {
		res := got.m[k]
		base := s.base.m[k]
		r.OracleChecks++
		if res.Panic != "" {
			r.Fail("C09:"+res.Panic+":panic", k+" panicked after consistent rewrite", map[string]interface{}{"cfg": s.cfg, "mutation": m})
			continue
		}
		if res.Err != "" {
			detectedBy = append(detectedBy, k+"="+res.Err)
			continue
		}
		if base != nil && res.Val != base.Val {
			accepted = append(accepted, k)
			r.Count("k2.accepted." + res.API)
		}
	}
	r.Eval("k2/"+s.cfg.Name+"/"+fmt.Sprint(m.Tx), true)
	if len(accepted) > 0 {
		sig := "C09:ReadTx:consistent-rewrite-accepted"
		if m.Kind == "k2.consistent-rewrite-last-tx" {
			sig = "C09:Open:consistent-rewrite-of-last-tx-accepted"
		}
		r.Fail(sig, fmt.Sprintf("tx %d rewritten with a different key and a recomputed Eh/Alh: served as valid by %v; detected only by %v", m.Tx, accepted, detectedBy),
			map[string]interface{}{"cfg": s.cfg, "mutation": m})
	} else {
		r.Count("k2.rejected-everywhere." + m.Kind)
	}
	cr.corrParse(dst, got, uint64(m.Tx))
}

// ---------------------------------------------------------------- entry point

func c09Cfgs(thorough bool) []c09Cfg {
	cfgs := []c09Cfg{
		{Name: "plain-io1", MaxIO: 1, FileSize: 512, NTx: 9},
		{Name: "embedded", Embedded: true, MaxIO: 1, FileSize: 640, NTx: 8},
		{Name: "plain-io3", MaxIO: 3, FileSize: 384, NTx: 9},
	}
	if thorough {
		cfgs = append(cfgs,
			c09Cfg{Name: "flate-io1", MaxIO: 1, Comp: appendable.FlateCompression, FileSize: 512, NTx: 8},
			c09Cfg{Name: "gzip-io2", MaxIO: 2, Comp: appendable.GZipCompression, FileSize: 700, NTx: 8},
			c09Cfg{Name: "lzw-io1", MaxIO: 1, Comp: appendable.LZWCompression, FileSize: 512, NTx: 7},
			c09Cfg{Name: "zlib-io1", MaxIO: 1, Comp: appendable.ZLibCompression, FileSize: 512, NTx: 7},
			c09Cfg{Name: "plain-io1-big", MaxIO: 1, FileSize: 4096, NTx: 24},
		)
	}
	return cfgs
}

// c09Replay re-runs exactly one recorded mutation (replay file written by ./check on a VIOLATION, or a
// hand-written {"seed":…, "replay":{"cfg":{"Name":…}, "mutation":{…}}}).
func c09Replay(r *hx.Result, path string) error {
	b, err := os.ReadFile(path)
	if err != nil {
		return err
	}
	var f struct {
		Seed   uint64 `json:"seed"`
		Replay struct {
			Cfg      c09Cfg     `json:"cfg"`
			Mutation c09Mut     `json:"mutation"`
			Variant  c09Variant `json:"variant"`
		} `json:"replay"`
	}
	if err := json.Unmarshal(b, &f); err != nil {
		return err
	}
	rng := hx.NewRng(f.Seed)
	for _, cfg := range c09Cfgs(true) {
		fr := rng.Fork()
		if cfg.Name != f.Replay.Cfg.Name {
			continue
		}
		work := hx.TempDir("c09r")
		defer os.RemoveAll(work)
		s := &c09Store{cfg: cfg, dir: filepath.Join(work, "pristine")}
		n, keys, committed, err := c09Build(fr.Fork(), cfg, s.dir)
		if err != nil {
			return err
		}
		s.n, s.keys, s.committed = n, keys, committed
		r.NextCase()
		if err := s.loadPristine(r); err != nil {
			return err
		}
		cr := &c09Runner{r: r, s: s, work: work}
		if strings.HasPrefix(f.Replay.Mutation.Kind, "k2.") {
			cr.runK2(f.Replay.Mutation)
		} else {
			cr.runV(f.Replay.Mutation, true, f.Replay.Variant)
		}
		return r.Flush()
	}
	return fmt.Errorf("replay: unknown configuration %q", f.Replay.Cfg.Name)
}

func runC09(r *hx.Result, rng *hx.Rng, thorough bool, replay string) error {
	r.Rule = "cases: one case = one altered copy of a real store directory (systematic: every field boundary ±1 bit, every length/offset/count/id field := 0/1/max/±1, vlog-id and offset variants of vOff, metadata overruns/unknown/non-canonical attributes, first/last/random byte of every value range, compressed-length prefixes; seeded random single- and multi-bit flips of tx and value logs; targeted F6/K2 probes; structure-aware re-serialisations of a record — header version 0 and 1 — with one grammar element (kv-metadata attribute(s), key byte, whole entry, tx metadata, header version) inserted / removed / replaced, all length and count fields consistent, no hash recomputed, the record shrinking / growing over what follows), opened (value-log cache size 0/1/4/64 x tx-log cache size default/1) and read through Open, ReadTx, ReadValue, ReadTxHeader, ReadTxEntry, TxReader asc/desc, DualProof, index rebuild + Get, ExportTx in one of 11 read sequences (lenient skipIntegrityCheck=true accesses first / per tx / sandwiched between two checked passes; export-first; get-first). Non-trivial = at least one call noticed the alteration (returned an error); distinct by configuration + patch list."
	debug.SetMemoryLimit(24 << 30)
	c09Budget.skipHuge, c09Budget.noExportAfterErr, c09Budget.hangs, c09Budget.hugeComp = false, false, 0, 0
	c09SlowCalls = 0
	if replay != "" {
		err := c09Replay(r, replay)
		r.Extra["slow_calls_not_counted_as_hang"] = c09SlowCalls
		return err
	}
	budget := 12 * time.Second
	if thorough {
		budget = 60 * time.Second
	}
	for _, cfg := range c09Cfgs(thorough) {
		if err := c09RunCfg(r, rng.Fork(), cfg, thorough, budget); err != nil {
			return err
		}
	}
	r.Extra["slow_calls_not_counted_as_hang"] = c09SlowCalls
	// a collapsed generator must not pass silently
	need := []string{"tie.parse.ok", "tie.parse.err:txdata", "tie.parse.err:data", "tie.parse.err:maxkeylen", "tie.parse.err:maxentries",
		"tie.parse.err:version", "tie.rv.ok", "tie.rv.err:data", "tie.rv.err:io", "outcome.Open.error.txdata", "outcome.ReadTx.pristine-content",
		"outcome.ReadValue.error.data", "outcome.TxReaderAsc.error.txdata", "outcome.DualProof.error.txdata", "outcome.Get.pristine-content",
		"outcome.ExportTx.error.data", "mutation.control.none", "mutation.random.tx.1bit", "mutation.random.val.1bit", "mutation.num.set",
		"variant.lenient-export-then-checked-with-vcache", "variant.vcache.0", "variant.vcache.1", "variant.vcache.64", "variant.txcache.1",
		"variant.seq.sandwich-export", "variant.seq.get-first", "variant.seq.export-first", "outcome.ReadValue#2.pristine-content",
		"outcome.ReadValue#L.self-authentic", "outcome.ExportTx!skip.ok",
		// structure-aware alterations: both header versions x every grammar element x insert / remove / replace
		"pristine.tx.v0", "pristine.tx.v1", "committed.entry-compared",
		"restruct.class.v0/kvmd.insert.del", "restruct.class.v0/kvmd.insert.exp", "restruct.class.v0/kvmd.insert.nonidx",
		"restruct.class.v0/kvmd.insert.combo", "restruct.class.v0/kvmd.insert.noncanon", "restruct.class.v0/key.insert",
		"restruct.class.v0/key.remove", "restruct.class.v0/entry.insert", "restruct.class.v0/entry.remove", "restruct.class.v0/version.replace",
		"restruct.class.v1/kvmd.insert.del", "restruct.class.v1/kvmd.insert.exp", "restruct.class.v1/kvmd.insert.nonidx",
		"restruct.class.v1/kvmd.remove", "restruct.class.v1/kvmd.replace", "restruct.class.v1/key.insert", "restruct.class.v1/key.remove",
		"restruct.class.v1/entry.insert", "restruct.class.v1/entry.remove", "restruct.class.v1/entry.replace",
		"restruct.class.v1/txmd.insert", "restruct.class.v1/txmd.remove", "restruct.class.v1/txmd.replace", "restruct.class.v1/version.replace",
		"restruct.tail.shorter", "restruct.tail.longer-overwrites-next", "restruct.inside-committed-extent.v0", "restruct.inside-committed-extent.v1",
		"tie.dg.v0.no-md.ok", "tie.dg.v0.md.err:mdunsupported", "tie.dg.v1.md.ok", "tie.dg.v1.no-md.ok", "outcome.ReadTx.error.mdunsupported"}
	for _, k := range need {
		if r.Distribution[k] == 0 {
			r.Inconclusive = append(r.Inconclusive, "generator collapse: no case with "+k)
		}
	}
	return nil
}
