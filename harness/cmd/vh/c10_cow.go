package main

// C10 — copy-on-write cases (strengthening for the seeded change c10-a, see DESIGN.md "C10 — as built").
//
// tbtree is a copy-on-write tree: a flushed node is shared by the live tree, by lastSnapRoot and by every open
// snapshot; whoever wants to change it has to copy it first. The copies are made at three places
// (leafNode.insert / innerNode.insert on an unmutated node, leafNode.setTs / innerNode.setTs on an unmutated ROOT,
// = IncreaseTs and Open with a TIMESTAMP file ahead of the stored root) and everything below a mutated node is
// then updated IN PLACE (leafNode.updateOnInsert prepends to lv.timedValues, flushTree rewrites hOff/hCount).
// A copy that is too shallow is invisible until (1) the shared node is pinned by a snapshot / lastSnapRoot,
// (2) the live tree takes the shallow copy, (3) an EXISTING entry of that node is updated, (4) the pinned view is
// read again. The random cases of c10_ops.go grow their trees to depth 4..15 within a few inserts (node size at
// the minimum, pools of 6..400 keys), advance the ts in 3 % of the ops and re-read a snapshot in 2 % of the ops:
// a ts advance on a flushed ROOT LEAF followed by an update of one of its keys with a snapshot open practically
// never happens there (counters `cow.*` in the evidence).
//
// The cases here keep the tree SMALL (1..8 keys, default node size as well as the minimum one: the root is a leaf,
// or an inner node over 2..4 leaves; and 9..40 keys over tiny nodes: depth 2..5), use an op mix made of the
// ingredients (update of existing keys one by one / some / all, ts advance, flush, snapshot kept open, rejected
// insert = rollback to lastSnapRoot, close/reopen with the ts file ahead), and re-read EVERY open snapshot after
// EVERY mutating op: full dump (forward + backward scan, Get, History of every key) against the creation dump
// = the frozen copy of the reference map, plus `get`/`hist` lines on the snapshot for the keys just written
// (those go to the Lean model as well). All ops are ordinary op lines, so replays are self-contained.

import (
	"fmt"
	"os"
	"strings"

	"verif/harness/internal/hx"
)

func c10DepthTag(d int) string {
	switch {
	case d <= 0:
		return "depth-unknown"
	case d == 1:
		return "root-leaf"
	case d <= 3:
		return "depth2-3"
	}
	return "depth4+"
}

// noteIncTs / noteInsert: input-distribution counters of the copy-on-write ingredients (all C10 cases).
func (e *c10Env) noteIncTs() {
	e.r.Count(fmt.Sprintf("cow.incts.%s.flushed-root=%v.open-snaps=%v", c10DepthTag(e.curDepth), e.clean, len(e.snaps) > 0))
	e.armed = e.clean
	e.clean = e.cfg.FlushThld == 1
}

func (e *c10Env) noteInsert(prev *c10Map, resolved []c10KVT) {
	upd := false
	for _, kv := range resolved {
		if _, ok := prev.idx(kv.K); ok {
			upd = true
		}
	}
	if e.armed {
		e.r.Count(fmt.Sprintf("cow.first-insert-after-ts-advance-on-flushed-root.%s.updates-existing-key=%v.open-snaps=%v", c10DepthTag(e.curDepth), upd, len(e.snaps) > 0))
	}
	if e.clean && upd {
		e.r.Count(fmt.Sprintf("cow.update-existing-key-on-flushed-root.%s.open-snaps=%v", c10DepthTag(e.curDepth), len(e.snaps) > 0))
	}
	e.armed = false
	e.clean = e.cfg.FlushThld == 1
}

// ---------------------------------------------------------------------------------------------
// configuration and key pool of a small case
// ---------------------------------------------------------------------------------------------

func c10CowCfg(rng *hx.Rng, kind string) c10Cfg {
	c := c10Cfg{}
	c.MaxKey = []int{4, 8, 16, 32}[rng.Intn(4)]
	c.MaxVal = []int{1, 4, 8, 40}[rng.Intn(4)]
	req := max(2*(29+c.MaxKey), 31+c.MaxKey+c.MaxVal)
	switch kind {
	case "default-node":
		c.MaxNode = 4096 // tbtree.DefaultMaxNodeSize: a handful of keys stay in ONE leaf = the root
		if rng.Chance(25) {
			c.MaxKey, c.MaxVal = 1024, 512 // the defaults of embedded/store's indexes
		}
	default:
		c.MaxNode = req + []int{0, 0, 1, 7, 30, 100, 300}[rng.Intn(7)]
	}
	c.Cache = []int{1, c.MaxNode, 20 * c.MaxNode, 1 << 20}[rng.Intn(4)]
	// mostly no automatic flushes: the explicit flush / snapshot ops decide when the root gets stored
	c.FlushThld = []int{100000, 100000, 100000, 1, 2, 5, 20}[rng.Intn(7)]
	c.SyncThld = c.FlushThld * []int{1, 3, 10}[rng.Intn(3)]
	c.MaxBuf = []int{1 << 22, 1 << 22, 1 << 22, 1, 40, 300}[rng.Intn(6)]
	c.MaxActive = 2 + rng.Intn(5)
	c.CompThld = 1 + rng.Intn(3)
	c.FileSize = []int{2048, 16384, 1 << 20}[rng.Intn(3)]
	c.FlushBuf = 4096
	c.HOpen = []int{1, 2, 4000}[rng.Intn(3)]
	c.NOpen = []int{1, 2, 4000}[rng.Intn(3)]
	c.Cleanup = []float32{0, 0, 10, 50, 100}[rng.Intn(5)]
	return c
}

// short keys with shared prefixes (so that gwp / prefix scans see several of them)
func c10CowPool(rng *hx.Rng, maxKey, n int) [][]byte {
	seen := map[string]bool{}
	var pool [][]byte
	stem := c10RandBytes(rng, rng.Intn(min(maxKey, 3)))
	for tries := 0; len(pool) < n && tries < 50*n; tries++ {
		k := append([]byte(nil), stem...)
		if rng.Chance(20) {
			k = nil
		}
		room := min(maxKey-len(k), 3)
		k = append(k, c10RandBytes(rng, 1+rng.Intn(max(room, 1)))...)
		if rng.Chance(5) {
			k = c10RandBytes(rng, maxKey) // a key of maximal size
		}
		if len(k) == 0 || len(k) > maxKey || seen[string(k)] {
			continue
		}
		seen[string(k)] = true
		pool = append(pool, k)
	}
	return pool
}

// ---------------------------------------------------------------------------------------------
// generators
// ---------------------------------------------------------------------------------------------

// genUpdate: a VALID bulk over keys the tree already has (one / some / all of them, possibly one key twice),
// optionally with a few new keys mixed in.
func (e *c10Env) genUpdate(withNew bool) string {
	rng := e.rng
	var keys [][]byte
	ex := e.ref.Es
	switch {
	case len(ex) == 0:
		withNew = true
	case rng.Chance(45):
		keys = append(keys, ex[rng.Intn(len(ex))].K)
	case rng.Chance(50):
		for _, en := range ex {
			if rng.Bool() {
				keys = append(keys, en.K)
			}
		}
		if len(keys) == 0 {
			keys = append(keys, ex[rng.Intn(len(ex))].K)
		}
	default:
		for _, en := range ex {
			keys = append(keys, en.K)
		}
	}
	if withNew {
		for i, n := 0, 1+rng.Intn(2); i < n; i++ {
			keys = append(keys, e.poolKey())
		}
	}
	if len(keys) > 0 && rng.Chance(15) {
		keys = append(keys, keys[rng.Intn(len(keys))]) // same key twice: two versions from one bulk
	}
	for i := len(keys) - 1; i > 0; i-- { // bulks need not be sorted
		j := rng.Intn(i + 1)
		keys[i], keys[j] = keys[j], keys[i]
	}
	explicit := rng.Chance(50)
	next := e.ref.Ts + 1 + uint64(rng.Intn(2))
	kvts := make([]c10KVT, len(keys))
	for i, k := range keys {
		kvts[i] = c10KVT{K: append([]byte(nil), k...), V: e.value(true)}
		if explicit {
			kvts[i].T = next
			if !rng.Chance(20) { // sometimes several entries share one ts
				next += 1 + uint64(rng.Intn(2))
			}
		}
	}
	// T = 0 resolves to ts+1 for every entry: a key given twice keeps its first value only (equal ts ignored)
	e.r.Count("ins.valid")
	e.r.Count("ins.size." + sizeBucket(len(kvts)))
	e.r.Count(fmt.Sprintf("cow.gen.update.keys%s.new%v", sizeBucket(len(keys)), withNew))
	e.lastKind = "valid"
	return "ins " + kvtsTok(kvts)
}

// genRejected: a bulk that passes the up-front validation and fails inside the leaf (same key twice, decreasing
// explicit ts): the tree rolls back to lastSnapRoot, which then IS the root again (shared with snapshots).
func (e *c10Env) genRejected() string {
	rng := e.rng
	k := append([]byte(nil), e.poolKey()...)
	if len(e.ref.Es) > 0 && rng.Chance(70) {
		k = e.ref.Es[rng.Intn(len(e.ref.Es))].K
	}
	hi := e.ref.Ts + 2 + uint64(rng.Intn(3))
	kvts := []c10KVT{{K: k, V: e.value(true), T: hi}}
	if len(e.ref.Es) > 0 && rng.Bool() {
		kvts = append(kvts, c10KVT{K: e.ref.Es[rng.Intn(len(e.ref.Es))].K, V: e.value(true), T: hi})
	}
	kvts = append(kvts, c10KVT{K: k, V: e.value(true), T: hi - 1})
	e.r.Count("ins.decreasing-ts-same-key")
	e.r.Count("ins.size." + sizeBucket(len(kvts)))
	e.lastKind = "decreasing-ts-same-key"
	return "ins " + kvtsTok(kvts)
}

func (e *c10Env) genValidFlush() string {
	rng := e.rng
	switch rng.Intn(6) {
	case 0:
		return "sync"
	case 1:
		return fmt.Sprintf("flush 1 %s default 0", c10b(e.cfg.Cleanup != 0))
	}
	pcts := []float32{0, 0, 0.5, 10, 50, 100}
	p := pcts[rng.Intn(len(pcts))]
	return fmt.Sprintf("flush 1 %s %v %s", c10b(p != 0), p, c10b(rng.Chance(40)))
}

// cowSnap opens a snapshot that stays open (the oldest one is closed first when the limit is reached)
func (e *c10Env) cowSnap() {
	if len(e.snaps) >= e.cfg.MaxActive {
		e.exec(fmt.Sprintf("sclose %d", e.snaps[0].name))
	}
	ts := uint64(0)
	switch e.rng.Intn(4) {
	case 0:
		ts = e.ref.Ts
	case 1:
		ts = uint64(e.rng.Intn(int(e.ref.Ts) + 1))
	}
	e.exec(fmt.Sprintf("snap %d %d", e.nextSnap, ts))
}

// afterMutation: EVERY open snapshot is read again in full (oracle: its creation dump = the frozen reference map);
// for the keys just written additionally `get` / `hist` lines on one or two snapshots (oracle + Lean model).
func (e *c10Env) afterMutation(touched [][]byte) {
	for _, sn := range e.snaps {
		if e.nfail > 0 {
			return
		}
		e.exec(fmt.Sprintf("recheck %d", sn.name))
	}
	if len(e.snaps) == 0 || len(touched) == 0 {
		return
	}
	for i := 0; i < 2 && e.nfail == 0; i++ {
		sn := e.snaps[e.rng.Intn(len(e.snaps))]
		k := touched[e.rng.Intn(len(touched))]
		hc := 1
		if j, ok := sn.ref.idx(k); ok {
			hc = len(sn.ref.Es[j].Vs)
		}
		switch e.rng.Intn(3) {
		case 0:
			e.exec(fmt.Sprintf("get %d %s", sn.name, hx.Hex(k)))
		case 1:
			e.exec(fmt.Sprintf("hist %d %s 0 %s %d", sn.name, hx.Hex(k), c10b(e.rng.Bool()), hc+1))
		default:
			e.exec(fmt.Sprintf("scan %d %s - - 1 0 %s 0 0", sn.name, hx.Hex(k), c10b(e.rng.Chance(40))))
		}
	}
}

func keysOfOp(op string, maxKey int) [][]byte {
	f := strings.Fields(op)
	if len(f) != 2 || f[0] != "ins" {
		return nil
	}
	var ks [][]byte
	for _, kv := range parseKvts(f[1]) {
		if len(kv.K) > 0 && len(kv.K) <= maxKey { // invalid bulks carry empty / over-long keys
			ks = append(ks, kv.K)
		}
	}
	return ks
}

// mut: one mutating op followed by the re-read of all open snapshots
func (e *c10Env) mut(op string) {
	if e.nfail > 0 || e.tainted || e.isClosed {
		return
	}
	e.exec(op)
	e.afterMutation(keysOfOp(op, e.cfg.MaxKey))
}

// cowPattern: store the root, pin it, move the live tree off it WITHOUT inserting (ts advance, optionally through
// close/reopen = the TIMESTAMP file is ahead of the stored root at Open), then write the existing keys one by one
// (every child of an inner root gets its turn), store again, pin again. Steps are dropped at random so that the
// neighbouring orders (no ts advance: leafNode.insert makes the copy; no explicit flush: the snapshot flushes;
// snapshot taken AFTER the ts advance: it re-uses lastSnapRoot; …) are produced too.
func (e *c10Env) cowPattern() {
	rng := e.rng
	e.r.Count("cow.pattern.runs")
	if rng.Chance(75) {
		e.mut(e.genValidFlush())
	}
	snapFirst := rng.Chance(70)
	if snapFirst {
		e.cowSnap()
	}
	advanced := false
	for i, n := 0, rng.Intn(3); i < n || (i == 0 && rng.Chance(70)); i++ {
		e.mut(fmt.Sprintf("incts %d", e.ref.Ts+1+uint64(rng.Intn(3))))
		advanced = true
	}
	if advanced && rng.Chance(20) && e.nfail == 0 && !e.tainted {
		e.r.Count("cow.pattern.reopen-with-ts-file-ahead")
		if e.doReopen() != nil {
			e.tainted = true
			return
		}
		snapFirst = false
	}
	if !snapFirst || rng.Chance(30) {
		e.cowSnap() // after the advance: re-uses the stored root (stale) unless it asks for the current ts
	}
	if rng.Chance(15) {
		e.mut(e.genRejected()) // back onto lastSnapRoot itself
		if rng.Bool() {
			e.mut(fmt.Sprintf("incts %d", e.ref.Ts+1))
		}
	}
	// existing keys one at a time, in random order
	var ks [][]byte
	for _, en := range e.ref.Es {
		ks = append(ks, en.K)
	}
	for i := len(ks) - 1; i > 0; i-- {
		j := rng.Intn(i + 1)
		ks[i], ks[j] = ks[j], ks[i]
	}
	if len(ks) > 12 {
		ks = ks[:12]
	}
	for i, k := range ks {
		kv := c10KVT{K: append([]byte(nil), k...), V: e.value(true)}
		if rng.Chance(40) {
			kv.T = e.ref.Ts + 1 + uint64(rng.Intn(2))
		}
		e.r.Count("ins.valid")
		e.r.Count("ins.size.1")
		e.lastKind = "valid"
		e.mut("ins " + kvtsTok([]c10KVT{kv}))
		if i < len(ks)-1 && rng.Chance(10) {
			e.mut(e.genValidFlush())
		}
	}
	if rng.Chance(80) {
		e.mut(e.genValidFlush())
	}
	if rng.Chance(50) {
		e.cowSnap()
		e.afterMutation(nil)
	}
}

// ---------------------------------------------------------------------------------------------
// one small case
// ---------------------------------------------------------------------------------------------

func c10CowCase(r *hx.Result, rng *hx.Rng, thorough bool, kind string, nops int) (err error) {
	r.NextCase()
	e := c10NewEnv(r, rng, thorough, c10CowCfg(rng, kind))
	defer e.finish()
	defer func() {
		if p := recover(); p != nil {
			e.fail("C10:tbtree:panic", fmt.Sprint(p))
			err = nil
		}
	}()
	npool := 1 + rng.Intn(8)
	if kind == "deeper" {
		npool = 9 + rng.Intn(32)
	}
	e.pool = c10CowPool(rng, e.cfg.MaxKey, npool)
	for _, k := range e.pool {
		e.addUni(k)
	}
	r.Count("cow.case." + kind)
	r.Count("cow.case.pool" + sizeBucket(len(e.pool)))
	if err := e.start(); err != nil {
		return err
	}
	r.Sample(map[string]interface{}{"cow": kind, "cfg": e.cfg, "pool": len(e.pool)})

	// populate: all or some of the pool keys, in one or several bulks
	perm := append([][]byte(nil), e.pool...)
	for i := len(perm) - 1; i > 0; i-- {
		j := rng.Intn(i + 1)
		perm[i], perm[j] = perm[j], perm[i]
	}
	if rng.Chance(30) {
		perm = perm[:1+rng.Intn(len(perm))]
	}
	for len(perm) > 0 && e.nfail == 0 {
		n := 1 + rng.Intn(len(perm))
		if rng.Chance(40) {
			n = len(perm)
		}
		kvts := make([]c10KVT, n)
		for i, k := range perm[:n] {
			kvts[i] = c10KVT{K: append([]byte(nil), k...), V: e.value(true)}
		}
		perm = perm[n:]
		e.r.Count("ins.valid")
		e.r.Count("ins.size." + sizeBucket(n))
		e.lastKind = "valid"
		e.mut("ins " + kvtsTok(kvts))
	}

	for i := 0; i < nops && e.nfail == 0 && !e.tainted; i++ {
		p := rng.Intn(100)
		switch {
		case p < 24:
			e.mut(e.genUpdate(false))
		case p < 31:
			e.mut(e.genUpdate(true))
		case p < 34:
			e.mut(e.genInsert()) // the general generator: invalid / stale / rejected bulks included
		case p < 37:
			e.mut(e.genRejected())
		case p < 53:
			e.mut(e.genIncTs())
		case p < 66:
			e.mut(e.genValidFlush())
		case p < 78:
			e.cowSnap()
		case p < 82:
			if len(e.snaps) > 0 {
				e.exec(fmt.Sprintf("sclose %d", e.snaps[rng.Intn(len(e.snaps))].name))
			}
		case p < 86:
			e.exec(e.genPointRead())
		case p < 89:
			if len(e.snaps) > 0 {
				e.exec(e.genScan(e.snaps[rng.Intn(len(e.snaps))]))
			}
		case p < 92:
			if e.doReopen() != nil {
				return nil
			}
		case p < 94:
			e.mut("compact")
		default:
			e.cowPattern()
		}
	}
	if e.nfail > 0 {
		// stop at the first oracle failure: the recorded op list is the replay
		e.tainted = true
	}
	r.Count("cow.depth-at-end." + c10DepthTag(e.curDepth))
	return e.endOfCase()
}

func c10CowCases(r *hx.Result, rng *hx.Rng, thorough bool) error {
	n, nops := 36, 40
	if thorough {
		n, nops = 180, 70
	}
	if v := os.Getenv("VERIF_C10_COW_CASES"); v != "" {
		n = atoi(v)
	}
	kinds := []string{"default-node", "tiny-node", "deeper"}
	for i := 0; i < n; i++ {
		crng := rng.Fork()
		if err := c10CowCase(r, crng, thorough, kinds[i%3], nops); err != nil {
			return err
		}
		if err := r.Flush(); err != nil {
			return err
		}
	}
	r.Extra["cow_cases"] = n
	return nil
}

// c10StaleTsProbe: the recipe of the known finding c10StaleTsSig (found by the cases above): the tree is opened with
// the TIMESTAMP file ahead of its root, a bulk rejected inside the leaf rolls it back to the LOADED root (content
// ts), Close leaves the TIMESTAMP file alone, the next Open applies the old value again: Ts() 1 at Close, 5 after.
func c10StaleTsProbe(r *hx.Result, rng *hx.Rng) {
	r.NextCase()
	cfg := c10Cfg{MaxKey: 1024, MaxVal: 512, MaxNode: 4096, Cache: 1 << 20, FlushThld: 100000, SyncThld: 1000000, MaxBuf: 1 << 22,
		MaxActive: 100, CompThld: 2, FileSize: 1 << 26, FlushBuf: 4096, NOpen: 10, HOpen: 1}
	e := c10NewEnv(r, rng, false, cfg)
	defer e.finish()
	defer func() {
		if p := recover(); p != nil {
			e.fail("C10:tbtree:panic", fmt.Sprint(p))
		}
	}()
	e.pool = [][]byte{{0x6b, 0x31}, {0x6b, 0x32}, {0x6b, 0x33}}
	for _, k := range e.pool {
		e.addUni(k)
	}
	if e.start() != nil {
		return
	}
	for _, op := range []string{
		"ins 6b31:7631:0",
		"incts 5",
		"close", "reopen", // Ts() = 5, stored root at ts 1
		"ins 6b32:7632:0",
		"ins 6b33:7633:9,6b33:7634:8", // rejected in the leaf: back to the loaded root, Ts() = 1
		"get t 6b31",
		"close", "reopen", // Ts() = 5 again
		"get t 6b31",
		"close",
	} {
		e.exec(op)
	}
	r.Eval("probe.stale-ts-file-after-rollback", true)
}
