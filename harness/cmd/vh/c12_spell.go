package main

// C12 — value SPELLINGS.  The generators of the other families write every value in ONE canonical way
// (typed literal / typed parameter; TIMESTAMP as CAST('… .ffffff' AS TIMESTAMP) with exactly six fractional
// digits, UUID as CAST('lower-case' AS UUID)).  The engine accepts many more ways of writing the SAME stored
// value, and every one of them passes through a conversion (`getConverter`, `mayApplyImplicitConversion`,
// `Param.substitute`) before the statement-side key (`EncodeRawValueAsKey`: PK existence check, UNIQUE prefix
// lookup) and the row value (`EncodeRawValue`, from which the indexer derives the committed index entries) are
// built.  A constraint holds "for all ways of writing values" only if the two encodings agree for every
// spelling.  This file adds
//
//   * sqlSpellValue: for a STORED value of a column (what a SELECT returns) a random other spelling that
//     denotes it — TIMESTAMP: string literal / varchar parameter / CAST in every layout the converter accepts
//     (space and `T` separator, `UTC` suffix, numeric zone with the wall clock shifted to the same instant,
//     RFC 3339 with `Z` / offset, date only, minutes only, `,` as decimal mark), 0–9 fractional digits incl.
//     SUB-MICROSECOND digits below the stored precision, time.Time parameters with nanoseconds in another
//     location, CAST(<unix seconds>); INTEGER: decimal strings with sign / leading zeros, FLOAT literals and
//     parameters with a fractional part (truncated toward zero), CASTs; FLOAT: integer literals, strings in
//     %g/%e/%f/hex-float form with `+`, trailing zeros, `inf`; UUID: upper / mixed case, `urn:uuid:`, braces,
//     no dashes, 16-byte BLOB; BOOLEAN: the text forms of parsePGTextBool (case, surrounding spaces);
//     VARCHAR: INTEGER / FLOAT / BOOLEAN values whose text is the string; BLOB: CAST of a string / UUID —
//     restricted per position to what the engine accepts there (INSERT values: all; UPDATE … SET: CAST, typed
//     parameters, strings for TIMESTAMP / UUID, INTEGER for FLOAT; WHERE: CAST and typed parameters);
//   * maybeSpell: a bias of the sequential cases (own random stream): about one statement in three gets its
//     values — preferably those of key / indexed columns — respelled;
//   * runSpellings: dedicated cases, one per key type, where successive statements write the SAME stored value
//     under different spellings into a PRIMARY KEY / a UNIQUE index (`spell.meet.*`).
//
// The reference (`refTable.exec`) and the Lean model work on the STORED values; the engine receives the spelled
// text.  Oracle = the unchanged C12 oracle (after every commit: scans through every index, duplicate-pk,
// unique-index-duplicate, table = reference; must-fail ⇒ not acknowledged) plus a codec-level one for the
// implicit conversions: the key the statement probes (`EncodeRawValueAsKey(raw)`) must be the key the indexer
// derives from the stored row (`EncodeValueAsKey(DecodeValue(EncodeRawValue(raw)))`), and the decoded value must
// be the value the spelling denotes at the column's precision.

import (
	"bytes"
	"fmt"
	"math"
	"strconv"
	"strings"
	"time"

	"github.com/codenotary/immudb/embedded/sql"
	"github.com/google/uuid"

	"verif/harness/internal/hx"
)

type sqlSpelt struct {
	Kind   string
	Text   string      // "@?" marks a parameter (in order of Params)
	Params []c15Val    // typed as the PARAMETER is (a varchar parameter for a TIMESTAMP column, …)
	Raw    interface{} // implicit conversions only: the Go value the codecs receive for the column
	Inst   time.Time   // TIMESTAMP from text: the instant the text denotes (stored value + sub-microsecond digits)
	Lossy  bool        // the text denotes more than the column stores (sub-µs digits, fractional part for INTEGER)
	Cast   bool        // the expression is typed as the column before the statement sees it (CAST / typed parameter)
}

func (s *sqlSpelt) render(ps *sqlParams) string {
	out := s.Text
	for _, p := range s.Params {
		out = strings.Replace(out, "@?", ps.add(p), 1)
	}
	return out
}

func sqlQuote(s string) string { return "'" + strings.ReplaceAll(s, "'", "''") + "'" }

func sqlVarcharVal(s string) c15Val { return c15Val{ty: sql.VarcharType, s: s} }

// text → the four ways of handing a string to a column of type `tyName`: literal, varchar parameter (implicit
// conversion), CAST of a literal, CAST of a varchar parameter
func spellString(rng *hx.Rng, kind, s, tyName string, implicit bool) *sqlSpelt {
	var forms []int
	if implicit {
		forms = append(forms, 0, 0, 1)
	}
	forms = append(forms, 2, 3)
	if !sqlPlainASCII(s) {
		forms = []int{3}
		if implicit {
			forms = []int{1, 3}
		}
	}
	switch forms[rng.Intn(len(forms))] {
	case 0:
		return &sqlSpelt{Kind: kind + ".literal", Text: sqlQuote(s), Raw: s}
	case 1:
		return &sqlSpelt{Kind: kind + ".param", Text: "@?", Params: []c15Val{sqlVarcharVal(s)}, Raw: s}
	case 2:
		return &sqlSpelt{Kind: kind + ".cast", Text: "CAST(" + sqlQuote(s) + " AS " + tyName + ")", Cast: true}
	}
	return &sqlSpelt{Kind: kind + ".cast-param", Text: "CAST(@? AS " + tyName + ")", Params: []c15Val{sqlVarcharVal(s)}, Cast: true}
}

var spellZones = []int{-7 * 3600, 2 * 3600, 5*3600 + 1800, -1800, 14 * 3600, -12 * 3600, 0}

// another spelling of the stored value v of column col for the position pos ("ins" VALUES entry, "set" UPDATE … SET,
// "where" constant of a comparison); nil = none applicable.  castOnly: only spellings that are typed as the column
// before the statement looks at them (AUTO_INCREMENT column, CHECK column under the Lean tie).
func sqlSpellValue(rng *hx.Rng, col sqlCol, v c15Val, pos string, castOnly bool) *sqlSpelt {
	if v.null || v.ty != col.Ty {
		return nil
	}
	ins := pos == "ins" && !castOnly
	set := pos == "set" && !castOnly
	var cands []func() *sqlSpelt
	add := func(f func() *sqlSpelt) { cands = append(cands, f) }
	switch col.Ty {
	case sql.TimestampType:
		t := v.t.UTC()
		if t.Year() < 2 || t.Year() > 9997 || t.Nanosecond()%1000 != 0 {
			return nil
		}
		noise := 0
		if rng.Intn(5) != 0 {
			noise = 1 + rng.Intn(999)
		}
		inst := t.Add(time.Duration(noise))
		frac := func() string {
			ns9 := fmt.Sprintf("%09d", inst.Nanosecond())
			keep := 9
			for keep > 0 && ns9[keep-1] == '0' {
				keep--
			}
			d := keep + rng.Intn(10-keep)
			if d == 0 {
				return ""
			}
			mark := "."
			if rng.Intn(12) == 0 {
				mark = ","
			}
			return mark + ns9[:d]
		}
		text := func() (string, string) {
			off := spellZones[rng.Intn(len(spellZones))]
			wall := inst.In(time.FixedZone("", off))
			switch k := rng.Intn(8); {
			case k == 0:
				return "ts-utc", inst.Format("2006-01-02 15:04:05") + frac() + " UTC"
			case k == 1:
				return "ts-numzone", wall.Format("2006-01-02 15:04:05") + frac() + " " + wall.Format("-0700")
			case k == 2:
				return "ts-iso", inst.Format("2006-01-02T15:04:05") + frac()
			case k == 3:
				return "ts-rfc3339z", inst.Format("2006-01-02T15:04:05") + frac() + "Z"
			case k == 4:
				return "ts-rfc3339off", wall.Format("2006-01-02T15:04:05") + frac() + wall.Format("-07:00")
			case k == 5 && inst.Nanosecond() == 0 && inst.Second() == 0:
				if inst.Hour() == 0 && inst.Minute() == 0 && rng.Bool() {
					return "ts-date", inst.Format("2006-01-02")
				}
				return "ts-minutes", inst.Format("2006-01-02 15:04")
			}
			return "ts-plain", inst.Format("2006-01-02 15:04:05") + frac()
		}
		add(func() *sqlSpelt {
			k, s := text()
			sp := spellString(rng, k, s, "TIMESTAMP", ins || set)
			sp.Inst, sp.Lossy = inst, noise != 0
			return sp
		})
		add(cands[0])
		add(cands[0])
		add(func() *sqlSpelt {
			loc := time.FixedZone("z", spellZones[rng.Intn(len(spellZones))])
			return &sqlSpelt{Kind: "ts-time-param", Text: "@?", Params: []c15Val{{ty: sql.TimestampType, t: inst.In(loc)}}, Lossy: noise != 0, Cast: true, Inst: inst}
		})
		if t.Nanosecond() == 0 {
			add(func() *sqlSpelt {
				return &sqlSpelt{Kind: "ts-cast-int", Text: "CAST(" + strconv.FormatInt(t.Unix(), 10) + " AS TIMESTAMP)", Cast: true}
			})
		}
	case sql.IntegerType:
		i := v.i
		dec := strconv.FormatInt(i, 10)
		add(func() *sqlSpelt {
			zeros := strings.Repeat("0", rng.Intn(3))
			s := zeros + dec
			if i < 0 {
				s = "-" + zeros + dec[1:]
			} else if rng.Intn(3) == 0 {
				s = "+" + s
			}
			return spellString(rng, "int-str", s, "INTEGER", ins)
		})
		if i > -(1<<40) && i < 1<<40 {
			add(func() *sqlSpelt {
				fr := []string{"0", "5", "25", "999", "000001", "75"}[rng.Intn(6)]
				s := dec + "." + fr
				if i == 0 && fr != "0" && rng.Bool() {
					s = "-0." + fr
				}
				f, err := strconv.ParseFloat(s, 64)
				if err != nil || int64(f) != i {
					return nil
				}
				lossy := strings.Trim(fr, "0") != ""
				switch k := rng.Intn(4); {
				case k == 0 && ins:
					return &sqlSpelt{Kind: "int-float.literal", Text: s, Raw: f, Lossy: lossy}
				case k == 1 && ins:
					return &sqlSpelt{Kind: "int-float.param", Text: "@?", Params: []c15Val{{ty: sql.Float64Type, f: math.Float64bits(f)}}, Raw: f, Lossy: lossy}
				case k == 2:
					return &sqlSpelt{Kind: "int-float.cast-param", Text: "CAST(@? AS INTEGER)", Params: []c15Val{{ty: sql.Float64Type, f: math.Float64bits(f)}}, Lossy: lossy, Cast: true}
				}
				return &sqlSpelt{Kind: "int-float.cast", Text: "CAST(" + s + " AS INTEGER)", Lossy: lossy, Cast: true}
			})
		}
	case sql.Float64Type:
		f := math.Float64frombits(v.f)
		if math.IsNaN(f) || (f == 0 && math.Signbit(f)) {
			return nil
		}
		add(func() *sqlSpelt {
			var s string
			if math.IsInf(f, 0) {
				s = []string{"inf", "Inf", "INF", "infinity", "Infinity"}[rng.Intn(5)]
				if f < 0 {
					s = "-" + s
				} else if rng.Bool() {
					s = "+" + s
				}
			} else {
				fm := []byte{'g', 'e', 'E', 'f', 'x'}[rng.Intn(5)]
				if fm == 'f' && f != 0 && (math.Abs(f) >= 1e15 || math.Abs(f) < 1e-5) {
					fm = 'e'
				}
				s = strconv.FormatFloat(f, fm, -1, 64)
				if strings.Contains(s, ".") && !strings.ContainsAny(s, "eEpP") && rng.Bool() {
					s += strings.Repeat("0", 1+rng.Intn(3))
				}
				if f >= 0 && rng.Intn(3) == 0 {
					s = "+" + s
				}
			}
			if back, err := strconv.ParseFloat(s, 64); err != nil || math.Float64bits(back) != v.f {
				return nil
			}
			return spellString(rng, "flt-str", s, "FLOAT", ins)
		})
		if f == math.Trunc(f) && math.Abs(f) < 1<<53 {
			add(func() *sqlSpelt {
				iv := c15Val{ty: sql.IntegerType, i: int64(f)}
				switch k := rng.Intn(3); {
				case k == 0 && (ins || set):
					return &sqlSpelt{Kind: "flt-int.literal", Text: strconv.FormatInt(iv.i, 10), Raw: iv.i}
				case k == 1 && (ins || set):
					return &sqlSpelt{Kind: "flt-int.param", Text: "@?", Params: []c15Val{iv}, Raw: iv.i}
				}
				return &sqlSpelt{Kind: "flt-int.cast", Text: "CAST(" + strconv.FormatInt(iv.i, 10) + " AS FLOAT)", Cast: true}
			})
		}
	case sql.UUIDType:
		canon := v.u.String()
		add(func() *sqlSpelt {
			s := canon
			switch rng.Intn(6) {
			case 0:
				s = strings.ToUpper(canon)
			case 1:
				b := []byte(canon)
				for k := range b {
					if rng.Bool() {
						b[k] = bytes.ToUpper(b[k : k+1])[0]
					}
				}
				s = string(b)
			case 2:
				s = "urn:uuid:" + canon
			case 3:
				s = "{" + canon + "}"
			case 4:
				s = strings.ReplaceAll(canon, "-", "")
			}
			return spellString(rng, "uuid-str", s, "UUID", ins || set)
		})
		add(func() *sqlSpelt {
			x := append([]byte{}, v.u[:]...)
			switch k := rng.Intn(3); {
			case k == 0 && ins:
				return &sqlSpelt{Kind: "uuid-blob.literal", Text: "x'" + hexs(x) + "'", Raw: x}
			case k == 1 && ins:
				return &sqlSpelt{Kind: "uuid-blob.param", Text: "@?", Params: []c15Val{{ty: sql.BLOBType, x: x}}, Raw: x}
			}
			return &sqlSpelt{Kind: "uuid-blob.cast", Text: "CAST(x'" + hexs(x) + "' AS UUID)", Cast: true}
		})
	case sql.BooleanType:
		add(func() *sqlSpelt {
			forms := []string{"f", "false", "n", "no", "off", "0"}
			if v.b {
				forms = []string{"t", "true", "y", "yes", "on", "1"}
			}
			s := forms[rng.Intn(len(forms))]
			if rng.Bool() {
				s = strings.ToUpper(s)
			}
			if rng.Intn(3) == 0 {
				s = " " + s + "  "
			}
			return spellString(rng, "bool-str", s, "BOOLEAN", ins)
		})
	case sql.VarcharType:
		if i, err := strconv.ParseInt(v.s, 10, 64); err == nil && strconv.FormatInt(i, 10) == v.s && i != math.MinInt64 {
			add(func() *sqlSpelt {
				iv := c15Val{ty: sql.IntegerType, i: i}
				switch k := rng.Intn(3); {
				case k == 0 && ins:
					return &sqlSpelt{Kind: "vc-int.literal", Text: v.s, Raw: i}
				case k == 1 && ins:
					return &sqlSpelt{Kind: "vc-int.param", Text: "@?", Params: []c15Val{iv}, Raw: i}
				}
				return &sqlSpelt{Kind: "vc-int.cast", Text: "CAST(" + v.s + " AS VARCHAR)", Cast: true}
			})
		} else if f, err := strconv.ParseFloat(v.s, 64); err == nil && !math.IsInf(f, 0) && !math.IsNaN(f) && f != 0 && strconv.FormatFloat(f, 'g', -1, 64) == v.s {
			add(func() *sqlSpelt {
				fv := c15Val{ty: sql.Float64Type, f: math.Float64bits(f)}
				lit := sqlLit(fv, &sqlParams{noParams: true}, nil)
				if back, err := strconv.ParseFloat(lit, 64); err != nil || back != f || len(lit) > 40 {
					lit = ""
				}
				switch k := rng.Intn(3); {
				case k == 0 && ins && lit != "":
					return &sqlSpelt{Kind: "vc-float.literal", Text: lit, Raw: f}
				case k == 1 && ins:
					return &sqlSpelt{Kind: "vc-float.param", Text: "@?", Params: []c15Val{fv}, Raw: f}
				}
				return &sqlSpelt{Kind: "vc-float.cast-param", Text: "CAST(@? AS VARCHAR)", Params: []c15Val{fv}, Cast: true}
			})
		} else if v.s == "true" || v.s == "false" {
			add(func() *sqlSpelt {
				bv := c15Val{ty: sql.BooleanType, b: v.s == "true"}
				switch k := rng.Intn(3); {
				case k == 0 && ins:
					return &sqlSpelt{Kind: "vc-bool.literal", Text: v.s, Raw: bv.b}
				case k == 1 && ins:
					return &sqlSpelt{Kind: "vc-bool.param", Text: "@?", Params: []c15Val{bv}, Raw: bv.b}
				}
				return &sqlSpelt{Kind: "vc-bool.cast", Text: "CAST(" + v.s + " AS VARCHAR)", Cast: true}
			})
		}
	case sql.BLOBType:
		if sqlPlainASCII(string(v.x)) {
			add(func() *sqlSpelt {
				return &sqlSpelt{Kind: "blob-str.cast", Text: "CAST(" + sqlQuote(string(v.x)) + " AS BLOB)", Cast: true}
			})
		}
		if len(v.x) == 16 {
			add(func() *sqlSpelt {
				var u [16]byte
				copy(u[:], v.x)
				return &sqlSpelt{Kind: "blob-uuid.cast", Text: "CAST(CAST('" + uuid.UUID(u).String() + "' AS UUID) AS BLOB)", Cast: true}
			})
		}
	}
	if len(cands) == 0 {
		return nil
	}
	for try := 0; try < 4; try++ {
		sp := cands[rng.Intn(len(cands))]()
		if sp == nil || (castOnly && !sp.Cast) {
			continue
		}
		if pos == "where" && !sp.Cast {
			continue
		}
		return sp
	}
	return nil
}

// ---------------------------------------------------------------- codec-level oracle and Lean tie

// the column is the CHECK's column
func (c *c12Case) checkCol(ci int) bool {
	if c.sc.Check == nil {
		return false
	}
	m := map[int]bool{}
	c.sc.Check.P.cols(m)
	return m[ci]
}

func (c *c12Case) uniqueCol(ci int) bool {
	if c.sc.isPK(ci) {
		return true
	}
	for _, ix := range c.idxLive {
		if ix.Unique {
			for _, k := range ix.Cols {
				if k == ci {
					return true
				}
			}
		}
	}
	return false
}

// a spelling was chosen for stored value v of column ci: distribution, and for implicit conversions the key the
// statement will probe against the key the indexer will derive from the stored row
func (c *c12Case) noteSpell(ci int, v c15Val, sp *sqlSpelt, pos string) {
	r, col := c.r, c.sc.Cols[ci]
	r.Count("spell.kind." + sp.Kind)
	r.Count("spell.pos." + pos)
	r.Count("spell.type." + c15TyName(col.Ty))
	if sp.Lossy {
		r.Count("spell.below-stored-precision")
	}
	if c.keyedCol(ci) {
		r.Count("spell.keyed-column")
	}
	if sp.Raw == nil || col.keyLen() <= 0 {
		return
	}
	r.OracleChecks++
	show := fmt.Sprintf("column %s %s, value written as %s (%s), stored value %s", col.Name, col.typeDecl(), sp.Text, c15Tok(sp.Raw), sqlValShow(v))
	probe, _, err := sql.EncodeRawValueAsKey(sp.Raw, col.Ty, col.keyLen())
	if err != nil {
		if !refFits(col, v) {
			return // too long for the column: rejected by both encoders
		}
		c.fail("C12:conv:spelling-rejected-by-key-encoder", fmt.Sprintf("EncodeRawValueAsKey fails with %v: %s", err, show))
		return
	}
	enc, err := sql.EncodeRawValue(sp.Raw, col.Ty, col.MaxLen, false)
	if err != nil {
		c.fail("C12:conv:spelling-rejected-by-value-encoder", fmt.Sprintf("EncodeRawValue fails with %v although the key encoder accepts the value: %s", err, show))
		return
	}
	dec, _, err := sql.DecodeValue(enc, col.Ty)
	if err != nil {
		c.fail("C12:conv:stored-value-unreadable", fmt.Sprintf("DecodeValue fails with %v: %s", err, show))
		return
	}
	if got := sqlFromTyped(dec); got.tok() != v.tok() {
		c.fail("C12:conv:stored-value-differs-from-denoted-value", fmt.Sprintf("the row stores %s: %s", sqlValShow(got), show))
	}
	idx, _, err := sql.EncodeValueAsKey(dec, col.Ty, col.keyLen())
	if err != nil {
		c.fail("C12:conv:stored-value-not-key-encodable", fmt.Sprintf("EncodeValueAsKey(stored) fails with %v: %s", err, show))
		return
	}
	r.Count("spell.key-agreement-checked")
	if !bytes.Equal(probe, idx) {
		c.fail("C12:key:statement-side-key-differs-from-indexer-key", fmt.Sprintf("the statement probes key %s (EncodeRawValueAsKey of the value as written) but the entry the indexer derives from the stored row is %s: PK existence check and UNIQUE lookup cannot find the committed row. %s", hexs(probe), hexs(idx), show))
	}
	if col.Ty == sql.TimestampType && !sp.Inst.IsZero() {
		// Lean tie: the converter model (`Sql/Conv.lean`) on the instant the text denotes
		c.r.Corr(fmt.Sprintf("c12 conv ts %d %d", sp.Inst.Unix(), sp.Inst.Nanosecond()), hexs(probe)+" "+hexs(idx))
	}
}

// R25: `deprecateIndexEntries` (UPSERT of an existing key, UPDATE) compares the row's CURRENT value of every column of
// every secondary index with the new value AS WRITTEN (`currVal.Compare(newVal)`, before any conversion): a TIMESTAMP /
// UUID / … column written as a string (accepted for a new row and for a column that is in no index) fails with
// ErrNotComparableValues.  Exact condition for the attribution: the statement re-writes existing rows and writes a
// column of a secondary index with an implicitly converted value.
const c12R25 = ":value-of-another-type-for-indexed-column-of-existing-row"

// R26: `checkConstraints` is evaluated on the row of values AS WRITTEN (`UpsertIntoStmt.execAt` puts `rval` into the row
// without converting it to the column type; the conversion happens later, inside EncodeValue / EncodeValueAsKey): an
// INTEGER column written as 1.99 passes `CHECK (b <> 1)` and stores 1; written as '10' it fails the CHECK with a
// comparison error although 10 satisfies it.  Exact condition: INSERT family, the CHECK's column written with an
// implicitly converted value.
const c12R26 = ":check-evaluated-on-value-as-written"

func (c *c12Case) implicitOnCheck(d *dml) bool {
	if d == nil || c.sc.Check == nil {
		return false
	}
	for k, sp := range d.Spell {
		if sp != nil && !sp.Cast && c.checkCol(k[1]) {
			return true
		}
	}
	return false
}

func (c *c12Case) idxCol(ci int) bool {
	for _, ix := range c.idxLive {
		for _, k := range ix.Cols {
			if k == ci {
				return true
			}
		}
	}
	return false
}

func (c *c12Case) implicitOnIndexed(d *dml) bool {
	if d == nil {
		return false
	}
	switch d.K {
	case "upsert":
		for k, sp := range d.Spell {
			if sp != nil && !sp.Cast && c.idxCol(k[1]) {
				return true
			}
		}
	case "update":
		for _, s := range d.Set {
			if s.Sp != nil && !s.Sp.Cast && c.idxCol(s.Col) {
				return true
			}
		}
	}
	return false
}

// ---------------------------------------------------------------- respelling a generated statement

func (c *c12Case) spellDML(d *dml, rng *hx.Rng, pKeyed, pOther int) int {
	sc := c.sc
	n := 0
	// under the Lean tie the statement has to behave as the model's typed statement: no implicit conversion for a CHECK
	// column (the CHECK is evaluated on the value as written) nor where R25 strikes
	castOnly := func(ci int) bool {
		return sc.Cols[ci].AutoInc || (c.corr && (c.checkCol(ci) || ((d.K == "upsert" || d.K == "update") && c.idxCol(ci))))
	}
	prob := func(ci int) int {
		if c.keyedCol(ci) {
			return pKeyed
		}
		return pOther
	}
	switch d.K {
	case "insert", "upsert", "insert-ocn":
		for ri, row := range d.Rows {
			var spelled []int
			lossy := false
			for k, v := range row {
				ci := d.Cols[k]
				if v.null || rng.Intn(100) >= prob(ci) {
					continue
				}
				sp := sqlSpellValue(rng, sc.Cols[ci], v, "ins", castOnly(ci))
				if sp == nil {
					continue
				}
				if d.Spell == nil {
					d.Spell = map[[2]int]*sqlSpelt{}
				}
				d.Spell[[2]int{ri, ci}] = sp
				c.noteSpell(ci, v, sp, "ins")
				spelled = append(spelled, ci)
				lossy = lossy || sp.Lossy
				n++
			}
			if len(spelled) > 0 {
				c.noteMeet(d, row, spelled, lossy)
			}
		}
	case "update":
		for k := range d.Set {
			s := &d.Set[k]
			if s.Incr || s.V.null || rng.Intn(100) >= prob(s.Col) {
				continue
			}
			if sp := sqlSpellValue(rng, sc.Cols[s.Col], s.V, "set", castOnly(s.Col)); sp != nil {
				s.Sp = sp
				c.noteSpell(s.Col, s.V, sp, "set")
				n++
			}
		}
	}
	if d.Where != nil && !c.corr {
		n += c.spellWhere(d.Where, rng, pKeyed)
	}
	return n
}

func (c *c12Case) spellWhere(p *pexp, rng *hx.Rng, prob int) int {
	if p == nil {
		return 0
	}
	switch p.K {
	case "and", "or":
		return c.spellWhere(p.L, rng, prob) + c.spellWhere(p.R, rng, prob)
	case "not":
		return c.spellWhere(p.L, rng, prob)
	case "cmp":
		if p.V.null || p.V.ty != c.sc.Cols[p.Col].Ty || rng.Intn(100) >= prob {
			return 0
		}
		if sp := sqlSpellValue(rng, c.sc.Cols[p.Col], p.V, "where", true); sp != nil {
			p.Sp = sp
			c.noteSpell(p.Col, p.V, sp, "where")
			return 1
		}
	}
	return 0
}

// the respelled VALUES row holds the key / a UNIQUE tuple of a live row: the statement-side lookup has to find it
func (c *c12Case) noteMeet(d *dml, row []c15Val, spelled []int, lossy bool) {
	if c.ref == nil {
		return
	}
	val := func(ci int) (c15Val, bool) {
		if k := dmlColPos(d, ci); k >= 0 {
			return row[k], true
		}
		return c15Val{}, false
	}
	meets := func(cols []int) bool {
		any := false
		for _, ci := range cols {
			for _, s := range spelled {
				if s == ci {
					any = true
				}
			}
		}
		if !any {
			return false
		}
		for _, live := range c.ref.rows {
			same := true
			for _, ci := range cols {
				v, ok := val(ci)
				if !ok || v.null || live[ci].null || sqlCmpVal(v, live[ci]) != 0 {
					same = false
					break
				}
			}
			if same {
				return true
			}
		}
		return false
	}
	sfx := ""
	if lossy {
		sfx = ".below-stored-precision"
	}
	if meets(c.sc.PK) {
		c.r.Count("spell.meet.pk")
		c.r.Count("spell.meet.pk" + sfx)
	}
	for _, ix := range c.idxLive {
		if ix.Unique && meets(ix.Cols) {
			c.r.Count("spell.meet.unique")
			c.r.Count("spell.meet.unique" + sfx)
		}
	}
}

// bias of the sequential cases (own stream; the statements of the older modes are unchanged but for the text of the
// respelled values)
func (c *c12Case) maybeSpell(d *dml) {
	if c.sp == nil || c.sp.Intn(3) != 0 {
		return
	}
	if c.spellDML(d, c.sp, 70, 25) > 0 {
		c.r.Count("spell.injected")
	}
}

// ---------------------------------------------------------------- dedicated cases

var c12SpellKeyTypes = []sql.SQLValueType{sql.TimestampType, sql.IntegerType, sql.Float64Type, sql.UUIDType, sql.VarcharType, sql.TimestampType, sql.BooleanType, sql.BLOBType}

func c12SpellCol(rng *hx.Rng, name string, ty sql.SQLValueType) sqlCol {
	col := sqlNewCol(rng, name, ty, sqlGenOpts{})
	switch ty {
	case sql.VarcharType:
		col.MaxLen = 12
		col.Pool = nil
		for _, s := range []string{"12", "-3", "1.5", "true", "false", "ab", "7", "007", "1e+06", "0"} {
			if rng.Intn(3) != 0 {
				col.Pool = append(col.Pool, sqlVarcharVal(s))
			}
		}
		col.Pool = append(col.Pool, sqlVarcharVal("5"), sqlVarcharVal("2.5"))
	case sql.BLOBType:
		col.MaxLen = 16
		col.Pool = []c15Val{{ty: ty, x: []byte("ab")}, {ty: ty, x: []byte{}}, {ty: ty, x: []byte("0123456789abcdef")}, {ty: ty, x: rng.Bytes(16)}, {ty: ty, x: rng.Bytes(3)}, {ty: ty, x: []byte("Z")}}
	case sql.TimestampType:
		mk := func(s, us int64) c15Val { return c15Val{ty: ty, t: time.Unix(s, us*1000).UTC()} }
		col.Pool = append(col.Pool, mk(951782400, 0), mk(1714979280, 0), mk(1714979289, 500000))
	}
	return col
}

func c12SpellSchema(rng *hx.Rng, variant int) *sqlSchema {
	sc := &sqlSchema{Name: "t"}
	kt := c12SpellKeyTypes[variant%len(c12SpellKeyTypes)]
	switch {
	case kt == sql.BooleanType:
		sc.Cols = append(sc.Cols, c12SpellCol(rng, "k1", kt), c12SpellCol(rng, "k2", sql.IntegerType))
		sc.PK = []int{0, 1}
	case variant%len(c12SpellKeyTypes) == 5:
		sc.Cols = append(sc.Cols, c12SpellCol(rng, "k1", sql.IntegerType), c12SpellCol(rng, "k2", kt))
		sc.PK = []int{0, 1}
	default:
		sc.Cols = append(sc.Cols, c12SpellCol(rng, "id", kt))
		sc.PK = []int{0}
	}
	// two UNIQUE columns of other types, one of them possibly in a two-column UNIQUE index, and a payload
	others := []sql.SQLValueType{sql.TimestampType, sql.IntegerType, sql.Float64Type, sql.UUIDType, sql.VarcharType}
	rngShuffle(rng, len(others), func(i, j int) { others[i], others[j] = others[j], others[i] })
	if kt != sql.TimestampType && rng.Intn(3) != 0 {
		// a TIMESTAMP column under a UNIQUE index in most tables whose key is of another type
		for i, ty := range others {
			if ty == sql.TimestampType {
				others[0], others[i] = others[i], others[0]
			}
		}
	}
	u1 := c12SpellCol(rng, "u1", others[0])
	u2 := c12SpellCol(rng, "u2", others[1])
	p := c12SpellCol(rng, "p", sql.IntegerType)
	u1.NotNull = rng.Intn(3) == 0
	sc.Cols = append(sc.Cols, u1, u2, p)
	n := len(sc.Cols)
	sc.Idx = []sqlIdx{{Cols: []int{n - 3}, Unique: true}}
	switch rng.Intn(3) {
	case 0:
		sc.Idx = append(sc.Idx, sqlIdx{Cols: []int{n - 2}, Unique: true})
	case 1:
		sc.Idx = append(sc.Idx, sqlIdx{Cols: []int{n - 2, n - 1}, Unique: true})
	}
	return sc
}

// a value of column ci that no live row holds there (nil = none found)
func (c *c12Case) spellFresh(ci int) (c15Val, bool) {
	col := c.sc.Cols[ci]
	for try := 0; try < 40; try++ {
		var v c15Val
		if try < 12 && len(col.Pool) > 0 {
			v = col.Pool[c.rng.Intn(len(col.Pool))]
		} else {
			v = sqlGenVal(c.rng, col, sqlGenOpts{}, true)
		}
		if v.null || !refFits(col, v) || sqlIsNegZero(v) || (v.ty == sql.Float64Type && math.IsNaN(math.Float64frombits(v.f))) {
			continue
		}
		taken := false
		for _, live := range c.ref.rows {
			if !live[ci].null && sqlCmpVal(v, live[ci]) == 0 {
				taken = true
				break
			}
		}
		if !taken {
			return v, true
		}
	}
	return c15Val{}, false
}

// one VALUES row: target "pk" = the key of a live row, "uq<i>" = the tuple of a live row under UNIQUE index i with a
// fresh key, "" = fresh key, other values by chance
func (c *c12Case) spellRow(kind, target string) *dml {
	sc, rng := c.sc, c.rng
	d := &dml{K: kind}
	row := make([]c15Val, len(sc.Cols))
	for ci, col := range sc.Cols {
		row[ci] = sqlGenVal(rng, col, sqlGenOpts{}, sc.isPK(ci))
		if sqlIsNegZero(row[ci]) {
			row[ci] = c15Val{ty: col.Ty}
		}
	}
	// fresh values under every UNIQUE index and a fresh key, then the wanted collision
	for _, ix := range c.idxLive {
		if ix.Unique {
			ci := ix.Cols[0]
			if v, ok := c.spellFresh(ci); ok {
				row[ci] = v
			}
		}
	}
	kc := sc.PK[len(sc.PK)-1]
	if sc.Cols[sc.PK[0]].Ty != sql.BooleanType && rng.Bool() {
		kc = sc.PK[0]
	}
	if v, ok := c.spellFresh(kc); ok {
		row[kc] = v
	}
	if len(c.ref.rows) > 0 {
		live := c.ref.rows[rng.Intn(len(c.ref.rows))]
		switch {
		case target == "pk":
			for _, ci := range sc.PK {
				row[ci] = live[ci]
			}
		case strings.HasPrefix(target, "uq"):
			n, _ := strconv.Atoi(target[2:])
			if n < len(c.idxLive) {
				for _, ci := range c.idxLive[n].Cols {
					if !sc.isPK(ci) && !live[ci].null {
						row[ci] = live[ci]
					}
				}
			}
		}
	}
	var vals []c15Val
	for ci := range sc.Cols {
		if !sc.isPK(ci) && !c.keyedCol(ci) && rng.Intn(5) == 0 {
			continue // column omitted
		}
		d.Cols = append(d.Cols, ci)
		vals = append(vals, row[ci])
	}
	d.Rows = [][]c15Val{vals}
	return d
}

func (c *c12Case) spellKeyPred(live []c15Val) *pexp {
	var p *pexp
	for _, ci := range c.sc.PK {
		a := &pexp{K: "cmp", Col: ci, Op: "=", V: live[ci]}
		if p == nil {
			p = a
		} else {
			p = &pexp{K: "and", L: p, R: a}
		}
	}
	return p
}

func (c *c12Case) runSpellings(thorough bool, variant int) {
	r, rng := c.r, c.rng
	r.NextCase()
	c.sc = c12SpellSchema(rng, variant)
	if !c.setupSchema("c12s") {
		return
	}
	defer c.env.close()
	r.Count("mode.spellings")
	r.Count("spell.keytype." + c15TyName(c.sc.Cols[c.sc.PK[len(c.sc.PK)-1]].Ty))
	// Lean tie as in the other indexed cases (autocommit statements writing one row); every second case runs without
	// it, which frees the WHERE constants for respelling
	c.single = true
	if variant%2 == 0 || variant%len(c12SpellKeyTypes) == 0 {
		c.corr = true
		r.Count("corr.single-row")
		c.r.Corr("c12 tbl "+c12SchemaToks(c.sc, c.idxLive), "ok")
	} else {
		r.Count("corr.off")
	}
	run := func(d *dml, pKeyed int) {
		if c.spellDML(d, rng, pKeyed, 30) > 0 {
			r.Count("spell.sweep")
		}
		c.forced = d
		c.unit()
		c.forced = nil
	}
	targets := []string{"pk", "pk", "", ""}
	for i := range c.idxLive {
		if c.idxLive[i].Unique {
			targets = append(targets, "uq"+strconv.Itoa(i), "uq"+strconv.Itoa(i))
		}
	}
	// phase A: INSERT family only — no deleted index entries yet, nothing of what follows can be attributed to R2
	nA, nB := 26, 18
	if thorough {
		nA, nB = 60, 60
	}
	for i := 0; i < nA && !c.dead; i++ {
		kind := "insert"
		if rng.Intn(5) == 0 {
			kind = "insert-ocn"
		}
		tg := targets[rng.Intn(len(targets))]
		if i < 3 {
			tg = ""
		}
		run(c.spellRow(kind, tg), 85)
	}
	// phase B: the whole statement mix, addressed by key
	for i := 0; i < nB && !c.dead; i++ {
		var d *dml
		switch k := rng.Intn(10); {
		case k < 4 || len(c.ref.rows) == 0:
			d = c.spellRow([]string{"insert", "upsert", "insert-ocn"}[rng.Intn(3)], targets[rng.Intn(len(targets))])
		case k < 8:
			live := c.ref.rows[rng.Intn(len(c.ref.rows))]
			d = &dml{K: "update", Where: c.spellKeyPred(live)}
			ix := c.idxLive[rng.Intn(len(c.idxLive))]
			ci := ix.Cols[0]
			v, ok := c.spellFresh(ci)
			if other := c.ref.rows[rng.Intn(len(c.ref.rows))]; rng.Intn(3) == 0 && !other[ci].null {
				v, ok = other[ci], true // the value another (or this) row holds
			}
			if !ok || c.sc.isPK(ci) {
				ci = len(c.sc.Cols) - 1
				v = sqlGenVal(rng, c.sc.Cols[ci], sqlGenOpts{}, true)
			}
			d.Set = []dmlSet{{Col: ci, V: v}}
		default:
			d = &dml{K: "delete", Where: c.spellKeyPred(c.ref.rows[rng.Intn(len(c.ref.rows))])}
		}
		run(d, 85)
	}
	if len(r.Samples) < 5 {
		r.Sample(map[string]interface{}{"case": r.Case(), "mode": "spellings", "schema": c.sc.createTable("t"), "script_tail": c.script[max(0, len(c.script)-8):]})
	}
}
