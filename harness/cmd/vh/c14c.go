package main

// C14, third part: histories in which the order of the values in a value log and the order of the tx ids differ
// by an ARBITRARY depth — in particular by more than MaxConcurrency.
//
// MaxConcurrency bounds how many committers are in flight at one instant, not by how many ids a committer that
// has already put its values into a value log can be overtaken: it keeps ONE pooled tx while the other
// MaxConcurrency-1 slots go on committing.  Two ways to such a history, both through the public API only:
//
//  (1) deterministic, replication path (c14OvertakeCase): ReplicateTx(L) appends the values of tx L and then waits
//      for tx L-1.  The call for a "late" tx L is started when the last committed tx is s-1 (any s < L, any number
//      of late txs as long as a pooled tx is left for the in-order calls), the state signal "values are in the
//      value log" is the counting Appendable; then s, s+1, … are replicated in order.  Depth L-s is drawn from
//      1 … txs, biased above MaxConcurrency; MaxConcurrency 2…6, MaxActiveTransactions from the exact minimum the
//      schedule needs (boundary of the `hdr.ID > lastPrecommitted+MaxActiveTransactions` guard) to the default,
//      MaxIOConcurrency 1…3, FileSize 48…256.
//  (2) statistical, primary path (c14HeavyCase): MaxConcurrency committers, one of them committing txs with
//      hundreds of entries with long keys (the value write is short, BuildHashTree between the value write and the
//      commit lock is long), the others tiny txs in a loop.
//
// Then, with everything COMMITTED (this is not the in-flight weakness K6), TruncateUptoTx(n) for every n (or an
// ascending subsequence), after each cut the model-independent oracle (every value of every tx >= n readable and equal
// to what was written: ReadValue, ExportTx, Get), on the live store and after reopen, and the correspondence of the
// tombstones / chunk files / readability with the Lean model (whose forward walk visits every tx n … last).

import (
	"bytes"
	"context"
	"fmt"
	"os"
	"path/filepath"
	"sort"
	"strings"
	"sync"
	"sync/atomic"
	"time"

	"github.com/codenotary/immudb/embedded/store"

	"verif/harness/internal/hx"
)

// ReplicateTx(id) is started when the last committed tx is start-1
type c14Late struct{ id, start uint64 }

func c14FmtLate(ls []c14Late) string {
	var s []string
	for _, l := range ls {
		s = append(s, fmt.Sprintf("%d@%d", l.id, l.start))
	}
	return "[" + strings.Join(s, " ") + "]"
}

// late committers: at every instant at most mc-1 of them are waiting (each keeps a pooled tx), depth biased above mc
func c14GenLate(rng *hx.Rng, nTx, mc int) []c14Late {
	var late []c14Late
	used := map[uint64]bool{}
	cover := make([]int, nTx+2)
	want := 1 + rng.Intn(3)
	for a := 0; a < 12 && len(late) < want; a++ {
		s := 1 + rng.Intn(nTx-1)
		if rng.Chance(40) {
			s = 1 + rng.Intn(3)
			if s > nTx-1 {
				s = nTx - 1
			}
		}
		maxDepth := nTx - s
		var depth int
		if maxDepth > mc && rng.Chance(65) {
			depth = mc + 1 + rng.Intn(maxDepth-mc)
		} else {
			m := maxDepth
			if m > mc {
				m = mc
			}
			depth = 1 + rng.Intn(m)
		}
		L := s + depth
		if used[uint64(L)] {
			continue
		}
		ok := true
		for t := s; t < L; t++ {
			if cover[t]+1 > mc-1 {
				ok = false
				break
			}
		}
		if !ok {
			continue
		}
		for t := s; t < L; t++ {
			cover[t]++
		}
		used[uint64(L)] = true
		late = append(late, c14Late{uint64(L), uint64(s)})
	}
	sort.Slice(late, func(i, j int) bool {
		if late[i].start != late[j].start {
			return late[i].start < late[j].start
		}
		return late[i].id < late[j].id
	})
	return late
}

// sequential history on a primary, exported tx by tx
func (c *c14Case) exportHistory(specs []*c14Spec, pdir string) (map[uint64][]byte, error) {
	prim, err := store.Open(pdir, c14Options(1<<16, 1, false, nil, true, nil))
	if err != nil {
		return nil, err
	}
	defer prim.Close()
	exp := map[uint64][]byte{}
	for i, sp := range specs {
		id, err := c14CommitSpec(prim, sp)
		if err != nil || id != uint64(i+1) {
			return nil, fmt.Errorf("primary commit %d: id %d err %v", i+1, id, err)
		}
		tx := store.NewTx(prim.MaxTxEntries(), prim.MaxKeyLen())
		bs, err := prim.ExportTx(id, false, false, tx)
		if err != nil {
			return nil, err
		}
		exp[id] = bs
		c.specs[id] = sp
	}
	return exp, nil
}

// replicate 1 … n in order; the call of a late tx is started early (and has its values in a value log before the
// next call starts: state signal from the counting Appendable)
func (c *c14Case) replicateScheduled(exp map[uint64][]byte, specs []*c14Spec, late []c14Late) error {
	ctx := context.Background()
	n := uint64(len(specs))
	startAt := map[uint64][]uint64{}
	for _, l := range late {
		startAt[l.start] = append(startAt[l.start], l.id)
	}
	pending := map[uint64]chan error{}
	for id := uint64(1); id <= n; id++ {
		for _, L := range startAt[id] {
			nonEmpty := int64(0)
			for _, e := range specs[L-1].ents {
				if len(e.val) > 0 {
					nonEmpty++
				}
			}
			before := c.cnt.Load()
			ch := make(chan error, 1)
			pending[L] = ch
			go func(L uint64) { _, err := c.st.ReplicateTx(ctx, exp[L], false, false); ch <- err }(L)
			staged := false
			for k := 0; k < 20000 && len(ch) == 0; k++ {
				if c.cnt.Load() >= before+nonEmpty {
					staged = true
					break
				}
				time.Sleep(500 * time.Microsecond)
			}
			if len(ch) > 0 {
				// finished already: legal when its predecessor is itself a late tx that has just been let go
				err := <-ch
				if err != nil {
					return fmt.Errorf("ReplicateTx(%d) started with last committed tx %d: %w", L, id-1, err)
				}
				ch <- nil
				staged = true
			}
			if !staged {
				c.r.Count("overtake.late-not-staged")
			}
		}
		if ch, ok := pending[id]; ok {
			select {
			case err := <-ch:
				if err != nil {
					return fmt.Errorf("late ReplicateTx(%d): %w", id, err)
				}
			case <-time.After(c14Liveness):
				return fmt.Errorf("late ReplicateTx(%d) did not finish after tx %d was committed", id, id-1)
			}
			delete(pending, id)
			continue
		}
		if _, err := c.st.ReplicateTx(ctx, exp[id], false, false); err != nil {
			return fmt.Errorf("ReplicateTx(%d): %w", id, err)
		}
	}
	return nil
}

// how far value-log order and id order differ: the largest id distance j-i of two txs i < j of one value log whose
// first values are in inverted order; exposed = such a pair more than `mc` ids apart with tx j's first value in a
// LOWER chunk (truncating up to i must keep that chunk although tx j is far away in the tx log)
func (c *c14Case) overtakeDepth(mc int) (depth int, exposed int) {
	type fo struct {
		id  uint64
		off int64
	}
	per := map[int][]fo{}
	for id := uint64(1); id <= c.sent; id++ {
		if ls := c.locs[id]; len(ls) > 0 {
			per[ls[0].vlog] = append(per[ls[0].vlog], fo{id, ls[0].off})
		}
	}
	for _, xs := range per {
		for a := 0; a < len(xs); a++ {
			for b := a + 1; b < len(xs); b++ {
				if xs[b].off < xs[a].off {
					d := int(xs[b].id - xs[a].id)
					if d > depth {
						depth = d
					}
					if d > mc && xs[b].off/int64(c.F) < xs[a].off/int64(c.F) {
						exposed++
					}
				}
			}
		}
	}
	return
}

func (c *c14Case) countDepth(mc int, fam string) bool {
	depth, exposed := c.overtakeDepth(mc)
	switch {
	case depth == 0:
		c.r.Count(fam + ".depth=0")
	case depth <= mc:
		c.r.Count(fam + ".depth<=MaxConcurrency")
	case depth <= 2*mc:
		c.r.Count(fam + ".depth<=2*MaxConcurrency")
	default:
		c.r.Count(fam + ".depth>2*MaxConcurrency")
	}
	if exposed > 0 {
		c.r.Count(fam + ".lower-chunk-needed-by-tx-beyond-MaxConcurrency")
	}
	return exposed > 0
}

// the oracle on the values alone (no model lines): every entry of every tx >= cut is readable and equal
func (c *c14Case) checkValues(phase string) {
	r := c.r
	last := c.st.LastCommittedTxID()
	from := c.cut
	if from < 1 {
		from = 1
	}
	tx := store.NewTx(c.st.MaxTxEntries(), c.st.MaxKeyLen())
	for id := from; id <= last; id++ {
		sp := c.specs[id]
		r.OracleChecks++
		if err := c.st.ReadTx(id, false, tx); err != nil {
			r.Fail("C14:ReadTx:fails-after-truncation", fmt.Sprintf("%s: ReadTx(%d): %v", phase, id, err), c.label)
			continue
		}
		for i, e := range tx.Entries() {
			r.OracleChecks++
			v, err := c.st.ReadValue(e)
			if err != nil {
				r.Fail("C14:ReadValue:unreadable-at-or-after-cut", fmt.Sprintf("%s: cut %d tx %d entry %d loc %+v: %v", phase, c.cut, id, i, c.locs[id][i], err), c.label)
			} else if sp != nil && i < len(sp.ents) && !bytes.Equal(v, sp.ents[i].val) {
				r.Fail("C14:ReadValue:different-value-at-or-after-cut", fmt.Sprintf("%s: cut %d tx %d entry %d", phase, c.cut, id, i), c.label)
			}
		}
	}
}

func (c *c14Case) reopen(phase string) bool {
	if err := c.st.Close(); err != nil {
		c.r.Fail("C14:Close:fails-after-truncation", err.Error(), c.label)
	}
	c.st = nil
	if err := c.open(); err != nil {
		c.r.Fail("C14:Open:fails-after-truncation", err.Error(), c.label)
		return false
	}
	c.r.Count("reopen")
	for v := 1; v <= c.io; v++ {
		c.r.Corr(fmt.Sprintf("c14 chunks %d", v), c14Ints(c.chunkFiles(v)))
	}
	c.checkAll(phase)
	if c.broken {
		return false
	}
	c.syncVLogs()
	return true
}

// cuts over a finished history: every n ascending (or an ascending subsequence), the value oracle after every cut, the full
// oracle + model lines after some of them and after the last one, reopen in between and at the end
func (c *c14Case) sweepCuts(rng *hx.Rng, every bool, nontrivial bool) {
	r := c.r
	last := c.sent
	var cuts []uint64
	if every {
		for n := uint64(1); n <= last; n++ {
			cuts = append(cuts, n)
		}
		r.Count("overtake.cuts=every-n")
	} else {
		n := uint64(1 + rng.Intn(int(last)))
		for n <= last {
			cuts = append(cuts, n)
			if rng.Chance(15) {
				cuts = append(cuts, n)
			}
			n += uint64(1 + rng.Intn(4))
		}
		r.Count("overtake.cuts=ascending-subsequence")
	}
	reopenAt := -1
	if rng.Chance(50) {
		reopenAt = rng.Intn(len(cuts))
	}
	removedAny := false
	for ci, n := range cuts {
		removed, _ := c.truncate(n)
		if removed > 0 {
			removedAny = true
			r.Count("trunc.removed-chunks")
		} else {
			r.Count("trunc.removed-nothing")
		}
		r.Eval(fmt.Sprintf("%s cut=%d#%d", c.label, n, ci), removed > 0 && nontrivial)
		if ci == len(cuts)-1 || rng.Chance(20) {
			c.checkAll(fmt.Sprintf("after-truncate-%d", n))
			if c.broken {
				return
			}
		} else {
			c.checkValues(fmt.Sprintf("after-truncate-%d", n))
		}
		if ci == reopenAt && !c.reopen(fmt.Sprintf("after-reopen-cut-%d", c.cut)) {
			return
		}
	}
	_ = removedAny
	// an older cut after the newest one, then restart
	if rng.Chance(30) {
		c.truncate(cuts[rng.Intn(len(cuts))])
		c.checkValues("after-older-cut")
	}
	c.reopen(fmt.Sprintf("after-final-reopen-cut-%d", c.cut))
}

func c14OvertakeCase(r *hx.Result, rng *hx.Rng, thorough bool, no int) error {
	r.NextCase()
	F := []int{48, 64, 100, 128, 256}[rng.Intn(5)]
	io := 1
	if rng.Chance(35) {
		io = 2 + rng.Intn(2)
	}
	mc := []int{2, 2, 3, 3, 4, 4, 5, 6}[rng.Intn(8)]
	nTx := 10 + rng.Intn(22)
	if thorough {
		nTx = 10 + rng.Intn(50)
	}
	late := c14GenLate(rng, nTx, mc)
	need := 1
	for _, l := range late {
		if d := int(l.id-l.start) + 1; d > need {
			need = d
		}
	}
	// MaxActiveTransactions: a replicated tx may be at most that far above the last precommitted one
	mat := 0
	switch rng.Intn(3) {
	case 0:
		mat = need
	case 1:
		mat = need + 1 + rng.Intn(8)
	}
	dir := hx.TempDir("c14ovt")
	defer os.RemoveAll(dir)
	label := fmt.Sprintf("overtake-case#%d F=%d io=%d MaxConcurrency=%d MaxActiveTransactions=%d txs=%d late(id@started-when-last-committed+1)=%s seed=%d: history exported from a sequential primary; replica: ReplicateTx in id order, late ones started early (values staged, waiting for the predecessor); all committed; then TruncateUptoTx(n) ascending",
		no, F, io, mc, mat, nTx, c14FmtLate(late), r.Seed)
	c := c14NewCase(r, label, filepath.Join(dir, "st"), F, io)
	c.whole = false
	c.mc, c.mat = mc, mat
	c.cnt = &atomic.Int64{}
	r.Count(fmt.Sprintf("config.overtake.F=%d", F))
	r.Count(fmt.Sprintf("config.overtake.io=%d", io))
	r.Count(fmt.Sprintf("config.overtake.MaxConcurrency=%d", mc))
	switch {
	case mat == 0:
		r.Count("config.overtake.MaxActiveTransactions=default")
	case mat == need:
		r.Count("config.overtake.MaxActiveTransactions=exact-minimum")
	default:
		r.Count("config.overtake.MaxActiveTransactions=small")
	}
	r.Count(fmt.Sprintf("config.overtake.late-committers=%d", len(late)))
	if err := c.open(); err != nil {
		return err
	}
	defer func() {
		if c.st != nil {
			c.st.Close()
		}
	}()
	r.Corr(fmt.Sprintf("c14 new %d %d 0", F, io), "ok")
	specs := c14GenSpecs(rng, nTx, F, "o", r)
	exp, err := c.exportHistory(specs, filepath.Join(dir, "primary"))
	if err != nil {
		return fmt.Errorf("%s: %w", label, err)
	}
	if err := c.replicateScheduled(exp, specs, late); err != nil {
		return fmt.Errorf("%s: %w", label, err)
	}
	if err := c.observe(); err != nil {
		return err
	}
	c.countOrder()
	exposed := c.countDepth(mc, "overtake")
	c.snapshotDuals(rng)
	c.syncVLogs()
	c.checkValues("before-truncation")
	c.sweepCuts(rng, rng.Chance(60), exposed)
	if no < 2 {
		d, e := c.overtakeDepth(mc)
		r.Sample(map[string]interface{}{"kind": "overtake-case", "label": c.label, "max-id-distance-of-inverted-pair": d, "pairs-needing-a-lower-chunk-beyond-MaxConcurrency": e})
	}
	return nil
}

// primary path: MaxConcurrency committers, one of them "heavy" (many entries with long keys: short value write, long
// hashing between the value write and the commit lock), the others commit tiny txs in a loop while a heavy commit is under way
func c14HeavyCase(r *hx.Result, rng *hx.Rng, thorough bool, no int) error {
	r.NextCase()
	F := []int{64, 128, 256}[rng.Intn(3)]
	io := 1
	if rng.Chance(30) {
		io = 2
	}
	mc := 2 + rng.Intn(3)
	heavyN := 6 + rng.Intn(5) // at most; the heavy committer stops when the others are done
	perLight := 160 / (mc - 1)
	if thorough {
		heavyN, perLight = 12+rng.Intn(8), 400/(mc-1)
	}
	const maxEntries, maxKey = 512, 256
	dir := hx.TempDir("c14heavy")
	defer os.RemoveAll(dir)
	label := fmt.Sprintf("heavy-committer-case#%d F=%d io=%d MaxConcurrency=%d: %d committers, one commits up to %d txs of %d entries (first value non-empty, long keys), the others 1-entry txs meanwhile; all committed; then TruncateUptoTx(n) ascending; seed=%d",
		no, F, io, mc, mc, heavyN, maxEntries, r.Seed)
	c := c14NewCase(r, label, filepath.Join(dir, "st"), F, io)
	c.whole = false
	c.mc = mc
	o := c14Options(F, io, false, c.lg, false, nil).WithMaxConcurrency(mc).WithMaxTxEntries(maxEntries).WithMaxKeyLen(maxKey)
	st, err := store.Open(c.dir, o)
	if err != nil {
		return err
	}
	c.st = st
	defer func() {
		if c.st != nil {
			c.st.Close()
		}
	}()
	r.Count(fmt.Sprintf("config.heavy.MaxConcurrency=%d", mc))
	r.Corr(fmt.Sprintf("c14 new %d %d 0", F, io), "ok")
	var lightsDone atomic.Int32
	var wg sync.WaitGroup
	var firstErr error
	record := func(id uint64, sp *c14Spec, err error) {
		c.mu.Lock()
		defer c.mu.Unlock()
		if err != nil {
			if firstErr == nil {
				firstErr = err
			}
			return
		}
		c.specs[id] = sp
	}
	seeds := make([]*hx.Rng, mc)
	for i := range seeds {
		seeds[i] = rng.Fork()
	}
	// a few txs first, so that cuts below the first heavy tx exist
	for i := 0; i < 2; i++ {
		sp := &c14Spec{ents: []c14Entry{{[]byte(fmt.Sprintf("pre-%d", i)), seeds[0].Bytes(1 + seeds[0].Intn(F))}}}
		id, err := c14CommitSpec(st, sp)
		record(id, sp, err)
	}
	wg.Add(1)
	go func() {
		defer wg.Done()
		g := seeds[0]
		for h := 0; h < heavyN && int(lightsDone.Load()) < mc-1; h++ {
			sp := &c14Spec{}
			for j := 0; j < maxEntries; j++ {
				key := []byte(fmt.Sprintf("heavy-%d-%d-%s", h, j, strings.Repeat("k", maxKey-24)))
				var val []byte
				if j == 0 {
					val = g.Bytes(1 + g.Intn(F/2))
				} else if g.Chance(3) {
					val = g.Bytes(1 + g.Intn(8))
				}
				sp.ents = append(sp.ents, c14Entry{key, val})
			}
			id, err := c14CommitSpec(st, sp)
			record(id, sp, err)
		}
	}()
	for w := 1; w < mc; w++ {
		wg.Add(1)
		go func(w int) {
			defer wg.Done()
			g := seeds[w]
			defer lightsDone.Add(1)
			for i := 0; i < perLight; i++ {
				sp := &c14Spec{ents: []c14Entry{{[]byte(fmt.Sprintf("light-%d-%d", w, i)), g.Bytes(F/4 + g.Intn(F))}}}
				id, err := c14CommitSpec(st, sp)
				record(id, sp, err)
			}
		}(w)
	}
	wg.Wait()
	if firstErr != nil {
		return fmt.Errorf("%s: commit: %w", label, firstErr)
	}
	if err := c.observe(); err != nil {
		return err
	}
	c.countOrder()
	exposed := c.countDepth(mc, "heavy")
	c.syncVLogs()
	r.CountN("heavy.txs", int(c.sent))
	// cuts: an ascending subsequence of at most ~24 cuts, value oracle after each, full check at the end
	last := c.sent
	step := uint64(1)
	if last > 24 {
		step = last / 24
	}
	var n uint64 = 1
	for ci := 0; n <= last; ci++ {
		removed, _ := c.truncate(n)
		r.Eval(fmt.Sprintf("%s cut=%d", c.label, n), removed > 0 && exposed)
		c.checkValues(fmt.Sprintf("after-truncate-%d", n))
		n += step + uint64(rng.Intn(2))
	}
	// Get / ExportTx on the live store for a sample of txs at or after the cut, then restart and the value oracle again
	for id := c.cut; id <= last; id += 1 + last/16 {
		cls, _ := c.export(id, c14Liveness)
		r.OracleChecks++
		if cls != "values" {
			r.Fail("C14:ExportTx:not-full-at-or-after-cut", fmt.Sprintf("heavy: cut %d ExportTx(%d) = %s", c.cut, id, cls), c.label)
		}
	}
	if err := c.st.Close(); err != nil {
		r.Fail("C14:Close:fails-after-truncation", err.Error(), c.label)
	}
	c.st = nil
	st, err = store.Open(c.dir, o)
	if err != nil {
		r.Fail("C14:Open:fails-after-truncation", err.Error(), c.label)
		return nil
	}
	c.st = st
	r.Count("reopen")
	for v := 1; v <= c.io; v++ {
		r.Corr(fmt.Sprintf("c14 chunks %d", v), c14Ints(c.chunkFiles(v)))
	}
	c.checkValues("after-reopen")
	return nil
}
