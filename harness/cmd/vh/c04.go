package main

// C04 — Reads reflect exactly the committed log (index agrees with history).
//
// Shared pieces: history generator, the independent Go reference ("content" = key -> versions and the read
// API as functions of a content), canonical answers, adapters for the real embedded/store read API,
// classification of index-content deviations against the (repaired) defects of indexer.indexSince, so that a
// returning defect is reported under its own signature.

import (
	"bytes"
	"context"
	"crypto/sha256"
	"errors"
	"fmt"
	"sort"
	"strings"
	"time"

	"github.com/codenotary/immudb/embedded/store"
	"github.com/codenotary/immudb/embedded/tbtree"

	"verif/harness/internal/hx"
)

func init() { runners["C04"] = runC04 }

// oracle signatures (known_findings.json: db.Count is a known finding, the indexSince / Snapshot.History /
// GetBetween ones are repaired and listed under "fixed")
const (
	c04SigAlias     = "C04:indexer.indexSince:key-aliasing-across-txs-in-bulk"
	c04SigInjBulk   = "C04:indexer.indexSince:injective-prev-lookup-at-bulk-start"
	c04SigTombMd    = "C04:indexer.indexSince:tombstone-not-deleted-when-prev-has-metadata"
	c04SigSnapHist  = "C04:Snapshot.History:wrong-revisions"
	c04SigDbCount   = "C04:db.Count:counts-deleted-and-expired-keys"
	c04SigContent   = "C04:index-content:differs-from-log"
	c04SigStaleMap  = "C04:mapped-index:stale-mapped-key-live"
	c04SigGet       = "C04:Get:stale-or-missing"
	c04SigGetBtw    = "C04:GetBetween:wrong-version"
	c04SigGetBtwHL  = "C04:GetBetween:foreign-version-after-history-log-chain"
	c04SigGwp       = "C04:GetWithPrefix:wrong-key"
	c04SigHist      = "C04:History:wrong-revisions"
	c04SigScan      = "C04:KeyReader:scan-differs"
	c04SigSnapGet   = "C04:Snapshot.Get:stale-or-missing"
	c04SigStuck     = "C04:indexing:stuck-or-failed"
	c04SigSnapStale = "C04:Snapshot:content-changed-after-later-writes"
)

// ---------------------------------------------------------------- history

type c04Ent struct {
	Key, Val []byte
	Deleted  bool
	NonIdx   bool
	Exp      int64 // unix seconds, 0 = not expirable
}

type c04Tx struct {
	ID   uint64
	Ents []c04Ent
}

type c04IdxDef struct {
	Src, Tgt   []byte
	SMap, TMap string // "none" | "pv:<hex>" (prefix ‖ first byte of value ‖ key) | "pk:<hex>" (prefix ‖ key)
	Inj        bool
}

func c04ApplyMap(kind string, k, v []byte) []byte {
	if kind == "none" {
		return k
	}
	p := strings.SplitN(kind, ":", 2)
	var pfx []byte
	if p[1] != "-" {
		pfx = mustUnhex(p[1])
	}
	out := append([]byte{}, pfx...)
	if p[0] == "pv" {
		if len(v) > 0 {
			out = append(out, v[0])
		} else {
			out = append(out, 0)
		}
	}
	return append(out, k...)
}

func mustUnhex(s string) []byte {
	b := make([]byte, len(s)/2)
	for i := 0; i < len(b); i++ {
		fmt.Sscanf(s[2*i:2*i+2], "%02x", &b[i])
	}
	return b
}

func c04Mapper(kind string) store.EntryMapper {
	if kind == "none" {
		return nil
	}
	return func(k, v []byte) ([]byte, error) { return c04ApplyMap(kind, k, v), nil }
}

func (d c04IdxDef) spec() *store.IndexSpec {
	return &store.IndexSpec{
		SourcePrefix: d.Src, TargetPrefix: d.Tgt,
		SourceEntryMapper: c04Mapper(d.SMap), TargetEntryMapper: c04Mapper(d.TMap),
		InjectiveMapping: d.Inj,
	}
}

func (d c04IdxDef) line() string {
	inj := "0"
	if d.Inj {
		inj = "1"
	}
	return fmt.Sprintf("c04 idx %s %s %s %s %s", hx.Hex(d.Src), hx.Hex(d.Tgt), d.SMap, d.TMap, inj)
}

func c04HasPrefix(k, p []byte) bool { return len(k) >= len(p) && bytes.Equal(k[:len(p)], p) }

func (e c04Ent) token() string {
	h := sha256.Sum256(e.Val)
	f := 0
	if e.Deleted {
		f |= 1
	}
	if e.NonIdx {
		f |= 2
	}
	exp := "-"
	if e.Exp != 0 {
		exp = fmt.Sprint(e.Exp)
	}
	return fmt.Sprintf("%s:%s:%s:%d:%s", hx.Hex(e.Key), hx.Hex(e.Val), hx.Hex(h[:]), f, exp)
}

func (t c04Tx) line() string {
	ts := make([]string, len(t.Ents))
	for i, e := range t.Ents {
		ts[i] = e.token()
	}
	return fmt.Sprintf("c04 tx %d %s", t.ID, strings.Join(ts, " "))
}

// ---------------------------------------------------------------- content (key -> versions) and the reference

type c04Ver struct {
	Tx      uint64
	VLen    int
	HVal    [32]byte
	Deleted bool
	NonIdx  bool
	Exp     int64
}

func (v c04Ver) md() string {
	f := 0
	if v.Deleted {
		f |= 1
	}
	if v.NonIdx {
		f |= 2
	}
	exp := "-"
	if v.Exp != 0 {
		exp = fmt.Sprint(v.Exp)
	}
	return fmt.Sprintf("%d:%s", f, exp)
}

func (v c04Ver) ref(rev int) string {
	return fmt.Sprintf("%d:%d:%d:%s:%s", v.Tx, rev, v.VLen, hx.Hex(v.HVal[:]), v.md())
}

func (v c04Ver) expiredAt(now int64) bool { return v.Exp != 0 && v.Exp <= now }

// content: versions oldest first
type c04Content map[string][]c04Ver

func (c c04Content) sortedKeys() []string {
	ks := make([]string, 0, len(c))
	for k := range c {
		ks = append(ks, k)
	}
	sort.Strings(ks)
	return ks
}

func entVer(id uint64, e c04Ent) c04Ver {
	return c04Ver{Tx: id, VLen: len(e.Val), HVal: sha256.Sum256(e.Val), Deleted: e.Deleted, NonIdx: e.NonIdx, Exp: e.Exp}
}

// reference store: replays acknowledged commits with PER-TRANSACTION semantics (what the index should hold)
type c04Ref struct {
	defs []c04IdxDef
	idx  []c04Content
	log  []c04Tx
}

func newC04Ref(defs []c04IdxDef) *c04Ref {
	r := &c04Ref{defs: defs}
	for range defs {
		r.idx = append(r.idx, c04Content{})
	}
	return r
}

func (r *c04Ref) txByID(id uint64) *c04Tx {
	for i := range r.log {
		if r.log[i].ID == id {
			return &r.log[i]
		}
	}
	return nil
}

// newest tx <= bound of key sk in the index whose target prefix covers sk (first declared match)
func (r *c04Ref) srcPrev(sk []byte, bound uint64, content func(i int) c04Content) (uint64, bool) {
	for i, d := range r.defs {
		if c04HasPrefix(sk, d.Tgt) {
			vs := content(i)[string(sk)]
			for j := len(vs) - 1; j >= 0; j-- {
				if vs[j].Tx <= bound {
					return vs[j].Tx, true
				}
			}
			return 0, false
		}
	}
	return 0, false
}

type c04KVT struct {
	Key  []byte
	Ver  c04Ver
	Tomb bool
	Pos  int // position of the originating entry in its tx
	// for tombstones: metadata of the previous entry (to recognise the as-coded variant)
	PrevMdEmpty bool
	PrevVer     c04Ver
}

// intended KVTs of tx for index i, previous row version looked up as of `asOf` in `content`
func (r *c04Ref) kvts(i int, tx c04Tx, asOf uint64, content func(i int) c04Content) []c04KVT {
	d := r.defs[i]
	var out []c04KVT
	for pos, e := range tx.Ents {
		if e.NonIdx || !c04HasPrefix(e.Key, d.Src) {
			continue
		}
		sk := c04ApplyMap(d.SMap, e.Key, e.Val)
		tk := c04ApplyMap(d.TMap, sk, e.Val)
		out = append(out, c04KVT{Key: tk, Ver: entVer(tx.ID, e), Pos: pos})
		if d.Inj && asOf > 0 {
			p, ok := r.srcPrev(sk, asOf, content)
			if !ok {
				continue
			}
			ptx := r.txByID(p)
			if ptx == nil {
				continue
			}
			var pe *c04Ent
			for k := range ptx.Ents {
				if bytes.Equal(ptx.Ents[k].Key, e.Key) {
					pe = &ptx.Ents[k]
				}
			}
			if pe == nil {
				continue
			}
			tpk := c04ApplyMap(d.TMap, sk, pe.Val)
			if bytes.Equal(tpk, tk) {
				continue
			}
			pv := entVer(tx.ID, *pe)
			tv := pv
			tv.Deleted = true
			out = append(out, c04KVT{Key: tpk, Ver: tv, Tomb: true, Pos: pos,
				PrevMdEmpty: !pe.Deleted && !pe.NonIdx && pe.Exp == 0, PrevVer: pv})
		}
	}
	return out
}

func (r *c04Ref) apply(tx c04Tx) {
	r.log = append(r.log, tx)
	cont := func(i int) c04Content { return r.idx[i] }
	for i := range r.defs {
		for _, kv := range r.kvts(i, tx, tx.ID-1, cont) {
			vs := r.idx[i][string(kv.Key)]
			if len(vs) > 0 && vs[len(vs)-1].Tx == kv.Ver.Tx {
				continue // tbtree ignores a second value with the same ts (generators avoid this)
			}
			r.idx[i][string(kv.Key)] = append(vs, kv.Ver)
		}
	}
}

// ---------------------------------------------------------------- read API as functions of a content

func c04Get(c c04Content, now int64, k []byte) string {
	vs := c[string(k)]
	if len(vs) == 0 {
		return "err:notfound"
	}
	v := vs[len(vs)-1]
	if v.expiredAt(now) {
		return "err:expired"
	}
	if v.Deleted {
		return "err:notfound"
	}
	return v.ref(len(vs))
}

func c04GetBetween(c c04Content, k []byte, init, fin uint64) string {
	vs := c[string(k)]
	if len(vs) == 0 {
		return "err:notfound"
	}
	if init > fin {
		return "err:illegal"
	}
	for j := len(vs) - 1; j >= 0; j-- {
		if vs[j].Tx < init {
			return "err:notfound"
		}
		if fin == 0 || vs[j].Tx <= fin {
			return vs[j].ref(j + 1)
		}
	}
	return "err:notfound"
}

// History as ImmuStore.History numbers it; snap=true numbers as Snapshot.History SHOULD (same rule)
func c04History(c c04Content, k []byte, off uint64, desc bool, limit int) string {
	if limit < 1 {
		return "err:illegal"
	}
	vs := c[string(k)]
	if len(vs) == 0 {
		return "err:notfound"
	}
	hc := uint64(len(vs))
	if off == hc {
		return "err:nomore"
	}
	if off > hc {
		return "err:offset"
	}
	n := uint64(limit)
	if n > hc-off {
		n = hc - off
	}
	var out []string
	for i := uint64(0); i < n; i++ {
		var rev uint64
		if desc {
			rev = hc - off - i
		} else {
			rev = off + 1 + i
		}
		out = append(out, vs[rev-1].ref(int(rev)))
	}
	return fmt.Sprintf("%d %s", hc, c04List(out))
}

func c04List(xs []string) string {
	if len(xs) == 0 {
		return "_"
	}
	return strings.Join(xs, ",")
}

func c04GetWithPrefix(c c04Content, now int64, pfx, neq []byte) string {
	for _, ks := range c.sortedKeys() {
		k := []byte(ks)
		if len(neq) > 0 && bytes.Compare(k, neq) <= 0 {
			continue
		}
		if bytes.Compare(pfx, k) > 0 {
			continue
		}
		if !c04HasPrefix(k, pfx) {
			return "err:notfound"
		}
		vs := c[ks]
		v := vs[len(vs)-1]
		if v.expiredAt(now) {
			return "err:expired"
		}
		if v.Deleted {
			return "err:notfound"
		}
		return hx.Hex(k) + " " + v.ref(len(vs))
	}
	return "err:notfound"
}

type c04Range struct {
	Seek, End, Pfx   []byte
	InclSeek, InclEnd bool
	Desc             bool
	Filters          string // subset of "d","e" in application order, "-" none
	Offset           uint64
	Hist             bool
}

func (r c04Range) visits(k []byte) bool {
	lo, loIncl, hi, hiIncl := r.Seek, r.InclSeek, r.End, r.InclEnd
	if r.Desc {
		lo, loIncl, hi, hiIncl = r.End, r.InclEnd, r.Seek, r.InclSeek
	}
	if len(lo) > 0 {
		c := bytes.Compare(lo, k)
		if !(c < 0 || (c == 0 && loIncl)) {
			return false
		}
	}
	if len(hi) > 0 {
		c := bytes.Compare(k, hi)
		if !(c < 0 || (c == 0 && hiIncl)) {
			return false
		}
	}
	return c04HasPrefix(k, r.Pfx)
}

func c04Scan(c c04Content, now int64, r c04Range) string {
	ks := c.sortedKeys()
	if r.Desc {
		for i, j := 0, len(ks)-1; i < j; i, j = i+1, j-1 {
			ks[i], ks[j] = ks[j], ks[i]
		}
	}
	var out []string
	for _, s := range ks {
		k := []byte(s)
		if !r.visits(k) {
			continue
		}
		vs := c[s]
		if r.Hist {
			if r.Desc {
				for j := len(vs) - 1; j >= 0; j-- {
					out = append(out, hx.Hex(k)+"="+vs[j].ref(j+1))
				}
			} else {
				for j := range vs {
					out = append(out, hx.Hex(k)+"="+vs[j].ref(j+1))
				}
			}
			continue
		}
		v := vs[len(vs)-1]
		skip := false
		for _, f := range r.Filters {
			if f == 'd' && v.Deleted {
				skip = true
			}
			if f == 'e' && v.expiredAt(now) {
				skip = true
			}
		}
		if skip {
			continue
		}
		out = append(out, hx.Hex(k)+"="+v.ref(len(vs)))
	}
	if uint64(len(out)) <= r.Offset {
		out = nil
	} else {
		out = out[r.Offset:]
	}
	return c04List(out)
}

func (r c04Range) line(idx int, now int64) string {
	b := func(x bool) string {
		if x {
			return "1"
		}
		return "0"
	}
	fs := r.Filters
	if fs == "" {
		fs = "-"
	}
	return fmt.Sprintf("c04 scan %d %d %s %s %s %s %s %s %s %d %s", idx, now, hx.Hex(r.Seek), hx.Hex(r.End), hx.Hex(r.Pfx),
		b(r.InclSeek), b(r.InclEnd), b(r.Desc), fs, r.Offset, b(r.Hist))
}

// ---------------------------------------------------------------- the real store

func c04Err(err error) string {
	switch {
	case err == nil:
		return "ok"
	case errors.Is(err, store.ErrExpiredEntry):
		return "err:expired"
	case errors.Is(err, store.ErrKeyNotFound):
		return "err:notfound"
	case errors.Is(err, store.ErrNoMoreEntries):
		return "err:nomore"
	case errors.Is(err, store.ErrOffsetOutOfRange):
		return "err:offset"
	case errors.Is(err, store.ErrIllegalArguments), errors.Is(err, tbtree.ErrIllegalArguments):
		return "err:illegal"
	}
	return "err:other:" + err.Error()
}

func c04VerOf(v store.ValueRef) c04Ver {
	o := c04Ver{Tx: v.Tx(), VLen: int(v.Len()), HVal: v.HVal()}
	if md := v.KVMetadata(); md != nil {
		o.Deleted = md.Deleted()
		o.NonIdx = md.NonIndexable()
		if md.IsExpirable() {
			t, _ := md.ExpirationTime()
			o.Exp = t.Unix()
		}
	}
	return o
}

func c04RefOf(v store.ValueRef) string { return c04VerOf(v).ref(int(v.HC())) }

func realGet(st *store.ImmuStore, k []byte) string {
	v, err := st.Get(context.Background(), k)
	if err != nil {
		return c04Err(err)
	}
	return c04RefOf(v)
}

func realGetBetween(st *store.ImmuStore, k []byte, a, b uint64) string {
	v, err := st.GetBetween(context.Background(), k, a, b)
	if err != nil {
		return c04Err(err)
	}
	return c04RefOf(v)
}

func realGetWithPrefix(st *store.ImmuStore, p, neq []byte) string {
	k, v, err := st.GetWithPrefix(context.Background(), p, neq)
	if err != nil {
		return c04Err(err)
	}
	return hx.Hex(k) + " " + c04RefOf(v)
}

func fmtHist(vs []store.ValueRef, hc uint64, err error) string {
	if err != nil {
		return c04Err(err)
	}
	out := make([]string, len(vs))
	for i, v := range vs {
		out[i] = c04RefOf(v)
	}
	return fmt.Sprintf("%d %s", hc, c04List(out))
}

func realHistory(st *store.ImmuStore, k []byte, off uint64, desc bool, limit int) string {
	vs, hc, err := st.History(k, off, desc, limit)
	return fmtHist(vs, hc, err)
}

func c04Filters(fs string) []store.FilterFn {
	var out []store.FilterFn
	for _, f := range fs {
		if f == 'd' {
			out = append(out, store.IgnoreDeleted)
		}
		if f == 'e' {
			out = append(out, store.IgnoreExpired)
		}
	}
	return out
}

func realScan(snap *store.Snapshot, r c04Range, max int) (string, error) {
	rd, err := snap.NewKeyReader(store.KeyReaderSpec{SeekKey: r.Seek, EndKey: r.End, Prefix: r.Pfx,
		InclusiveSeek: r.InclSeek, InclusiveEnd: r.InclEnd, DescOrder: r.Desc, IncludeHistory: r.Hist,
		Filters: c04Filters(r.Filters), Offset: r.Offset})
	if err != nil {
		return c04Err(err), nil
	}
	defer rd.Close()
	var out []string
	for i := 0; i < max; i++ {
		k, v, err := rd.Read(context.Background())
		if errors.Is(err, store.ErrNoMoreEntries) {
			return c04List(out), nil
		}
		if err != nil {
			return c04Err(err), nil
		}
		out = append(out, hx.Hex(k)+"="+c04RefOf(v))
	}
	return "", fmt.Errorf("reader did not terminate after %d entries", max)
}

// full dump of one index through a history reader on a fresh snapshot
func realDump(st *store.ImmuStore, pfx []byte, upto uint64, max int) (c04Content, error) {
	ctx, cancel := context.WithTimeout(context.Background(), 20*time.Second)
	defer cancel()
	snap, err := st.SnapshotMustIncludeTxID(ctx, pfx, upto)
	if err != nil {
		return nil, err
	}
	defer snap.Close()
	// no prefix: the whole tree of this index (the aliasing defect files versions under foreign prefixes too)
	rd, err := snap.NewKeyReader(store.KeyReaderSpec{IncludeHistory: true})
	if err != nil {
		return nil, err
	}
	defer rd.Close()
	c := c04Content{}
	for i := 0; i < max; i++ {
		k, v, err := rd.Read(context.Background())
		if errors.Is(err, store.ErrNoMoreEntries) {
			return c, nil
		}
		if err != nil {
			return nil, err
		}
		vs := c[string(k)]
		if int(v.HC()) != len(vs)+1 {
			return nil, fmt.Errorf("history reader: key %x revision %d after %d versions", k, v.HC(), len(vs))
		}
		c[string(k)] = append(vs, c04VerOf(v))
	}
	return nil, fmt.Errorf("dump did not terminate")
}

func c04ContentEq(a, b c04Content) bool {
	if len(a) != len(b) {
		return false
	}
	for k, va := range a {
		vb, ok := b[k]
		if !ok || len(va) != len(vb) {
			return false
		}
		for i := range va {
			if va[i] != vb[i] {
				return false
			}
		}
	}
	return true
}

// ---------------------------------------------------------------- classification of content deviations

type c04Diff struct {
	sigs   map[string]string // signature -> first description
	tainted bool             // deviation depends on the (unknown) bulk partition (F1 / injective bulk start)
}

func (d *c04Diff) add(sig, desc string) {
	if d.sigs == nil {
		d.sigs = map[string]string{}
	}
	if _, ok := d.sigs[sig]; !ok {
		d.sigs[sig] = desc
	}
}

// versions of a content grouped by tx: tx -> list of (key, ver)
type c04KV struct {
	Key string
	Ver c04Ver
}

func byTx(c c04Content) map[uint64][]c04KV {
	m := map[uint64][]c04KV{}
	for k, vs := range c {
		for _, v := range vs {
			m[v.Tx] = append(m[v.Tx], c04KV{k, v})
		}
	}
	return m
}

// as-coded KVTs: like kvts, but the tombstone keeps the previous metadata when there is one (AsDeleted on a
// read-only KVMetadata fails silently)
func (r *c04Ref) kvtsAsCoded(i int, tx c04Tx, asOf uint64, content func(i int) c04Content) []c04KVT {
	out := r.kvts(i, tx, asOf, content)
	for k := range out {
		if out[k].Tomb && !out[k].PrevMdEmpty {
			out[k].Ver = out[k].PrevVer
		}
	}
	return out
}

func sameVersions(got []c04KV, exp []c04KVT) bool {
	if len(got) != len(exp) {
		return false
	}
	used := make([]bool, len(got))
	for _, kv := range exp {
		ok := false
		for gi, g := range got {
			if !used[gi] && g.Key == string(kv.Key) && g.Ver == kv.Ver {
				used[gi] = true
				ok = true
				break
			}
		}
		if !ok {
			return false
		}
	}
	return true
}

// classify compares the real content of index i with the reference; maxBulk is the configured MaxBulkSize.
// srcTainted: the source index of an injective index already deviates (its lookups are then unpredictable).
// Every transaction's versions must equal (as a set) what the log prescribes; a deviation is attributed to a
// known defect only if it is EXACTLY what that defect produces:
//   tombstone-md : the KVTs of the code as it is with the intended lookup (as of tx-1);
//   injective-bulk: the KVTs of the code as it is with the lookup as of s-1 for a first-tx-of-bulk s in (tx-maxBulk, tx);
//   aliasing     : (no mappers) same values and ts, keys replaced by the bytes a later tx of the bulk left in the entry buffer.
func (r *c04Ref) classify(i int, real c04Content, maxBulk int, srcTainted bool) c04Diff {
	var d c04Diff
	want := r.idx[i]
	if c04ContentEq(real, want) {
		return d
	}
	def := r.defs[i]
	if srcTainted {
		d.tainted = true
		d.add(c04SigAlias, fmt.Sprintf("index %d (%x): deviates downstream of an aliased source index", i, def.Tgt))
		return d
	}
	realTx := byTx(real)
	cont := func(j int) c04Content { return r.idx[j] }
	aliases := def.SMap == "none" && def.TMap == "none"
	for ti, tx := range r.log {
		got := realTx[tx.ID]
		delete(realTx, tx.ID)
		exp := r.kvts(i, tx, tx.ID-1, cont)
		if sameVersions(got, exp) {
			continue
		}
		if def.Inj {
			if sameVersions(got, r.kvtsAsCoded(i, tx, tx.ID-1, cont)) {
				d.add(c04SigTombMd, fmt.Sprintf("index %d (%x) tx %d: the tombstone of the previous mapped key carries the previous metadata and is not marked deleted", i, def.Tgt, tx.ID))
				continue
			}
			explained := false
			if maxBulk > 1 {
				for s := int(tx.ID) - 1; s >= 1 && s > int(tx.ID)-maxBulk; s-- {
					if sameVersions(got, r.kvtsAsCoded(i, tx, uint64(s)-1, cont)) || sameVersions(got, r.kvts(i, tx, uint64(s)-1, cont)) {
						explained = true
						d.tainted = true
						d.add(c04SigInjBulk, fmt.Sprintf("index %d (%x) tx %d: previous mapped key looked up as of tx %d (first tx of the bulk is %d, MaxBulkSize=%d)", i, def.Tgt, tx.ID, s-1, s, maxBulk))
						break
					}
				}
			}
			if explained {
				continue
			}
			// previous row version taken from a foreign tx: the source lookup GetBetween(sourceKey, 1, asOf) ran past
			// the key's history-log chain (tbtree lastUpdateBetween) and answered with another key's version whose
			// tx happens to hold the row too.  Fingerprint: main KVTs exact, every other version of this ts is a
			// tombstone built from SOME earlier entry of the same row.
			if r.explainedByForeignPrev(i, tx, got) {
				d.tainted = true
				d.add(c04SigGetBtwHL, fmt.Sprintf("index %d (%x) tx %d: tombstone built from a previous row version that is not the newest one as of the bulk start (source lookup GetBetween answered with a foreign version): versions %v, the log prescribes %v", i, def.Tgt, tx.ID, fmtKVs(got), fmtKVTs(exp)))
				continue
			}
		}
		if aliases && maxBulk > 1 && len(got) <= len(exp) {
			used := make([]bool, len(got))
			all := true
			first := ""
			candsOf := make([][][]byte, len(exp))
			hits := make([]bool, len(exp))
			for ei, kv := range exp {
				candsOf[ei] = append([][]byte{kv.Key}, r.aliasCandidates(ti, kv.Pos, len(kv.Key), maxBulk)...)
			}
			// pass 1: the version is present under one of its candidate keys (bipartite matching exp -> got)
			adj := make([][]int, len(exp))
			for ei, kv := range exp {
				for _, cand := range candsOf[ei] {
					for gi, g := range got {
						if g.Key == string(cand) && g.Ver == kv.Ver {
							adj[ei] = append(adj[ei], gi)
						}
					}
				}
			}
			matchG := make([]int, len(got))
			for gi := range matchG {
				matchG[gi] = -1
			}
			var try func(ei int, seen []bool) bool
			try = func(ei int, seen []bool) bool {
				for _, gi := range adj[ei] {
					if seen[gi] {
						continue
					}
					seen[gi] = true
					if matchG[gi] < 0 || try(matchG[gi], seen) {
						matchG[gi] = ei
						return true
					}
				}
				return false
			}
			for ei := range exp {
				try(ei, make([]bool, len(got)))
			}
			for gi, ei := range matchG {
				if ei >= 0 {
					used[gi] = true
					hits[ei] = true
					if first == "" && got[gi].Key != string(exp[ei].Key) {
						first = fmt.Sprintf("version of key %x filed under %x", exp[ei].Key, []byte(got[gi].Key))
					}
				}
			}
			// pass 2: shadowed — another value of the same ts took a candidate key (tbtree ignores the second one)
			for ei := range exp {
				if hits[ei] {
					continue
				}
				for _, cand := range candsOf[ei] {
					for _, g := range got {
						if g.Key == string(cand) {
							hits[ei] = true
						}
					}
				}
				if !hits[ei] {
					all = false
				}
			}
			for gi := range got {
				if !used[gi] {
					all = false
				}
			}
			if all {
				d.tainted = true
				d.add(c04SigAlias, fmt.Sprintf("index %d (%x) tx %d: %s (MaxBulkSize=%d)", i, def.Tgt, tx.ID, first, maxBulk))
				continue
			}
		}
		d.add(c04SigContent, fmt.Sprintf("index %d (%x) tx %d: versions with this ts are %v, the log prescribes %v", i, def.Tgt, tx.ID, fmtKVs(got), fmtKVTs(exp)))
	}
	for id, got := range realTx {
		if len(got) > 0 {
			d.add(c04SigContent, fmt.Sprintf("index %d (%x): versions with ts %d that is no committed tx", i, def.Tgt, id))
		}
	}
	if d.sigs == nil {
		d.add(c04SigContent, fmt.Sprintf("index %d (%x): content differs (revision layout)", i, def.Tgt))
	}
	return d
}

func (r *c04Ref) explainedByForeignPrev(i int, tx c04Tx, got []c04KV) bool {
	d := r.defs[i]
	used := make([]bool, len(got))
	type cand struct {
		key string
		a, b c04Ver
	}
	var cands []cand
	for _, e := range tx.Ents {
		if e.NonIdx || !c04HasPrefix(e.Key, d.Src) {
			continue
		}
		sk := c04ApplyMap(d.SMap, e.Key, e.Val)
		tk := c04ApplyMap(d.TMap, sk, e.Val)
		mv := entVer(tx.ID, e)
		ok := false
		for gi, g := range got {
			if !used[gi] && g.Key == string(tk) && g.Ver == mv {
				used[gi] = true
				ok = true
				break
			}
		}
		if !ok {
			return false
		}
		for _, ptx := range r.log {
			if ptx.ID >= tx.ID {
				break
			}
			for _, pe := range ptx.Ents {
				if string(pe.Key) != string(e.Key) {
					continue
				}
				tpk := c04ApplyMap(d.TMap, sk, pe.Val)
				if string(tpk) == string(tk) {
					continue
				}
				pv := entVer(tx.ID, pe)
				dv := pv
				dv.Deleted = true
				cands = append(cands, cand{string(tpk), pv, dv})
			}
		}
	}
	for gi, g := range got {
		if used[gi] {
			continue
		}
		ok := false
		for _, c := range cands {
			if g.Key == c.key && (g.Ver == c.a || g.Ver == c.b) {
				ok = true
			}
		}
		if !ok {
			return false
		}
	}
	return true
}

func fmtKVs(xs []c04KV) string {
	var o []string
	for _, x := range xs {
		o = append(o, fmt.Sprintf("%x=%s", []byte(x.Key), x.Ver.ref(0)))
	}
	sort.Strings(o)
	return "[" + strings.Join(o, " ") + "]"
}

func fmtKVTs(xs []c04KVT) string {
	var o []string
	for _, x := range xs {
		o = append(o, fmt.Sprintf("%x=%s", x.Key, x.Ver.ref(0)))
	}
	sort.Strings(o)
	return "[" + strings.Join(o, " ") + "]"
}

// keys a version of entry position pos / length n of r.log[ti] may end up under when the key aliases buffer pos:
// buffer content after reading the txs up to e (t <= e < t+maxBulk), for any first tx s of the indexer process.
func (r *c04Ref) aliasCandidates(ti, pos, n, maxBulk int) [][]byte {
	var out [][]byte
	seen := map[string]bool{}
	for e := ti + 1; e < len(r.log) && e < ti+maxBulk; e++ {
		for s := 0; s <= ti; s++ {
			buf := make([]byte, n)
			for x := s; x <= e; x++ {
				if pos < len(r.log[x].Ents) {
					copy(buf, r.log[x].Ents[pos].Key)
				}
			}
			if !seen[string(buf)] {
				seen[string(buf)] = true
				out = append(out, buf)
			}
		}
	}
	return out
}

// ---------------------------------------------------------------- misc

func c04Now() int64 { return time.Now().Unix() }

type c04Replay struct {
	Kind   string      `json:"kind"`
	Case   int         `json:"case"`
	Seed   uint64      `json:"case_seed"`
	CaseNo int         `json:"caseNo,omitempty"`
	Cfg    interface{} `json:"cfg,omitempty"`
	Detail string      `json:"detail,omitempty"`
	Ops    []string    `json:"ops,omitempty"`
}
