package main

// C12 — constraints ADDED or CHANGED while other sessions are active (added after seeded change c12-b, see
// DESIGN "C12 — as built").
//
// The other C12 families create every table and index BEFORE any session starts.  Here the schema changes
// during the history: CREATE TABLE with PRIMARY KEY / AUTO_INCREMENT / NOT NULL / CHECK / VARCHAR[n],
// CREATE [UNIQUE] INDEX on empty and populated tables, DROP INDEX, ALTER TABLE ADD COLUMN (nullable) / DROP COLUMN /
// RENAME COLUMN, DROP TABLE + re-creation under the same name with other constraints — as autocommit statements
// or inside explicit transactions — while 2..4 sessions hold open transactions of every kind (empty, reader,
// writer, writer without effect, DDL), on a cold and on a warm engine (fresh engine, engine re-open in the
// middle of the history, DDL right after DDL, autocommit readers in between), followed by DML that is biased
// towards violating the NEWEST constraint (duplicate of a live tuple under the new UNIQUE index, NULL / omitted
// NOT NULL column, value below the CHECK bound, over-long VARCHAR, the old name of a renamed / dropped column,
// the new column).
//
// ORACLE (model independent).  The truth is what is PERSISTED: after every COMMIT (autocommit or explicit),
// failed COMMIT, ROLLBACK, aborted statement and re-open, a FRESH sql.Engine is created on the same store (its
// catalog is loaded from the store, whatever the engine under test caches) and
//   * every constraint the persisted catalog declares is checked over the persisted live rows: primary key unique,
//     every UNIQUE index duplicate free, no NULL in a NOT NULL column, declared lengths, CHECK true, every secondary
//     index scan = table scan;
//   * persisted catalog and rows = the reference (a Go database: catalog with constraints + rows) to which the
//     statements of a transaction are applied at its COMMIT POINT when — and only when — the engine acknowledges it:
//     every statement of an acknowledged transaction must be valid on the state committed before it UNDER THE CATALOG
//     PERSISTED AT THAT POINT ("a statement that must fail was not acknowledged"), with the affected rows the engine
//     reported; an autocommit statement that is valid must not fail (a stale schema also shows as `no-column`,
//     `no-table`, `index-exists` …);
//   * every BEGIN: the catalog the new transaction works with (SQLTx.Catalog()) = the reference catalog.
// Transactions are restricted as in c12_race.go (a transaction never writes a row or an indexed value twice, no DML
// on a table it changed itself), so that the known defects of the in-transaction view (R1, R4, R9, R14, R16, R17)
// cannot interfere; R2 (deleted first entry hides live ones) is attributed by its exact condition.
//
// TIE: driver ops `c12 ddl …` (lean/Driver/C12Ddl.lean) on the catalog-cache model Sql/CatalogCache.lean: for every
// BEGIN the GENERATION of the catalog the transaction got and cache hit/miss, for every autocommit statement and
// autocommit query hit/miss, for every COMMIT the mandatory catalog conflicts.

import (
	"context"
	"fmt"
	"reflect"
	"regexp"
	"sort"
	"strconv"
	"strings"
	"unsafe"

	"github.com/codenotary/immudb/embedded/sql"

	"verif/harness/internal/hx"
)

// ---------------------------------------------------------------- reference database

type k12Val struct {
	null  bool
	isStr bool
	i     int64
	s     string
}

func (v k12Val) lit() string {
	switch {
	case v.null:
		return "NULL"
	case v.isStr:
		return "'" + v.s + "'"
	}
	return strconv.FormatInt(v.i, 10)
}

type k12Col struct {
	ID      int
	Name    string
	Ty      string // INTEGER | VARCHAR
	Len     int
	NotNull bool
	AutoInc bool
}

func (c k12Col) decl() string {
	s := c.Name + " INTEGER"
	if c.Ty == "VARCHAR" {
		s = fmt.Sprintf("%s VARCHAR[%d]", c.Name, c.Len)
	}
	if c.NotNull {
		s += " NOT NULL"
	}
	if c.AutoInc {
		s += " AUTO_INCREMENT"
	}
	return s
}

func (c k12Col) maxLen() int {
	if c.Ty == "VARCHAR" {
		return c.Len
	}
	return 8
}

type k12Idx struct {
	Cols    []int // column ids
	Unique  bool
	Tainted bool // created on a populated table (R2 in the emptiness test): pre-existing duplicates are attributed
}

type k12Check struct {
	Col int
	Min int64
}

type k12Dead struct {
	pk  int64
	row map[int]k12Val
}

type k12Table struct {
	Name    string
	Cols    []k12Col // Cols[0] = id (column id 0)
	Idx     []k12Idx
	Check   *k12Check
	Rows    map[int64]map[int]k12Val // pk -> column id -> value (absent = NULL); the key itself is not stored
	MaxEver int64                    // largest key that ever had a primary-index entry
	Dead    []k12Dead                // row versions that stopped being live (deleted, or replaced with other values)
	DupOK   map[string]bool          // "cols|tuple": a duplicate already attributed to a known cause
	nextCol int
}

func k12CloneRow(r map[int]k12Val) map[int]k12Val {
	m := make(map[int]k12Val, len(r))
	for k, v := range r {
		m[k] = v
	}
	return m
}

func (t *k12Table) clone() *k12Table {
	n := &k12Table{Name: t.Name, Cols: append([]k12Col{}, t.Cols...), MaxEver: t.MaxEver, nextCol: t.nextCol,
		Rows: make(map[int64]map[int]k12Val, len(t.Rows)), Dead: append([]k12Dead{}, t.Dead...), DupOK: map[string]bool{}}
	for _, ix := range t.Idx {
		n.Idx = append(n.Idx, k12Idx{Cols: append([]int{}, ix.Cols...), Unique: ix.Unique, Tainted: ix.Tainted})
	}
	if t.Check != nil {
		ck := *t.Check
		n.Check = &ck
	}
	for k, v := range t.DupOK {
		n.DupOK[k] = v
	}
	for id, r := range t.Rows {
		n.Rows[id] = k12CloneRow(r)
	}
	return n
}

func (t *k12Table) col(name string) *k12Col {
	for i := range t.Cols {
		if t.Cols[i].Name == name {
			return &t.Cols[i]
		}
	}
	return nil
}

func (t *k12Table) colByID(id int) *k12Col {
	for i := range t.Cols {
		if t.Cols[i].ID == id {
			return &t.Cols[i]
		}
	}
	return nil
}

func (t *k12Table) colNames(ids []int) []string {
	out := make([]string, len(ids))
	for i, id := range ids {
		if c := t.colByID(id); c != nil {
			out[i] = c.Name
		} else {
			out[i] = "?"
		}
	}
	return out
}

func (t *k12Table) idxAt(ids []int) int {
	k := fmt.Sprint(ids)
	for i, ix := range t.Idx {
		if fmt.Sprint(ix.Cols) == k {
			return i
		}
	}
	return -1
}

func (t *k12Table) autoInc() bool { return t.Cols[0].AutoInc }

func (t *k12Table) ids() []int64 {
	out := make([]int64, 0, len(t.Rows))
	for id := range t.Rows {
		out = append(out, id)
	}
	sort.Slice(out, func(i, j int) bool { return out[i] < out[j] })
	return out
}

func k12Get(pk int64, row map[int]k12Val, col int) k12Val {
	if col == 0 {
		return k12Val{i: pk}
	}
	if v, ok := row[col]; ok {
		return v
	}
	return k12Val{null: true}
}

// the tuple of a row under the given columns (NULLs are equal in the engine's UNIQUE indexes: one key)
func k12Tuple(pk int64, row map[int]k12Val, cols []int) string {
	ps := make([]string, len(cols))
	for i, c := range cols {
		ps[i] = k12Get(pk, row, c).lit()
	}
	return strings.Join(ps, ",")
}

// live rows (other than `except`) holding the tuple under the columns
func (t *k12Table) holders(cols []int, tuple string, except int64) []int64 {
	var out []int64
	for _, id := range t.ids() {
		if id != except && k12Tuple(id, t.Rows[id], cols) == tuple {
			out = append(out, id)
		}
	}
	return out
}

// R2, exact condition: the FIRST entry under the index-value prefix (smallest primary key, deleted ones included) is a
// deleted one although a live entry follows
func (t *k12Table) deadHides(cols []int, tuple string, except int64) bool {
	hs := t.holders(cols, tuple, except)
	if len(hs) == 0 {
		return false
	}
	for _, d := range t.Dead {
		if d.pk < hs[0] && k12Tuple(d.pk, d.row, cols) == tuple {
			if r, live := t.Rows[d.pk]; live && d.pk != except && k12Tuple(d.pk, r, cols) == tuple {
				continue // the entry is live again
			}
			return true
		}
	}
	return false
}

func (t *k12Table) hasDead(cols []int, tuple string) bool {
	for _, d := range t.Dead {
		if k12Tuple(d.pk, d.row, cols) == tuple {
			return true
		}
	}
	return false
}

// R2 in the emptiness test of CREATE UNIQUE INDEX: the first primary-index entry is a deleted one
func (t *k12Table) firstPKEntryDead() bool {
	if len(t.Rows) == 0 {
		return false
	}
	min := t.ids()[0]
	for _, d := range t.Dead {
		if d.pk < min {
			return true
		}
	}
	return false
}

func (t *k12Table) kill(pk int64) {
	if r, ok := t.Rows[pk]; ok {
		t.Dead = append(t.Dead, k12Dead{pk: pk, row: k12CloneRow(r)})
	}
}

func (t *k12Table) catalogLine() string {
	var cs, is []string
	for _, c := range t.Cols {
		cs = append(cs, fmt.Sprintf("%s:%s:%d:%s:%s", c.Name, c.Ty, c.maxLen(), map[bool]string{true: "notnull", false: "nullable"}[c.NotNull], map[bool]string{true: "auto", false: "-"}[c.AutoInc]))
	}
	for _, ix := range t.Idx {
		is = append(is, fmt.Sprintf("(%s):%s", strings.Join(t.colNames(ix.Cols), ","), map[bool]string{true: "unique", false: "nonunique"}[ix.Unique]))
	}
	sort.Strings(is)
	ck := ""
	if t.Check != nil {
		ck = fmt.Sprintf("(%s >= %d)", t.colNames([]int{t.Check.Col})[0], t.Check.Min)
	}
	return t.Name + " cols[" + strings.Join(cs, " ") + "] pk[" + t.Cols[0].Name + "] idx[" + strings.Join(is, " ") + "] check[" + ck + "]"
}

func (t *k12Table) rowLines() []string {
	var out []string
	for _, id := range t.ids() {
		vs := make([]string, len(t.Cols))
		for i, c := range t.Cols {
			vs[i] = k12Get(id, t.Rows[id], c.ID).lit()
		}
		out = append(out, "("+strings.Join(vs, ",")+")")
	}
	return out
}

type k12DB struct{ T map[string]*k12Table }

func (db *k12DB) clone() *k12DB {
	n := &k12DB{T: make(map[string]*k12Table, len(db.T))}
	for k, t := range db.T {
		n.T[k] = t.clone()
	}
	return n
}

func (db *k12DB) names() []string {
	out := make([]string, 0, len(db.T))
	for k := range db.T {
		out = append(out, k)
	}
	sort.Strings(out)
	return out
}

func (db *k12DB) catalogLines() []string {
	var out []string
	for _, n := range db.names() {
		out = append(out, db.T[n].catalogLine())
	}
	return out
}

// ---------------------------------------------------------------- statements

type k12Stmt struct {
	K      string // create-table drop-table add-column drop-column rename-column create-index drop-index insert upsert update delete
	T      string
	Cols   []k12Col  // create-table (incl. id), add-column (one)
	Check  *k12Check // create-table; Col = POSITION in Cols
	C, C2  string
	ICols  []string
	Unique bool
	ID     int64    // DML: the key; 0 with Gen = the engine generates it (AUTO_INCREMENT)
	Gen    bool     // INSERT without the key column
	Names  []string // insert/upsert: columns given (without id)
	Vals   []k12Val
	Bias   string // what the generator aimed at (distribution)
}

func (s *k12Stmt) isDDL() bool {
	switch s.K {
	case "insert", "upsert", "update", "delete":
		return false
	}
	return true
}

func (s *k12Stmt) sql() string {
	switch s.K {
	case "create-table":
		var ds []string
		for _, c := range s.Cols {
			ds = append(ds, c.decl())
		}
		if s.Check != nil {
			ds = append(ds, fmt.Sprintf("CHECK (%s >= %d)", s.Cols[s.Check.Col].Name, s.Check.Min))
		}
		return fmt.Sprintf("CREATE TABLE %s (%s, PRIMARY KEY %s)", s.T, strings.Join(ds, ", "), s.Cols[0].Name)
	case "drop-table":
		return "DROP TABLE " + s.T
	case "add-column":
		return fmt.Sprintf("ALTER TABLE %s ADD COLUMN %s", s.T, s.Cols[0].decl())
	case "drop-column":
		return fmt.Sprintf("ALTER TABLE %s DROP COLUMN %s", s.T, s.C)
	case "rename-column":
		return fmt.Sprintf("ALTER TABLE %s RENAME COLUMN %s TO %s", s.T, s.C, s.C2)
	case "create-index":
		u := ""
		if s.Unique {
			u = "UNIQUE "
		}
		return fmt.Sprintf("CREATE %sINDEX ON %s(%s)", u, s.T, strings.Join(s.ICols, ", "))
	case "drop-index":
		return fmt.Sprintf("DROP INDEX ON %s(%s)", s.T, strings.Join(s.ICols, ", "))
	case "insert", "upsert":
		kw := "INSERT"
		if s.K == "upsert" {
			kw = "UPSERT"
		}
		var ns, vs []string
		if !s.Gen {
			ns, vs = append(ns, "id"), append(vs, strconv.FormatInt(s.ID, 10))
		}
		ns = append(ns, s.Names...)
		for _, v := range s.Vals {
			vs = append(vs, v.lit())
		}
		return fmt.Sprintf("%s INTO %s(%s) VALUES (%s)", kw, s.T, strings.Join(ns, ", "), strings.Join(vs, ", "))
	case "update":
		return fmt.Sprintf("UPDATE %s SET %s = %s WHERE id = %d", s.T, s.C, s.Vals[0].lit(), s.ID)
	case "delete":
		return fmt.Sprintf("DELETE FROM %s WHERE id = %d", s.T, s.ID)
	}
	return "?"
}

// outcome of a statement on the reference
type k12Out struct {
	err  string // "" = valid
	upd  int
	r2   bool   // the only violation is a UNIQUE duplicate whose live holder is hidden behind a deleted entry (R2)
	what string // which constraint
}

// constraints of one row under the table's catalog; `old` = the version it replaces (nil: new row)
func (t *k12Table) rowViolation(pk int64, row map[int]k12Val, old map[int]k12Val, isUpdate bool) k12Out {
	for _, c := range t.Cols[1:] {
		v := k12Get(pk, row, c.ID)
		if v.null && c.NotNull && !isUpdate {
			return k12Out{err: "not-null", what: "NOT NULL " + c.Name}
		}
		if !v.null && v.isStr != (c.Ty == "VARCHAR") {
			return k12Out{err: "invalid-types", what: "type of " + c.Name}
		}
		if !v.null && v.isStr && len(v.s) > c.Len {
			return k12Out{err: "max-len", what: fmt.Sprintf("VARCHAR[%d] %s", c.Len, c.Name)}
		}
	}
	if t.Check != nil {
		if v := k12Get(pk, row, t.Check.Col); v.null || v.i < t.Check.Min {
			return k12Out{err: "check", what: fmt.Sprintf("CHECK (%s >= %d)", t.colNames([]int{t.Check.Col})[0], t.Check.Min)}
		}
	}
	out := k12Out{}
	for _, ix := range t.Idx {
		if !ix.Unique {
			continue
		}
		tp := k12Tuple(pk, row, ix.Cols)
		if old != nil && k12Tuple(pk, old, ix.Cols) == tp {
			continue
		}
		if hs := t.holders(ix.Cols, tp, pk); len(hs) > 0 {
			what := fmt.Sprintf("UNIQUE(%s) = (%s), held by the live row id=%d", strings.Join(t.colNames(ix.Cols), ","), tp, hs[0])
			if t.deadHides(ix.Cols, tp, pk) {
				if out.err == "" {
					out = k12Out{err: "dup-key", r2: true, what: what}
				}
				continue
			}
			return k12Out{err: "dup-key", what: what}
		}
	}
	return out
}

// reference semantics.  Nothing is changed on error, except that with force=true an R2-hidden duplicate is applied
// (the engine's known behaviour) so that the case can go on.
func (db *k12DB) apply(s *k12Stmt, force bool) k12Out {
	t := db.T[s.T]
	if s.K != "create-table" && t == nil {
		return k12Out{err: "no-table", what: "table " + s.T}
	}
	switch s.K {
	case "create-table":
		if t != nil {
			return k12Out{err: "table-exists"}
		}
		nt := &k12Table{Name: s.T, Rows: map[int64]map[int]k12Val{}, DupOK: map[string]bool{}}
		for i, c := range s.Cols {
			c.ID = i
			nt.Cols = append(nt.Cols, c)
		}
		nt.nextCol = len(s.Cols)
		if s.Check != nil {
			nt.Check = &k12Check{Col: s.Check.Col, Min: s.Check.Min}
		}
		db.T[s.T] = nt
	case "drop-table":
		delete(db.T, s.T)
	case "add-column":
		if t.col(s.Cols[0].Name) != nil {
			return k12Out{err: "column-exists"}
		}
		c := s.Cols[0]
		c.ID = t.nextCol
		t.nextCol++
		t.Cols = append(t.Cols, c)
	case "drop-column":
		c := t.col(s.C)
		if c == nil {
			return k12Out{err: "no-column"}
		}
		if c.ID == 0 || (t.Check != nil && t.Check.Col == c.ID) {
			return k12Out{err: "column-in-use"}
		}
		for _, ix := range t.Idx {
			for _, ic := range ix.Cols {
				if ic == c.ID {
					return k12Out{err: "column-in-use"}
				}
			}
		}
		id := c.ID
		for i := range t.Cols {
			if t.Cols[i].ID == id {
				t.Cols = append(t.Cols[:i:i], t.Cols[i+1:]...)
				break
			}
		}
		for _, r := range t.Rows {
			delete(r, id)
		}
	case "rename-column":
		c := t.col(s.C)
		if c == nil {
			return k12Out{err: "no-column"}
		}
		if t.col(s.C2) != nil {
			return k12Out{err: "column-exists"}
		}
		c.Name = s.C2
	case "create-index":
		var ids []int
		for _, n := range s.ICols {
			c := t.col(n)
			if c == nil {
				return k12Out{err: "no-column"}
			}
			ids = append(ids, c.ID)
		}
		if t.idxAt(ids) >= 0 || (len(ids) == 1 && ids[0] == 0) {
			return k12Out{err: "index-exists"}
		}
		if s.Unique && len(t.Rows) > 0 {
			if t.firstPKEntryDead() {
				if force {
					t.Idx = append(t.Idx, k12Idx{Cols: ids, Unique: true, Tainted: true})
				}
				return k12Out{err: "limited-index-creation", r2: true, what: "table not empty"}
			}
			return k12Out{err: "limited-index-creation", what: "table not empty"}
		}
		t.Idx = append(t.Idx, k12Idx{Cols: ids, Unique: s.Unique})
	case "drop-index":
		var ids []int
		for _, n := range s.ICols {
			c := t.col(n)
			if c == nil {
				return k12Out{err: "no-column"}
			}
			ids = append(ids, c.ID)
		}
		i := t.idxAt(ids)
		if i < 0 {
			return k12Out{err: "no-index"}
		}
		t.Idx = append(t.Idx[:i:i], t.Idx[i+1:]...)
	case "insert", "upsert":
		row := map[int]k12Val{}
		for i, n := range s.Names {
			c := t.col(n)
			if c == nil {
				return k12Out{err: "no-column", what: "column " + n}
			}
			if c.ID == 0 {
				return k12Out{err: "duplicate-column"}
			}
			if !s.Vals[i].null {
				row[c.ID] = s.Vals[i]
			}
		}
		id := s.ID
		if s.Gen {
			if !t.autoInc() {
				return k12Out{err: "pk-null", what: "key column omitted"}
			}
			if id == 0 { // not yet known: what the engine has to generate
				id = t.MaxEver + 1
			}
		}
		old, exists := t.Rows[id]
		if exists && s.K == "insert" {
			return k12Out{err: "dup-key", what: fmt.Sprintf("PRIMARY KEY id=%d", id)}
		}
		if t.autoInc() && !exists && id <= t.MaxEver {
			return k12Out{err: "invalid-value", what: fmt.Sprintf("AUTO_INCREMENT key %d is not above the high-water mark %d", id, t.MaxEver)}
		}
		if !exists {
			old = nil
		}
		v := t.rowViolation(id, row, old, false)
		if v.err != "" && !(v.r2 && force) {
			return v
		}
		if exists && k12Tuple(id, old, k12AllCols(t)) != k12Tuple(id, row, k12AllCols(t)) {
			t.kill(id)
		}
		t.Rows[id] = row
		if id > t.MaxEver {
			t.MaxEver = id
		}
		v.upd = 1
		return v
	case "update":
		c := t.col(s.C)
		if c == nil {
			return k12Out{err: "no-column", what: "column " + s.C}
		}
		if c.ID == 0 {
			return k12Out{err: "pk-update"}
		}
		old, ok := t.Rows[s.ID]
		if !ok {
			return k12Out{}
		}
		row := k12CloneRow(old)
		if s.Vals[0].null {
			if c.NotNull {
				return k12Out{err: "not-null", what: "NOT NULL " + c.Name} // never generated: UPDATE does not enforce it (R3)
			}
			delete(row, c.ID)
		} else {
			row[c.ID] = s.Vals[0]
		}
		v := t.rowViolation(s.ID, row, old, true)
		if v.err != "" && !(v.r2 && force) {
			return v
		}
		if k12Tuple(s.ID, old, k12AllCols(t)) != k12Tuple(s.ID, row, k12AllCols(t)) {
			t.kill(s.ID)
		}
		t.Rows[s.ID] = row
		v.upd = 1
		return v
	case "delete":
		if _, ok := t.Rows[s.ID]; !ok {
			return k12Out{}
		}
		t.kill(s.ID)
		delete(t.Rows, s.ID)
		return k12Out{upd: 1}
	}
	return k12Out{}
}

func k12AllCols(t *k12Table) []int {
	out := make([]int, 0, len(t.Cols))
	for _, c := range t.Cols[1:] {
		out = append(out, c.ID)
	}
	return out
}

// ---------------------------------------------------------------- the engine's catalogs, rendered like the reference's

// CHECK expressions of a table (Table.checkConstraints is unexported: read through reflection, never written)
func k12Checks(t *sql.Table) (out []string, ok bool) {
	defer func() {
		if recover() != nil {
			out, ok = nil, false
		}
	}()
	f := reflect.ValueOf(t).Elem().FieldByName("checkConstraints")
	if !f.IsValid() || f.Kind() != reflect.Map || f.Type() != reflect.TypeOf(map[string]sql.CheckConstraint{}) {
		return nil, false
	}
	m := *(*map[string]sql.CheckConstraint)(unsafe.Pointer(f.UnsafeAddr()))
	for _, cc := range m {
		cc := cc
		ef := reflect.ValueOf(&cc).Elem().FieldByName("exp")
		if !ef.IsValid() {
			return nil, false
		}
		ex, isExp := reflect.NewAt(ef.Type(), unsafe.Pointer(ef.UnsafeAddr())).Elem().Interface().(sql.ValueExp)
		if !isExp || ex == nil {
			return nil, false
		}
		out = append(out, ex.String())
	}
	sort.Strings(out)
	return out, true
}

type k12EngIdx struct {
	cols   []string
	unique bool
}

type k12EngTable struct {
	name    string
	line    string
	cols    []*sql.Column
	idx     []k12EngIdx
	checks  []string
	checkOK bool
}

func k12TyName(t sql.SQLValueType) string {
	switch t {
	case sql.IntegerType:
		return "INTEGER"
	case sql.VarcharType:
		return "VARCHAR"
	}
	return string(t)
}

func k12RenderCatalog(cat *sql.Catalog) (tables []k12EngTable, lines []string) {
	for _, t := range cat.GetTables() {
		et := k12EngTable{name: t.Name(), cols: t.Cols()}
		var cs, is, pk []string
		for _, c := range t.Cols() {
			cs = append(cs, fmt.Sprintf("%s:%s:%d:%s:%s", c.Name(), k12TyName(c.Type()), c.MaxLen(), map[bool]string{false: "notnull", true: "nullable"}[c.IsNullable()], map[bool]string{true: "auto", false: "-"}[c.IsAutoIncremental()]))
		}
		for _, ix := range t.GetIndexes() {
			var ns []string
			for _, c := range ix.Cols() {
				ns = append(ns, c.Name())
			}
			if ix.IsPrimary() {
				pk = ns
				continue
			}
			et.idx = append(et.idx, k12EngIdx{cols: ns, unique: ix.IsUnique()})
			is = append(is, fmt.Sprintf("(%s):%s", strings.Join(ns, ","), map[bool]string{true: "unique", false: "nonunique"}[ix.IsUnique()]))
		}
		sort.Strings(is)
		et.checks, et.checkOK = k12Checks(t)
		ck := strings.Join(et.checks, " ")
		if !et.checkOK {
			ck = "?"
		}
		et.line = t.Name() + " cols[" + strings.Join(cs, " ") + "] pk[" + strings.Join(pk, ",") + "] idx[" + strings.Join(is, " ") + "] check[" + ck + "]"
		tables = append(tables, et)
	}
	sort.Slice(tables, func(i, j int) bool { return tables[i].name < tables[j].name })
	for _, t := range tables {
		lines = append(lines, t.line)
	}
	return tables, lines
}

func k12ShowVal(v c15Val) string {
	if v.null {
		return "NULL"
	}
	switch v.ty {
	case sql.IntegerType:
		return strconv.FormatInt(v.i, 10)
	case sql.VarcharType:
		return "'" + v.s + "'"
	}
	return sqlValShow(v)
}

func k12RowLines(q sqlQRes) []string {
	var out []string
	for _, r := range q.Rows {
		vs := make([]string, len(r))
		for i, v := range r {
			vs[i] = k12ShowVal(v)
		}
		out = append(out, "("+strings.Join(vs, ",")+")")
	}
	sort.Strings(out)
	return out
}

var k12CheckRe = regexp.MustCompile(`^\(?\s*\(?([A-Za-z_][A-Za-z_0-9]*)\)?\s*>=\s*\(?(-?[0-9]+)\)?\s*\)?$`)

// ---------------------------------------------------------------- sessions and case

type k12Done struct {
	st  *k12Stmt
	upd int
}

type k12Sess struct {
	id      int
	tx      *sql.SQLTx
	inTx    bool
	kind    string // empty | reader | writer | noop | ddl
	prog    []k12Done
	engUpd  int
	foreign bool            // another session committed since BEGIN
	rowsW   map[string]bool // "table/id" written by this transaction
	valsW   map[string]bool // "table/colid/value" written or vacated by this transaction
	ddlT    map[string]bool // tables changed by this transaction's DDL
	dmlT    map[string]bool // tables written by this transaction's DML
	reads   int
	turns   int
}

func (s *k12Sess) reset() { *s = k12Sess{id: s.id} }

// a recent constraint change the DML generator aims at
type k12Hot struct {
	T     string
	Kind  string // unique | index | notnull | check | len | add-column | drop-column | rename-column | drop-index | auto
	Cols  []string
	Ghost string // a column name that no longer exists
}

type k12Case struct {
	r        *hx.Result
	rng      *hx.Rng
	env      *sqlEnv
	ref      *k12DB
	sess     []*k12Sess
	script   []string
	hot      []k12Hot
	nextName int
	nextID   int64
	dead     bool
	gen      int      // DDL transactions committed (harness count)
	genLines []string // rendering of the reference catalog at every generation
	hits     *int     // cache-hit counter of the engine under test (package-level observer)
	commits  int
	lastDDL  string
}

func (c *k12Case) log(s string) { c.script = append(c.script, s) }

func (c *k12Case) replay(detail string) c11Replay {
	sc := c.script
	if len(sc) > 200 {
		sc = append(append([]string{}, sc[:30]...), append([]string{fmt.Sprintf("… (%d lines omitted; rerun with the seed)", len(sc)-170)}, sc[len(sc)-140:]...)...)
	}
	return c11Replay{Script: append([]string{}, sc...), Detail: detail}
}

func (c *k12Case) fail(sig, desc string) { c.r.Fail(sig, desc, c.replay(desc)) }

func (c *k12Case) exec(sid int, tx *sql.SQLTx, q string) sqlXRes {
	res := sqlExec(c.env.eng, tx, sqlPlain(q))
	st := "ok"
	if res.Err != "" {
		st = "ERR " + res.Err
	}
	c.log(fmt.Sprintf("[s%d] %s   => %s", sid, q, st))
	return res
}

func (c *k12Case) query(sid int, tx *sql.SQLTx, q string) sqlQRes {
	res := sqlQuery(c.env.eng, tx, sqlPlain(q))
	c.log(fmt.Sprintf("[s%d] %s (Query)   => %s", sid, q, sqlQueryOutcome(res)))
	return res
}

func k12Join(xs []string) string {
	if len(xs) == 0 {
		return "∅"
	}
	return strings.Join(xs, " | ")
}

func (c *k12Case) hm(h0 int) string {
	if *c.hits > h0 {
		return "hit"
	}
	return "miss"
}

// generation of a rendered catalog: the committed one if it matches, else the newest older one it equals
func (c *k12Case) genOf(lines []string) string {
	k := strings.Join(lines, "\n")
	for g := c.gen; g >= 0; g-- {
		if g < len(c.genLines) && c.genLines[g] == k {
			return strconv.Itoa(g)
		}
	}
	return "?"
}

func (c *k12Case) setGen() {
	for len(c.genLines) <= c.gen {
		c.genLines = append(c.genLines, "")
	}
	c.genLines[c.gen] = strings.Join(c.ref.catalogLines(), "\n")
}

// ---------------------------------------------------------------- the oracle: persisted truth through a FRESH engine

func (c *k12Case) verify(where string) bool {
	if c.dead {
		return false
	}
	r := c.r
	r.OracleChecks++
	fresh, err := sql.NewEngine(c.env.st, sql.DefaultOptions().WithPrefix([]byte("sql")))
	if err != nil {
		c.fail("C12:persisted:fresh-engine-cannot-open", where+": a fresh engine on the same store fails with "+err.Error())
		c.dead = true
		return false
	}
	cat, err := fresh.Catalog(context.Background(), nil)
	if err != nil {
		c.fail("C12:persisted:catalog-unreadable", where+": a fresh engine on the same store cannot load the catalog: "+sqlErrClass(err))
		c.dead = true
		return false
	}
	tables, lines := k12RenderCatalog(cat)
	ctx := where + ": a fresh engine on the same store"
	nrows := 0
	ok := true
	// 1. every constraint the PERSISTED catalog declares holds over the persisted live rows
	type scan struct {
		rows  [][]c15Val
		lines []string
	}
	scans := map[string]scan{}
	for _, et := range tables {
		q := sqlQuery(fresh, nil, sqlPlain("SELECT * FROM "+et.name))
		r.OracleChecks++
		if q.Err != "" {
			c.fail("C12:persisted:rows-unreadable", fmt.Sprintf("%s cannot read table %s (%s): %s", ctx, et.name, et.line, q.Err))
			c.dead = true
			return false
		}
		base := k12RowLines(q)
		scans[et.name] = scan{rows: q.Rows, lines: base}
		nrows += len(q.Rows)
		pos := map[string]int{}
		for i, col := range et.cols {
			pos[col.Name()] = i
		}
		rt := c.ref.T[et.name]
		// primary key
		seenPK := map[string]bool{}
		for _, row := range q.Rows {
			if len(row) != len(et.cols) {
				c.fail("C12:persisted:rows-unreadable", fmt.Sprintf("%s reads a row of %d values from table %s with %d columns", ctx, len(row), et.name, len(et.cols)))
				c.dead = true
				return false
			}
			k := k12ShowVal(row[0])
			if seenPK[k] || row[0].null {
				c.fail("C12:constraint:duplicate-pk", fmt.Sprintf("%s: table %s holds two live rows with the key %s", ctx, et.name, k))
				ok = false
			}
			seenPK[k] = true
			for i, col := range et.cols {
				if row[i].null && !col.IsNullable() {
					c.fail("C12:constraint:null-in-not-null", fmt.Sprintf("%s: table %s, row id=%s holds NULL in column %s, which the persisted catalog declares NOT NULL [%s]", ctx, et.name, k, col.Name(), et.line))
					ok = false
				}
				if !row[i].null && row[i].ty == sql.VarcharType && col.MaxLen() > 0 && len(row[i].s) > col.MaxLen() {
					c.fail("C12:constraint:value-exceeds-declared-length", fmt.Sprintf("%s: table %s, row id=%s holds %d bytes in %s VARCHAR[%d]", ctx, et.name, k, len(row[i].s), col.Name(), col.MaxLen()))
					ok = false
				}
				if !row[i].null && row[i].ty != col.Type() {
					c.fail("C12:constraint:value-of-wrong-type", fmt.Sprintf("%s: table %s, row id=%s holds a %s in column %s %s", ctx, et.name, k, row[i].ty, col.Name(), col.Type()))
					ok = false
				}
			}
		}
		// UNIQUE indexes; every secondary index shows the table
		for _, ix := range et.idx {
			r.OracleChecks++
			xq := sqlQuery(fresh, nil, sqlPlain("SELECT * FROM "+et.name+" USE INDEX ON ("+strings.Join(ix.cols, ", ")+")"))
			if xl := k12RowLines(xq); xq.Err != "" || strings.Join(xl, " ") != strings.Join(base, " ") {
				c.fail("C12:index:stale-or-missing-entry", fmt.Sprintf("%s: table %s through index (%s): %s %s; through the primary key: %s", ctx, et.name, strings.Join(ix.cols, ","), xq.Err, d13Show(xl), d13Show(base)))
				ok = false
			}
			if !ix.unique {
				continue
			}
			seen := map[string]string{}
			for _, row := range q.Rows {
				ps := make([]string, len(ix.cols))
				for i, n := range ix.cols {
					ps[i] = k12ShowVal(row[pos[n]])
				}
				tp := strings.Join(ps, ",")
				if other, dup := seen[tp]; dup {
					cz := ""
					if rt != nil {
						var ids []int
						for _, n := range ix.cols {
							if rc := rt.col(n); rc != nil {
								ids = append(ids, rc.ID)
							}
						}
						if i := rt.idxAt(ids); len(ids) == len(ix.cols) && (rt.DupOK[fmt.Sprint(ids)+"|"+tp] || (i >= 0 && rt.Idx[i].Tainted)) {
							cz = ":deleted-entry-hides-live-one"
						}
					}
					c.fail("C12:constraint:unique-index-duplicate"+cz, fmt.Sprintf("%s: the persisted catalog declares UNIQUE(%s) on table %s, and the live rows id=%s and id=%s both hold (%s) [%s]", ctx, strings.Join(ix.cols, ","), et.name, other, k12ShowVal(row[0]), tp, et.line))
					if cz == "" {
						ok = false
					}
				}
				seen[tp] = k12ShowVal(row[0])
			}
		}
		// CHECK (col >= n)
		if !et.checkOK {
			r.Count("ddl.persisted.checks-unreadable")
		}
		for _, ck := range et.checks {
			m := k12CheckRe.FindStringSubmatch(ck)
			p, known := 0, false
			if m != nil {
				p, known = pos[m[1]]
			}
			if !known {
				r.Count("ddl.persisted.check-not-evaluated")
				continue
			}
			min, _ := strconv.ParseInt(m[2], 10, 64)
			for _, row := range q.Rows {
				r.OracleChecks++
				if row[p].null || row[p].i < min {
					c.fail("C12:constraint:check-violated", fmt.Sprintf("%s: table %s declares CHECK %s, row id=%s holds %s", ctx, et.name, ck, k12ShowVal(row[0]), k12ShowVal(row[p])))
					ok = false
				}
			}
		}
	}
	r.Eval(fmt.Sprintf("k12|%d|%d|%d|%s", r.Case(), c.commits, nrows, strings.Join(lines, ";")), nrows > 0)
	// 2. persisted catalog and rows = reference
	want := c.ref.catalogLines()
	if strings.Join(lines, "\n") != strings.Join(want, "\n") {
		note := ""
		if c.lastDDL != "" {
			note = "; last acknowledged DDL: " + c.lastDDL
		}
		c.fail("C12:persisted:catalog-differs-from-reference", fmt.Sprintf("%s loads the catalog {%s}; the acknowledged transactions, applied in commit order, give {%s}%s", ctx, k12Join(lines), k12Join(want), note))
		c.dead = true
		return false
	}
	for _, n := range c.ref.names() {
		r.OracleChecks++
		got, wantRows := scans[n].lines, append([]string{}, c.ref.T[n].rowLines()...)
		sort.Strings(wantRows)
		if strings.Join(got, " ") != strings.Join(wantRows, " ") {
			c.fail("C12:state:differs-from-reference", fmt.Sprintf("%s reads table %s = %s; the acknowledged transactions, applied at their commit points, give %s", ctx, n, d13Show(got), d13Show(wantRows)))
			ok = false
		}
	}
	if !ok {
		c.dead = true
	}
	return ok
}

// ---------------------------------------------------------------- generators

func (c *k12Case) freshName(p string) string { c.nextName++; return fmt.Sprintf("%s%d", p, c.nextName) }

func (c *k12Case) newCol(allowNotNull bool) k12Col {
	col := k12Col{Name: c.freshName("c"), Ty: "INTEGER"}
	if c.rng.Intn(3) == 0 {
		col.Ty, col.Len = "VARCHAR", []int{4, 8, 16}[c.rng.Intn(3)]
	}
	if allowNotNull && c.rng.Intn(100) < 35 {
		col.NotNull = true
	}
	return col
}

func (c *k12Case) genCreate(name string) *k12Stmt {
	rng := c.rng
	if name == "" {
		name = c.freshName("t")
	}
	st := &k12Stmt{K: "create-table", T: name, Cols: []k12Col{{Name: "id", Ty: "INTEGER", AutoInc: rng.Intn(100) < 35}}}
	for i, n := 0, 1+rng.Intn(3); i < n; i++ {
		st.Cols = append(st.Cols, c.newCol(true))
	}
	if rng.Intn(100) < 30 {
		for i := 1; i < len(st.Cols); i++ {
			if st.Cols[i].Ty == "INTEGER" {
				st.Cols[i].NotNull = true
				st.Check = &k12Check{Col: i, Min: []int64{0, 1, 3}[rng.Intn(3)]}
				break
			}
		}
	}
	return st
}

func (c *k12Case) pickTable(db *k12DB, preferHot bool) *k12Table {
	ns := db.names()
	if len(ns) == 0 {
		return nil
	}
	if preferHot && len(c.hot) > 0 && c.rng.Intn(100) < 65 {
		if t := db.T[c.hot[len(c.hot)-1].T]; t != nil {
			return t
		}
	}
	return db.T[ns[c.rng.Intn(len(ns))]]
}

// avoid: tables this transaction must not touch with DDL (nil outside transactions)
func (c *k12Case) genDDL(db *k12DB, avoid map[string]bool) *k12Stmt {
	rng := c.rng
	var t *k12Table
	for try := 0; try < 4; try++ {
		t = c.pickTable(db, rng.Intn(2) == 0)
		if t == nil || !avoid[t.Name] {
			break
		}
		t = nil
	}
	if t == nil {
		return c.genCreate("")
	}
	if rng.Intn(30) == 0 { // deliberately invalid
		switch rng.Intn(3) {
		case 0:
			return &k12Stmt{K: "create-table", T: t.Name, Cols: []k12Col{{Name: "id", Ty: "INTEGER"}}}
		case 1:
			return &k12Stmt{K: "drop-index", T: t.Name, ICols: []string{"id"}}
		default:
			return &k12Stmt{K: "add-column", T: t.Name, Cols: []k12Col{{Name: t.Cols[len(t.Cols)-1].Name, Ty: "INTEGER"}}}
		}
	}
	var second []k12Col
	for _, col := range t.Cols[1:] {
		second = append(second, col)
	}
	for try := 0; try < 8; try++ {
		switch k := rng.Intn(100); {
		case k < 14:
			if len(db.T) < 3 {
				return c.genCreate("")
			}
		case k < 58:
			if len(second) > 0 && len(t.Idx) < 3 {
				cols := []string{second[rng.Intn(len(second))].Name}
				if len(second) > 1 && rng.Intn(4) == 0 {
					if o := second[rng.Intn(len(second))].Name; o != cols[0] {
						cols = append(cols, o)
					}
				}
				// UNIQUE mostly where it can succeed (empty table), sometimes on a populated one (must fail)
				uq := rng.Intn(100) < 60
				if uq && len(t.Rows) > 0 && (rng.Intn(100) < 70 || (t.firstPKEntryDead() && rng.Intn(4) != 0)) {
					uq = false
				}
				return &k12Stmt{K: "create-index", T: t.Name, ICols: cols, Unique: uq}
			}
		case k < 68:
			if len(t.Idx) > 0 {
				return &k12Stmt{K: "drop-index", T: t.Name, ICols: t.colNames(t.Idx[rng.Intn(len(t.Idx))].Cols)}
			}
		case k < 82:
			if len(t.Cols) < 6 {
				return &k12Stmt{K: "add-column", T: t.Name, Cols: []k12Col{c.newCol(false)}}
			}
		case k < 89:
			if len(second) > 1 {
				return &k12Stmt{K: "drop-column", T: t.Name, C: second[rng.Intn(len(second))].Name}
			}
		case k < 96:
			if len(second) > 0 {
				col := second[rng.Intn(len(second))]
				if t.Check == nil || t.Check.Col != col.ID { // a renamed CHECK column makes every later INSERT fail (the expression keeps the old name)
					return &k12Stmt{K: "rename-column", T: t.Name, C: col.Name, C2: c.freshName("c")}
				}
			}
		default:
			if len(db.T) > 1 || rng.Intn(2) == 0 {
				return &k12Stmt{K: "drop-table", T: t.Name}
			}
		}
	}
	return &k12Stmt{K: "add-column", T: t.Name, Cols: []k12Col{c.newCol(false)}}
}

func (c *k12Case) genVal(t *k12Table, col k12Col) k12Val {
	n := len(t.Rows)*2 + 4
	if col.Ty == "VARCHAR" {
		return k12Val{isStr: true, s: string(rune('a'+c.rng.Intn(n)%26)) + strconv.Itoa(c.rng.Intn(n)/26)}
	}
	v := int64(c.rng.Intn(n))
	if t.Check != nil && t.Check.Col == col.ID {
		v += t.Check.Min
	}
	return k12Val{i: v}
}

func k12ValKey(t string, col int, v k12Val) string { return fmt.Sprintf("%s/%d/%s", t, col, v.lit()) }

// one DML statement on the committed state `db`; s != nil: inside the open transaction of s (restricted, see the header)
func (c *k12Case) genDML(db *k12DB, s *k12Sess) *k12Stmt {
	rng := c.rng
	var t *k12Table
	for try := 0; try < 4; try++ {
		t = c.pickTable(db, true)
		if t == nil || s == nil || !s.ddlT[t.Name] {
			break
		}
		t = nil
	}
	if t == nil {
		return nil
	}
	var hot *k12Hot
	for i := len(c.hot) - 1; i >= 0 && i >= len(c.hot)-3; i-- {
		if c.hot[i].T == t.Name {
			hot = &c.hot[i]
			break
		}
	}
	indexed := map[int]bool{}
	for _, ix := range t.Idx {
		for _, ci := range ix.Cols {
			indexed[ci] = true
		}
	}
	live := t.ids()
	if s != nil {
		var l2 []int64
		for _, id := range live {
			if !s.rowsW[fmt.Sprintf("%s/%d", t.Name, id)] {
				l2 = append(l2, id)
			}
		}
		live = l2
	}
	// values for the row: start from a victim's tuple under one UNIQUE index (duplicate wanted), else generated
	fill := func(st *k12Stmt, id int64, forUpdate *k12Col) bool {
		var victim map[int]k12Val
		var vpk int64
		vcols := map[int]bool{}
		var uq []k12Idx
		for _, ix := range t.Idx {
			if ix.Unique {
				uq = append(uq, ix)
			}
		}
		if len(uq) > 0 && len(t.Rows) > 0 && rng.Intn(100) < 45 {
			ix := uq[rng.Intn(len(uq))]
			ids := t.ids()
			vpk = ids[rng.Intn(len(ids))]
			if vpk != id {
				victim = t.Rows[vpk]
				for _, ci := range ix.Cols {
					vcols[ci] = true
				}
				st.Bias = "dup-unique"
			}
		}
		cols := t.Cols[1:]
		if forUpdate != nil {
			cols = []k12Col{*forUpdate}
		}
		for _, col := range cols {
			var v k12Val
			switch {
			case victim != nil && vcols[col.ID]:
				v = k12Get(vpk, victim, col.ID)
			default:
				v = c.genVal(t, col)
				for try := 0; try < 6 && indexed[col.ID]; try++ {
					// mostly stay away from tuples with a deleted entry (R2 territory), and from values this transaction wrote or vacated
					bad := rng.Intn(10) != 0 && t.hasDead([]int{col.ID}, v.lit())
					if s != nil && s.valsW[k12ValKey(t.Name, col.ID, v)] {
						bad = true
					}
					if !bad {
						break
					}
					v = c.genVal(t, col)
				}
			}
			if forUpdate == nil {
				switch k := rng.Intn(100); {
				case col.NotNull && k < 10:
					st.Bias = "omit-not-null"
					continue
				case col.NotNull && k < 16:
					v, st.Bias = k12Val{null: true}, "null-not-null"
				case !col.NotNull && k < 22 && !vcols[col.ID]:
					continue
				case !col.NotNull && k < 27 && !vcols[col.ID]:
					v = k12Val{null: true}
				}
			}
			if !v.null && t.Check != nil && t.Check.Col == col.ID && rng.Intn(100) < 14 {
				v, st.Bias = k12Val{i: t.Check.Min - 1 - int64(rng.Intn(2))}, "below-check"
			}
			if !v.null && col.Ty == "VARCHAR" && rng.Intn(100) < 6 {
				v, st.Bias = k12Val{isStr: true, s: strings.Repeat("x", col.Len+1+rng.Intn(3))}, "too-long"
			}
			if s != nil && indexed[col.ID] && s.valsW[k12ValKey(t.Name, col.ID, v)] {
				return false
			}
			st.Names = append(st.Names, col.Name)
			st.Vals = append(st.Vals, v)
		}
		if forUpdate == nil && len(st.Names) == 0 {
			if len(t.Cols) < 2 {
				return false
			}
			col := t.Cols[1+rng.Intn(len(t.Cols)-1)]
			v := c.genVal(t, col)
			if s != nil && indexed[col.ID] && s.valsW[k12ValKey(t.Name, col.ID, v)] {
				return false
			}
			st.Names, st.Vals = append(st.Names, col.Name), append(st.Vals, v)
		}
		if forUpdate == nil && hot != nil && hot.Ghost != "" && t.col(hot.Ghost) == nil && rng.Intn(100) < 10 {
			st.Names, st.Vals, st.Bias = append(st.Names, hot.Ghost), append(st.Vals, k12Val{i: 1}), "ghost-column"
		}
		return true
	}
	fresh := func() int64 { c.nextID++; return c.nextID }
	k := rng.Intn(100)
	switch {
	case len(live) == 0 || (k < 55 && len(t.Rows) <= 12):
		st := &k12Stmt{K: "insert", T: t.Name}
		switch {
		case t.autoInc():
			st.Gen = true
		case len(live) > 0 && rng.Intn(100) < 8:
			st.ID, st.Bias = live[rng.Intn(len(live))], "dup-pk"
		default:
			st.ID = fresh()
		}
		if !fill(st, st.ID, nil) {
			return nil
		}
		return st
	case k < 66 && !t.autoInc():
		st := &k12Stmt{K: "upsert", T: t.Name}
		if rng.Intn(2) == 0 {
			st.ID = live[rng.Intn(len(live))]
		} else {
			st.ID = fresh()
		}
		if !fill(st, st.ID, nil) {
			return nil
		}
		return st
	case k < 84 && len(t.Cols) > 1:
		st := &k12Stmt{K: "update", T: t.Name}
		if rng.Intn(10) < 9 {
			st.ID = live[rng.Intn(len(live))]
		} else {
			st.ID = fresh() + 1000
		}
		col := t.Cols[1+rng.Intn(len(t.Cols)-1)]
		st.C = col.Name
		if !fill(st, st.ID, &col) || len(st.Vals) != 1 {
			return nil
		}
		if st.Vals[0].null && col.NotNull {
			return nil // R3: UPDATE does not enforce NOT NULL
		}
		st.Names = nil
		return st
	default:
		st := &k12Stmt{K: "delete", T: t.Name}
		if rng.Intn(10) < 9 {
			st.ID = live[rng.Intn(len(live))]
		} else {
			st.ID = fresh() + 1000
		}
		return st
	}
}

func (c *k12Case) noteHot(st *k12Stmt) {
	h := k12Hot{T: st.T, Cols: st.ICols}
	switch st.K {
	case "create-table":
		h.Kind = "create-table"
	case "create-index":
		h.Kind = map[bool]string{true: "unique", false: "index"}[st.Unique]
	case "drop-index":
		h.Kind = "drop-index"
	case "add-column":
		h.Kind = "add-column"
	case "drop-column":
		h.Kind, h.Ghost = "drop-column", st.C
	case "rename-column":
		h.Kind, h.Ghost = "rename-column", st.C
	default:
		return
	}
	c.hot = append(c.hot, h)
}

// ---------------------------------------------------------------- schedule steps

const k12Auto = 10 // model session ids of autocommit statements / queries: 10 + session

// a commit of `by` (−1: autocommit) changed the committed state
func (c *k12Case) published(by int, sts []*k12Stmt, who string) {
	c.commits++
	ddl := false
	var qs []string
	for _, st := range sts {
		if st.isDDL() {
			ddl = true
			qs = append(qs, st.sql())
			c.noteHot(st)
		}
	}
	for _, s := range c.sess {
		if s.inTx && s.id != by {
			s.foreign = true
		}
	}
	if ddl {
		c.gen++
		c.setGen()
		c.lastDDL = "[" + strings.Join(qs, "; ") + "] (" + who + ")"
	}
}

// the engine accepted a statement the reference rejects: attributed to R2 when its exact condition holds
func (c *k12Case) accepted(st *k12Stmt, out k12Out, where string, db *k12DB) bool {
	q := st.sql()
	if out.r2 {
		db.apply(st, true)
		if st.K == "create-index" {
			c.r.Count("ddl.r2.unique-index-on-populated")
			c.fail("C12:ddl:unique-index-created-on-populated-table", fmt.Sprintf("%s: [%s] succeeded although table %s holds %d live rows: the emptiness test reads the first primary-index entry, which is a deleted one", where, q, st.T, len(db.T[st.T].Rows)))
			return true
		}
		c.r.Count("ddl.r2.duplicate-behind-deleted-entry")
		if t := db.T[st.T]; t != nil {
			for _, ix := range t.Idx {
				if ix.Unique {
					for _, id := range t.ids() {
						tp := k12Tuple(id, t.Rows[id], ix.Cols)
						if len(t.holders(ix.Cols, tp, id)) > 0 {
							t.DupOK[fmt.Sprint(ix.Cols)+"|"+tp] = true
						}
					}
				}
			}
		}
		c.fail("C12:must-fail:accepted:dup-key:deleted-entry-hides-live-one", fmt.Sprintf("%s: [%s] succeeded although it violates %s: a deleted entry with a smaller key is first under the index-value prefix", where, q, out.what))
		return true
	}
	c.fail("C12:must-fail:accepted:"+out.err, fmt.Sprintf("%s: [%s] was acknowledged although it violates %s under the catalog persisted at that point {%s}", where, q, out.what, k12Join(db.catalogLines())))
	return false
}

func (c *k12Case) autocommit(s *k12Sess, st *k12Stmt) {
	r := c.r
	q := st.sql()
	h0 := *c.hits
	res := c.exec(s.id, nil, q)
	hm := c.hm(h0)
	tmp := c.ref.clone()
	out := tmp.apply(st, false)
	r.Count("ddl.auto." + st.K)
	if st.Bias != "" {
		r.Count("ddl.bias." + st.Bias)
	}
	r.OracleChecks++
	where := fmt.Sprintf("session %d, autocommit", s.id)
	kind := "ddl"
	if !st.isDDL() {
		kind = "dml"
		if res.Err == "" && res.Updated == 0 {
			kind = "nop"
		}
	}
	after := fmt.Sprintf("after the autocommit statement of session %d [%s]", s.id, q)
	switch {
	case res.Err == "read-conflict":
		r.Corr(fmt.Sprintf("c12 ddl auto %d %s conflict", k12Auto+s.id, kind), hm+" conflict")
		c.fail("C12:mvcc:commit-fails-with-unexpected-error", where+": ["+q+"] fails with a read conflict although no other transaction committed during it")
		c.verify(after + " (which failed)")
	case res.Err != "":
		r.Corr(fmt.Sprintf("c12 ddl auto %d %s fail", k12Auto+s.id, kind), hm+" fail")
		r.Count("ddl.auto.err." + d13Class(res.Err))
		if rt := c.ref.T[st.T]; out.err == "" && st.K == "drop-table" && rt != nil && rt.Check != nil && res.Err == "key-not-found" {
			// R19, repaired (known_findings.json → fixed): DropTableStmt deleted the CHECK entry under another key than the one CREATE TABLE
			// persisted. The reference expects DROP TABLE to succeed; the exact symptom keeps its signature
			r.Count("ddl.regressed.drop-table-with-check")
			c.fail("C12:stmt:spurious-failure:key-not-found:drop-table-with-check-constraint", fmt.Sprintf("%s: [%s] fails with %s: the table declares a CHECK constraint {%s}", where, q, res.Err, rt.catalogLine()))
			c.verify(after + " (which failed)")
			return
		}
		if out.err == "" {
			c.fail("C12:stmt:spurious-failure:"+d13Class(res.Err), fmt.Sprintf("%s: [%s] is valid under the persisted catalog {%s} but fails with %s", where, q, k12Join(c.ref.catalogLines()), res.Err))
			c.verify(after + " (which failed)")
			c.dead = true
			return
		}
		r.Count("ddl.must-fail.rejected." + out.err)
		if !c.verify(after+" (which failed)") && !c.dead {
			c.dead = true
		}
	case out.err != "":
		r.Corr(fmt.Sprintf("c12 ddl auto %d %s ok", k12Auto+s.id, kind), hm+" ok")
		if c.accepted(st, out, where, c.ref) {
			c.published(-1, []*k12Stmt{st}, where)
			c.verify(after)
		} else {
			c.verify(after)
			c.dead = true
		}
	default:
		r.Corr(fmt.Sprintf("c12 ddl auto %d %s ok", k12Auto+s.id, kind), hm+" ok")
		c.ref = tmp
		c.published(-1, []*k12Stmt{st}, where)
		if !st.isDDL() && res.Updated != out.upd {
			c.fail("C12:stmt:affected-rows-differ", fmt.Sprintf("%s: [%s] reports %d affected rows, reference %d", where, q, res.Updated, out.upd))
		}
		if st.Gen {
			if got := res.LastPK[st.T]; got != c.ref.T[st.T].MaxEver {
				c.fail("C12:stmt:last-inserted-pk-differs", fmt.Sprintf("%s: [%s] generated the key %d, the high-water mark of the persisted table gives %d", where, q, got, c.ref.T[st.T].MaxEver))
			}
		}
		c.verify(after)
	}
}

func (c *k12Case) begin(s *k12Sess, kind string) {
	h0 := *c.hits
	res := c.exec(s.id, nil, "BEGIN TRANSACTION")
	if res.Err != "" || res.Tx == nil {
		c.r.Corr(fmt.Sprintf("c12 ddl newtx %d rw", s.id), "err:"+res.Err)
		c.fail("C12:begin:fails", fmt.Sprintf("session %d: BEGIN TRANSACTION fails with %s", s.id, res.Err))
		c.dead = true
		return
	}
	s.reset()
	s.tx, s.inTx, s.kind = res.Tx, true, kind
	s.rowsW, s.valsW, s.ddlT, s.dmlT = map[string]bool{}, map[string]bool{}, map[string]bool{}, map[string]bool{}
	_, lines := k12RenderCatalog(res.Tx.Catalog())
	c.r.Corr(fmt.Sprintf("c12 ddl newtx %d rw", s.id), "gen="+c.genOf(lines)+" "+c.hm(h0))
	c.r.Count("ddl.begin." + kind + "." + c.hm(h0))
	c.r.OracleChecks++
	if want := c.ref.catalogLines(); strings.Join(lines, "\n") != strings.Join(want, "\n") {
		c.log(fmt.Sprintf("-- [s%d] catalog of the new transaction: {%s}", s.id, k12Join(lines)))
		c.fail("C12:begin:transaction-works-on-stale-catalog", fmt.Sprintf("session %d begins a transaction whose catalog is {%s}; the persisted catalog is {%s}: its statements will be checked against constraints that are not the declared ones (last acknowledged DDL: %s)", s.id, k12Join(lines), k12Join(want), c.lastDDL))
	}
}

func (c *k12Case) noteWrite(s *k12Sess, st *k12Stmt) {
	t := c.ref.T[st.T]
	if st.isDDL() {
		s.ddlT[st.T] = true
		return
	}
	s.dmlT[st.T] = true
	s.rowsW[fmt.Sprintf("%s/%d", st.T, st.ID)] = true
	if t == nil {
		return
	}
	if old, ok := t.Rows[st.ID]; ok {
		for ci, v := range old {
			s.valsW[k12ValKey(st.T, ci, v)] = true
		}
	}
	switch st.K {
	case "insert", "upsert":
		for i, n := range st.Names {
			if col := t.col(n); col != nil {
				s.valsW[k12ValKey(st.T, col.ID, st.Vals[i])] = true
			}
		}
		for _, col := range t.Cols[1:] { // omitted columns are NULL
			s.valsW[k12ValKey(st.T, col.ID, k12Val{null: true})] = true
		}
	case "update":
		if col := t.col(st.C); col != nil {
			s.valsW[k12ValKey(st.T, col.ID, st.Vals[0])] = true
		}
	}
}

func (c *k12Case) aborted(s *k12Sess, why string) {
	c.r.Corr(fmt.Sprintf("c12 ddl cancel %d", s.id), "ok")
	s.reset()
	c.verify(why)
}

// one statement inside the open transaction of s
func (c *k12Case) inTxStmt(s *k12Sess, st *k12Stmt) {
	r := c.r
	q := st.sql()
	res := c.exec(s.id, s.tx, q)
	r.Count("ddl.intx." + st.K)
	if st.Bias != "" {
		r.Count("ddl.bias." + st.Bias)
	}
	if res.Err != "" {
		r.Count("ddl.intx.err." + d13Class(res.Err))
		// a statement error aborts the whole transaction: nothing of it may be persisted
		c.aborted(s, fmt.Sprintf("after [%s] failed inside the transaction of session %d and aborted it", q, s.id))
		return
	}
	s.tx = res.Tx
	if s.tx == nil {
		c.fail("C12:stmt:transaction-lost", fmt.Sprintf("session %d: [%s] succeeded but the explicit transaction is gone", s.id, q))
		c.dead = true
		s.reset()
		return
	}
	delta := res.OpenUpd - s.engUpd
	s.engUpd = res.OpenUpd
	if st.Gen {
		st.ID = s.tx.LastInsertedPKs()[st.T]
	}
	switch {
	case st.isDDL():
		r.Corr(fmt.Sprintf("c12 ddl ddl %d", s.id), "ok")
	case delta > 0:
		r.Corr(fmt.Sprintf("c12 ddl dml %d", s.id), "ok")
	}
	c.noteWrite(s, st)
	s.prog = append(s.prog, k12Done{st: st, upd: delta})
}

func (c *k12Case) inTxRead(s *k12Sess) {
	s.reads++
	c.r.Count("ddl.intx.read")
	t := c.pickTable(c.ref, true)
	if t == nil || s.ddlT[t.Name] {
		c.query(s.id, s.tx, "SELECT * FROM TABLES()")
		return
	}
	q := c.query(s.id, s.tx, "SELECT * FROM "+t.Name)
	if q.Err != "" {
		if s.foreign {
			c.r.Count("ddl.intx.read.fails-after-foreign-commit") // R8/R15 (C13): catalog of BEGIN, rows of a later snapshot
		} else {
			c.fail("C12:intx:read-fails", fmt.Sprintf("session %d inside its transaction: SELECT * FROM %s fails with %s although nothing was committed since its BEGIN", s.id, t.Name, q.Err))
		}
	}
}

func (c *k12Case) commit(s *k12Sess) {
	r := c.r
	res := c.exec(s.id, s.tx, "COMMIT")
	r.Count("ddl.commit." + s.kind)
	hasDDL, effective := false, false
	var progSQL []string
	var sts []*k12Stmt
	for _, d := range s.prog {
		if d.st.isDDL() {
			hasDDL, effective = true, true
		}
		if d.upd > 0 {
			effective = true
		}
		progSQL = append(progSQL, d.st.sql())
		sts = append(sts, d.st)
	}
	what := "executed no statement"
	if len(s.prog) > 0 {
		what = "executed [" + strings.Join(progSQL, "; ") + "]"
	} else if s.reads > 0 {
		what = "only queried"
	}
	if !hasDDL {
		what += ", no DDL"
	}
	if res.Err != "" {
		r.Corr(fmt.Sprintf("c12 ddl commit %d conflict", s.id), "conflict")
		r.Count("ddl.commit.err." + d13Class(res.Err))
		r.OracleChecks++
		if !effective {
			c.fail("C12:mvcc:commit-fails-with-unexpected-error", fmt.Sprintf("session %d: COMMIT of a transaction that %s (nothing written) fails with %s", s.id, what, res.Err))
		} else if res.Err != "read-conflict" && res.Err != "dup-key" {
			c.fail("C12:mvcc:commit-fails-with-unexpected-error", fmt.Sprintf("session %d: COMMIT of a transaction that %s fails with %s (expected: success or a read conflict)", s.id, what, res.Err))
		}
		sid := s.id
		s.reset()
		c.verify(fmt.Sprintf("after the failed COMMIT (%s) of session %d, which %s", res.Err, sid, what))
		return
	}
	r.Corr(fmt.Sprintf("c12 ddl commit %d ok", s.id), "ok")
	after := fmt.Sprintf("after COMMIT of session %d, which %s", s.id, what)
	if effective {
		// acknowledged: every statement must be valid at the commit point, under the catalog persisted there
		tmp := c.ref.clone()
		for _, d := range s.prog {
			r.OracleChecks++
			out := tmp.apply(d.st, false)
			if out.err != "" {
				if out.r2 && c.accepted(d.st, out, after, tmp) {
					continue
				}
				if !out.r2 {
					c.fail("C12:commit:acknowledged-transaction-invalid-at-commit-point:"+out.err, fmt.Sprintf("%s: the COMMIT was acknowledged, but at its commit point [%s] violates %s under the persisted catalog {%s}%s", after, d.st.sql(), out.what+" ("+out.err+")", k12Join(tmp.catalogLines()), map[bool]string{true: "; another session committed after this transaction began", false: ""}[s.foreign]))
				}
				s.reset()
				c.verify(after)
				c.dead = true
				return
			}
			if !d.st.isDDL() && out.upd != d.upd {
				c.fail("C12:mvcc:affected-rows-differ-at-commit-point", fmt.Sprintf("%s: [%s] affected %d rows inside the transaction but %d rows on the state committed before the transaction", after, d.st.sql(), d.upd, out.upd))
				s.reset()
				c.verify(after)
				c.dead = true
				return
			}
		}
		c.ref = tmp
		c.published(s.id, sts, fmt.Sprintf("transaction of session %d", s.id))
		if res.Updated != s.engUpd {
			c.fail("C12:stmt:affected-rows-differ", fmt.Sprintf("session %d: the committed transaction reports %d affected rows, its statements reported %d in total", s.id, res.Updated, s.engUpd))
		}
	} else if len(s.prog) > 0 {
		r.Count("ddl.commit.no-effective-write")
	}
	s.reset()
	c.verify(after)
}

func (c *k12Case) rollback(s *k12Sess) {
	res := c.exec(s.id, s.tx, "ROLLBACK")
	c.r.Count("ddl.rollback")
	if res.Err != "" {
		c.fail("C12:rollback:fails", fmt.Sprintf("session %d: ROLLBACK fails with %s", s.id, res.Err))
	}
	c.aborted(s, fmt.Sprintf("after ROLLBACK of session %d", s.id))
}

func (c *k12Case) closeSession(s *k12Sess, why string) {
	if !s.inTx {
		return
	}
	if s.tx != nil {
		s.tx.Cancel()
	}
	c.log(fmt.Sprintf("[s%d] -- session closed (tx.Cancel) %s", s.id, why))
	c.r.Corr(fmt.Sprintf("c12 ddl cancel %d", s.id), "ok")
	s.reset()
}

// autocommit query = read-only transaction: fills / uses the engine's catalog cache
func (c *k12Case) peek(s *k12Sess) {
	h0 := *c.hits
	q := "SELECT * FROM TABLES()"
	if t := c.pickTable(c.ref, true); t != nil && c.rng.Intn(2) == 0 {
		q = "SELECT * FROM " + t.Name
	}
	res := c.query(s.id, nil, q)
	c.r.Corr(fmt.Sprintf("c12 ddl peek %d", k12Auto+s.id), c.hm(h0))
	c.r.Count("ddl.peek." + c.hm(h0))
	if res.Err != "" {
		c.fail("C12:stmt:spurious-failure:"+d13Class(res.Err), fmt.Sprintf("session %d, autocommit: [%s] fails with %s; persisted catalog {%s}", s.id, q, res.Err, k12Join(c.ref.catalogLines())))
	}
}

func (c *k12Case) reopen() {
	for _, s := range c.sess {
		c.closeSession(s, "before the engine is closed")
	}
	c.log("-- close / reopen")
	if err := c.env.reopen(); err != nil {
		c.r.Inconclusive = append(c.r.Inconclusive, "C12 ddl: reopen failed: "+err.Error())
		c.dead = true
		return
	}
	c.r.Corr("c12 ddl reopen", "ok")
	c.r.Count("ddl.reopen")
	c.verify("after the engine was closed and opened again")
}

var k12Kinds = []string{"empty", "empty", "reader", "reader", "noop", "writer", "writer", "writer", "ddl", "ddl"}

func (c *k12Case) othersOpen(s *k12Sess) int {
	n := 0
	for _, o := range c.sess {
		if o != s && o.inTx {
			n++
		}
	}
	return n
}

func (c *k12Case) step(s *k12Sess, peekPct int) {
	rng := c.rng
	if !s.inTx {
		ddlPct := 18
		if c.othersOpen(s) > 0 {
			ddlPct = 34 // constraints change while other sessions have transactions open
		}
		switch k := rng.Intn(100); {
		case k < 26:
			c.begin(s, k12Kinds[rng.Intn(len(k12Kinds))])
		case k < 26+ddlPct:
			c.autocommit(s, c.genDDL(c.ref, nil))
			if !c.dead && rng.Intn(3) == 0 { // DDL right after DDL
				c.autocommit(s, c.genDDL(c.ref, nil))
			}
		case k < 26+ddlPct+peekPct:
			c.peek(s)
		default:
			if st := c.genDML(c.ref, nil); st != nil {
				c.autocommit(s, st)
			} else {
				c.autocommit(s, c.genCreate(""))
			}
		}
		return
	}
	s.turns++
	k := rng.Intn(100)
	switch s.kind {
	case "empty":
		if k < 55 {
			c.commit(s)
		} else if k < 62 {
			c.rollback(s)
		}
		return
	case "reader":
		switch {
		case k < 45:
			c.inTxRead(s)
		case k < 88:
			c.commit(s)
		default:
			c.rollback(s)
		}
		return
	case "noop": // a writer without effect: its COMMIT has no entries
		switch {
		case len(s.prog) == 0 || k < 20:
			if t := c.pickTable(c.ref, false); t != nil && !s.ddlT[t.Name] {
				c.nextID++
				st := &k12Stmt{K: "delete", T: t.Name, ID: c.nextID + 5000}
				if len(t.Cols) > 1 && rng.Intn(2) == 0 && !t.Cols[1].NotNull {
					st = &k12Stmt{K: "update", T: t.Name, ID: c.nextID + 5000, C: t.Cols[1].Name, Vals: []k12Val{c.genVal(t, t.Cols[1])}}
				}
				c.inTxStmt(s, st)
			} else {
				c.commit(s)
			}
		case k < 85:
			c.commit(s)
		default:
			c.rollback(s)
		}
		return
	}
	switch {
	case k < 45 && len(s.prog) < 3:
		var st *k12Stmt
		if s.kind == "ddl" && len(s.ddlT) == 0 {
			st = c.genDDL(c.ref, s.dmlT)
			if st.K != "create-table" && s.dmlT[st.T] {
				st = nil
			}
		} else {
			st = c.genDML(c.ref, s)
		}
		if st != nil {
			c.inTxStmt(s, st)
		}
	case k < 52:
		c.inTxRead(s)
	case k < 88:
		c.commit(s)
	case k < 96:
		c.rollback(s)
	default:
		c.closeSession(s, "")
		c.r.Count("ddl.session-closed")
		c.verify(fmt.Sprintf("after session %d was closed with an open transaction", s.id))
	}
}

// a constraint is introduced while other sessions have transactions open; the open sessions then finish, and a burst of
// autocommit DML aims at the new constraint
func (c *k12Case) episode() {
	rng := c.rng
	c.r.Count("ddl.episode")
	var free []*k12Sess
	for _, s := range c.sess {
		if !s.inTx {
			free = append(free, s)
		}
	}
	if len(free) < 2 {
		return
	}
	rngShuffle(rng, len(free), func(i, j int) { free[i], free[j] = free[j], free[i] })
	ddler, others := free[0], free[1:]
	if len(c.ref.T) == 0 || rng.Intn(3) == 0 {
		c.autocommit(ddler, c.genCreate(""))
	}
	if rng.Intn(4) == 0 && !c.dead {
		c.peek(ddler) // warm cache
	}
	n := 1 + rng.Intn(len(others))
	for _, s := range others[:n] {
		if c.dead {
			return
		}
		c.begin(s, []string{"empty", "reader", "noop", "writer"}[rng.Intn(4)])
		if !c.dead && s.inTx && s.kind != "empty" && rng.Intn(2) == 0 {
			c.step(s, 0)
		}
	}
	for i, m := 0, 1+rng.Intn(2); i < m && !c.dead; i++ {
		st := c.genDDL(c.ref, nil)
		if t := c.pickTable(c.ref, true); t != nil && len(t.Cols) > 1 && len(t.Idx) < 3 && rng.Intn(100) < 55 {
			col := t.Cols[1+rng.Intn(len(t.Cols)-1)]
			st = &k12Stmt{K: "create-index", T: t.Name, ICols: []string{col.Name}, Unique: len(t.Rows) == 0 || (rng.Intn(4) == 0 && (!t.firstPKEntryDead() || rng.Intn(4) == 0))}
		}
		c.autocommit(ddler, st)
	}
	for tries := 0; tries < 12 && !c.dead; tries++ {
		open := false
		for _, s := range others[:n] {
			if s.inTx {
				open = true
				if rng.Intn(2) == 0 {
					c.step(s, 0)
				}
			}
			if c.dead {
				return
			}
		}
		if !open {
			break
		}
	}
	for i, m := 0, 4+rng.Intn(6); i < m && !c.dead; i++ {
		s := c.sess[rng.Intn(len(c.sess))]
		if s.inTx {
			c.step(s, 0)
			continue
		}
		if st := c.genDML(c.ref, nil); st != nil {
			c.autocommit(s, st)
		}
	}
}

// ALTER COLUMN … SET NOT NULL as the LAST action of a case (its COMMIT has no entries, which the cache model does not
// describe): the constraint must be persisted once the statement is acknowledged
func (c *k12Case) probeSetNotNull() {
	for _, n := range c.ref.names() {
		t := c.ref.T[n]
		for _, col := range t.Cols[1:] {
			if col.NotNull {
				continue
			}
			hasNull := false
			for id, r := range t.Rows {
				if k12Get(id, r, col.ID).null {
					hasNull = true
				}
			}
			if hasNull {
				continue
			}
			q := fmt.Sprintf("ALTER TABLE %s ALTER COLUMN %s SET NOT NULL", t.Name, col.Name)
			res := c.exec(0, nil, q)
			c.r.Count("ddl.probe.set-not-null")
			if res.Err != "" {
				c.r.Count("ddl.probe.set-not-null.err." + d13Class(res.Err))
				return
			}
			c.r.OracleChecks++
			fresh, err := sql.NewEngine(c.env.st, sql.DefaultOptions().WithPrefix([]byte("sql")))
			if err != nil {
				return
			}
			cat, err := fresh.Catalog(context.Background(), nil)
			if err != nil {
				return
			}
			ft, err := cat.GetTableByName(t.Name)
			if err != nil {
				return
			}
			fc, err := ft.GetColumnByName(col.Name)
			if err != nil {
				return
			}
			if fc.IsNullable() {
				ins := &k12Stmt{K: "insert", T: t.Name, Gen: t.autoInc()}
				if !ins.Gen {
					c.nextID++
					ins.ID = c.nextID
				}
				for _, o := range t.Cols[1:] {
					if o.ID != col.ID && o.NotNull {
						ins.Names, ins.Vals = append(ins.Names, o.Name), append(ins.Vals, c.genVal(t, o))
					}
				}
				ins.Names, ins.Vals = append(ins.Names, col.Name), append(ins.Vals, k12Val{null: true})
				r2 := c.exec(0, nil, ins.sql())
				c.fail("C12:ddl:set-not-null-acknowledged-but-not-persisted", fmt.Sprintf("[%s] was acknowledged, but a fresh engine on the same store loads column %s of table %s as nullable; a following [%s] (NULL in that column) => %s", q, col.Name, t.Name, ins.sql(), map[bool]string{true: "accepted", false: "ERR " + r2.Err}[r2.Err == ""]))
			}
			return
		}
	}
}

// R19 (repaired): DROP TABLE of a table that declares a CHECK constraint, re-creation under the same name with another bound or without
// CHECK, and rows aimed between the old and the new bound — every statement through the judged autocommit path (reference verdict, then
// a fresh engine over the store: the persisted catalog must be the reference's, so no constraint entry of the dropped table may be
// loaded for the new one, and every declared constraint holds over the rows).
func (c *k12Case) probeDropTableWithCheck() {
	s := c.sess[0]
	var t *k12Table
	for _, n := range c.ref.names() {
		if c.ref.T[n].Check != nil {
			t = c.ref.T[n]
			break
		}
	}
	if t == nil {
		st := &k12Stmt{K: "create-table", T: c.freshName("t"), Cols: []k12Col{{Name: "id", Ty: "INTEGER"}, {Name: c.freshName("c"), Ty: "INTEGER", NotNull: true}},
			Check: &k12Check{Col: 1, Min: []int64{1, 3}[c.rng.Intn(2)]}}
		c.autocommit(s, st)
		if t = c.ref.T[st.T]; c.dead || t == nil {
			return
		}
	}
	name, oldMin := t.Name, t.Check.Min
	c.r.Count("ddl.probe.drop-table-with-check")
	c.autocommit(s, &k12Stmt{K: "drop-table", T: name})
	if c.dead || c.ref.T[name] != nil {
		return
	}
	st := &k12Stmt{K: "create-table", T: name, Cols: []k12Col{{Name: "id", Ty: "INTEGER"}, {Name: c.freshName("c"), Ty: "INTEGER", NotNull: true}}}
	newMin, probe := int64(0), oldMin-1 // a value the old constraint refuses and the new table accepts
	if oldMin == 0 {
		newMin, probe = 5, 2 // … the old constraint accepts and the new one refuses
	}
	if c.rng.Intn(3) > 0 {
		st.Check = &k12Check{Col: 1, Min: newMin}
		c.r.Count("ddl.probe.drop-table-with-check.recreated-with-check")
	} else {
		c.r.Count("ddl.probe.drop-table-with-check.recreated-without-check")
	}
	c.autocommit(s, st)
	for _, v := range []int64{probe, newMin + 7} {
		if c.dead || c.ref.T[name] == nil {
			return
		}
		c.nextID++
		c.autocommit(s, &k12Stmt{K: "insert", T: name, ID: c.nextID, Names: []string{st.Cols[1].Name}, Vals: []k12Val{{i: v}}, Bias: "old-or-new-check-bound"})
	}
}

func (c *k12Case) run(thorough bool) {
	r, rng := c.r, c.rng
	r.NextCase()
	env, err := sqlOpenEnv("c12d")
	if err != nil {
		r.Inconclusive = append(r.Inconclusive, "cannot open store: "+err.Error())
		return
	}
	c.env = env
	defer func() {
		for _, s := range c.sess {
			if s.inTx && s.tx != nil {
				s.tx.Cancel()
			}
		}
		env.close()
	}()
	c.ref = &k12DB{T: map[string]*k12Table{}}
	c.setGen()
	r.Corr("c12 ddl reset", "ok")
	nSess := 2 + rng.Intn(3)
	for i := 0; i < nSess; i++ {
		c.sess = append(c.sess, &k12Sess{id: i})
	}
	peekPct := []int{0, 4, 12}[rng.Intn(3)] // some cases never warm the cache through readers
	start := rng.Intn(3)
	r.Count(fmt.Sprintf("ddl.case.sessions%d.peek%d.start%d", nSess, peekPct, start))
	r.Count("mode.ddl-schedule")
	// fresh engine / schema (and rows) that exist before a close + re-open: cold start over existing tables
	if start >= 1 {
		c.autocommit(c.sess[0], c.genCreate(""))
		for i := 0; i < 1+rng.Intn(3) && !c.dead; i++ {
			if st := c.genDML(c.ref, nil); st != nil {
				c.autocommit(c.sess[0], st)
			}
		}
		if start == 2 && !c.dead {
			c.reopen()
		}
	}
	steps := 45 + rng.Intn(40)
	if thorough {
		steps *= 2
	}
	for st := 0; st < steps && !c.dead; st++ {
		switch k := rng.Intn(100); {
		case k < 2:
			c.reopen()
		case k < 9:
			c.episode()
		default:
			c.step(c.sess[rng.Intn(nSess)], peekPct)
		}
	}
	if !c.dead {
		for _, s := range c.sess {
			c.closeSession(s, "at the end of the case")
		}
		c.verify("after all sessions were closed")
	}
	if !c.dead && rng.Intn(2) == 0 {
		c.probeDropTableWithCheck()
	}
	if !c.dead && rng.Intn(3) == 0 {
		c.probeSetNotNull()
	}
	if r.Distribution["ddl.sampled"] < 1 && len(c.script) > 20 {
		r.Count("ddl.sampled")
		r.Sample(map[string]interface{}{"case": r.Case(), "mode": "constraints-added-while-sessions-are-active", "script_head": c.script[:min(len(c.script), 18)], "lines": len(c.script)})
	}
}

func runC12DDL(r *hx.Result, rng *hx.Rng, thorough bool) error {
	hits := 0
	oldHit, oldMiss := sql.CatalogCacheHitObserver, sql.CatalogCacheMissObserver
	sql.CatalogCacheHitObserver = func() { hits++ }
	sql.CatalogCacheMissObserver = func() {}
	defer func() { sql.CatalogCacheHitObserver, sql.CatalogCacheMissObserver = oldHit, oldMiss }()
	cases := 12
	if thorough {
		cases = 120
	}
	for i := 0; i < cases; i++ {
		c := &k12Case{r: r, rng: rng.Fork(), hits: &hits}
		c.run(thorough)
		if i%4 == 3 || i == cases-1 {
			if err := r.Flush(); err != nil {
				return err
			}
		}
	}
	for _, k := range []string{"ddl.begin.empty.miss", "ddl.begin.reader.miss", "ddl.begin.writer.hit", "ddl.commit.empty", "ddl.commit.reader", "ddl.commit.noop", "ddl.commit.writer", "ddl.commit.ddl", "ddl.reopen",
		"ddl.auto.create-table", "ddl.auto.create-index", "ddl.auto.add-column", "ddl.auto.drop-index", "ddl.auto.insert", "ddl.must-fail.rejected.dup-key", "ddl.must-fail.rejected.not-null",
		"ddl.must-fail.rejected.limited-index-creation", "ddl.bias.dup-unique", "ddl.episode", "ddl.probe.drop-table-with-check"} {
		if r.Distribution[k] == 0 {
			r.Inconclusive = append(r.Inconclusive, "generator never produced class "+k)
		}
	}
	r.Notes = append(r.Notes, "DDL schedules (c12_ddl.go): constraints are added / changed while other sessions have transactions open; after every commit a FRESH engine on the same store reads the persisted catalog and rows, every declared constraint is checked over them and they must equal the reference (statements of acknowledged transactions applied at their commit points under the catalog persisted there); Lean tie `c12 ddl …` on the catalog-cache model (generation seen by every new transaction, hit/miss, mandatory catalog conflicts)")
	return nil
}

// developer shortcut: `vh C12DDL -seed N -out F` runs this family alone (the check runs it as part of C12)
func init() {
	runners["C12DDL"] = func(r *hx.Result, rng *hx.Rng, thorough bool, replay string) error {
		r.Property = "C12"
		return runC12DDL(r, rng.Fork().Fork(), thorough)
	}
}
