package main

// C19 oracle: an in-memory list of documents (id, revisions) and a Go interpreter of the document
// query language.  The interpreter works on the TYPED VIEW the engine uses, and every conversion the
// engine applies is spelled out here (nothing is hidden):
//
//   * a schema field F of type T is read from the document with the path rule of
//     structValueFromFieldPath: strings.SplitN(F, ".", maxNestedFields=3) — so "a.b.c.d" addresses the key
//     "c.d" of object a.b; a missing key, a non-object on the way, and a JSON null all give SQL NULL;
//   * INTEGER: the JSON number (a float64) is truncated toward zero (2.7 -> 2, -2.7 -> -2); the filter
//     value of a comparison on that field is truncated the same way ("n EQ 2.9" means n = 2);
//     INTENDED for |x| >= 2^63 / ±Inf: saturation; AS IMPLEMENTED (Go int64(f) on amd64, CVTTSD2SI):
//     every out-of-range value becomes MinInt64 — quirk qIntWrap, reported as a finding when it shows;
//   * DOUBLE: IEEE comparison (-0 = +0);  STRING: bytes.Compare of the UTF-8 bytes, at most 512 bytes;
//     UUID: uuid.Parse (all textual forms), compared as 16 bytes;  BOOLEAN false < true;
//   * NULL is the smallest value of every type and NULL = NULL is true (Compare of NullValue), there is no
//     three-valued logic: "f LT 5" matches documents without f, "f EQ null" matches exactly those;
//   * LIKE / NOT_LIKE: SQL pattern (% any sequence, _ one character, \x literal x) anchored at both ends;
//     NULL column: LIKE false, NOT_LIKE true.  AS IMPLEMENTED the pattern is translated to a Go regexp byte
//     by byte (a non-ASCII literal never matches: quirk qLikeByte) and '.' does not match '\n' (qLikeNL);
//   * the row (typed view) is computed WHEN THE DOCUMENT IS UPSERTED: a field added to the collection later
//     is NULL for older documents even if their JSON contains it (quirk qStaleRow: intended = current schema).
//
// Mismatches between the engine and the INTENDED semantics that are explained by one of the quirks are
// reported under a signature carrying the quirk name; anything else under the plain signature.

import (
	"bytes"
	"encoding/hex"
	"fmt"
	"math"
	"sort"
	"strings"
	"unicode/utf8"

	"github.com/codenotary/immudb/pkg/api/protomodel"
	"github.com/google/uuid"
	"google.golang.org/protobuf/proto"
	"google.golang.org/protobuf/types/known/structpb"
)

type c19Q uint32

const (
	qIntWrap c19Q = 1 << iota
	qLikeByte
	qLikeNL
	qStaleRow
	qAll = qIntWrap | qLikeByte | qLikeNL | qStaleRow
)

const c19MaxNested = 3
const c19MaxStr = 512

// field type codes: the protomodel ones plus the id column
const c19TypeID = protomodel.FieldType(100)

type c19Field struct {
	Name string
	Type protomodel.FieldType
	Ep   int // epoch: a field dropped and added again is a different column
}

type c19Index struct {
	Fields []string
	Unique bool
}

// typed value
type c19TV struct {
	Null bool
	T    protomodel.FieldType
	I    int64
	F    float64
	S    string
	B    bool
	U    [16]byte
	Raw  []byte
}

func (v c19TV) String() string {
	if v.Null {
		return "NULL"
	}
	switch v.T {
	case protomodel.FieldType_INTEGER:
		return fmt.Sprintf("i%d", v.I)
	case protomodel.FieldType_DOUBLE:
		return fmt.Sprintf("d%016x", math.Float64bits(v.F))
	case protomodel.FieldType_STRING:
		return "s" + hex.EncodeToString([]byte(v.S))
	case protomodel.FieldType_BOOLEAN:
		return fmt.Sprintf("b%v", v.B)
	case protomodel.FieldType_UUID:
		return "u" + hex.EncodeToString(v.U[:])
	case c19TypeID:
		return "x" + hex.EncodeToString(v.Raw)
	}
	return "?"
}

// c19F2I: the INTEGER conversion, stated explicitly.
func c19F2I(f float64, q c19Q) int64 {
	if f != f { // NaN
		if q&qIntWrap != 0 {
			return math.MinInt64
		}
		return 0
	}
	t := math.Trunc(f)
	if t >= -9223372036854775808.0 && t < 9223372036854775808.0 {
		return int64(t)
	}
	if q&qIntWrap != 0 {
		return math.MinInt64 // amd64 CVTTSD2SI "integer indefinite"
	}
	if t < 0 {
		return math.MinInt64
	}
	return math.MaxInt64
}

func c19IntOutOfRange(f float64) bool {
	return c19F2I(f, 0) != c19F2I(f, qIntWrap)
}

// c19Conv mirrors structValueToSqlValue: the value kind must match the column type; null is NULL.
func c19Conv(v *structpb.Value, t protomodel.FieldType, q c19Q) (c19TV, string) {
	if v == nil {
		return c19TV{Null: true, T: t}, ""
	}
	if _, ok := v.GetKind().(*structpb.Value_NullValue); ok {
		return c19TV{Null: true, T: t}, ""
	}
	switch t {
	case protomodel.FieldType_STRING:
		s, ok := v.GetKind().(*structpb.Value_StringValue)
		if !ok {
			return c19TV{}, "err:unexpected-value"
		}
		return c19TV{T: t, S: s.StringValue}, ""
	case protomodel.FieldType_UUID:
		s, ok := v.GetKind().(*structpb.Value_StringValue)
		if !ok {
			return c19TV{}, "err:unexpected-value"
		}
		u, err := uuid.Parse(s.StringValue)
		if err != nil {
			return c19TV{}, "err:uuid"
		}
		return c19TV{T: t, U: u}, ""
	case protomodel.FieldType_INTEGER:
		n, ok := v.GetKind().(*structpb.Value_NumberValue)
		if !ok {
			return c19TV{}, "err:unexpected-value"
		}
		return c19TV{T: t, I: c19F2I(n.NumberValue, q)}, ""
	case protomodel.FieldType_DOUBLE:
		n, ok := v.GetKind().(*structpb.Value_NumberValue)
		if !ok {
			return c19TV{}, "err:unexpected-value"
		}
		return c19TV{T: t, F: n.NumberValue}, ""
	case protomodel.FieldType_BOOLEAN:
		b, ok := v.GetKind().(*structpb.Value_BoolValue)
		if !ok {
			return c19TV{}, "err:unexpected-value"
		}
		return c19TV{T: t, B: b.BoolValue}, ""
	case c19TypeID:
		s, ok := v.GetKind().(*structpb.Value_StringValue)
		if !ok {
			return c19TV{}, "err:unexpected-value"
		}
		raw, err := hex.DecodeString(s.StringValue)
		if err != nil {
			return c19TV{}, "err:hex"
		}
		if len(raw) == 0 {
			return c19TV{}, "err:illegal"
		}
		if len(raw) > 32 {
			return c19TV{}, "err:max-length"
		}
		return c19TV{T: t, Raw: raw}, ""
	}
	return c19TV{}, "err:unsupported-type"
}

// c19Lookup mirrors structValueFromFieldPath (nil = does not exist).
func c19Lookup(doc *structpb.Struct, path string) *structpb.Value {
	parts := strings.SplitN(path, ".", c19MaxNested)
	cur := doc
	for i, p := range parts {
		if cur == nil {
			return nil
		}
		v, ok := cur.Fields[p]
		if !ok {
			return nil
		}
		if i == len(parts)-1 {
			return v
		}
		cur = v.GetStructValue()
	}
	return nil
}

type c19Row map[string]c19TV

// c19MakeRow mirrors generateRowSpecForDocument (+ the VARCHAR[512] limit enforced by the SQL layer).
func c19MakeRow(fields []c19Field, doc *structpb.Struct, q c19Q) (c19Row, string) {
	row := c19Row{}
	idv, ok := doc.Fields["_id"]
	if ok {
		tv, e := c19Conv(idv, c19TypeID, q)
		if e != "" {
			return nil, e
		}
		row["_id"] = tv
	}
	for _, f := range fields {
		v := c19Lookup(doc, f.Name)
		tv, e := c19Conv(v, f.Type, q)
		if e != "" {
			return nil, e
		}
		row[f.Name] = tv
	}
	return row, ""
}

// the VARCHAR[512] limit (bytes) is enforced by the SQL layer when the row is written, i.e. after the
// conversion of ALL documents of the batch succeeded
func c19RowTooLong(fields []c19Field, row c19Row) bool {
	for _, f := range fields {
		if tv := row[f.Name]; !tv.Null && f.Type == protomodel.FieldType_STRING && len(tv.S) > c19MaxStr {
			return true
		}
	}
	return false
}

// c19Cmp: column value a against b (same type or NULL); NULL smallest, NULL = NULL.
func c19Cmp(a, b c19TV) int {
	if a.Null && b.Null {
		return 0
	}
	if a.Null {
		return -1
	}
	if b.Null {
		return 1
	}
	switch a.T {
	case protomodel.FieldType_INTEGER:
		if a.I == b.I {
			return 0
		}
		if a.I > b.I {
			return 1
		}
		return -1
	case protomodel.FieldType_DOUBLE:
		if a.F == b.F {
			return 0
		}
		if a.F > b.F {
			return 1
		}
		return -1
	case protomodel.FieldType_STRING:
		return bytes.Compare([]byte(a.S), []byte(b.S))
	case protomodel.FieldType_BOOLEAN:
		if a.B == b.B {
			return 0
		}
		if a.B {
			return 1
		}
		return -1
	case protomodel.FieldType_UUID:
		return bytes.Compare(a.U[:], b.U[:])
	case c19TypeID:
		return bytes.Compare(a.Raw, b.Raw)
	}
	return 0
}

// ---- LIKE: intended semantics, own matcher (no regexp) ----

type c19LikeTok struct {
	kind byte // 'l' literal rune, '%' any sequence, '_' one character
	r    rune
}

func c19LikeParse(p string, q c19Q) []c19LikeTok {
	var out []c19LikeTok
	if q&qLikeByte != 0 {
		// as implemented: byte by byte; string(byte) is the code point U+00xx, so a UTF-8 lead/continuation
		// byte becomes a different character and the literal can no longer match the text it came from
		b := []byte(p)
		for i := 0; i < len(b); {
			ch := b[i]
			switch {
			case ch == '\\' && i+1 < len(b):
				out = append(out, c19LikeTok{'l', rune(b[i+1])})
				i += 2
			case ch == '%':
				out = append(out, c19LikeTok{kind: '%'})
				i++
			case ch == '_':
				out = append(out, c19LikeTok{kind: '_'})
				i++
			default:
				out = append(out, c19LikeTok{'l', rune(ch)})
				i++
			}
		}
		return out
	}
	rs := []rune(p)
	for i := 0; i < len(rs); {
		ch := rs[i]
		switch {
		case ch == '\\' && i+1 < len(rs):
			out = append(out, c19LikeTok{'l', rs[i+1]})
			i += 2
		case ch == '%':
			out = append(out, c19LikeTok{kind: '%'})
			i++
		case ch == '_':
			out = append(out, c19LikeTok{kind: '_'})
			i++
		default:
			out = append(out, c19LikeTok{'l', ch})
			i++
		}
	}
	return out
}

func c19LikeMatch(toks []c19LikeTok, s []rune, q c19Q) bool {
	if len(toks) == 0 {
		return len(s) == 0
	}
	t := toks[0]
	switch t.kind {
	case '%':
		for k := 0; k <= len(s); k++ {
			if c19LikeMatch(toks[1:], s[k:], q) {
				return true
			}
			if k < len(s) && q&qLikeNL != 0 && s[k] == '\n' {
				return false
			}
		}
		return false
	case '_':
		if len(s) == 0 || (q&qLikeNL != 0 && s[0] == '\n') {
			return false
		}
		return c19LikeMatch(toks[1:], s[1:], q)
	default:
		if len(s) == 0 || s[0] != t.r {
			return false
		}
		return c19LikeMatch(toks[1:], s[1:], q)
	}
}

func c19Like(pattern, s string, q c19Q) bool {
	return c19LikeMatch(c19LikeParse(pattern, q), []rune(s), q)
}

// ---- queries ----

type c19Schema struct {
	Fields []c19Field
}

func (s *c19Schema) typeOf(name string) (protomodel.FieldType, bool) {
	if name == "_id" {
		return c19TypeID, true
	}
	for _, f := range s.Fields {
		if f.Name == name {
			return f.Type, true
		}
	}
	return 0, false
}

var c19ReservedNames = map[string]bool{"collection": true, "field": true, "index": true, "document": true}

func c19ValidFieldName(n string) string {
	if c19ReservedNames[strings.ToLower(n)] || n == "_doc" {
		return "err:reserved"
	}
	if n == "" {
		return "err:illegal"
	}
	for i, c := range n {
		al := (c >= 'a' && c <= 'z') || (c >= 'A' && c <= 'Z') || c == '_'
		if i == 0 && !al {
			return "err:illegal"
		}
		if !(al || (c >= '0' && c <= '9') || c == '-' || c == '.') {
			return "err:illegal"
		}
	}
	return ""
}

// compiled comparison
type c19Comp struct {
	Field string
	Op    protomodel.ComparisonOperator
	Val   c19TV
	Pat   string
	IllTyped bool // LIKE on a non-string column or with a non-string pattern: evaluation error at run time
}

type c19CQ struct {
	Exprs [][]c19Comp
	Order []*protomodel.OrderByClause
	Limit int
	HasLike, IllTyped bool
}

// c19Compile mirrors generateSQLFilteringExpression: returns the error class the engine must give.
func c19Compile(s *c19Schema, qy *protomodel.Query, q c19Q) (*c19CQ, string) {
	out := &c19CQ{Order: qy.OrderBy, Limit: int(qy.Limit)}
	for _, e := range qy.Expressions {
		if len(e.FieldComparisons) == 0 {
			return nil, "err:illegal"
		}
		var cs []c19Comp
		for _, fcmp := range e.FieldComparisons {
			if ec := c19ValidFieldName(fcmp.Field); ec != "" {
				return nil, ec
			}
			t, ok := s.typeOf(fcmp.Field)
			if !ok {
				return nil, "err:field-not-found"
			}
			tv, ec := c19Conv(fcmp.Value, t, q)
			if fcmp.Value == nil {
				// a nil *structpb.Value has no kind: GetKind() is nil, not NullValue -> falls to the type switch
				_, ec = c19Conv(structpb.NewListValue(&structpb.ListValue{}), t, q)
			}
			if ec != "" {
				return nil, ec
			}
			c := c19Comp{Field: fcmp.Field, Op: fcmp.Operator, Val: tv}
			switch fcmp.Operator {
			case protomodel.ComparisonOperator_LIKE, protomodel.ComparisonOperator_NOT_LIKE:
				out.HasLike = true
				if t != protomodel.FieldType_STRING || tv.Null {
					c.IllTyped = true
					out.IllTyped = true
				}
				c.Pat = tv.S
			case protomodel.ComparisonOperator_EQ, protomodel.ComparisonOperator_NE, protomodel.ComparisonOperator_LT,
				protomodel.ComparisonOperator_LE, protomodel.ComparisonOperator_GT, protomodel.ComparisonOperator_GE:
			default:
				return nil, "err:illegal"
			}
			cs = append(cs, c)
		}
		out.Exprs = append(out.Exprs, cs)
	}
	for _, ob := range qy.OrderBy {
		if _, ok := s.typeOf(ob.Field); !ok {
			return nil, "err:column-not-found"
		}
	}
	return out, ""
}

func c19EvalComp(c c19Comp, row c19Row, q c19Q) bool {
	col, ok := row[c.Field]
	if !ok {
		col = c19TV{Null: true}
	}
	switch c.Op {
	case protomodel.ComparisonOperator_LIKE, protomodel.ComparisonOperator_NOT_LIKE:
		not := c.Op == protomodel.ComparisonOperator_NOT_LIKE
		if col.Null {
			return not
		}
		return c19Like(c.Pat, col.S, q) != not
	}
	r := c19Cmp(col, c.Val)
	switch c.Op {
	case protomodel.ComparisonOperator_EQ:
		return r == 0
	case protomodel.ComparisonOperator_NE:
		return r != 0
	case protomodel.ComparisonOperator_LT:
		return r < 0
	case protomodel.ComparisonOperator_LE:
		return r <= 0
	case protomodel.ComparisonOperator_GT:
		return r > 0
	case protomodel.ComparisonOperator_GE:
		return r >= 0
	}
	return false
}

func (cq *c19CQ) Matches(row c19Row, q c19Q) bool {
	if len(cq.Exprs) == 0 {
		return true
	}
	for _, e := range cq.Exprs {
		all := true
		for _, c := range e {
			if !c19EvalComp(c, row, q) {
				all = false
				break
			}
		}
		if all {
			return true
		}
	}
	return false
}

// order comparison of two rows under the ORDER BY list (0 = tie)
func (cq *c19CQ) OrderCmp(a, b c19Row) int {
	for _, ob := range cq.Order {
		va, oka := a[ob.Field]
		vb, okb := b[ob.Field]
		if !oka {
			va = c19TV{Null: true}
		}
		if !okb {
			vb = c19TV{Null: true}
		}
		r := c19Cmp(va, vb)
		if ob.Desc {
			r = -r
		}
		if r != 0 {
			return r
		}
	}
	return 0
}

// ---- the document store of the oracle ----

type c19Rev struct {
	Doc     *structpb.Struct // with _id; nil for a deletion
	Deleted bool
	TxID    uint64 // 0 = not known (deletions do not report their tx)
	FieldsAt []c19Field // the collection's fields when this revision was written (the row is computed then)
}

type c19Doc struct {
	ID   string
	Seq  int // insertion sequence in this collection (twin pairing)
	Revs []c19Rev
}

func (d *c19Doc) Live() bool { return len(d.Revs) > 0 && !d.Revs[len(d.Revs)-1].Deleted }
func (d *c19Doc) Cur() *c19Rev { return &d.Revs[len(d.Revs)-1] }

type c19Coll struct {
	Name    string
	Schema  c19Schema
	Indexes []c19Index
	Docs    []*c19Doc
	ByID    map[string]*c19Doc
	// a unique index of this collection has already misbehaved (reported once): later unique-index
	// disagreements are consequences of the corrupted index and only counted
	UniqueBroken bool
}

// row of the current revision: as implemented (stored row + NULL for columns that did not exist then) or
// intended (current schema applied to the document, quirks q).
func (c *c19Coll) rowOf(d *c19Doc, q c19Q) c19Row {
	rev := d.Cur()
	if q&qStaleRow != 0 {
		// columns that existed (same epoch) when the revision was written keep the value computed then;
		// a column added later (also: dropped and re-created) is NULL for this row
		var at []c19Field
		for _, f := range c.Schema.Fields {
			for _, g := range rev.FieldsAt {
				if g == f {
					at = append(at, f)
				}
			}
		}
		row, _ := c19MakeRow(at, rev.Doc, q)
		if row == nil {
			row = c19Row{}
		}
		for _, f := range c.Schema.Fields {
			if _, ok := row[f.Name]; !ok {
				row[f.Name] = c19TV{Null: true, T: f.Type}
			}
		}
		return row
	}
	row, ec := c19MakeRow(c.Schema.Fields, rev.Doc, q)
	if ec != "" {
		// the document does not convert under the current schema (field added later with another type):
		// only the stored row exists
		return c.rowOf(d, q|qStaleRow)
	}
	return row
}

// c19Epoch: fields carry an epoch so that drop+re-add is a different column
func c19SameFields(a, b []c19Field) bool {
	if len(a) != len(b) {
		return false
	}
	for i := range a {
		if a[i] != b[i] {
			return false
		}
	}
	return true
}

type c19Match struct {
	D   *c19Doc
	Row c19Row
}

// all live matches, sorted by the ORDER BY list (ties in insertion order)
func (c *c19Coll) Select(cq *c19CQ, q c19Q) []c19Match {
	var ms []c19Match
	for _, d := range c.Docs {
		if !d.Live() {
			continue
		}
		row := c.rowOf(d, q)
		if cq.Matches(row, q) {
			ms = append(ms, c19Match{d, row})
		}
	}
	if len(cq.Order) > 0 {
		sort.SliceStable(ms, func(i, j int) bool { return cq.OrderCmp(ms[i].Row, ms[j].Row) < 0 })
	}
	return ms
}

func (c *c19Coll) hasUnique() bool {
	for _, ix := range c.Indexes {
		if ix.Unique {
			return true
		}
	}
	return false
}

// unique-index check for a candidate set of (docID -> row); NULL counts as a value (as the engine does)
func (c *c19Coll) uniqueKey(ix c19Index, row c19Row) string {
	var sb strings.Builder
	for _, f := range ix.Fields {
		v, ok := row[f]
		if !ok {
			v = c19TV{Null: true}
		}
		if !v.Null && v.T == protomodel.FieldType_DOUBLE && v.F == 0 {
			// -0 and +0 are equal values (the engine's index keys differ: C15 finding, classified separately)
			sb.WriteString("d0|")
			continue
		}
		sb.WriteString(v.String())
		sb.WriteString("|")
	}
	return sb.String()
}

// wouldConflict: rows (by doc id) that are about to be written; returns true if a unique index would hold
// two live documents with the same key.
func (c *c19Coll) wouldConflict(newRows map[string]c19Row) (bool, bool) {
	negzero := false
	for _, ix := range c.Indexes {
		if !ix.Unique {
			continue
		}
		seen := map[string]string{}
		add := func(id string, row c19Row) bool {
			k := c.uniqueKey(ix, row)
			if o, ok := seen[k]; ok && o != id {
				// equal only through ±0?
				for _, f := range ix.Fields {
					if v := row[f]; !v.Null && v.T == protomodel.FieldType_DOUBLE && v.F == 0 {
						negzero = true
					}
				}
				return true
			}
			seen[k] = id
			return false
		}
		for _, d := range c.Docs {
			if !d.Live() {
				continue
			}
			if _, repl := newRows[d.ID]; repl {
				continue
			}
			if add(d.ID, c.rowOf(d, qAll)) {
				return true, negzero
			}
		}
		ids := make([]string, 0, len(newRows))
		for id := range newRows {
			ids = append(ids, id)
		}
		sort.Strings(ids)
		for _, id := range ids {
			if add(id, newRows[id]) {
				return true, negzero
			}
		}
	}
	return false, negzero
}

// touchesReleasedValue: does one of the rows carry, in a unique index, a key that some document held in an
// EARLIER revision (it was deleted or replaced away since)?  Snapshot.GetWithPrefixAndFilters looks only at the
// first index entry with the key's prefix: when that one is a released (deleted) entry, a live entry of a
// document with a larger id behind it is not seen.  Used to classify unique-index misbehaviour.
func (c *c19Coll) touchesReleasedValue(rows []c19Row) bool {
	for _, ix := range c.Indexes {
		if !ix.Unique {
			continue
		}
		released := map[string]bool{}
		for _, d := range c.Docs {
			last := len(d.Revs) - 1
			for i, rv := range d.Revs {
				if rv.Deleted || (i == last) {
					continue
				}
				if row, _ := c19MakeRow(rv.FieldsAt, rv.Doc, qAll); row != nil {
					released[c.uniqueKey(ix, row)] = true
				}
			}
		}
		for _, r := range rows {
			if released[c.uniqueKey(ix, r)] {
				return true
			}
		}
	}
	return false
}

// ---- canonical document tokens (also the wire format to the Lean driver) ----
//   n | t | f | d<16 hex IEEE bits> | s<hex utf8>; | [v*] | {(<hex key>:v)*}   keys sorted bytewise

func c19Tok(v *structpb.Value, sb *strings.Builder) {
	switch k := v.GetKind().(type) {
	case *structpb.Value_NullValue:
		sb.WriteByte('n')
	case *structpb.Value_BoolValue:
		if k.BoolValue {
			sb.WriteByte('t')
		} else {
			sb.WriteByte('f')
		}
	case *structpb.Value_NumberValue:
		fmt.Fprintf(sb, "d%016x", math.Float64bits(k.NumberValue))
	case *structpb.Value_StringValue:
		sb.WriteByte('s')
		sb.WriteString(hex.EncodeToString([]byte(k.StringValue)))
		sb.WriteByte(';')
	case *structpb.Value_ListValue:
		sb.WriteByte('[')
		for _, e := range k.ListValue.GetValues() {
			c19Tok(e, sb)
		}
		sb.WriteByte(']')
	case *structpb.Value_StructValue:
		c19TokStruct(k.StructValue, sb)
	default:
		sb.WriteByte('?')
	}
}

func c19TokStruct(s *structpb.Struct, sb *strings.Builder) {
	sb.WriteByte('{')
	keys := make([]string, 0, len(s.GetFields()))
	for k := range s.GetFields() {
		keys = append(keys, k)
	}
	sort.Strings(keys)
	for _, k := range keys {
		sb.WriteString(hex.EncodeToString([]byte(k)))
		sb.WriteByte(':')
		c19Tok(s.Fields[k], sb)
	}
	sb.WriteByte('}')
}

func c19DocTok(s *structpb.Struct) string {
	var sb strings.Builder
	c19TokStruct(s, &sb)
	return sb.String()
}

func c19ValTok(v *structpb.Value) string {
	var sb strings.Builder
	c19Tok(v, &sb)
	return sb.String()
}

var c19OpNames = map[protomodel.ComparisonOperator]string{
	protomodel.ComparisonOperator_EQ: "EQ", protomodel.ComparisonOperator_NE: "NE", protomodel.ComparisonOperator_LT: "LT",
	protomodel.ComparisonOperator_LE: "LE", protomodel.ComparisonOperator_GT: "GT", protomodel.ComparisonOperator_GE: "GE",
	protomodel.ComparisonOperator_LIKE: "LIKE", protomodel.ComparisonOperator_NOT_LIKE: "NOT_LIKE",
}

func c19QueryTok(qy *protomodel.Query) (string, string) {
	var es []string
	for _, e := range qy.Expressions {
		var cs []string
		for _, c := range e.FieldComparisons {
			cs = append(cs, c.Field+"~"+c19OpNames[c.Operator]+"~"+c19ValTok(c.Value))
		}
		if len(cs) == 0 {
			es = append(es, "!") // an expression without comparison
		} else {
			es = append(es, strings.Join(cs, "&"))
		}
	}
	qt := strings.Join(es, "|")
	if qt == "" {
		qt = "*"
	}
	var os []string
	for _, ob := range qy.OrderBy {
		d := "a"
		if ob.Desc {
			d = "d"
		}
		os = append(os, ob.Field+":"+d)
	}
	ot := strings.Join(os, ",")
	if ot == "" {
		ot = "*"
	}
	return qt, ot
}

func c19QueryString(qy *protomodel.Query) string {
	qt, ot := c19QueryTok(qy)
	return fmt.Sprintf("coll=%s where=%s order=%s limit=%d", qy.CollectionName, qt, ot, qy.Limit)
}

func c19CloneStruct(s *structpb.Struct) *structpb.Struct {
	if s == nil {
		return nil
	}
	return proto.Clone(s).(*structpb.Struct)
}

func c19ValidUTF8Doc(v *structpb.Value) bool {
	switch k := v.GetKind().(type) {
	case *structpb.Value_StringValue:
		return utf8.ValidString(k.StringValue)
	case *structpb.Value_ListValue:
		for _, e := range k.ListValue.GetValues() {
			if !c19ValidUTF8Doc(e) {
				return false
			}
		}
	case *structpb.Value_StructValue:
		for kk, e := range k.StructValue.GetFields() {
			if !utf8.ValidString(kk) || !c19ValidUTF8Doc(e) {
				return false
			}
		}
	}
	return true
}
