package main

// C17 — FAULT INJECTION on the real singleapp / multiapp (no hooks in the repository).
//
// Two OS-level faults, both lifted again right after the one call they are meant for:
//
//   - fsync / fdatasync fails: the descriptor of the file that takes the writes (singleapp: the file; multiapp: the
//     current chunk) is replaced by /dev/null with dup3(2) for the duration of the call — fsync(2) on /dev/null fails
//     with EINVAL — and the original open file description (same file position) is put back afterwards. The *os.File
//     is an unexported field; it is reached with reflect + unsafe. Because a write(2) issued inside the window would
//     go to /dev/null too ("written" but lost), the harness calls Flush() un-faulted first, so that the faulted
//     Sync()/SwitchToReadOnlyMode() finds nothing to write and only the fsync fails: exactly the state of a real
//     fsync failure (bytes written, file position advanced, durability not acknowledged).
//   - write fails: RLIMIT_FSIZE is lowered (SIGXFSZ ignored) for the duration of the call. With the limit at the header
//     length every content write fails with EFBIG and n = 0 (ops flushfail / syncwfail, also sent to the Lean mirror);
//     with the limit inside the pending range the write is SHORT (n > 0, then EFBIG): ops flushshort / syncshort /
//     appendwfail, oracle only. Seeks and fsync are not affected; nothing is diverted, so no artefacts.
//
// What cannot be injected this way: a failing seek, a failing close, a write error with the bytes partly on disk but
// n = 0 reported, EIO on reads; a failing fsync INSIDE Append (auto-sync) only in retryable mode and only against the
// oracle (op appendsfail: the bytes flushed inside the window are lost to /dev/null, the rolled-back buffer rewrites
// them — the physical file then differs from what the mirror model would hold).

import (
	"errors"
	"fmt"
	"os"
	"os/signal"
	"path/filepath"
	"reflect"
	"strconv"
	"sync"
	"syscall"
	"unsafe"

	"github.com/codenotary/immudb/embedded/appendable"
	"github.com/codenotary/immudb/embedded/appendable/multiapp"
	"github.com/codenotary/immudb/embedded/appendable/singleapp"

	"verif/harness/internal/hx"
)

// c17WriterFile: the *os.File of the single-file appendable that takes the writes.
func c17WriterFile(app appendable.Appendable) (f *os.File, err error) {
	defer func() {
		if e := recover(); e != nil {
			f, err = nil, fmt.Errorf("fault injection: cannot reach the file handle: %v", e)
		}
	}()
	v := reflect.ValueOf(app)
	if _, isMulti := app.(*multiapp.MultiFileAppendable); isMulti {
		v = v.Elem().FieldByName("currApp").Elem()
	}
	if v.Type() != reflect.TypeOf((*singleapp.AppendableFile)(nil)) {
		return nil, fmt.Errorf("fault injection: the writing handle is a %s", v.Type())
	}
	fv := v.Elem().FieldByName("f")
	if !fv.IsValid() || fv.Type() != reflect.TypeOf((*os.File)(nil)) {
		return nil, errors.New("fault injection: singleapp.AppendableFile has no field f *os.File")
	}
	f = *(**os.File)(unsafe.Pointer(fv.UnsafeAddr()))
	if f == nil {
		return nil, errors.New("fault injection: nil file handle")
	}
	return f, nil
}

// c17WithFsyncFault runs fn while fsync/fdatasync on f fail (and writes through f are lost: see above).
func c17WithFsyncFault(f *os.File, fn func()) (err error) {
	fd := int(f.Fd())
	if fd < 0 {
		return errors.New("fault injection: file already closed")
	}
	dn, err := os.OpenFile(os.DevNull, os.O_RDWR, 0)
	if err != nil {
		return err
	}
	defer dn.Close()
	saved, err := syscall.Dup(fd) // shares the open file description, hence the file position
	if err != nil {
		return err
	}
	if err := syscall.Dup3(int(dn.Fd()), fd, 0); err != nil {
		syscall.Close(saved)
		return err
	}
	defer func() {
		e := syscall.Dup3(saved, fd, 0)
		syscall.Close(saved)
		if e != nil && err == nil {
			err = fmt.Errorf("fault injection: cannot restore the descriptor: %w", e)
		}
	}()
	fn()
	return nil
}

var c17IgnoreXFSZ sync.Once

// c17WithWriteLimit runs fn while no regular file of this process can be written at or beyond `limit` (bytes from
// the start of the file): RLIMIT_FSIZE. NOTHING may be printed to a regular file inside fn.
func c17WithWriteLimit(limit int64, fn func()) (err error) {
	if limit < 0 {
		return errors.New("fault injection: negative write limit")
	}
	c17IgnoreXFSZ.Do(func() { signal.Ignore(syscall.SIGXFSZ) })
	var old syscall.Rlimit
	if err := syscall.Getrlimit(syscall.RLIMIT_FSIZE, &old); err != nil {
		return err
	}
	if err := syscall.Setrlimit(syscall.RLIMIT_FSIZE, &syscall.Rlimit{Cur: uint64(limit), Max: old.Max}); err != nil {
		return err
	}
	defer func() {
		if e := syscall.Setrlimit(syscall.RLIMIT_FSIZE, &old); e != nil && err == nil {
			err = fmt.Errorf("fault injection: cannot restore RLIMIT_FSIZE: %w", e)
		}
	}()
	fn()
	return nil
}

// c17FaultErr: error class of a call made inside a fault window
func c17FaultErr(err error) string {
	var en syscall.Errno
	var pe *os.PathError
	if err != nil && !errors.As(err, &pe) && errors.As(err, &en) {
		return "err:sync" // fileutils.Fdatasync returns the bare errno (preallocated files)
	}
	return c17Err(err)
}

var c17Faults struct {
	once         sync.Once
	fsync, write bool
	note         string
}

// c17FaultSelfTest: can both faults be injected (and lifted) on this platform? Checked on a scratch appendable with
// plain os/syscall observations only.
func c17FaultSelfTest() (fsyncOK, writeOK bool, note string) {
	c17Faults.once.Do(func() {
		if os.Getenv("VERIF_C17_NOFAULTS") != "" {
			c17Faults.note = "fault injection disabled by VERIF_C17_NOFAULTS"
			return
		}
		dir := hx.TempDir("c17-selftest")
		defer os.RemoveAll(dir)
		p := filepath.Join(dir, "t.aof")
		a, err := singleapp.Open(p, singleapp.DefaultOptions().WithWriteBuffer(make([]byte, 16)))
		if err != nil {
			c17Faults.note = err.Error()
			return
		}
		defer a.Close()
		st, _ := os.Stat(p)
		hdr := st.Size()
		a.Append([]byte("abc"))
		if a.Flush() != nil {
			c17Faults.note = "self-test: Flush failed"
			return
		}
		f, err := c17WriterFile(a)
		if err != nil {
			c17Faults.note = err.Error()
			return
		}
		var e1, e2 error
		if err := c17WithFsyncFault(f, func() { e1 = f.Sync() }); err != nil {
			c17Faults.note = err.Error()
			return
		}
		if e1 != nil && f.Sync() == nil {
			c17Faults.fsync = true
		}
		var n int
		g, err := os.OpenFile(p, os.O_RDWR, 0)
		if err != nil {
			c17Faults.note = err.Error()
			return
		}
		defer g.Close()
		g.Seek(hdr+3, 0)
		if err := c17WithWriteLimit(hdr+4, func() { n, e2 = g.Write([]byte("xyz")) }); err != nil {
			c17Faults.note = err.Error()
			return
		}
		if n == 1 && e2 != nil {
			if m, e := g.Write([]byte("yz")); e == nil && m == 2 {
				c17Faults.write = true
			}
		}
		c17Faults.note = fmt.Sprintf("fault injection self-test: failing fsync (dup3 /dev/null) available=%v [%v]; failing/short write (RLIMIT_FSIZE) available=%v [n=%d %v]", c17Faults.fsync, e1, c17Faults.write, n, e2)
	})
	return c17Faults.fsync, c17Faults.write, c17Faults.note
}

// ---- oracle side -------------------------------------------------------------------------------------------------

// noteSyncPoint: every buffered byte is now acknowledged (successful Sync / open): the write buffer starts at `size`.
func (c *c17Case) noteSyncPoint(size int64) { c.syncMark = size }

// noteAppended: a multiapp buffer never starts below the last chunk boundary
func (c *c17Case) noteAppended() {
	if c.kind == "m" && c.fileSize > 0 && c.size() > 0 {
		if b := ((c.size() - 1) / int64(c.fileSize)) * int64(c.fileSize); b > c.syncMark {
			c.syncMark = b
		}
	}
}

// noteFsyncFailed: with retryable sync the code has moved its file offset back to the start of the write buffer —
// at or after syncMark (a lower bound the oracle can compute by itself) — while the file keeps the bytes. From now
// on the known defect "file part of a read not bounded by the logical end of the file part" can show without any
// user rewind. Registered only if the file system really holds bytes at or after that point.
func (c *c17Case) noteFsyncFailed() {
	if !c.retry || c.comp != 0 {
		return
	}
	lb := c.syncMark
	if lb > c.size() {
		lb = c.size()
	}
	if lb < c.floor {
		lb = c.floor
	}
	if !c.bytesBehind(lb) {
		c.r.Count("fault.fsync.nothing-rolled-back")
		return
	}
	c.r.Count("fault.fsync.rolled-back-bytes-behind")
	if !c.fsDirty || lb < c.fsFloor {
		c.fsFloor = lb
	}
	c.fsDirty = true
}

// physEnd: logical offset of the physical end of the single file (-1: unknown)
func (c *c17Case) physEnd() int64 {
	if c.kind != "s" || c.hdr < 0 {
		return -1
	}
	st, err := os.Stat(c.path)
	if err != nil {
		return -1
	}
	return st.Size() - c.hdr
}

// the follow-up observations after every fault op: the end of the log and its last stretch are what they were
func (c *c17Case) faultPost() []string {
	post := []string{c.kind + ".offset", c.kind + ".size"}
	if c.closed || c.comp != 0 {
		return post[1:]
	}
	size := c.size()
	from := size - int64(2*c17Min(c.cap, 64)+3)
	if from < c.floor {
		from = c.floor
	}
	if from < 0 {
		from = 0
	}
	if size > from {
		post = append(post, fmt.Sprintf("%s.read %d %d", c.kind, size-from, from))
	}
	return post
}

// preFlush: the un-faulted Flush before an fsync fault (so that no write is diverted). false: it failed — the handle is
// not usable (e.g. multiapp left its current chunk closed after a rewind into a discarded chunk: outside the
// contract, oracle suspended), nothing is injected then.
func (c *c17Case) preFlush() bool {
	fe := c.app.Flush()
	if fe == nil {
		return true
	}
	if !c.broken {
		c.fail("Flush", "unexpected-result", fmt.Sprintf("Flush before the injected fsync failure returned %v", fe))
	}
	c.r.Count("fault.not-injected(flush-failed)")
	return false
}

// execFault runs one fault op on the real code. Returns the canonical answer and the follow-up ops.
func (c *c17Case) execFault(op string, tk []string) (ans string, post []string, err error) {
	guard := c.stdErr(true) // closed / read-only: the call is rejected before any I/O, nothing is injected
	var e error
	switch op {
	case "syncfail", "rofail":
		call := func() {
			if op == "syncfail" {
				e = c.app.Sync()
			} else {
				e = c.app.SwitchToReadOnlyMode()
			}
		}
		if guard != "ok" || !c.preFlush() {
			call()
		} else {
			f, ferr := c17WriterFile(c.app)
			if ferr != nil {
				return "", nil, ferr
			}
			if ferr := c17WithFsyncFault(f, call); ferr != nil {
				return "", nil, ferr
			}
		}
		ans = c17FaultErr(e)
		want := guard
		if want == "ok" && (op == "syncfail" || c.retry) {
			want = "err:sync" // non-retryable SwitchToReadOnlyMode does not sync
		}
		c.expectErr(map[string]string{"syncfail": "Sync", "rofail": "SwitchToReadOnlyMode"}[op]+"(fsync fails)", ans, want)
		if ans == "err:sync" {
			c.noteFsyncFailed()
		}
		if ans == "ok" && op == "rofail" {
			c.readOnly = true
		}
	case "flushfail", "syncwfail", "flushshort", "syncshort":
		// flushfail / syncwfail: no content byte can be written; flushshort X / syncshort X: content bytes of the
		// (chunk) file can be written below offset X only
		lim := c.hdr
		if op == "flushshort" || op == "syncshort" {
			x, _ := strconvParse(tk[1])
			lim += x
		}
		call := func() {
			if op == "flushfail" || op == "flushshort" {
				e = c.app.Flush()
			} else {
				e = c.app.Sync()
			}
		}
		if guard != "ok" || c.hdr < 0 {
			call()
		} else if ferr := c17WithWriteLimit(lim, call); ferr != nil {
			return "", nil, ferr
		}
		ans = c17FaultErr(e)
		c.r.OracleChecks++
		if !c.broken {
			if guard != "ok" {
				if ans != guard {
					c.fail(op, "unexpected-result", fmt.Sprintf("%s returned %s, expected %s", op, ans, guard))
				}
			} else if ans != "ok" && ans != "err:write" {
				c.fail(op, "unexpected-result", fmt.Sprintf("%s (write fault) returned %s, expected ok (nothing to write) or the write error", op, ans))
			}
		}
		c.r.Count("fault." + op + "." + ans)
		if ans == "ok" {
			c.flushMark = c.size()
			if op == "syncwfail" || op == "syncshort" {
				c.noteSyncPoint(c.size())
			}
		}
	case "appendwfail", "appendsfail":
		// appendwfail X hex: Append while content bytes can be written below offset X only;
		// appendsfail hex: Append while fsync fails (retryable sync only: see the file comment)
		var bs []byte
		lim := c.hdr
		if op == "appendwfail" {
			x, _ := strconvParse(tk[1])
			lim += x
			bs = c17unhex(tk[2])
		} else {
			bs = c17unhex(tk[1])
		}
		before := c.size()
		var off int64
		var n int
		call := func() { off, n, e = c.app.Append(bs) }
		switch {
		case guard != "ok" || c.hdr < 0 || (op == "appendsfail" && (!c.retry || !c.preFlush())):
			call()
		case op == "appendwfail":
			if ferr := c17WithWriteLimit(lim, call); ferr != nil {
				return "", nil, ferr
			}
		default:
			f, ferr := c17WriterFile(c.app)
			if ferr != nil {
				return "", nil, ferr
			}
			if ferr := c17WithFsyncFault(f, call); ferr != nil {
				return "", nil, ferr
			}
		}
		ans = fmt.Sprintf("%d %d %s", off, n, c17FaultErr(e))
		c.r.Count("fault." + op + "." + c17FaultErr(e))
		c.faultedAppend = true
		c.oracleAppend(bs, before, off, n, e)
		c.faultedAppend = false
		if c17FaultErr(e) == "err:sync" {
			c.noteFsyncFailed()
		}
	case "appendcfail":
		// appendcfail hex: Append while NO regular file can be created or grown (RLIMIT_FSIZE 0: disk full at the moment
		// the next chunk file is needed), after an un-faulted Flush. Used by the fixed probe c17ProbeChunkCreateFail only.
		bs := c17unhex(tk[1])
		before := c.size()
		var off int64
		var n int
		call := func() { off, n, e = c.app.Append(bs) }
		if guard != "ok" || !c.preFlush() {
			call()
		} else if ferr := c17WithWriteLimit(0, call); ferr != nil {
			return "", nil, ferr
		}
		got := c17FaultErr(e)
		ans = fmt.Sprintf("%d %d %s", off, n, got)
		c.r.Count("fault." + op + "." + got)
		sz, _ := c.app.Size()
		if !c.broken && guard == "ok" && got != "ok" && (sz < before || sz-before > int64(len(bs))) {
			c.r.OracleChecks++
			c.fail("Append", "failed-chunk-creation-corrupts-state", fmt.Sprintf("Append(%d bytes) at size %d while the next chunk file cannot be created returned (off=%d, n=%d, %s); Size() is now %d", len(bs), before, off, n, got, sz))
			c.createFailed, c.broken = true, true
			break
		}
		c.faultedAppend = true
		c.oracleAppend(bs, before, off, n, e)
		c.faultedAppend = false
	default:
		return "", nil, fmt.Errorf("unknown fault op %q", op)
	}
	return ans, c.faultPost(), nil
}

func strconvParse(s string) (int64, error) { return strconv.ParseInt(s, 10, 64) }

func c17OracleOnlyOp(op string) bool {
	switch op {
	case "flushshort", "syncshort", "appendwfail", "appendsfail", "appendcfail":
		return true
	}
	return false
}

// known finding (fault injection only): the chunk is full and flushed, the next Append has to create the next chunk
// file and cannot (disk full): multiapp.Append has already put the old chunk into read-only mode and incremented
// currAppID when openAppendable fails => Size() jumps by fileSize, every later Append fails with ErrReadOnly, Close
// reports ErrAlreadyClosed, and the empty chunk file left behind makes the next Open fail ("corrupted metadata").
var c17ProbeChunkCreateFail = []string{
	"m.new 10 64 10 1 1 0 - 0",
	"m.append 30313233343536373839",
	"m.appendcfail 616263",
	"m.append 646566", // ErrReadOnly although the fault is lifted
	"m.size",          // 20, the log has 10 bytes
	"m.close",
	"m.reopen 64 10 1 1 0", // fails: 00000001.aof has length 0
}

// ---- generator ---------------------------------------------------------------------------------------------------

// genFault: a fault op with a typical continuation — retry, further appends, reads across the rolled-back stretch,
// rewinds into it, close (the generator then reopens).
func (c *c17Case) genFault(rng *hx.Rng) []string {
	k := c.kind
	size := c.size()
	small := func() string {
		return fmt.Sprintf("%s.append %s", k, hx.Hex(rng.Bytes(1+rng.Intn(c17Min(c.cap, 64)/3+1))))
	}
	tailRead := func(extra int64) string {
		sz := c.size() + extra
		from := sz - int64(rng.Intn(2*c17Min(c.cap, 64)+4))
		if from < c.floor {
			from = c.floor
		}
		if from < 0 {
			from = 0
		}
		n := sz - from + int64(rng.Intn(3)) - 1
		if n < 1 {
			n = 1
		}
		return fmt.Sprintf("%s.read %d %d", k, n, from)
	}
	fsyncOK, writeOK, _ := c17FaultSelfTest()
	var out []string
	p := rng.Intn(100)
	if c.noModel && p < 45 {
		// oracle-only faults: short writes, faults inside Append
		fs := int64(c.fileSize)
		x := func() int64 { // a content offset (chunk-local for multiapp) around what may still be unwritten
			d := size - c.flushMark
			if d < 0 || c.flushMark < 0 {
				d = 0
			}
			o := size - d + int64(rng.Intn(int(d)+c17Min(c.cap, 64)+2))
			if o < 0 || rng.Chance(10) {
				o = int64(rng.Intn(int(size) + 2))
			}
			if k == "m" {
				o %= fs + 1
			}
			return o
		}
		switch {
		case p < 12 && writeOK:
			out = append(out, small(), fmt.Sprintf("%s.flushshort %d", k, x()))
		case p < 20 && writeOK:
			out = append(out, small(), fmt.Sprintf("%s.syncshort %d", k, x()))
		case p < 34 && writeOK && c.prealloc == 0:
			out = append(out, fmt.Sprintf("%s.appendwfail %d %s", k, x(), hx.Hex(rng.Bytes(1+c.genAppendSize(rng)))))
		case fsyncOK && c.retry:
			out = append(out, fmt.Sprintf("%s.appendsfail %s", k, hx.Hex(rng.Bytes(1+c.genAppendSize(rng)))))
		default:
			out = append(out, k+".flush")
		}
	} else {
		switch {
		case p < 60 && fsyncOK:
			if rng.Chance(50) {
				out = append(out, small())
			}
			if rng.Chance(30) {
				out = append(out, k+".flush", small())
			}
			out = append(out, k+".syncfail")
		case p < 66 && fsyncOK:
			out = append(out, small(), k+".rofail")
		case p < 86 && writeOK:
			if rng.Chance(60) {
				out = append(out, small())
			}
			out = append(out, k+".flushfail")
		case writeOK:
			if rng.Chance(60) {
				out = append(out, small())
			}
			out = append(out, k+".syncwfail")
		default:
			return []string{k + ".sync"}
		}
	}
	// continuation
	switch rng.Intn(8) {
	case 0:
		out = append(out, k+".sync")
	case 1:
		out = append(out, small(), tailRead(8), k+".sync", tailRead(8))
	case 2:
		out = append(out, small(), k+".flush", tailRead(8))
	case 3:
		// rewind into the stretch that was rolled back / is still buffered, overwrite
		t := size - int64(rng.Intn(c17Min(c.cap, 64)+1))
		if t < c.floor {
			t = c.floor
		}
		if t < 0 {
			t = 0
		}
		out = append(out, fmt.Sprintf("%s.setoff %d", k, t), small(), tailRead(8))
	case 4:
		out = append(out, k+".close")
	case 5:
		out = append(out, out[len(out)-1]) // the same fault again
	}
	return out
}
