package main

// C12 — SQL integrity constraints hold in every reachable state.
//
// DDL/DML histories run on the real engine: autocommit statements, multi-statement implicit
// transactions, explicit BEGIN…COMMIT/ROLLBACK, 1..4 sessions (deterministically interleaved
// explicit transactions on one engine; and real goroutines).  ORACLE (Go, model independent):
// after EVERY committed transaction the table is scanned through the primary index and through
// every secondary index (USE INDEX) and checked: same rows through every index (no stale entry,
// none missing), PK unique, every UNIQUE index duplicate free, no NULL in NOT NULL columns,
// values within the declared length, CHECK true, generated keys increasing and collision free,
// table = reference table (refTable.exec, textbook semantics); a statement that must fail
// (duplicate PK, unique violation, NULL into NOT NULL, too long, CHECK) fails, and a failed
// statement / aborted transaction leaves no trace.
//
// Uniqueness under concurrent sessions (the constraint checks are MVCC-validated reads): c12_race.go.

import (
	"fmt"
	"os"
	"sort"
	"strconv"
	"strings"
	"sync"
	"time"

	"github.com/codenotary/immudb/embedded/sql"

	"verif/harness/internal/hx"
)

func init() { runners["C12"] = runC12 }

type c12Case struct {
	r         *hx.Result
	rng       *hx.Rng
	env       *sqlEnv
	sc        *sqlSchema
	ref       *refTable // committed state according to the reference
	script    []string
	idxLive   []sqlIdx
	lastGen   int64 // last generated auto-increment key
	prevMaxPK int64 // reference high-water mark before the transaction being committed
	// known-finding classification
	tomb      map[string]bool // idxNo|vals : a deleted/changed entry with these unique-index values exists
	nullSet   map[int]bool    // column was the target of a successful UPDATE … SET col = NULL
	// R13 (−0.0 / +0.0: equal values, different index keys): FLOAT columns into which a committed statement wrote −0.0
	// (sticky), and FLOAT columns a statement of the CURRENT unit writes −0.0 into or compares with −0.0 (literal or
	// parameter, row values, SET values, WHERE constants). Attributed only while such a column is a key column or a
	// column of a live secondary index: nz().
	nzStored  map[int]bool
	nzUnit    map[int]bool
	nzUnitW   map[int]bool // the part of nzUnit that was WRITTEN by a statement the engine accepted
	r4Hit     bool         // the statement writes an explicit auto-increment key that a DELETE of the open tx removed
	dupCause  map[string]string // UNIQUE duplicates already reported: index|values|pk1|pk2 -> cause
	r9Seen    bool         // a failure attributed to R9 (stale maxPK inside a tx) was reported in the current unit
	intxTaint bool
	delTaint  bool // a DELETE earlier in the open tx removed rows
	autoTaint bool // an explicit auto-increment key above the high-water mark was inserted earlier in the open tx
	corr      bool // Lean correspondence lines are being emitted for this case
	single    bool // restricted generator: autocommit statements writing at most one row
	dd        *hx.Rng // own stream of the double-defect bias (c12_prec.go); nil = no bias
	forced    *dml    // the next unit is this one autocommit statement (c12_prec.go)
	sp        *hx.Rng // own stream of the value-spelling bias (c12_spell.go); nil = no bias
	dead      bool    // a scan timed out (stalled index): the case stops
	ckWritten bool    // R26: the engine accepted a row the reference rejects with `check` whose CHECK column was written with an implicitly converted value (sticky: the row stays)
}

func (c *c12Case) log(s string) { c.script = append(c.script, s) }

func (c *c12Case) replay(detail string) c11Replay {
	sc := c.script
	if len(sc) > 140 {
		sc = append(append([]string{}, sc[:30]...), append([]string{fmt.Sprintf("… (%d lines omitted; rerun with the seed)", len(sc)-110)}, sc[len(sc)-80:]...)...)
	}
	return c11Replay{Script: append([]string{}, sc...), Detail: detail}
}

func (c *c12Case) exec(tx *sql.SQLTx, q sqlText) sqlXRes {
	res := sqlExec(c.env.eng, tx, q)
	st := "ok"
	if res.Err != "" {
		st = "ERR " + res.Err
	}
	c.log(q.String() + "   => " + st)
	if res.Err == "timeout" && !c.dead {
		// an autocommit statement did not return within sqlOpTimeout (its commit / its reads wait for an index that never
		// catches up): the case stops
		c.dead = true
		c.fail("C12:stmt:does-not-return", fmt.Sprintf("the statement did not return within %s (it waits for an index that does not catch up with the committed transactions): %s", sqlOpTimeout, q.String()))
	}
	return res
}

func (c *c12Case) fail(sig, desc string) {
	if strings.HasSuffix(sig, ":explicit-autoincrement-key-in-same-tx") || sig == "C12:autoincrement:collision" {
		c.r9Seen = true
	}
	c.r.Fail(sig, desc, c.replay(desc))
}

func c12Vals(row []c15Val, cols []int) string {
	ts := make([]string, len(cols))
	for i, ci := range cols {
		ts[i] = row[ci].tok()
	}
	return strings.Join(ts, ",")
}

// taint bookkeeping from the reference's point of view: which unique-index values have tombstones
func (c *c12Case) noteTombs(before, after *refTable) {
	for ixn, ix := range c.sc.Idx {
		if !ix.Unique {
			continue
		}
		for _, r := range before.rows {
			at := after.find(after.pkOf(r))
			if at < 0 || c12Vals(after.rows[at], ix.Cols) != c12Vals(r, ix.Cols) {
				c.tomb[strconv.Itoa(ixn)+"|"+c12Vals(r, ix.Cols)] = true
			}
		}
	}
}

// A row that is written AND deleted again inside one transaction never shows in a committed state, yet it leaves a
// deleted entry behind: the committed row entry is the deleted one (holding the last values), and the indexer maps it
// into every index.  For the UNIQUE lookup (first entry under the prefix, deleted ones included) it is a tombstone like
// the one of a committed row (R2).  c12Vers = last version of every row seen inside the open unit.
type c12Vers map[string][]c15Val

func (v c12Vers) see(t *refTable) {
	for _, r := range t.rows {
		v[sqlRowTok(t.pkOf(r))] = r
	}
}

func (c *c12Case) noteUnitTombs(v c12Vers, final *refTable) {
	for _, r := range v {
		if final.find(final.pkOf(r)) >= 0 {
			continue // still live (a changed version is covered by noteTombs / is no committed entry)
		}
		for ixn, ix := range c.sc.Idx {
			if ix.Unique {
				c.tomb[strconv.Itoa(ixn)+"|"+c12Vals(r, ix.Cols)] = true
			}
		}
	}
}

// ---------------------------------------------------------------- invariants of the committed state

func (c *c12Case) verify(where string, checkRef bool) {
	r, sc := c.r, c.sc
	eng := c.env.eng
	pk := sqlScan(eng, nil, sc, "t", sc.PK)
	r.OracleChecks++
	r.Eval(where+"|"+strconv.Itoa(len(pk.Rows))+"|"+strconv.Itoa(r.Case()), len(pk.Rows) > 0)
	if pk.Err == "timeout" {
		c.stalled(where, sc.PK)
		return
	}
	if pk.Err != "" {
		c.fail("C12:scan:error", "full scan through the primary index failed: "+pk.Err)
		return
	}
	// every secondary index lists exactly the live rows
	for _, ix := range c.idxLive {
		s := sqlScan(eng, nil, sc, "t", ix.Cols)
		r.OracleChecks++
		if s.Err == "timeout" {
			c.stalled(where, ix.Cols)
			return
		}
		if s.bag() != pk.bag() {
			c.fail("C12:index:stale-or-missing-entry", fmt.Sprintf("%s: scan through index (%s) = %s %s but through the primary key = %s", where, sc.colNames(ix.Cols), s.Err, sqlRowsShow(s.Rows, 10), sqlRowsShow(pk.Rows, 10)))
		}
	}
	nopred := sqlQuery(eng, nil, sqlPlain("SELECT * FROM t"))
	if nopred.bag() != pk.bag() {
		c.fail("C12:index:stale-or-missing-entry", fmt.Sprintf("%s: unhinted scan %s differs from the primary key scan %s", where, sqlRowsShow(nopred.Rows, 10), sqlRowsShow(pk.Rows, 10)))
	}
	rows := pk.Rows
	// PK unique
	for i := range rows {
		for j := i + 1; j < len(rows); j++ {
			if sqlCmpTuple(c.ref.pkOf(rows[i]), c.ref.pkOf(rows[j])) == 0 {
				cause := ""
				if sqlZerosDiffer(c.ref.pkOf(rows[i]), c.ref.pkOf(rows[j])) {
					cause = ":negzero-float-key" // the two keys are SQL-equal but one holds −0.0 where the other holds +0.0 (R13)
				}
				c.fail("C12:constraint:duplicate-pk"+cause, fmt.Sprintf("%s: two live rows share the primary key: %s", where, sqlRowsShow([][]c15Val{rows[i], rows[j]}, 2)))
			}
		}
	}
	// UNIQUE indexes
	for ixn, ix := range c.idxLive {
		if !ix.Unique {
			continue
		}
		r.OracleChecks++
		for i := range rows {
			for j := i + 1; j < len(rows); j++ {
				same, zeros := true, false
				for _, ci := range ix.Cols {
					if sqlCmpVal(rows[i][ci], rows[j][ci]) != 0 {
						same = false
						break
					}
					if sqlZerosDiffer([]c15Val{rows[i][ci]}, []c15Val{rows[j][ci]}) {
						zeros = true
					}
				}
				if same {
					cause := ""
					switch {
					case zeros:
						cause = ":negzero-float-key"
					case c.tomb[strconv.Itoa(ixn)+"|"+c12Vals(rows[i], ix.Cols)], c.tomb["*created-on-populated"]:
						cause = ":deleted-entry-hides-live-one"
					case c.intxTaint:
						cause = ":secondary-index-view-in-tx"
					}
					// a duplicate stays in the table: the SAME pair of rows found again by a later scan has the cause it had when
					// the commit that created it was checked (the per-transaction flags are reset after every unit)
					inst := strconv.Itoa(ixn) + "|" + c12Vals(rows[i], ix.Cols) + "|" + sqlRowTok(c.ref.pkOf(rows[i])) + "|" + sqlRowTok(c.ref.pkOf(rows[j]))
					if c.dupCause == nil {
						c.dupCause = map[string]string{}
					}
					if cause != "" {
						c.dupCause[inst] = cause
					} else if was, ok := c.dupCause[inst]; ok {
						cause = was
					}
					c.fail("C12:constraint:unique-index-duplicate"+cause, fmt.Sprintf("%s: UNIQUE INDEX (%s) holds two live rows with equal values: %s", where, sc.colNames(ix.Cols), sqlRowsShow([][]c15Val{rows[i], rows[j]}, 2)))
				}
			}
		}
	}
	// NOT NULL, declared length, CHECK
	for _, row := range rows {
		for ci, col := range sc.Cols {
			if row[ci].null && (col.NotNull || sc.isPK(ci)) {
				cause := ""
				if c.nullSet[ci] {
					cause = ":update-set-null"
				}
				c.fail("C12:constraint:null-in-not-null"+cause, fmt.Sprintf("%s: column %s is NOT NULL / key but a live row holds NULL: %s", where, col.Name, sqlRowsShow([][]c15Val{row}, 1)))
			}
			if !refFits(col, row[ci]) {
				c.fail("C12:constraint:value-exceeds-declared-length", fmt.Sprintf("%s: column %s %s holds %s", where, col.Name, col.typeDecl(), sqlValShow(row[ci])))
			}
			if !row[ci].null && row[ci].ty != col.Ty {
				c.fail("C12:constraint:value-of-wrong-type", fmt.Sprintf("%s: column %s %s holds %s", where, col.Name, col.typeDecl(), sqlValShow(row[ci])))
			}
		}
		if !c.ref.checkOK(row) {
			cause := ""
			for ci := range sc.Cols {
				if c.nullSet[ci] {
					cause = ":update-set-null"
				}
			}
			if cause == "" && c.ckWritten {
				cause = c12R26
			}
			c.fail("C12:constraint:check-violated"+cause, fmt.Sprintf("%s: CHECK is false for the live row %s", where, sqlRowsShow([][]c15Val{row}, 1)))
		}
	}
	// equals the reference
	if checkRef {
		r.OracleChecks++
		want := sqlQRes{Rows: c.ref.sorted()}
		if want.bag() != pk.bag() {
			c.fail("C12:state:differs-from-reference"+c.causeNZ(), fmt.Sprintf("%s: table = %s, reference = %s", where, sqlRowsShow(pk.Rows, 10), sqlRowsShow(want.Rows, 10)))
			c.ref.rows = pk.Rows // resync and go on
			c.adoptMaxPK()
		}
	}
}

// a scan did not return within sqlOpTimeout: the index never reaches the committed transaction (its indexer fails on
// an entry of that transaction and retries forever); every later read through that index waits too — the case stops
func (c *c12Case) stalled(where string, cols []int) {
	c.dead = true
	c.fail("C12:index:indexing-stalled-after-commit", fmt.Sprintf("%s: the scan through index (%s) did not return within %s — the index does not catch up with the last committed transaction (every read through it blocks in WaitForIndexingUpto)", where, c.sc.colNames(cols), sqlOpTimeout))
}

func (c *c12Case) cause() string {
	switch {
	case c.delTaint:
		return ":row-deleted-earlier-in-same-tx"
	case c.autoTaint:
		return ":explicit-autoincrement-key-in-same-tx"
	case c.intxTaint:
		return ":secondary-index-view-in-tx"
	}
	return ""
}

// R13 is a cause only of the failure classes it is known to produce (each has a recipe in known_findings.json): a
// second row under an equal key / unique tuple, a statement the reference rejects with dup-key, a WHERE constant
// −0.0 that misses the rows holding +0.0 through an index range (affected rows, state)
func (c *c12Case) causeNZ() string {
	if cz := c.cause(); cz != "" {
		return cz
	}
	if c.nz() {
		return ":negzero-float-key"
	}
	return ""
}

func (c *c12Case) keyedCol(ci int) bool {
	if c.sc.isPK(ci) {
		return true
	}
	for _, ix := range c.idxLive {
		for _, k := range ix.Cols {
			if k == ci {
				return true
			}
		}
	}
	return false
}

func (c *c12Case) nz() bool {
	for ci := range c.nzStored {
		if c.keyedCol(ci) {
			return true
		}
	}
	for ci := range c.nzUnit {
		if c.keyedCol(ci) {
			return true
		}
	}
	return false
}

func sqlIsNegZero(v c15Val) bool { return !v.null && v.ty == sql.Float64Type && v.f == 1<<63 }

// two SQL-equal tuples that differ in the sign of a FLOAT zero
func sqlZerosDiffer(a, b []c15Val) bool {
	for i := range a {
		if !a[i].null && !b[i].null && a[i].ty == sql.Float64Type && b[i].ty == sql.Float64Type && a[i].f != b[i].f && sqlCmpVal(a[i], b[i]) == 0 {
			return true
		}
	}
	return false
}

// ---------------------------------------------------------------- statement outcome vs the reference

// returns false when the unit has to stop (engine error)
func (c *c12Case) compareStmt(d *dml, txt sqlText, pred refOut, engErr string, engUpd int, lastPK map[string]int64, inTx bool) {
	r := c.r
	r.OracleChecks++
	switch {
	case pred.OrderDep:
		r.Count("stmt.order-dependent")
	case pred.Err != "" && engErr == "":
		cause := ""
		if pred.Err == "not-null" && d.K == "update" {
			cause = ":update-set-null"
		}
		if pred.Err == "check" && d.K == "update" {
			for _, s := range d.Set {
				if s.V.null {
					cause = ":update-set-null"
				}
			}
		}
		if pred.Err == "dup-key" && cause == "" {
			cause = c.uniqueCause(d)
		}
		if pred.Err == "invalid-value" && (c.autoTaint || c.explicitAbove(d)) {
			cause = ":explicit-autoincrement-key-in-same-tx"
		}
		if pred.Err == "check" && c.implicitOnCheck(d) {
			cause = c12R26 // R26: the CHECK saw the value as written, the row stores the converted one (c12_spell.go)
			c.ckWritten = true
		}
		if c.r4Hit {
			// R4 (see deletedInTx): the key of the rejected row was deleted earlier in this transaction and tx.get still finds
			// it: ON CONFLICT DO NOTHING skips the row before max-len / UNIQUE / pkMustExist are looked at, UPSERT passes pkMustExist
			cause = ":row-deleted-earlier-in-same-tx"
		}
		c.fail("C12:must-fail:accepted:"+pred.Err+cause, fmt.Sprintf("the statement must fail with %s but the engine accepted it: %s", pred.Err, txt.String()))
	case pred.Err == "" && engErr != "":
		cause := c.cause()
		if engErr == "dup-key" && c.sc.autoInc() && (d.K == "insert" || d.K == "insert-ocn") && inTx {
			auto := true
			for _, ci := range d.Cols {
				if c.sc.Cols[ci].AutoInc {
					auto = false
				}
			}
			if auto && c.autoTaint {
				c.fail("C12:autoincrement:collision", fmt.Sprintf("INSERT with a generated key fails with 'key already exists': the generated key collides with a key stored earlier in the same transaction: %s", txt.String()))
				return
			}
		}
		if strings.Contains(engErr, "non-transient key to transient") {
			engErr, cause = "transient-key-clash", ""
		}
		if engErr != "dup-key" && engErr != "transient-key-clash" && (c.delTaint || c.autoTaint) {
			// R4 (deleted key still found) and R9 (stale maxPK) can only end in 'key already exists'; a valid statement that
			// fails with another class read a row the reference does not see: on an indexed table that is the in-transaction
			// view of the secondary indexes (R1: a row deleted or changed earlier in the transaction is still listed)
			cause = ""
			if c.intxTaint {
				cause = ":secondary-index-view-in-tx"
			}
		}
		if engErr == "check" && c.implicitOnCheck(d) {
			cause = c12R26
		}
		if engErr == "not-comparable" && c.implicitOnIndexed(d) {
			cause = c12R25 // R25: deprecateIndexEntries compares the row's current value with the value AS WRITTEN (c12_spell.go)
		}
		c.fail("C12:stmt:spurious-failure:"+engErr+cause, fmt.Sprintf("the statement is valid (reference: ok, %d rows) but the engine failed with %s: %s", pred.Updated, engErr, txt.String()))
	case pred.Err != "" && engErr != "":
		if pred.Err != engErr {
			r.Count("stmt.errclass-differs." + pred.Err + "/" + engErr)
		} else {
			r.Count("stmt.fails-as-expected." + engErr)
		}
	default:
		if pred.Updated != engUpd {
			c.fail("C12:stmt:affected-rows-differ"+c.cause2(d), fmt.Sprintf("engine reports %d affected rows, reference %d: %s", engUpd, pred.Updated, txt.String()))
		}
		if pred.HasLast && lastPK != nil {
			if got, ok := lastPK["t"]; !ok || got != pred.LastPK {
				cz := c.cause()
				if c.autoTaint {
					// the generated key is table.maxPK+1 and nothing else: of the known causes only the stale maxPK (R9) can move
					// it; a DELETE earlier in the transaction (R4) cannot
					cz = ":explicit-autoincrement-key-in-same-tx"
				}
				c.fail("C12:stmt:last-inserted-pk-differs"+cz, fmt.Sprintf("engine reports last inserted pk %v, reference %d: %s", lastPK, pred.LastPK, txt.String()))
			}
		}
	}
}

// the statement writes an explicit auto-increment key above the committed high-water mark
func (c *c12Case) explicitAbove(d *dml) bool {
	if d == nil || !c.sc.autoInc() {
		return false
	}
	for k, ci := range d.Cols {
		if c.sc.Cols[ci].AutoInc {
			for _, row := range d.Rows {
				if !row[k].null && row[k].i > c.ref.maxPK {
					return true
				}
			}
		}
	}
	return false
}

func (c *c12Case) cause2(d *dml) string {
	if cz := c.cause(); cz != "" {
		return cz
	}
	return c.uniqueCause(d)
}

func (c *c12Case) uniqueCause(d *dml) string {
	if c.nz() {
		return ":negzero-float-key"
	}
	if len(c.tomb) > 0 {
		return ":deleted-entry-hides-live-one"
	}
	if c.intxTaint {
		return ":secondary-index-view-in-tx"
	}
	return ""
}

// R13 bookkeeping, BEFORE the statement's outcome is compared: every −0.0 the statement writes (row values, SET
// values) or compares with (WHERE constants), literal or parameter
func (c *c12Case) noteNZ(d *dml) {
	if c.nzUnit == nil {
		c.nzUnit, c.nzUnitW = map[int]bool{}, map[int]bool{}
	}
	for _, row := range d.Rows {
		for k, v := range row {
			if sqlIsNegZero(v) {
				c.nzUnit[d.Cols[k]] = true
			}
		}
	}
	for _, s := range d.Set {
		if sqlIsNegZero(s.V) {
			c.nzUnit[s.Col] = true
		}
	}
	if d.Where != nil {
		d.Where.negZeroCols(c.nzUnit)
	}
}

// the statement was accepted by the engine: what it wrote may be stored at COMMIT
func (c *c12Case) noteDML(d *dml) {
	if c.nzUnitW == nil {
		c.nzUnit, c.nzUnitW = map[int]bool{}, map[int]bool{}
	}
	for _, row := range d.Rows {
		for k, v := range row {
			if sqlIsNegZero(v) {
				c.nzUnitW[d.Cols[k]] = true
			}
		}
	}
	for _, s := range d.Set {
		if sqlIsNegZero(s.V) {
			c.nzUnitW[s.Col] = true
		}
	}
}

// end of a unit: −0.0 values written by a committed unit stay in the table
func (c *c12Case) endUnitNZ(committed bool) {
	if committed {
		if c.nzStored == nil {
			c.nzStored = map[int]bool{}
		}
		for ci := range c.nzUnitW {
			c.nzStored[ci] = true
		}
	}
	c.nzUnit, c.nzUnitW = nil, nil
}

// R4, exact: the reference rejects VALUES row pred.FailRow with an error that the engine raises only AFTER the existence
// test tx.get(mappedPKey) — ErrInvalidValue of pkMustExist, ErrMaxLengthExceeded of a non-key column and the UNIQUE
// lookup (both inside doUpsert) — and the key of that row was live when the unit began and has been deleted by an
// earlier statement of the unit (pend = the reference state inside the open transaction).  tx.get still finds such a
// key, so INSERT … ON CONFLICT DO NOTHING skips the row (none of the three checks is reached) and UPSERT passes
// pkMustExist.
func (c *c12Case) deletedInTx(d *dml, pend *refTable, pred refOut) bool {
	if d == nil || pend == nil || !c.delTaint || pred.Err == "" || pred.FailRow < 0 || pred.FailRow >= len(d.Rows) {
		return false
	}
	switch {
	case d.K == "insert-ocn" && (pred.Err == "invalid-value" || pred.Err == "max-len" || pred.Err == "dup-key"):
	case d.K == "upsert" && pred.Err == "invalid-value":
	default:
		return false
	}
	pk := make([]c15Val, 0, len(c.sc.PK))
	for _, p := range c.sc.PK {
		k := dmlColPos(d, p)
		if k < 0 || d.Rows[pred.FailRow][k].null {
			return false
		}
		pk = append(pk, refStore(c.sc.Cols[p], d.Rows[pred.FailRow][k]))
	}
	return c.ref.find(pk) >= 0 && pend.find(pk) < 0
}

// ---------------------------------------------------------------- sequential mode

func (c *c12Case) dmlOpts() dmlOpts {
	return dmlOpts{G: sqlGenOpts{BadValues: true, Exotic: c.rng.Intn(4) == 0}, P: pexpOpts{Depth: 1}, UpdateKey: true}
}

func (c *c12Case) unit() {
	if c.dead {
		return
	}
	r, rng, sc := c.r, c.rng, c.sc
	kind := rng.Intn(100)
	if c.single || c.forced != nil {
		kind = 0
	} else if c.corr && kind >= 55 && kind < 70 {
		kind = 80 // per-statement answers of an implicit multi-statement tx are not observable
	}
	n := 1
	switch {
	case kind < 55:
		r.Count("unit.auto")
	case kind < 70:
		n = 2 + rng.Intn(2)
		r.Count("unit.implicit-multi")
	default:
		n = 1 + rng.Intn(4)
		r.Count("unit.explicit")
	}
	before := sqlScan(c.env.eng, nil, sc, "t", sc.PK)
	if before.Err == "timeout" {
		c.stalled("before the next unit", sc.PK)
		return
	}
	pend := c.ref.clone()
	vers := c12Vers{}
	c.intxTaint, c.autoTaint, c.delTaint = false, false, false
	var stmts []*dml
	var txts []sqlText
	for i := 0; i < n; i++ {
		var d *dml
		if c.forced != nil {
			d = c.forced
		} else {
			d = sqlGenDML(rng, sc, c.dmlOpts())
			if c.single {
				d = sqlGenDML1(rng, sc, c.dmlOpts(), c.ref.rows)
			}
			c.maybeDoubleDefect(d, pend)
			c.maybeSpell(d)
		}
		stmts = append(stmts, d)
		txts = append(txts, d.text(sc, "t", rng.U64()))
		r.Count("dml." + d.K)
	}
	aborted := false
	nullTargets := map[int]bool{}
	apply := func(i int, engErr string, engUpd int, lastPK map[string]int64, inTx bool) bool {
		d := stmts[i]
		if len(c.idxLive) > 0 && (i > 0 || len(d.Rows) > 1 || d.K == "update" || d.K == "delete") {
			c.intxTaint = true
		}
		if c.corr {
			ans := "ok " + strconv.Itoa(engUpd)
			if engErr != "" {
				ans = "err:" + engErr
			}
			c.r.Corr("c12 stmt "+strings.Join(c12StmtToks(d), " "), ans)
		}
		if pend.maxPK == -1 && pend.rows == nil {
			r.Count("stmt.skipped-after-divergence")
			return engErr == ""
		}
		tmp := pend.clone()
		pred := tmp.exec(d)
		c.noteNZ(d)
		c.r4Hit = c.deletedInTx(d, pend, pred)
		c.compareStmt(d, txts[i], pred, engErr, engUpd, lastPK, inTx)
		c.r4Hit = false
		if sc.autoInc() {
			for k, ci := range d.Cols {
				if sc.Cols[ci].AutoInc {
					for _, row := range d.Rows {
						if !row[k].null && row[k].i > c.ref.maxPK {
							c.autoTaint = true
						}
					}
				}
			}
		}
		if engErr != "" {
			return false
		}
		if pred.Err == "" && !pred.OrderDep {
			pend = tmp
			vers.see(pend)
			if d.K == "delete" && pred.Updated > 0 {
				c.delTaint = true
			}
		} else {
			pend = nil // the engine accepted what the reference rejects: resync after commit
		}
		if d.K == "update" {
			for _, s := range d.Set {
				if s.V.null && !s.Incr && engUpd > 0 {
					nullTargets[s.Col] = true
				}
			}
		}
		c.noteDML(d)
		if len(c.idxLive) > 0 {
			c.intxTaint = true
		}
		if pend == nil {
			pend = c.ref.clone()
			pend.rows = nil
			pend.maxPK = -1 // marks "unknown"
		}
		return true
	}
	unknown := func() bool { return pend.maxPK == -1 && pend.rows == nil }
	committed := false
	switch {
	case kind < 70:
		var sqls, ptoks []string
		params := map[string]interface{}{}
		if n == 1 {
			t := txts[0]
			if c.corr {
				c.r.Corr("c12 begin", "ok")
			}
			res := c.exec(nil, t)
			if apply(0, res.Err, res.Updated, res.LastPK, false) {
				committed = true
			} else {
				aborted = true
			}
		} else {
			// several statements, one implicit transaction: parameters renamed apart
			for i, t := range txts {
				s := t.SQL
				for k, v := range t.Params {
					nk := fmt.Sprintf("s%d%s", i, k)
					s = strings.ReplaceAll(s, "@"+k, "@"+nk)
					params[nk] = v
				}
				for _, pt := range t.PToks {
					ptoks = append(ptoks, fmt.Sprintf("@s%d%s", i, pt[1:]))
				}
				sqls = append(sqls, s)
			}
			res := c.exec(nil, sqlText{SQL: strings.Join(sqls, "; "), Params: params, PToks: ptoks})
			c.intxTaint = len(c.idxLive) > 0
			for i, d := range stmts {
				if d.K == "delete" && i < len(stmts)-1 {
					c.delTaint = true
				}
			}
			if sc.autoInc() {
				for _, d := range stmts {
					for k, ci := range d.Cols {
						if sc.Cols[ci].AutoInc {
							for _, row := range d.Rows {
								if !row[k].null && row[k].i > c.ref.maxPK {
									c.autoTaint = true
								}
							}
						}
					}
				}
			}
			if strings.Contains(res.Err, "non-transient key to transient") {
				res.Err = "transient-key-clash"
			}
			// outcome known for the unit as a whole: replay the reference statement by statement
			if c.corr {
				c.corr = false // per-statement answers are not observable here
				defer func() { c.corr = true }()
			}
			tmp := pend.clone()
			total, failed := 0, ""
			orderDep := false
			var failedStmt *dml
			r4 := false
			for _, d := range stmts {
				c.noteNZ(d)
				before := tmp.clone()
				o := tmp.exec(d)
				if o.OrderDep {
					orderDep = true
				}
				if o.Err != "" {
					failed, failedStmt = o.Err, d
					r4 = c.deletedInTx(d, before, o)
					break
				}
				total += o.Updated
				c.noteDML(d)
				vers.see(tmp)
			}
			r.OracleChecks++
			switch {
			case orderDep:
				r.Count("stmt.order-dependent")
				pend.rows, pend.maxPK = nil, -1
			case failed != "" && res.Err == "":
				cz := ""
				if failed == "dup-key" {
					cz = c.uniqueCause(nil)
				}
				if failed == "invalid-value" && (c.autoTaint || c.explicitAbove(failedStmt)) {
					cz = ":explicit-autoincrement-key-in-same-tx"
				}
				if r4 {
					cz = ":row-deleted-earlier-in-same-tx"
				}
				if failed == "not-null" || failed == "check" {
					cz = ""
					for _, d := range stmts {
						for _, s := range d.Set {
							if d.K == "update" && s.V.null {
								cz = ":update-set-null"
							}
						}
					}
				}
				if failed == "check" && c.implicitOnCheck(failedStmt) {
					cz = c12R26
					c.ckWritten = true
				}
				c.fail("C12:must-fail:accepted:"+failed+cz, "a statement of the implicit transaction must fail with "+failed+" but the engine committed: "+strings.Join(sqls, "; "))
				pend.rows, pend.maxPK = nil, -1
			case failed == "" && res.Err != "":
				c.intxTaint = len(c.idxLive) > 0
				cz := c.cause()
				if res.Err == "transient-key-clash" {
					cz = ""
				} else if res.Err != "dup-key" && (c.delTaint || c.autoTaint) {
					cz = "" // R4 / R9 end in 'key already exists' only (see compareStmt)
					if c.intxTaint {
						cz = ":secondary-index-view-in-tx"
					}
				}
				if res.Err == "check" {
					for _, d := range stmts {
						if c.implicitOnCheck(d) {
							cz = c12R26
						}
					}
				}
				if res.Err == "not-comparable" {
					for _, d := range stmts {
						if c.implicitOnIndexed(d) {
							cz = c12R25
						}
					}
				}
				c.fail("C12:stmt:spurious-failure:"+res.Err+cz, "all statements are valid for the reference but the engine failed with "+res.Err+": "+strings.Join(sqls, "; "))
			case failed == "" && res.Err == "":
				if total != res.Updated {
					c.intxTaint = len(c.idxLive) > 0
					c.fail("C12:stmt:affected-rows-differ"+c.causeNZ(), fmt.Sprintf("engine reports %d affected rows, reference %d: %s", res.Updated, total, strings.Join(sqls, "; ")))
				}
				pend = tmp
			}
			if res.Err != "" {
				aborted = true
			} else {
				committed = true
				c.intxTaint = len(c.idxLive) > 0
				for _, d := range stmts {
					if d.K == "update" {
						for _, s := range d.Set {
							if s.V.null && !s.Incr {
								nullTargets[s.Col] = true
							}
						}
					}
				}
			}
		}
	default:
		res := c.exec(nil, sqlPlain("BEGIN TRANSACTION"))
		if res.Err != "" || res.Tx == nil {
			return
		}
		if c.corr {
			c.r.Corr("c12 begin", "ok")
		}
		tx := res.Tx
		upd := 0
		for i := range stmts {
			res = c.exec(tx, txts[i])
			delta := res.OpenUpd - upd
			var last map[string]int64
			if res.Tx != nil {
				last = res.Tx.LastInsertedPKs()
			}
			if !apply(i, res.Err, delta, last, i > 0) {
				aborted = true
				tx = nil
				break
			}
			upd = res.OpenUpd
			tx = res.Tx
		}
		if tx != nil {
			if rng.Intn(7) == 0 {
				c.exec(tx, sqlPlain("ROLLBACK"))
				if c.corr {
					c.r.Corr("c12 rollback", "ok")
				}
				r.Count("unit.rollback")
				aborted = true
			} else {
				res = c.exec(tx, sqlPlain("COMMIT"))
				if res.Err != "" {
					r.Count("commit.err." + res.Err)
					aborted = true
					if c.corr {
						c.r.Corr("c12 rollback", "ok")
					}
				} else {
					committed = true
				}
			}
		}
	}
	if aborted {
		// nothing of the unit may be visible
		after := sqlScan(c.env.eng, nil, sc, "t", sc.PK)
		r.OracleChecks++
		r.Count("unit.aborted")
		if after.bag() != before.bag() {
			c.fail("C12:failed-stmt:left-trace"+c.cause(), fmt.Sprintf("a failed statement / rolled back transaction changed the table: before %s, after %s", sqlRowsShow(before.Rows, 10), sqlRowsShow(after.Rows, 10)))
		}
		c.intxTaint, c.autoTaint, c.delTaint = false, false, false
		c.r9Seen = false
		c.endUnitNZ(false)
		return
	}
	if committed {
		if c.corr {
			c.r.Corr("c12 commit", "ok")
		}
		r.Count("unit.committed")
		for ci := range nullTargets {
			c.nullSet[ci] = true
		}
		if unknown() {
			c.verify("after commit", false)
			cur := sqlScan(c.env.eng, nil, sc, "t", sc.PK)
			old := c.ref.clone()
			c.ref.rows = cur.Rows
			c.noteTombs(old, c.ref)
			c.noteUnitTombs(vers, c.ref)
			c.adoptMaxPK()
		} else {
			c.noteTombs(c.ref, pend)
			c.noteUnitTombs(vers, pend)
			c.prevMaxPK = c.ref.maxPK
			c.ref = pend
			c.verify("after commit", true)
			c.resyncMaxPK()
			if c.r9Seen {
				// the unit diverged from the reference through R9 (reported above as a known finding: generated keys
				// below an explicit key of the same transaction): the reference's high-water mark was computed from
				// ITS generated keys; later predictions need the engine's own mark
				c.adoptMaxPK()
				c.r.Count("resync.maxpk-after-r9")
			}
		}
		c.autoIncCheck()
		if c.sc.autoInc() {
			c.log(fmt.Sprintf("-- reference high-water mark = %d, rows = %d", c.ref.maxPK, len(c.ref.rows)))
		}
	}
	c.intxTaint, c.autoTaint, c.delTaint = false, false, false
	c.r9Seen = false
	c.endUnitNZ(committed)
}

// the engine's high-water mark is the largest key EVER stored; the reference keeps its own, but
// after a resync the two must agree for later predictions
func (c *c12Case) resyncMaxPK() {
	if !c.sc.autoInc() {
		return
	}
	for _, row := range c.ref.rows {
		if v := row[c.sc.PK[0]]; !v.null && v.i > c.ref.maxPK {
			c.ref.maxPK = v.i
		}
	}
}

// after a reported divergence: adopt the engine's own high-water mark
func (c *c12Case) adoptMaxPK() {
	if c.sc.autoInc() {
		if mx, ok := sqlEngineMaxPK(c.env.eng, "t"); ok {
			c.ref.maxPK = mx
		}
	}
}

func (c *c12Case) autoIncCheck() {}

func c12StmtToks(d *dml) []string {
	var out []string
	switch d.K {
	case "insert", "upsert", "insert-ocn":
		out = append(out, "ins", d.K, strconv.Itoa(len(d.Cols)))
		for _, ci := range d.Cols {
			out = append(out, strconv.Itoa(ci))
		}
		out = append(out, strconv.Itoa(len(d.Rows)))
		for _, row := range d.Rows {
			for _, v := range row {
				out = append(out, v.tok())
			}
		}
	case "update":
		out = append(out, "upd", strconv.Itoa(len(d.Set)))
		for _, s := range d.Set {
			out = append(out, strconv.Itoa(s.Col), b01s(s.Incr), s.V.tok())
		}
		if d.Where != nil {
			out = append(out, d.Where.toks()...)
		} else {
			out = append(out, "nowhere")
		}
	case "delete":
		out = append(out, "del")
		if d.Where != nil {
			out = append(out, d.Where.toks()...)
		} else {
			out = append(out, "nowhere")
		}
	}
	return out
}

func c12SchemaToks(sc *sqlSchema, idx []sqlIdx) string {
	var out []string
	out = append(out, strconv.Itoa(len(sc.Cols)))
	for _, col := range sc.Cols {
		out = append(out, fmt.Sprintf("%s:%d:%s:%s", c15TyName(col.Ty), col.keyLen(), b01s(col.NotNull), b01s(col.AutoInc)))
	}
	out = append(out, "pk", strconv.Itoa(len(sc.PK)))
	for _, p := range sc.PK {
		out = append(out, strconv.Itoa(p))
	}
	out = append(out, "idx", strconv.Itoa(len(idx)))
	for _, ix := range idx {
		out = append(out, b01s(ix.Unique), strconv.Itoa(len(ix.Cols)))
		for _, ci := range ix.Cols {
			out = append(out, strconv.Itoa(ci))
		}
	}
	if sc.Check != nil {
		out = append(out, "check")
		out = append(out, sc.Check.P.toks()...)
	} else {
		out = append(out, "nocheck")
	}
	return strings.Join(out, " ")
}

func (c *c12Case) setup(tag string, o sqlGenOpts) bool {
	c.sc = sqlGenSchema(c.rng, "t", o)
	return c.setupSchema(tag)
}

// creates the table c.sc (and its indexes) on a fresh engine
func (c *c12Case) setupSchema(tag string) bool {
	r := c.r
	env, err := sqlOpenEnv(tag)
	if err != nil {
		r.Inconclusive = append(r.Inconclusive, "cannot open store: "+err.Error())
		return false
	}
	c.env = env
	c.ref = &refTable{sc: c.sc}
	c.tomb, c.nullSet = map[string]bool{}, map[int]bool{}
	if res := c.exec(nil, sqlPlain(c.sc.createTable("t"))); res.Err != "" {
		r.Count("setup.err." + res.Err)
		r.Notes = append(r.Notes, "setup failed: "+c.script[len(c.script)-1])
		env.close()
		return false
	}
	for _, ix := range c.sc.Idx {
		if res := c.exec(nil, sqlPlain(c.sc.createIndex("t", ix))); res.Err == "" {
			c.idxLive = append(c.idxLive, ix)
		} else {
			r.Count("setup.err." + res.Err)
		}
	}
	r.Count(fmt.Sprintf("schema.pk%d.idx%d.autoinc=%v.check=%v", len(c.sc.PK), len(c.idxLive), c.sc.autoInc(), c.sc.Check != nil))
	return true
}

func (c *c12Case) runSequential(thorough bool, variant int) {
	r, rng := c.r, c.rng
	r.NextCase()
	// indexes created later (on populated tables) are taken out of the initial schema
	if !c.setup("c12", sqlGenOpts{Check: true, UniqueProb: 45, Exotic: rng.Intn(4) == 0}) {
		return
	}
	defer c.env.close()
	r.Count("mode.sequential")
	// Lean correspondence: everything on tables without secondary indexes; on indexed tables only
	// autocommit statements writing at most one row (the transient index entries of an open tx are
	// outside the model); the remaining indexed cases run unrestricted, without correspondence
	switch {
	case len(c.idxLive) == 0:
		c.corr = true
		r.Count("corr.full")
	case variant%3 != 2:
		c.corr, c.single = true, true
		r.Count("corr.single-row")
	default:
		r.Count("corr.off")
	}
	if c.corr {
		c.r.Corr("c12 tbl "+c12SchemaToks(c.sc, c.idxLive), "ok")
	}
	n := 15 + rng.Intn(25)
	if thorough {
		n += rng.Intn(60)
	}
	for u := 0; u < n && !c.dead; u++ {
		c.unit()
		if u == n/2 && rng.Intn(2) == 0 {
			// a secondary index on the populated table
			var cols []int
			for ci, col := range c.sc.Cols {
				if (col.Ty != sql.VarcharType && col.Ty != sql.BLOBType || col.MaxLen > 0) && rng.Intn(3) == 0 && len(cols) < 2 {
					cols = append(cols, ci)
				}
			}
			if len(cols) > 0 {
				ix := sqlIdx{Cols: cols, Unique: rng.Intn(4) == 0 && !c.corr}
				dup := false
				for _, l := range c.idxLive {
					if c.sc.colNames(l.Cols) == c.sc.colNames(cols) {
						dup = true
					}
				}
				if !dup {
					res := c.exec(nil, sqlPlain(c.sc.createIndex("t", ix)))
					r.Count("ddl.create-index-on-populated." + map[bool]string{true: "ok", false: "err"}[res.Err == ""] + "." + res.Err)
					if res.Err == "" {
						if ix.Unique && len(c.ref.rows) > 0 {
							// accepted on a populated table (the emptiness test looks at the FIRST primary-index entry only,
							// and a deleted one reads as "no entry"): existing rows may already hold duplicates
							r.Count("ddl.unique-index-on-populated-accepted")
							c.fail("C12:ddl:unique-index-created-on-populated-table", fmt.Sprintf("CREATE UNIQUE INDEX ON t(%s) succeeded although the table holds %d rows (the engine documents 'unique index creation is only supported on empty tables'): the emptiness test reads the first primary-index entry, which is a deleted one", c.sc.colNames(ix.Cols), len(c.ref.rows)))
							c.tomb["*created-on-populated"] = true
						}
						c.idxLive = append(c.idxLive, ix)
						c.sc.Idx = append(c.sc.Idx, ix)
						if c.corr {
							c.r.Corr("c12 tbl-idx "+c12SchemaToks(c.sc, c.idxLive), "ok")
							if !c.single && len(c.idxLive) == 1 {
								c.single = true // from now on the table has a secondary index
							}
						}
						c.verify("after CREATE INDEX on populated table", true)
					}
				}
			}
		}
	}
	if len(r.Samples) < 3 {
		r.Sample(map[string]interface{}{"case": r.Case(), "script_head": c.script[:min(len(c.script), 12)], "lines": len(c.script)})
	}
	if os.Getenv("VERIF_DUMP_CASE") == strconv.Itoa(r.Case()) {
		for _, l := range c.script {
			fmt.Println("SCRIPT", l)
		}
	}
}

// ---------------------------------------------------------------- interleaved sessions (deterministic)

type c12Session struct {
	tx        *sql.SQLTx
	snap      *refTable // committed reference at BEGIN
	pend      *refTable // snap + own writes
	stmts     []string
	inserts   [][]c15Val // pks written with plain INSERT
	started   int        // commit counter at BEGIN
	autoTaint bool
	delT      bool         // a DELETE of this tx removed rows
	vers      c12Vers      // last version of every row seen inside the transaction (rows written and deleted again leave a tombstone)
	unknown   bool         // the engine accepted what the reference rejects: adopt the engine's state at COMMIT
	nullCols  map[int]bool // columns set to NULL by an UPDATE of this tx
}

func (c *c12Case) runInterleaved(thorough bool) {
	r, rng := c.r, c.rng
	r.NextCase()
	if !c.setup("c12i", sqlGenOpts{UniqueProb: 50, MaxIdx: 2}) {
		return
	}
	defer c.env.close()
	r.Count("mode.interleaved")
	nSess := 2 + rng.Intn(3)
	sess := make([]*c12Session, nSess)
	for i := range sess {
		sess[i] = &c12Session{}
	}
	commits := 0
	type commitRec struct {
		n   int
		pks map[string]bool
	}
	var history []commitRec
	lastWriter := map[string]int{} // primary key -> number of the last commit that wrote or deleted it
	steps := 60 + rng.Intn(80)
	if thorough {
		steps *= 2
	}
	do := dmlOpts{G: sqlGenOpts{BadValues: rng.Intn(3) == 0}, P: pexpOpts{Depth: 1}}
	for st := 0; st < steps; st++ {
		si := rng.Intn(nSess)
		s := sess[si]
		tag := fmt.Sprintf("[s%d] ", si)
		if s.tx == nil {
			res := sqlExec(c.env.eng, nil, sqlPlain("BEGIN TRANSACTION"))
			c.log(tag + "BEGIN TRANSACTION => " + res.Err)
			if res.Err != "" || res.Tx == nil {
				continue
			}
			*s = c12Session{tx: res.Tx}
			if c.sc.autoInc() {
				// NewTx reads the primary index (auto-increment high-water mark): the snapshot is taken now
				s.snap, s.pend, s.started = c.ref.clone(), c.ref.clone(), commits
			}
			continue
		}
		if len(s.stmts) > 0 && rng.Intn(4) == 0 {
			// COMMIT or ROLLBACK
			before := sqlScan(c.env.eng, nil, c.sc, "t", c.sc.PK)
			if rng.Intn(6) == 0 {
				res := sqlExec(c.env.eng, s.tx, sqlPlain("ROLLBACK"))
				c.log(tag + "ROLLBACK => " + res.Err)
				s.tx = nil
				after := sqlScan(c.env.eng, nil, c.sc, "t", c.sc.PK)
				r.OracleChecks++
				if after.bag() != before.bag() {
					c.fail("C12:failed-stmt:left-trace", "ROLLBACK changed the committed table")
				}
				continue
			}
			res := sqlExec(c.env.eng, s.tx, sqlPlain("COMMIT"))
			c.log(tag + "COMMIT => " + res.Err)
			s.tx = nil
			if res.Err != "" {
				r.Count("interleaved.commit." + res.Err)
				after := sqlScan(c.env.eng, nil, c.sc, "t", c.sc.PK)
				r.OracleChecks++
				if after.bag() != before.bag() {
					c.fail("C12:failed-stmt:left-trace", "a failed COMMIT ("+res.Err+") changed the committed table: "+sqlRowsShow(before.Rows, 8)+" -> "+sqlRowsShow(after.Rows, 8))
				}
				continue
			}
			r.Count("interleaved.commit.ok")
			commits++
			// rows written by the session: exactly its version must now be committed
			touched := map[string]bool{}
			newRef := c.ref.clone()
			for _, row := range s.pend.rows {
				pk := s.pend.pkOf(row)
				at := s.snap.find(pk)
				if at < 0 || sqlRowTok(s.snap.rows[at]) != sqlRowTok(row) {
					touched[sqlRowTok(pk)] = true
					if i := newRef.find(pk); i >= 0 {
						newRef.rows[i] = row
					} else {
						newRef.rows = append(newRef.rows, row)
					}
				}
			}
			for _, row := range s.snap.rows {
				pk := s.snap.pkOf(row)
				if s.pend.find(pk) < 0 {
					touched[sqlRowTok(pk)] = true
					if i := newRef.find(pk); i >= 0 {
						newRef.rows = append(newRef.rows[:i], newRef.rows[i+1:]...)
					}
				}
			}
			// a plain INSERT of a key that another session committed meanwhile — and that is still live —
			// must not commit (a key inserted and deleted again in between is no conflict)
			for _, pk := range s.inserts {
				if n, ok := lastWriter[sqlRowTok(pk)]; ok && n > s.started && c.ref.find(pk) >= 0 {
					c.fail("C12:constraint:duplicate-pk:concurrent-insert-not-rejected", fmt.Sprintf("session %d inserted primary key %s (plain INSERT) although a concurrent transaction committed a row with the same key after its snapshot (commit #%d > snapshot #%d); COMMIT succeeded", si, sqlRowsShow([][]c15Val{pk}, 1), n, s.started))
				}
			}
			for k := range touched {
				lastWriter[k] = commits
			}
			history = append(history, commitRec{n: commits, pks: touched})
			c.prevMaxPK = c.ref.maxPK
			if newRef.maxPK < s.pend.maxPK {
				newRef.maxPK = s.pend.maxPK
			}
			c.noteTombs(c.ref, newRef)
			if s.vers != nil && s.pend != nil {
				c.noteUnitTombs(s.vers, s.pend)
			}
			c.ref = newRef
			c.autoTaint, c.delTaint = s.autoTaint, s.delT
			c.intxTaint = len(c.idxLive) > 0 && len(s.stmts) > 0
			for ci := range s.nullCols {
				c.nullSet[ci] = true
			}
			if s.unknown {
				// the reference rejected a statement the engine accepted (the sequential mode reports those): adopt the engine's state
				cur := sqlScan(c.env.eng, nil, c.sc, "t", c.sc.PK)
				old := c.ref.clone()
				c.ref.rows = cur.Rows
				c.noteTombs(old, c.ref)
				c.adoptMaxPK()
				c.verify(fmt.Sprintf("after COMMIT of session %d", si), false)
			} else {
				c.verify(fmt.Sprintf("after COMMIT of session %d", si), true)
			}
			c.autoTaint, c.intxTaint, c.delTaint = false, false, false
			c.resyncMaxPK()
			if s.autoTaint {
				// R9 territory (explicit key above the mark inside the transaction: the keys it generated afterwards may
				// lie below the reference's): take the engine's mark for the sessions that begin from now on
				c.adoptMaxPK()
				c.r.Count("resync.maxpk-after-r9")
			}
			c.r9Seen = false
			continue
		}
		d := sqlGenDML(rng, c.sc, do)
		txt := d.text(c.sc, "t", rng.U64())
		if s.snap == nil {
			// the store acquires the snapshot of an index at its first use inside the transaction
			s.snap, s.pend, s.started = c.ref.clone(), c.ref.clone(), commits
		}
		res := sqlExec(c.env.eng, s.tx, txt)
		c.log(tag + txt.String() + " => " + res.Err)
		r.Count("interleaved.dml." + d.K)
		if res.Err != "" {
			r.Count("interleaved.dml.err." + res.Err)
			s.tx = nil
			continue
		}
		s.tx = res.Tx
		s.stmts = append(s.stmts, txt.SQL)
		if c.sc.autoInc() {
			for k, ci := range d.Cols {
				if c.sc.Cols[ci].AutoInc {
					for _, row := range d.Rows {
						if !row[k].null && row[k].i > s.snap.maxPK {
							s.autoTaint = true
						}
					}
				}
			}
		}
		if d.K == "update" {
			for _, st := range d.Set {
				if st.V.null && !st.Incr {
					if s.nullCols == nil {
						s.nullCols = map[int]bool{}
					}
					s.nullCols[st.Col] = true
				}
			}
		}
		tmp := s.pend.clone()
		if o := tmp.exec(d); o.Err != "" || o.OrderDep {
			s.unknown = true
		} else {
			s.pend = tmp
			if s.vers == nil {
				s.vers = c12Vers{}
			}
			s.vers.see(s.pend)
			if d.K == "delete" && o.Updated > 0 {
				s.delT = true
			}
			if d.K == "insert" {
				for _, row := range d.Rows {
					full := make([]c15Val, len(c.sc.Cols))
					for i, ci := range d.Cols {
						full[ci] = row[i]
					}
					if !c.sc.autoInc() {
						s.inserts = append(s.inserts, s.pend.pkOf(full))
					}
				}
			}
		}
	}
	for _, s := range sess {
		if s.tx != nil {
			s.tx.Cancel()
		}
	}
	c.verify("after all sessions closed", true)
}

// ---------------------------------------------------------------- real goroutines

func (c *c12Case) runGoroutines(thorough bool) {
	r, rng := c.r, c.rng
	r.NextCase()
	if !c.setup("c12g", sqlGenOpts{UniqueProb: 60, MaxIdx: 2, NoAutoInc: rng.Bool()}) {
		return
	}
	defer c.env.close()
	r.Count("mode.goroutines")
	nW := 2 + rng.Intn(3)
	var wg sync.WaitGroup
	var mu sync.Mutex
	var logs []string
	ops := 25
	if thorough {
		ops = 80
	}
	for w := 0; w < nW; w++ {
		wr := rng.Fork()
		wg.Add(1)
		go func(w int) {
			defer wg.Done()
			do := dmlOpts{G: sqlGenOpts{}, P: pexpOpts{Depth: 1}}
			for i := 0; i < ops; i++ {
				d := sqlGenDML(wr, c.sc, do)
				txt := d.text(c.sc, "t", wr.U64())
				var res sqlXRes
				if wr.Intn(3) == 0 {
					b := sqlExec(c.env.eng, nil, sqlPlain("BEGIN TRANSACTION"))
					if b.Err != "" || b.Tx == nil {
						continue
					}
					res = sqlExec(c.env.eng, b.Tx, txt)
					if res.Err == "" && res.Tx != nil {
						res = sqlExec(c.env.eng, res.Tx, sqlPlain("COMMIT"))
					}
				} else {
					res = sqlExec(c.env.eng, nil, txt)
				}
				mu.Lock()
				logs = append(logs, fmt.Sprintf("[w%d] %s => %s", w, txt.String(), res.Err))
				if strings.HasPrefix(res.Err, "panic:") {
					c.r.Fail("C12:concurrent:panic", res.Err+" in "+txt.String(), c11Replay{Script: append([]string{}, c.script...), Detail: res.Err})
				}
				c.r.Count("goroutines.outcome." + strings.SplitN(res.Err, ":", 2)[0])
				mu.Unlock()
			}
		}(w)
	}
	wg.Wait()
	sort.Strings(logs)
	c.script = append(c.script, logs...)
	// the reference is unknown (real interleaving): invariants only; uniqueness is what MVCC must protect
	cur := sqlScan(c.env.eng, nil, c.sc, "t", c.sc.PK)
	c.ref.rows = cur.Rows
	c.tomb["*"] = true
	for ixn, ix := range c.idxLive {
		for _, row := range cur.Rows {
			c.tomb[strconv.Itoa(ixn)+"|"+c12Vals(row, ix.Cols)] = true // deletes happened concurrently: cannot tell
		}
	}
	c.verify("after concurrent sessions", false)
}

func runC12(r *hx.Result, rng *hx.Rng, thorough bool, replay string) error {
	if replay != "" {
		r.Rule = "replay of a recorded failure: the recorded SQL script executed again on a fresh store"
		return sqlReplay(r, replay)
	}
	sqlOpTimeout = 20 * time.Second
	defer func() { sqlOpTimeout = 0 }()
	rng = rng.Fork() // hx.NewRng(seed+1) is hx.NewRng(seed) shifted by one draw: fork once so that seeds give unrelated streams
	r.Rule = "evaluation = one committed transaction after which the whole table was scanned through every index and all constraints checked (plus every aborted unit checked for traces); nontrivial = the table was non-empty"
	cases := 36
	if thorough {
		cases = 400
	}
	// the double-defect bias draws from its own stream, derived from a COPY of the generator state: the statements the
	// older modes generate for a seed do not change
	cp := *rng
	ddRoot := hx.NewRng(cp.U64() ^ 0xdd0dd0dd)
	spRoot := hx.NewRng(cp.U64() ^ 0x5be11ed5)
	for i := 0; i < cases; i++ {
		c := &c12Case{r: r, rng: rng.Fork()}
		if i%6 < 4 {
			c.dd = ddRoot.Fork()
			c.sp = spRoot.Fork()
		}
		switch {
		case i%6 == 4:
			c.runInterleaved(thorough)
		case i%6 == 5:
			c.runGoroutines(thorough)
		default:
			c.runSequential(thorough, i)
		}
		if i%8 == 7 {
			if err := r.Flush(); err != nil {
				return err
			}
		}
	}
	// uniqueness under concurrent sessions (c12_race.go): scheduled interleavings, then real goroutines
	nr, ng := 10, 3
	if thorough {
		nr, ng = 90, 24
	}
	for i := 0; i < nr+ng; i++ {
		c := &c12Case{r: r, rng: rng.Fork()}
		if i < nr {
			c.runRace(thorough, i)
		} else {
			c.runRaceGoroutines(thorough)
		}
		if i%8 == 7 {
			if err := r.Flush(); err != nil {
				return err
			}
		}
	}
	// constraints added / changed while other sessions are active (c12_ddl.go)
	if err := runC12DDL(r, rng.Fork(), thorough); err != nil {
		return err
	}
	// error precedence (c12_prec.go): every applicable pair of simultaneous defects × INSERT / UPSERT / ON CONFLICT
	np := 4
	if thorough {
		np = 12
	}
	for i := 0; i < np; i++ {
		c := &c12Case{r: r, rng: rng.Fork()}
		c.runPrecedence(thorough, i)
		if i%4 == 3 {
			if err := r.Flush(); err != nil {
				return err
			}
		}
	}
	// value spellings (c12_spell.go): the same stored value written in different ways into a PRIMARY KEY / UNIQUE index
	ns := 8
	if thorough {
		ns = 32
	}
	for i := 0; i < ns; i++ {
		c := &c12Case{r: r, rng: rng.Fork()}
		c.runSpellings(thorough, i)
		if i%4 == 3 {
			if err := r.Flush(); err != nil {
				return err
			}
		}
	}
	for _, k := range []string{"mode.spellings", "spell.sweep", "spell.injected", "spell.meet.pk", "spell.meet.unique", "spell.meet.pk.below-stored-precision", "spell.meet.unique.below-stored-precision",
		"spell.key-agreement-checked", "spell.pos.ins", "spell.pos.set", "spell.pos.where", "spell.type.timestamp", "spell.type.integer", "spell.type.float64", "spell.type.uuid", "spell.type.varchar", "spell.type.boolean",
		"mode.precedence", "dd.sweep", "dd.injected", "dd.key-long+key-omit", "dd.key-long+key-null", "dd.check+key-null", "dd.key-omit+nn-omit", "dd.key-long+val-long",
		"dd.auto-stale+val-long", "dd.key-exists+val-long", "unit.auto", "unit.explicit", "unit.implicit-multi", "unit.aborted", "unit.committed", "mode.interleaved", "mode.goroutines", "interleaved.commit.ok",
		"mode.race-scheduled", "mode.race-goroutines", "race.commit.ok", "race.commit.read-conflict", "race.tuple.hot", "race.conflict.unique.detected-at-commit"} {
		if r.Distribution[k] == 0 {
			r.Inconclusive = append(r.Inconclusive, "generator never produced class "+k)
		}
	}
	r.Notes = append(r.Notes,
		"reference = Go interpreter with textbook constraint semantics plus the engine's documented rules (NULLs are equal in UNIQUE indexes; explicit auto-increment value must exceed the high-water mark or exist)",
		"goroutine mode checks invariants only (the interleaving is not observable); the interleaved mode is deterministic",
		"race modes (c12_race.go): scheduled sessions writing the same unique tuple under different keys — every acknowledged transaction is replayed on the reference at its commit point, Lean tie `c12 mv …` (statement outcomes, COMMIT decisions, committed rows); goroutine rounds — at most one acknowledged writer per contended unique tuple, table = reference + acknowledged writes")
	return nil
}
