package main

// C02 — Committed history is append-only and immutable.
//
// Real store.Open on generated configurations; random sequential op sequences and concurrent
// committers; after EVERY step the whole committed history is re-read through every reader and
// compared with the record taken when each tx was first reported committed (c02ref.go), and the
// same step is sent to the Lean commit state machine (`c02 …` lines) whose answer (assigned id,
// Alh, error class; committed / precommitted ids and hashes) must equal the implementation's.
// Maintenance operations (value-log truncation, index flush / compaction / reopen) and the value-log / tx-id
// inversion episodes they matter for are in c02trunc.go.

import (
	"context"
	"crypto/sha256"
	"encoding/json"
	"errors"
	"fmt"
	"os"
	"runtime"
	"sort"
	"strings"
	"sync"
	"sync/atomic"
	"time"

	"github.com/codenotary/immudb/embedded/ahtree"
	"github.com/codenotary/immudb/embedded/store"

	"verif/harness/internal/hx"
)

func init() { runners["C02"] = runC02 }

// ---------- configuration ----------

type c02Cfg struct {
	synced       bool
	syncFreqMs   int
	embedded     bool
	prealloc     bool
	version      int
	ioConc       int
	fileSize     int
	maxActive    int
	maxTxEntries int
	maxKeyLen    int
	maxValueLen  int
	ext          bool
	ahtThld      int
	txLogCache   int
}

func (c *c02Cfg) tok() string {
	return fmt.Sprintf("%d:%d:%d:%d:%d:%d", b2i(c.embedded), b2i(c.synced), c.maxActive, c.version, c.maxTxEntries, c.ahtThld)
}

func (c *c02Cfg) label() string {
	return fmt.Sprintf("synced=%v emb=%v prealloc=%v v=%d io=%d fs=%d ma=%d ext=%v aht=%d", c.synced, c.embedded, c.prealloc,
		c.version, c.ioConc, c.fileSize, c.maxActive, c.ext, c.ahtThld)
}

func b2i(b bool) int {
	if b {
		return 1
	}
	return 0
}

func genC02Cfg(rng *hx.Rng) *c02Cfg {
	c := &c02Cfg{
		synced:       rng.Chance(40),
		syncFreqMs:   1 + rng.Intn(3),
		embedded:     rng.Chance(35),
		prealloc:     rng.Chance(30),
		version:      rng.Intn(2),
		ioConc:       []int{1, 1, 3}[rng.Intn(3)],
		fileSize:     []int{160, 256, 512, 512, 1 << 12, 1 << 12, 1 << 16, 1 << 20}[rng.Intn(8)],
		maxActive:    []int{1, 2, 3, 5, 20}[rng.Intn(5)],
		maxTxEntries: []int{3, 8, 32}[rng.Intn(3)],
		maxKeyLen:    []int{8, 32}[rng.Intn(2)],
		maxValueLen:  []int{40, 300, 1500}[rng.Intn(3)],
		ext:          rng.Chance(45),
		ahtThld:      []int{1, 2, 3, 100000}[rng.Intn(4)],
		txLogCache:   []int{1, 2, 1000}[rng.Intn(3)],
	}
	if c.embedded {
		c.ioConc = 1
	}
	if c.prealloc && c.fileSize > 1<<12 {
		c.fileSize = 1 << 12
	}
	return c
}

func (c *c02Cfg) options(clock *int64) *store.Options {
	o := store.DefaultOptions().
		WithLogger(quietLogger()).
		WithSynced(c.synced).
		WithSyncFrequency(time.Duration(c.syncFreqMs) * time.Millisecond).
		WithEmbeddedValues(c.embedded).
		WithPreallocFiles(c.prealloc).
		WithWriteTxHeaderVersion(c.version).
		WithMaxIOConcurrency(c.ioConc).
		WithMaxConcurrency(64).
		WithFileSize(c.fileSize).
		WithMaxActiveTransactions(c.maxActive).
		WithMaxTxEntries(c.maxTxEntries).
		WithMaxKeyLen(c.maxKeyLen).
		WithMaxValueLen(c.maxValueLen).
		WithExternalCommitAllowance(c.ext).
		WithTxLogCacheSize(c.txLogCache).
		WithTimeFunc(func() time.Time { return time.Unix(atomic.AddInt64(clock, 1), 0) })
	o.WithAHTOptions(store.DefaultAHTOptions().WithSyncThld(c.ahtThld))
	return o
}

// ---------- error classes ----------

func c02ErrClass(err error) string {
	switch {
	case err == nil:
		return "ok"
	case errors.Is(err, store.ErrAlreadyClosed) || strings.Contains(err.Error(), "already closed"):
		return "err:closed"
	case errors.Is(err, context.DeadlineExceeded):
		return "err:blocked"
	case errors.Is(err, store.ErrNoEntriesProvided):
		return "err:no-entries"
	case errors.Is(err, store.ErrMaxTxEntriesLimitExceeded):
		return "err:max-entries"
	case errors.Is(err, store.ErrMetadataUnsupported):
		return "err:md-unsupported"
	case errors.Is(err, store.ErrTxAlreadyCommitted):
		return "err:already-committed"
	case errors.Is(err, store.ErrMaxActiveTransactionsLimitExceeded):
		return "err:max-active"
	case errors.Is(err, store.ErrPreconditionFailed):
		return "err:precondition"
	case errors.Is(err, store.ErrUnexpectedLinkingError):
		return "err:linking"
	case errors.Is(err, store.ErrBufferIsFull):
		return "err:buffer-full"
	case errors.Is(err, store.ErrBufferFullyConsumed):
		return "err:not-enough-data"
	case errors.Is(err, ahtree.ErrUnexistentData) || errors.Is(err, ahtree.ErrCannotResetToLargerSize):
		return "err:aht"
	case errors.Is(err, store.ErrIllegalState):
		return "err:illegal-state"
	case errors.Is(err, store.ErrUnexpectedError):
		return "err:unexpected"
	case errors.Is(err, store.ErrIllegalArguments):
		return "err:illegal"
	}
	return "err:other:" + strings.ReplaceAll(err.Error(), " ", "_")
}

// ---------- one case ----------

type c02Pending struct {
	id   uint64
	done chan c02Res
}

type c02Res struct {
	hdr *store.TxHeader
	err error
}

type c02Case struct {
	r       *hx.Result
	rng     *hx.Rng
	cfg     *c02Cfg
	kind    string
	dir     string
	st      *store.ImmuStore
	clock   int64
	hist    *c02Hist
	ops     []string
	pending []*c02Pending
	closed  bool
	// after a failed cLogBuf.put a complete record lies past precommittedTxLogSize; whether it reaches the
	// file depends on flushes (see DESIGN): no Sync / Close until the next successful precommit overwrites it.
	spillRisk bool
	caseID    int
	lastStep  time.Time
	seed      uint64
	steps     int
	// primary of the replica cases
	prim      *store.ImmuStore
	primDir   string
	primClock int64
	keyN      int
	// reference log of everything the history ever wrote (c02reload.go); oracle over what Open reloads
	ref *c02RefLog
	// next own commit uses exactly these entries (same-size generator of the stale-tail cases)
	shapeNext []c02Entry
	// stale-tail cases: keep the options that decide whether/what is reloaded stable across reopens
	stable bool
	// replica flavour of the stale-tail cases: only the next tx of the primary is replicated
	repNextOnly bool
	// after a simulated crash the file state depends on flush timing: oracle only, no model lines
	noCorr bool
	// value-log truncation histories (c02trunc.go): counter of Append calls on the value logs (state signal
	// "the values of a committer are in a value log"), tie of the chunk files with the truncation model
	vt *c02VTie
}

func (c *c02Case) replay() interface{} {
	return map[string]interface{}{"seed": c.seed, "case": c.caseID, "kind": c.kind, "cfg": c.cfg.label(), "ops": append([]string{}, c.ops...)}
}

func (c *c02Case) log(f string, a ...interface{}) { c.ops = append(c.ops, fmt.Sprintf(f, a...)) }

func (c *c02Case) corr(op, impl string) {
	if c.noCorr {
		return
	}
	c.r.Corr("c02 "+op, impl)
	c.r.Count("answer." + strings.SplitN(strings.SplitN(op, " ", 2)[0], ":", 2)[0] + "." + strings.SplitN(impl, " ", 2)[0])
}

func (c *c02Case) open() error {
	o := c.cfg.options(&c.clock)
	if c.vt != nil {
		o = c.vt.wrapOptions(o)
	}
	st, err := store.Open(c.dir, o)
	if err != nil {
		return err
	}
	c.st = st
	c.closed = false
	return nil
}

func hex32(a [32]byte) string { return hx.Hex(a[:]) }

func c02MinI(a, b int) int {
	if a < b {
		return a
	}
	return b
}

func (c *c02Case) stateLine() {
	cid, calh := c.st.CommittedAlh()
	var pid uint64
	var palh [32]byte
	if c.closed {
		c.corr("state", fmt.Sprintf("c=%d ca=%s closed=1", cid, hex32(calh)))
		return
	}
	pid, palh = c.st.PrecommittedAlh()
	c.corr("state", fmt.Sprintf("c=%d p=%d ca=%s pa=%s closed=0", cid, pid, hex32(calh), hex32(palh)))
}

// drain collects finished commit goroutines; those whose tx is now committed must finish.
func (c *c02Case) drain() {
	if c.st == nil {
		return
	}
	cid, _ := c.st.CommittedAlh()
	pid := c.st.LastPrecommittedTxID()
	keep := c.pending[:0]
	for _, p := range c.pending {
		var res *c02Res
		select {
		case x := <-p.done:
			res = &x
		default:
			if c.closed || (p.id <= cid) {
				select {
				case x := <-p.done:
					res = &x
				case <-time.After(5 * time.Second):
					c.r.Fail("C02:ack:missing", fmt.Sprintf("commit of tx %d still blocked although committed=%d closed=%v", p.id, cid, c.closed), c.replay())
				}
			}
		}
		if res == nil {
			if p.id > pid && !c.closed {
				// discarded while waiting: the goroutine stays blocked until a tx with that id commits or the store closes
				c.r.Count("pending.discarded-while-waiting")
			}
			keep = append(keep, p)
			continue
		}
		if res.err == nil && res.hdr != nil {
			c.r.Count("ack.late")
			c.hist.ack(c.r, res.hdr, cid, c.replay)
		} else {
			c.r.Count("ack.late." + c02ErrClass(res.err))
		}
	}
	c.pending = keep
}

// after: what follows every step.
func (c *c02Case) after(where string) {
	if c.st == nil {
		return
	}
	if os.Getenv("VERIF_C02_TIMING") != "" {
		if d := time.Since(c.lastStep); d > 500*time.Millisecond && len(c.ops) > 0 {
			fmt.Fprintf(os.Stderr, "   slow step %.2fs: %s\n", d.Seconds(), c.ops[len(c.ops)-1])
		}
		defer func() { c.lastStep = time.Now() }()
	}
	if !c.closed && c.cfg.synced && !c.spillRisk {
		err := c.st.Sync()
		c.corr("sync", c02ErrClass(err))
	}
	c.stateLine()
	// the reference log learns what the step wrote / discarded (independent of the model)
	c.refLog().sync(c)
	// verify BEFORE collecting late acks: the record of a tx is what the history shows when it is first
	// reported committed; an ack must then agree with it
	n := c.hist.verify(c.r, c.st, c.cfg, c.replay, where)
	_ = n
	c.drain()
	c.steps++
}

// ---------- generators ----------

func (c *c02Case) genKey() []byte {
	if c.rng.Chance(70) {
		return []byte(fmt.Sprintf("k%d", c.rng.Intn(12)))
	}
	n := 1 + c.rng.Intn(c.cfg.maxKeyLen)
	if c.rng.Chance(20) {
		n = c.cfg.maxKeyLen
	}
	return c.rng.Bytes(n)
}

func (c *c02Case) genValue() []byte {
	switch c.rng.Intn(8) {
	case 0:
		return nil
	case 1:
		return c.rng.Bytes(c.cfg.maxValueLen)
	case 2:
		return c.rng.Bytes(1)
	}
	return c.rng.Bytes(c.rng.Intn(c.cfg.maxValueLen + 1))
}

type c02Entry struct {
	key, value []byte
	md         *store.KVMetadata
}

func (c *c02Case) genKVMd() *store.KVMetadata {
	md := store.NewKVMetadata()
	switch c.rng.Intn(3) {
	case 0:
		md.AsDeleted(true)
	case 1:
		md.AsNonIndexable(true)
	default:
		md.ExpiresAt(time.Unix(4102444800+int64(c.rng.Intn(1000)), 0)) // year 2100
	}
	return md
}

func (c *c02Case) genEntries(n int, withMd bool) []c02Entry {
	seen := map[string]bool{}
	var es []c02Entry
	for len(es) < n {
		k := c.genKey()
		if seen[string(k)] {
			k = append(k[:len(k):len(k)], byte('a'+len(es)))
			if len(k) > c.cfg.maxKeyLen || seen[string(k)] {
				continue
			}
		}
		seen[string(k)] = true
		e := c02Entry{key: k, value: c.genValue()}
		if withMd && c.rng.Chance(50) {
			e.md = c.genKVMd()
		}
		es = append(es, e)
	}
	return es
}

func entriesTok(es []c02Entry) string {
	if len(es) == 0 {
		return "_"
	}
	ss := make([]string, len(es))
	for i, e := range es {
		hv := sha256.Sum256(e.value)
		ss[i] = fmt.Sprintf("%s:%s:%d:%s", hx.Hex(e.key), hx.Hex(mdBytes(e.md)), len(e.value), hex32(hv))
	}
	return strings.Join(ss, ";")
}

// committedKeys: the harness's own view of which keys exist (for precondition verdicts).
func (c *c02Case) keyState(key []byte) (exists bool) {
	c.hist.mu.Lock()
	defer c.hist.mu.Unlock()
	cid, _ := c.st.CommittedAlh()
	for i := int(cid) - 1; i >= 0; i-- {
		if i >= len(c.hist.recs) || c.hist.recs[i] == nil {
			continue
		}
		for _, e := range c.hist.recs[i].entries {
			if string(e.key) == string(key) {
				md := store.NewKVMetadata()
				deleted, nonIdx := false, false
				if len(e.md) > 0 {
					// attribute codes: parse through the repo's own decoder by way of a TxEntry is not exported; the
					// generator only produces single-attribute metadata, first byte = attribute code
					_ = md
					deleted = e.md[0] == 0
					nonIdx = e.md[0] == 2
				}
				if nonIdx {
					continue
				}
				return !deleted
			}
		}
	}
	return false
}

// ---------- operations ----------

func (c *c02Case) opOwn() {
	cfg := c.cfg
	kind := "plain"
	n := 1 + c.rng.Intn(c02MinI(cfg.maxTxEntries, 6))
	if c.rng.Chance(15) {
		n = cfg.maxTxEntries
	}
	withMd := cfg.version == 1 && c.rng.Chance(30)
	switch x := c.rng.Intn(100); {
	case x < 5:
		kind, n = "no-entries", 0
	case x < 10:
		kind, n = "too-many", cfg.maxTxEntries+1
	case x < 15 && cfg.version == 0:
		kind, withMd = "v0-kvmd", true
	case x < 30:
		kind = "precond"
	case x < 34:
		kind = "cancelled"
	}
	shaped := c.shapeNext != nil
	if shaped {
		kind, n, withMd = "shaped", len(c.shapeNext), false
	}
	es := c.shapeNext
	c.shapeNext = nil
	if !shaped {
		es = c.genEntries(n, withMd)
	}
	if kind == "v0-kvmd" {
		es[c.rng.Intn(len(es))].md = c.genKVMd()
	}
	var txmd *store.TxMetadata
	if cfg.version == 1 && n > 0 && !shaped && c.rng.Chance(15) {
		txmd = store.NewTxMetadata().WithTruncatedTxID(uint64(1 + c.rng.Intn(5)))
	}
	hasPre, preOk := false, true
	var pre store.Precondition
	if kind == "precond" {
		hasPre = true
		k := c.genKey()
		ex := c.keyState(k)
		if c.rng.Bool() {
			pre = &store.PreconditionKeyMustExist{Key: k}
			preOk = ex
		} else {
			pre = &store.PreconditionKeyMustNotExist{Key: k}
			preOk = !ex
		}
	}
	c.r.Count("op.own." + kind)

	cid, _ := c.st.CommittedAlh()
	preBefore := c.st.LastPrecommittedTxID()
	if c.closed {
		preBefore = 0
	}
	ctx := context.Background()
	var cancel context.CancelFunc
	expectBlock := hasPre && !c.closed && cid < preBefore
	if expectBlock {
		ctx, cancel = context.WithTimeout(ctx, 150*time.Millisecond)
		defer cancel()
	}
	tx, err := c.st.NewWriteOnlyTx(ctx)
	if err != nil {
		c.r.Fail("C02:harness:new-tx", err.Error(), c.replay())
		return
	}
	if txmd != nil {
		tx.WithMetadata(txmd)
	}
	for _, e := range es {
		if err := tx.Set(e.key, e.md, e.value); err != nil {
			// Set refuses the (maxTxEntries+2)-th entry only; anything else is a generator bug
			c.r.Fail("C02:harness:set", err.Error(), c.replay())
			return
		}
	}
	if pre != nil {
		tx.AddPrecondition(pre)
	}
	var mdb []byte
	if txmd != nil {
		mdb = txmd.Bytes()
	}
	if kind == "cancelled" {
		tx.Cancel()
		_, err := tx.Commit(ctx)
		c.log("own cancelled -> %v", err)
		if !errors.Is(err, store.ErrAlreadyClosed) {
			c.r.Fail("C02:cancelled-tx:committed", fmt.Sprintf("commit of a cancelled tx returned %v", err), c.replay())
		}
		// never reaches the store: the model is not stepped, the state line must be unchanged
		c.after("own-cancelled")
		return
	}

	p := &c02Pending{done: make(chan c02Res, 1)}
	go func() {
		defer func() {
			if e := recover(); e != nil {
				p.done <- c02Res{nil, fmt.Errorf("panic: %v", e)}
			}
		}()
		hdr, err := tx.AsyncCommit(ctx)
		p.done <- c02Res{hdr, err}
	}()
	var res *c02Res
	deadline := time.Now().Add(20 * time.Second)
	for res == nil {
		select {
		case x := <-p.done:
			res = &x
		default:
			if !c.closed && c.st.LastPrecommittedTxID() > preBefore {
				// precommitted, waiting for the commit allowance
				goto pendingTx
			}
			if time.Now().After(deadline) {
				c.r.Fail("C02:op:hang", "own commit neither returned nor precommitted within 20s", c.replay())
				return
			}
			time.Sleep(50 * time.Microsecond)
		}
	}
	{
		var out string
		ts := int64(0)
		if res.err == nil {
			a := res.hdr.Alh()
			out = fmt.Sprintf("tx %d %s", res.hdr.ID, hex32(a))
			ts = res.hdr.Ts
			c.spillRisk = false
			cnow, _ := c.st.CommittedAlh()
			// record what the history shows first, then the ack must agree
			c.hist.verify(c.r, c.st, c.cfg, c.replay, "at-ack")
			c.hist.ack(c.r, res.hdr, cnow, c.replay)
			c.r.Count("ack.immediate")
		} else {
			out = c02ErrClass(res.err)
			if strings.HasPrefix(res.err.Error(), "panic:") {
				c.r.Fail("C02:commit:panic", res.err.Error(), c.replay())
			}
			if out == "err:buffer-full" {
				c.spillRisk = true
			}
			if out == "err:not-enough-data" || out == "err:unexpected" {
				// precommitted although the embedded mayCommit failed: the model needs the timestamp
				if h, e := c.st.ReadTxHeader(preBefore+1, true, false); e == nil {
					ts = h.Ts
				}
			}
		}
		c.log("own %s n=%d -> %s", kind, n, out)
		if res.err == nil && os.Getenv("VERIF_C02_CASE") != "" {
			c.log("    hdr %s", hdrTokRef(toRefHdr(res.hdr)))
		}
		c.corr(fmt.Sprintf("own %d %s %s %d %d", ts, hx.Hex(mdb), entriesTok(es), b2i(hasPre), b2i(preOk)), out)
		c.r.Eval("own|"+kind+"|"+strings.SplitN(out, " ", 2)[0]+"|"+c.cfg.label(), true)
		c.after("own")
		return
	}
pendingTx:
	{
		c.spillRisk = false
		id := preBefore + 1
		h, err := c.st.ReadTxHeader(id, true, false)
		if err != nil {
			c.r.Fail("C02:precommitted:unreadable", fmt.Sprintf("tx %d: %v", id, err), c.replay())
			return
		}
		p.id = id
		c.pending = append(c.pending, p)
		a := h.Alh()
		out := fmt.Sprintf("tx %d %s", id, hex32(a))
		c.log("own %s n=%d -> %s (pending)", kind, n, out)
		c.corr(fmt.Sprintf("own %d %s %s %d %d", h.Ts, hx.Hex(mdb), entriesTok(es), b2i(hasPre), b2i(preOk)), out)
		c.r.Count("op.own.pending")
		c.r.Eval("own-pending|"+kind+"|"+c.cfg.label(), true)
		c.after("own-pending")
	}
}

// liveAlhs reads the accumulated hashes of all precommitted txs.
func (c *c02Case) liveAlhs() ([][32]byte, error) {
	pid := c.st.LastPrecommittedTxID()
	out := make([][32]byte, 0, pid)
	for id := uint64(1); id <= pid; id++ {
		h, err := c.st.ReadTxHeader(id, true, false)
		if err != nil {
			return nil, err
		}
		out = append(out, h.Alh())
	}
	return out, nil
}

func hdrTokRef(h refHdr) string {
	return fmt.Sprintf("%d:%d:%d:%s:%s:%d:%s:%d:%s", h.id, uint64(h.ts), h.blTxID, hex32(h.blRoot), hex32(h.prevAlh),
		h.version, hx.Hex(h.md), h.nentries, hex32(h.eh))
}

// opRep: ReplicateTx of a synthesised exported tx (valid or with one altered field).
func (c *c02Case) opRepSynth() {
	alhs, err := c.liveAlhs()
	if err != nil {
		c.r.Fail("C02:precommitted:unreadable", err.Error(), c.replay())
		return
	}
	pid := uint64(len(alhs))
	version := c.cfg.version
	if c.rng.Chance(25) {
		version = c.rng.Intn(2)
	}
	n := 1 + c.rng.Intn(c02MinI(c.cfg.maxTxEntries, 5))
	es := c.genEntries(n, version == 1 && c.rng.Chance(30))
	mut := "valid"
	if c.rng.Chance(45) {
		mut = []string{"eh", "blroot", "prevalh", "dup", "old", "ahead", "far", "bl-ge-id", "lag", "bl0", "v0-kvmd", "ts0"}[c.rng.Intn(12)]
	}
	if mut == "v0-kvmd" {
		version = 0
		es[0].md = c.genKVMd()
	}
	res := make([]refEntry, len(es))
	exp := make([]expEntry, len(es))
	for i, e := range es {
		res[i] = refEntry{key: e.key, md: mdBytes(e.md), vlen: len(e.value), hval: sha256.Sum256(e.value)}
		exp[i] = expEntry{key: e.key, md: mdBytes(e.md), value: e.value}
	}
	h := &store.TxHeader{ID: pid + 1, Ts: atomic.AddInt64(&c.clock, 1), BlTxID: pid, Version: version, NEntries: len(es)}
	if pid > 0 {
		h.PrevAlh = alhs[pid-1]
	} else {
		h.PrevAlh = sha256.Sum256(nil)
	}
	if version == 1 && c.rng.Chance(15) {
		h.Metadata = store.NewTxMetadata().WithTruncatedTxID(uint64(1 + c.rng.Intn(3)))
	}
	h.Eh = refEh(version, res)
	switch mut {
	case "lag":
		if pid > 1 {
			h.BlTxID = 1 + uint64(c.rng.Intn(int(pid)-1))
		}
	case "bl0":
		h.BlTxID = 0
	case "bl-ge-id":
		h.BlTxID = pid + 1 + uint64(c.rng.Intn(2))
	case "dup":
		if pid > 0 {
			h.ID, h.BlTxID = pid, pid-1
		}
	case "old":
		if pid > 0 {
			h.ID = 1 + uint64(c.rng.Intn(int(pid)))
			h.BlTxID = h.ID - 1
		}
	case "ahead":
		h.ID = pid + 2
	case "far":
		h.ID = pid + uint64(c.cfg.maxActive) + 1 + uint64(c.rng.Intn(2))
	case "ts0":
		h.Ts = 0
	}
	if h.BlTxID > 0 && h.BlTxID <= pid {
		h.BlRoot = c02Mth(alhs[:h.BlTxID])
	}
	switch mut {
	case "eh":
		h.Eh[c.rng.Intn(32)] ^= 1 << uint(c.rng.Intn(8))
	case "blroot":
		h.BlRoot[c.rng.Intn(32)] ^= 1 << uint(c.rng.Intn(8))
	case "prevalh":
		h.PrevAlh[c.rng.Intn(32)] ^= 1 << uint(c.rng.Intn(8))
	}
	skip := c.rng.Chance(25)
	hb, err := h.Bytes()
	if err != nil {
		return
	}
	c.replicate("synth."+mut, buildExport(hb, exp), toRefHdr(h), es, skip, pid)
}

func (c *c02Case) replicate(kind string, exported []byte, rh refHdr, es []c02Entry, skip bool, pid uint64) {
	c.r.Count("op.rep." + kind)
	ctx := context.Background()
	var cancel context.CancelFunc
	if rh.id > pid+1 && rh.id <= pid+uint64(c.cfg.maxActive) && !c.closed {
		ctx, cancel = context.WithTimeout(ctx, 150*time.Millisecond)
		defer cancel()
	}
	var hdr *store.TxHeader
	err := withTimeout(20*time.Second, func() (e error) {
		defer func() {
			if p := recover(); p != nil {
				e = fmt.Errorf("panic: %v", p)
			}
		}()
		hdr, e = c.st.ReplicateTx(ctx, exported, skip, false)
		return e
	})
	if err == errHang {
		c.r.Fail("C02:op:hang", "ReplicateTx did not return within 20s ("+kind+")", c.replay())
		return
	}
	c.replicated(kind, rh, es, skip, hdr, err)
}

// replicated: what follows a ReplicateTx call that has returned (oracle at the ack, model line, step epilogue).
func (c *c02Case) replicated(kind string, rh refHdr, es []c02Entry, skip bool, hdr *store.TxHeader, err error) {
	if err == nil && !c.cfg.ext {
		cnow, _ := c.st.CommittedAlh()
		c.hist.verify(c.r, c.st, c.cfg, c.replay, "at-ack")
		c.hist.ack(c.r, hdr, cnow, c.replay)
	}
	c.replicatedLine(kind, rh, es, skip, hdr, err)
	c.after("rep")
}

// replicatedLine: the model line of a ReplicateTx call that has returned.
func (c *c02Case) replicatedLine(kind string, rh refHdr, es []c02Entry, skip bool, hdr *store.TxHeader, err error) {
	var out string
	if err == nil {
		a := hdr.Alh()
		out = fmt.Sprintf("tx %d %s", hdr.ID, hex32(a))
		c.spillRisk = false
	} else {
		out = c02ErrClass(err)
		if strings.HasPrefix(err.Error(), "panic:") {
			c.r.Fail("C02:ReplicateTx:panic", err.Error(), c.replay())
		}
		if out == "err:buffer-full" {
			c.spillRisk = true
		}
	}
	c.log("rep %s id=%d bl=%d skip=%v -> %s", kind, rh.id, rh.blTxID, skip, out)
	if err != nil && os.Getenv("VERIF_C02_CASE") != "" {
		c.log("    error text: %v", err)
	}
	c.corr(fmt.Sprintf("rep %s %s %d", hdrTokRef(rh), entriesTok(es), b2i(skip)), out)
	c.r.Eval("rep|"+kind+"|"+strings.SplitN(out, " ", 2)[0]+"|"+c.cfg.label(), true)
}

// opRepPrimary: ReplicateTx of a tx exported from the twin (primary) store.
func (c *c02Case) opRepPrimary() {
	pid := c.st.LastPrecommittedTxID()
	pc, _ := c.prim.CommittedAlh()
	kind := "next"
	id := pid + 1
	switch x := c.rng.Intn(100); {
	case c.repNextOnly:
	case x < 12 && pid > 0:
		kind, id = "dup", 1+uint64(c.rng.Intn(int(pid)))
	case x < 20:
		kind, id = "ahead", pid+2
	case x < 25:
		kind, id = "far", pid+uint64(c.cfg.maxActive)+1
	}
	exp, h, es, ok := c.primaryExport(id, pc)
	if !ok {
		return
	}
	c.replicate("primary."+kind, exp, toRefHdr(h), es, c.rng.Chance(20), pid)
}

// primaryExport: the twin primary commits up to tx id (if it has not yet) and exports it.
func (c *c02Case) primaryExport(id, pc uint64) (exp []byte, h *store.TxHeader, es []c02Entry, ok bool) {
	for pc < id {
		// the primary commits another tx
		tx, _ := c.prim.NewWriteOnlyTx(context.Background())
		var ents []c02Entry
		if c.vt != nil {
			ents = c.vt.genEntries(c)
		} else {
			ents = c.genEntries(1+c.rng.Intn(c02MinI(c.cfg.maxTxEntries, 4)), false)
		}
		for _, e := range ents {
			tx.Set(e.key, nil, e.value)
		}
		if _, err := tx.Commit(context.Background()); err != nil {
			c.r.Fail("C02:harness:primary-commit", err.Error(), c.replay())
			return nil, nil, nil, false
		}
		pc++
		c.r.Count("op.primary.commit")
	}
	tx := store.NewTx(c.cfg.maxTxEntries+1, c.cfg.maxKeyLen)
	exp, err := c.prim.ExportTx(id, false, false, tx)
	if err != nil {
		c.r.Fail("C02:harness:primary-export", err.Error(), c.replay())
		return nil, nil, nil, false
	}
	hb, res, vals, err := parseExport(exp)
	if err != nil {
		c.r.Fail("C02:history:export-unparsable", err.Error(), c.replay())
		return nil, nil, nil, false
	}
	h = &store.TxHeader{}
	h.ReadFrom(hb)
	es = make([]c02Entry, len(res))
	for i := range res {
		es[i] = c02Entry{key: append([]byte{}, res[i].key...), value: append([]byte{}, vals[i]...)}
		if len(res[i].md) > 0 {
			c.r.Fail("C02:harness:primary-md", "unexpected kv metadata", c.replay())
			return nil, nil, nil, false
		}
	}
	return exp, h, es, true
}

func (c *c02Case) opSync() {
	if c.spillRisk {
		return
	}
	c.r.Count("op.sync")
	err := c.st.Sync()
	out := c02ErrClass(err)
	c.log("sync -> %s", out)
	c.corr("sync", out)
	c.after("sync")
}

func (c *c02Case) opDiscard() {
	cid, _ := c.st.CommittedAlh()
	pid := c.st.LastPrecommittedTxID()
	var t uint64
	kind := ""
	switch x := c.rng.Intn(100); {
	case x < 8:
		kind, t = "zero", 0
	case x < 25 && cid > 0:
		kind, t = "committed", 1+uint64(c.rng.Intn(int(cid)))
	case x < 35:
		kind, t = "beyond", pid+1+uint64(c.rng.Intn(3))
	case pid > cid:
		kind, t = "pending", cid+1+uint64(c.rng.Intn(int(pid-cid)))
	default:
		kind, t = "beyond", pid+1
	}
	c.doDiscard(t, kind)
}

func (c *c02Case) doDiscard(t uint64, kind string) {
	c.r.Count("op.discard." + kind)
	before := c.hist.snapshotCommitted()
	n, err := c.st.DiscardPrecommittedTxsSince(t)
	out := c02ErrClass(err)
	if err == nil {
		out = fmt.Sprintf("n %d", n)
	}
	c.log("discard %d (%s) -> %s", t, kind, out)
	c.corr(fmt.Sprintf("discard %d", t), out)
	c.r.Eval("discard|"+kind+"|"+strings.SplitN(out, " ", 2)[0], kind == "pending" || kind == "committed")
	c.r.OracleChecks++
	if after, _ := c.st.CommittedAlh(); after < before {
		c.r.Fail("C02:discard:committed-tx-removed", fmt.Sprintf("DiscardPrecommittedTxsSince(%d): committed id %d -> %d", t, before, after), c.replay())
	}
	c.after("discard")
}

func (h *c02Hist) snapshotCommitted() uint64 {
	h.mu.Lock()
	defer h.mu.Unlock()
	n := uint64(0)
	for _, rc := range h.recs {
		if rc != nil {
			n++
		}
	}
	return n
}

func (c *c02Case) opAllow() {
	cid, _ := c.st.CommittedAlh()
	pid := c.st.LastPrecommittedTxID()
	var t uint64
	switch x := c.rng.Intn(100); {
	case x < 10:
		t = uint64(c.rng.Intn(int(cid) + 1))
	case x < 25:
		t = pid + 1 + uint64(c.rng.Intn(3))
	case x < 60:
		t = pid
	default:
		t = cid + uint64(c.rng.Intn(int(pid-cid)+1))
	}
	c.doAllow(t)
}

func (c *c02Case) doAllow(t uint64) {
	c.r.Count("op.allow")
	err := c.st.AllowCommitUpto(t)
	out := c02ErrClass(err)
	c.log("allow %d -> %s", t, out)
	c.corr(fmt.Sprintf("allow %d", t), out)
	c.r.Eval("allow|"+out+"|"+c.cfg.label(), true)
	c.after("allow")
}

func (c *c02Case) opSetExt() {
	b := c.rng.Bool()
	c.r.Count("op.setext")
	c.st.SetExternalCommitAllowance(b)
	c.cfg.ext = b
	c.log("setext %v", b)
	c.corr(fmt.Sprintf("setext %d", b2i(b)), "ok")
	c.after("setext")
}

func (c *c02Case) opClose() {
	c.r.Count("op.close")
	err := c.st.Close()
	out := c02ErrClass(err)
	c.closed = true
	c.spillRisk = false
	c.log("close -> %s", out)
	c.corr("close", out)
	c.drainAll()
	c.stateLine()
}

func (c *c02Case) drainAll() {
	for _, p := range c.pending {
		select {
		case res := <-p.done:
			if res.err == nil && res.hdr != nil {
				cid, _ := c.st.CommittedAlh()
				c.hist.ack(c.r, res.hdr, cid, c.replay)
				c.r.Count("ack.late")
			} else {
				c.r.Count("ack.late." + c02ErrClass(res.err))
			}
		case <-time.After(5 * time.Second):
			c.r.Fail("C02:ack:missing", fmt.Sprintf("commit of tx %d still blocked after Close", p.id), c.replay())
		}
	}
	c.pending = nil
}

func (c *c02Case) opClosedProbe() {
	// operations on a closed store
	switch c.rng.Intn(3) {
	case 0:
		err := c.st.Sync()
		c.corr("sync", c02ErrClass(err))
	case 1:
		_, err := c.st.DiscardPrecommittedTxsSince(1 + uint64(c.rng.Intn(3)))
		c.corr("discard 1", c02ErrClass(err))
	default:
		tx := store.NewTx(c.cfg.maxTxEntries+1, c.cfg.maxKeyLen)
		if err := c.st.ReadTx(1, false, tx); !errors.Is(err, store.ErrAlreadyClosed) {
			c.r.Fail("C02:closed:readable", fmt.Sprintf("ReadTx on a closed store: %v", err), c.replay())
		}
	}
	c.r.Count("op.closed-probe")
}

func (c *c02Case) opReopen() {
	if c.spillRisk {
		// a record written past precommittedTxLogSize by a failed cLogBuf.put may or may not have reached the
		// file (flush-dependent; if it has, Open resurrects the FAILED tx as precommitted — reported, not modelled)
		c.r.Count("op.reopen.skipped-spill")
		return
	}
	c.opClose()
	if c.rng.Chance(30) {
		c.opClosedProbe()
	}
	// run-time options may change between runs
	if c.rng.Chance(25) {
		c.cfg.synced = !c.cfg.synced
	}
	if c.rng.Chance(25) && !c.stable {
		c.cfg.maxActive = []int{1, 2, 3, 5, 20}[c.rng.Intn(5)]
	}
	if c.rng.Chance(20) && !c.stable {
		c.cfg.ext = !c.cfg.ext
	}
	if c.rng.Chance(20) && !c.stable {
		c.cfg.version = c.rng.Intn(2)
	}
	if c.rng.Chance(20) {
		c.cfg.ahtThld = []int{1, 2, 3, 100000}[c.rng.Intn(4)]
	}
	c.r.Count("op.reopen")
	err := c.open()
	out := c02ErrClass(err)
	c.log("open %s -> %s", c.cfg.label(), out)
	c.corr(fmt.Sprintf("open %s %d", c.cfg.tok(), b2i(c.cfg.ext)), out)
	if err != nil {
		c.r.Fail("C02:reopen:failed", err.Error(), c.replay())
		c.st = nil
		return
	}
	// model-independent oracle over what Open reloaded (committed and pre-committed txs)
	c.refLog().reopened(c, false)
	c.after("reopen")
}

// ---------- case drivers ----------

func (c *c02Case) runSequential(steps int) {
	defer c.finish()
	if err := c.open(); err != nil {
		c.r.Fail("C02:harness:open", err.Error(), c.replay())
		return
	}
	c.corr(fmt.Sprintf("new %s %d", c.cfg.tok(), b2i(c.cfg.ext)), "ok")
	c.after("open")
	for i := 0; i < steps && c.st != nil; i++ {
		x := c.rng.Intn(100)
		switch {
		case c.kind == "replica":
			switch {
			case x < 55:
				c.opRepPrimary()
			case x < 63:
				c.opSync()
			case x < 75:
				c.opDiscard()
			case x < 88:
				if c.cfg.ext || c.rng.Chance(10) {
					c.opAllow()
				} else {
					c.opRepPrimary()
				}
			case x < 92:
				c.opMaintenance()
			default:
				c.opReopen()
			}
		default:
			switch {
			case x < 42:
				c.opOwn()
			case x < 54:
				c.opRepSynth()
			case x < 60:
				c.opSync()
			case x < 70:
				c.opDiscard()
			case x < 82:
				if c.cfg.ext || c.rng.Chance(10) {
					c.opAllow()
				} else {
					c.opOwn()
				}
			case x < 84:
				c.opSetExt()
			case x < 93:
				c.opMaintenance()
			default:
				c.opReopen()
			}
		}
	}
}

// scripted: a committer waiting for the commit allowance, its tx discarded, another tx taking the id.
func (c *c02Case) runDiscardedAck() {
	defer c.finish()
	c.cfg.ext = true
	if c.cfg.maxActive < 3 {
		c.cfg.maxActive = 3
	}
	if err := c.open(); err != nil {
		c.r.Fail("C02:harness:open", err.Error(), c.replay())
		return
	}
	c.corr(fmt.Sprintf("new %s %d", c.cfg.tok(), b2i(c.cfg.ext)), "ok")
	c.after("open")
	own := func() {
		for i := 0; i < 5; i++ {
			before := c.st.LastPrecommittedTxID()
			c.opOwn()
			if c.st.LastPrecommittedTxID() > before {
				return
			}
		}
	}
	own()
	own()
	pid := c.st.LastPrecommittedTxID()
	c.corr(fmt.Sprintf("allow %d", pid-1), c02ErrClass(c.st.AllowCommitUpto(pid-1)))
	c.log("allow %d", pid-1)
	c.after("allow")
	n, err := c.st.DiscardPrecommittedTxsSince(pid)
	out := c02ErrClass(err)
	if err == nil {
		out = fmt.Sprintf("n %d", n)
	}
	c.corr(fmt.Sprintf("discard %d", pid), out)
	c.log("discard %d -> %s", pid, out)
	c.after("discard")
	own()
	pid = c.st.LastPrecommittedTxID()
	c.corr(fmt.Sprintf("allow %d", pid), c02ErrClass(c.st.AllowCommitUpto(pid)))
	c.log("allow %d", pid)
	c.after("allow")
	time.Sleep(5 * time.Millisecond)
	c.drain()
}

// scripted, oracle only: the whole (uncommitted) history is discarded; the next tx 1 is built in a pooled
// tx holder whose BlRoot field is only assigned when BlTxID > 0.
func (c *c02Case) runStaleBlRoot() {
	defer c.finish()
	c.cfg.ext = true
	c.cfg.synced = false
	if c.cfg.maxActive < 5 {
		c.cfg.maxActive = 5
	}
	if err := c.open(); err != nil {
		c.r.Fail("C02:harness:open", err.Error(), c.replay())
		return
	}
	commit := func(k string) {
		tx, _ := c.st.NewWriteOnlyTx(context.Background())
		tx.Set([]byte(k), nil, c.rng.Bytes(1+c.rng.Intn(20)))
		before := c.st.LastPrecommittedTxID()
		go tx.AsyncCommit(context.Background())
		for i := 0; i < 20000 && c.st.LastPrecommittedTxID() == before; i++ {
			time.Sleep(50 * time.Microsecond)
		}
		c.log("own %s (pending)", k)
	}
	for i := 0; i < 3; i++ {
		commit(fmt.Sprintf("k%d", i))
	}
	n, err := c.st.DiscardPrecommittedTxsSince(1)
	c.log("discard 1 -> %d %v", n, err)
	commit("kz")
	c.st.AllowCommitUpto(1)
	c.log("allow 1")
	c.r.Count("probe.stale-blroot")
	c.hist.verify(c.r, c.st, c.cfg, c.replay, "stale-blroot-probe")
	c.steps++
}

// scripted: discard + re-precommit + reopen (revival of a discarded tx) — always part of the run.
func (c *c02Case) runRevival() {
	defer c.finish()
	c.cfg.ext = true
	if err := c.open(); err != nil {
		c.r.Fail("C02:harness:open", err.Error(), c.replay())
		return
	}
	c.corr(fmt.Sprintf("new %s %d", c.cfg.tok(), b2i(c.cfg.ext)), "ok")
	c.after("open")
	own := func() {
		for i := 0; i < 5; i++ {
			before := c.st.LastPrecommittedTxID()
			c.opOwn()
			if c.st.LastPrecommittedTxID() > before {
				return
			}
		}
	}
	allowAll := func() {
		pid := c.st.LastPrecommittedTxID()
		err := c.st.AllowCommitUpto(pid)
		c.corr(fmt.Sprintf("allow %d", pid), c02ErrClass(err))
		c.log("allow %d", pid)
		c.after("allow")
	}
	for i := 0; i < 1+c.rng.Intn(3); i++ {
		own()
	}
	allowAll()
	own() // X
	pid := c.st.LastPrecommittedTxID()
	n, err := c.st.DiscardPrecommittedTxsSince(pid)
	out := c02ErrClass(err)
	if err == nil {
		out = fmt.Sprintf("n %d", n)
	}
	c.corr(fmt.Sprintf("discard %d", pid), out)
	c.log("discard %d -> %s", pid, out)
	c.after("discard")
	own() // Y at the same id
	c.opReopen()
	if c.st == nil {
		return
	}
	if !c.cfg.ext {
		c.st.SetExternalCommitAllowance(true)
		c.cfg.ext = true
		c.corr("setext 1", "ok")
		c.after("setext")
	}
	allowAll()
	own()
	allowAll()
	for i := 0; i < 3; i++ {
		own()
		allowAll()
	}
}

func (c *c02Case) finish() {
	if c.st != nil && !c.closed {
		c.st.Close()
		c.closed = true
	}
	c.drainAll()
	if c.prim != nil {
		c.prim.Close()
		os.RemoveAll(c.primDir)
	}
	os.RemoveAll(c.dir)
}

// ---------- concurrent committers ----------

func (c *c02Case) runConcurrent(writers, perWriter int) {
	defer c.finish()
	c.cfg.ext = false
	c.cfg.maxActive = 20 + writers
	if err := c.open(); err != nil {
		c.r.Fail("C02:harness:open", err.Error(), c.replay())
		return
	}
	type ackT struct {
		hdr *store.TxHeader
		es  []c02Entry
		md  []byte
	}
	var mu sync.Mutex
	var acks []ackT
	var wg sync.WaitGroup
	stop := make(chan struct{})
	// a reader re-reading the whole history at random points while the writers run
	var rwg sync.WaitGroup
	rwg.Add(1)
	rrng := c.rng.Fork()
	go func() {
		defer rwg.Done()
		for {
			select {
			case <-stop:
				return
			default:
			}
			c.hist.verify(c.r, c.st, c.cfg, c.replay, "concurrent-midway")
			time.Sleep(time.Duration(rrng.Intn(3000)) * time.Microsecond)
		}
	}()
	// maintenance (index flush / compaction, value-log truncation at and below the committed frontier) racing the writers
	var mwg sync.WaitGroup
	mwg.Add(1)
	go c.concurrentMaintenance(c.rng.Fork(), stop, &mwg)
	for w := 0; w < writers; w++ {
		wg.Add(1)
		wr := c.rng.Fork()
		go func(w int) {
			defer wg.Done()
			defer func() {
				if e := recover(); e != nil {
					c.r.Fail("C02:commit:panic", fmt.Sprint(e), nil)
				}
			}()
			for i := 0; i < perWriter; i++ {
				n := 1 + wr.Intn(c02MinI(c.cfg.maxTxEntries, 4))
				var es []c02Entry
				for j := 0; j < n; j++ {
					es = append(es, c02Entry{key: []byte(fmt.Sprintf("w%d-%d-%d", w, i, j))[:c02MinI(c.cfg.maxKeyLen, len(fmt.Sprintf("w%d-%d-%d", w, i, j)))],
						value: wr.Bytes(wr.Intn(c.cfg.maxValueLen + 1))})
				}
				// keys must be unique inside a tx
				seen := map[string]bool{}
				uniq := es[:0]
				for _, e := range es {
					if !seen[string(e.key)] {
						seen[string(e.key)] = true
						uniq = append(uniq, e)
					}
				}
				es = uniq
				tx, err := c.st.NewWriteOnlyTx(context.Background())
				if err != nil {
					continue
				}
				for _, e := range es {
					tx.Set(e.key, nil, e.value)
				}
				if wr.Chance(30) {
					runtime.Gosched()
				}
				var hdr *store.TxHeader
				if wr.Bool() {
					hdr, err = tx.AsyncCommit(context.Background())
				} else {
					hdr, err = tx.Commit(context.Background())
				}
				if err != nil {
					mu.Lock()
					c.r.Count("concurrent.commit." + c02ErrClass(err))
					mu.Unlock()
					continue
				}
				cid, _ := c.st.CommittedAlh()
				if hdr.ID > cid {
					c.r.Fail("C02:ack:not-committed", fmt.Sprintf("commit of tx %d returned while committed id is %d", hdr.ID, cid), nil)
				}
				mu.Lock()
				acks = append(acks, ackT{hdr: hdr, es: es})
				mu.Unlock()
			}
		}(w)
	}
	wg.Wait()
	close(stop)
	rwg.Wait()
	mwg.Wait()
	c.st.Sync()
	n := c.hist.verify(c.r, c.st, c.cfg, c.replay, "concurrent-end")
	// cuts over the finished history (the schedule of the writers decided which values lie where)
	if n > 0 {
		cuts := []uint64{1 + uint64(c.rng.Intn(int(n))), n}
		if n > 1 {
			cuts = append(cuts, n-1)
		}
		sort.Slice(cuts, func(i, j int) bool { return cuts[i] < cuts[j] })
		for _, cut := range cuts {
			c.hist.noteTrunc(cut, n, true)
			err := c.st.TruncateUptoTx(cut)
			c.log("truncate upto %d -> %v", cut, err)
			c.r.Count("concurrent.end.truncate." + c02TruncClass(err))
			c.hist.verify(c.r, c.st, c.cfg, c.replay, "concurrent-end-truncated")
		}
	}
	// acks: distinct ids, each equal to the committed tx of that id
	seen := map[uint64]bool{}
	sort.Slice(acks, func(i, j int) bool { return acks[i].hdr.ID < acks[j].hdr.ID })
	for _, a := range acks {
		c.r.OracleChecks++
		if seen[a.hdr.ID] {
			c.r.Fail("C02:ack:id-assigned-twice", fmt.Sprintf("two commits were acknowledged with id %d", a.hdr.ID), c.replay())
		}
		seen[a.hdr.ID] = true
		c.hist.ack(c.r, a.hdr, n, c.replay)
	}
	if uint64(len(acks)) != n {
		c.r.Fail("C02:history:id-gap", fmt.Sprintf("%d acknowledged commits but committed id %d", len(acks), n), c.replay())
	}
	c.r.CountN("concurrent.acks", len(acks))
	// correspondence: replay in the observed id order
	c.corr(fmt.Sprintf("new %s %d", c.cfg.tok(), 0), "ok")
	for _, a := range acks {
		alh := a.hdr.Alh()
		c.corr(fmt.Sprintf("own %d - %s 0 1", a.hdr.Ts, entriesTok(a.es)), fmt.Sprintf("tx %d %s", a.hdr.ID, hex32(alh)))
		if c.cfg.synced {
			c.corr("sync", "ok")
		}
	}
	c.stateLine()
	c.r.Eval(fmt.Sprintf("concurrent|w=%d|n=%d|%s", writers, n, c.cfg.label()), true)
	// close / reopen: everything is still there
	c.st.Close()
	c.closed = true
	c.corr("close", "ok")
	if err := c.open(); err != nil {
		c.r.Fail("C02:reopen:failed", err.Error(), c.replay())
		c.st = nil
		return
	}
	c.corr(fmt.Sprintf("open %s %d", c.cfg.tok(), 0), "ok")
	c.stateLine()
	c.hist.verify(c.r, c.st, c.cfg, c.replay, "concurrent-reopened")
}

// ---------- runner ----------

func runC02(r *hx.Result, rng *hx.Rng, thorough bool, replay string) error {
	r.Rule = "one evaluation = one step of a case (op kind × outcome class × configuration) followed by a full re-read of the committed history"
	budget := 44 * time.Second
	if thorough {
		budget = 11 * time.Minute
	}
	onlyCase := -1
	if replay != "" {
		if b, err := os.ReadFile(replay); err == nil {
			var rp struct {
				Replay struct {
					Case int    `json:"case"`
					Seed uint64 `json:"seed"`
				} `json:"replay"`
			}
			if json.Unmarshal(b, &rp) == nil && rp.Replay.Case > 0 {
				onlyCase = rp.Replay.Case
				if rp.Replay.Seed != 0 && rp.Replay.Seed != r.Seed {
					r.Seed = rp.Replay.Seed
					rng = hx.NewRng(rp.Replay.Seed)
				}
			}
		}
	}
	if v := os.Getenv("VERIF_C02_CASE"); v != "" {
		fmt.Sscanf(v, "%d", &onlyCase)
	}
	start := time.Now()
	cfgs := map[string]int{}
	histReads, txReads, steps := 0, 0, 0
	flushEvery := 0
	mk := func(kind string) *c02Case {
		crng := rng.Fork()
		c := &c02Case{r: r, rng: crng, cfg: genC02Cfg(crng), kind: kind, hist: &c02Hist{}, seed: r.Seed}
		if strings.HasPrefix(kind, "trunc") {
			// value-log truncation histories (c02trunc.go)
			c.cfg = genC02TruncCfg(crng)
			c.vt = &c02VTie{tie: true}
		}
		if kind == "concurrent" && crng.Chance(50) {
			c.cfg = genC02TruncCfg(crng)
		}
		c.caseID = r.NextCase()
		return c
	}
	abortRun := false
	runCase := func(c *c02Case, f func()) {
		if abortRun || (onlyCase > 0 && c.caseID != onlyCase) {
			return
		}
		if k := os.Getenv("VERIF_C02_KIND"); k != "" && k != c.kind {
			return // debugging aid: run the cases of one kind only
		}
		c.dir = hx.TempDir("c02")
		os.RemoveAll(c.dir)
		caseStart := time.Now()
		if c.kind == "replica" || strings.HasSuffix(c.kind, "-replica") {
			c.primDir = hx.TempDir("c02p")
			os.RemoveAll(c.primDir)
			pc := *c.cfg
			pc.synced, pc.ext, pc.maxActive = false, false, 100
			p, err := store.Open(c.primDir, pc.options(&c.primClock))
			if err != nil {
				r.Fail("C02:harness:open", err.Error(), nil)
				return
			}
			c.prim = p
		}
		// watchdog: a wedged store (e.g. an op blocked forever while holding s.mutex) must not hang the check
		done := make(chan struct{})
		go func() {
			defer close(done)
			defer func() {
				if e := recover(); e != nil {
					r.Fail("C02:harness:panic", fmt.Sprint(e), c.replay())
				}
			}()
			f()
		}()
		limit := 150 * time.Second
		if thorough {
			limit = 400 * time.Second
		}
		select {
		case <-done:
		case <-time.After(limit):
			ops := append([]string{}, c.ops...)
			if len(ops) > 40 {
				ops = ops[len(ops)-40:]
			}
			r.Fail("C02:case:hang", fmt.Sprintf("case %d (%s) did not finish within %v", c.caseID, c.kind, limit),
				map[string]interface{}{"seed": c.seed, "case": c.caseID, "kind": c.kind, "cfg": c.cfg.label(), "ops": ops})
			abortRun = true
			return
		}
		cfgs[c.cfg.label()]++
		r.Count("case." + c.kind)
		if os.Getenv("VERIF_C02_TIMING") != "" {
			fmt.Fprintf(os.Stderr, "case %d %s steps=%d reads=%d %.2fs %s\n", c.caseID, c.kind, c.steps, c.hist.txReads, time.Since(caseStart).Seconds(), c.cfg.label())
		}
		if os.Getenv("VERIF_C02_OPS") != "" {
			fmt.Fprintf(os.Stderr, "case %d %s %s\n  %s\n", c.caseID, c.kind, c.cfg.label(), strings.Join(c.ops, "\n  "))
		}
		histReads += c.hist.reads
		txReads += c.hist.txReads
		steps += c.steps
		if len(r.Samples) < 4 && len(c.ops) > 0 {
			ops := c.ops
			if len(ops) > 12 {
				ops = ops[:12]
			}
			r.Sample(map[string]interface{}{"kind": c.kind, "cfg": c.cfg.label(), "first_ops": ops})
		}
		flushEvery++
		if flushEvery%8 == 0 {
			if err := r.Flush(); err != nil {
				r.Inconclusive = append(r.Inconclusive, err.Error())
			}
		}
	}
	// scripted revival scenario first (always part of the run), in a few configurations
	for i := 0; i < 3; i++ {
		c := mk("revival")
		runCase(c, c.runRevival)
	}
	for i := 0; i < 2; i++ {
		c := mk("discarded-ack")
		runCase(c, c.runDiscardedAck)
	}
	{
		c := mk("stale-blroot")
		runCase(c, c.runStaleBlRoot)
	}
	// one small case of every other kind up front, so that a loaded machine cannot starve a kind
	{
		c := mk("concurrent")
		runCase(c, func() { c.runConcurrent(3, 5) })
	}
	{
		c := mk("replica")
		runCase(c, func() { c.runSequential(20) })
	}
	{
		c := mk("sequential")
		runCase(c, func() { c.runSequential(30) })
	}
	// stale-tail cases (branch histories over several lives of one store, same-size txs), up front: the
	// scripted resynchronisation workflow a few times, one random branch history of each flavour
	for k := 0; k < 5; k++ {
		c := mk("stale-tail-script")
		runCase(c, c.runStaleTailScript)
	}
	{
		c := mk("stale-tail")
		runCase(c, func() { c.runStaleTail(4) })
	}
	{
		c := mk("stale-tail-replica")
		runCase(c, func() { c.runStaleTail(4) })
	}
	// maintenance histories: inversion episodes + truncation / index maintenance / restart, own and replica flavour
	for k := 0; k < 3; k++ {
		c := mk("trunc")
		runCase(c, func() { c.runTrunc(14) })
	}
	for k := 0; k < 2; k++ {
		c := mk("trunc-replica")
		runCase(c, func() { c.runTrunc(12) })
	}
	i := 0
	for time.Since(start) < budget && !abortRun {
		i++
		switch {
		case i%5 == 0:
			kind := "trunc"
			if i%10 == 0 {
				kind = "trunc-replica"
			}
			c := mk(kind)
			n := 12 + c.rng.Intn(14)
			if thorough {
				n *= 2
			}
			runCase(c, func() { c.runTrunc(n) })
		case i%3 == 1 && i%2 == 0:
			kind := "stale-tail"
			if i%12 == 10 {
				kind = "stale-tail-replica"
			}
			c := mk(kind)
			n := 3 + c.rng.Intn(4)
			if thorough {
				n += 3
			}
			runCase(c, func() { c.runStaleTail(n) })
		case i%3 == 1:
			c := mk("stale-tail-script")
			runCase(c, c.runStaleTailScript)
		case i%7 == 3:
			c := mk("concurrent")
			w, per := 2+c.rng.Intn(5), 4+c.rng.Intn(8)
			if thorough {
				per *= 3
			}
			runCase(c, func() { c.runConcurrent(w, per) })
		case i%5 == 2:
			c := mk("replica")
			runCase(c, func() { c.runSequential(25 + c.rng.Intn(30)) })
		default:
			c := mk("sequential")
			n := 25 + c.rng.Intn(40)
			if thorough {
				n *= 2
			}
			runCase(c, func() { c.runSequential(n) })
		}
		if onlyCase > 0 && i > onlyCase+8 {
			break
		}
	}
	r.Extra["configurations"] = len(cfgs)
	r.Extra["history_rereads"] = histReads
	r.Extra["tx_reads"] = txReads
	r.Extra["steps"] = steps
	r.Extra["cases"] = i + 21
	if r.Distribution["answer.own.tx"] == 0 || r.Distribution["op.reopen"] == 0 || r.Distribution["case.concurrent"] == 0 {
		if onlyCase < 0 && !abortRun && os.Getenv("VERIF_C02_KIND") == "" {
			r.Inconclusive = append(r.Inconclusive, "generator collapsed: no successful commits / reopen / concurrent cases")
		}
	}
	return nil
}
