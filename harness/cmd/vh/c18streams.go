package main

// C18 — long-lived streams that outlive a withdrawal of access (added after seeded change c18-c).
//
// The gate matrix of c18.go makes FRESH calls only. Here, for EVERY streaming RPC of the real service descriptors
// (client-, server- and bidirectional streaming; enumerated from grpc.ServiceDesc, nothing is named here except the
// payload encodings of the chunk protocols), the stream is opened with valid credentials and gets one unit served (where
// the protocol allows), then access is withdrawn — user deactivated, permission revoked, permission lowered, session
// closed, session expired, token logged out — and the SAME stream is continued.
//
//   multi-request streams (bidirectional: request, answer, request, …): a further request that is answered although a
//     fresh call of the same method with the same credentials is refused  ⇒  C18:<handler>:served-on-open-stream-after-withdrawal
//   single-request client streams (the messages are the parts of ONE request, answered once): the remaining parts are
//     sent after the withdrawal; if the request is accepted                ⇒  C18:<handler>:upload-accepted-on-open-stream-after-withdrawal
//   single-request server streams: the gate at call start is the gate of the (only) request; the rest of the answer is
//     read and counted, never a failure.
//
// The withdrawal is confirmed by the fresh call (probe) being refused; when the probe is still allowed (e.g. a read
// stream after a downgrade to R) the caller is still entitled and nothing is judged.
// Model tie: `c18 snext <handler> …` = the verdict the model predicts for a further message on the open stream from the
// regenerated gate-position facts (Gen/Streams.lean) and what the server now holds about the credential.

import (
	"context"
	"crypto/sha1"
	"encoding/binary"
	"fmt"
	"io"
	"strings"
	"time"

	"github.com/codenotary/immudb/pkg/api/schema"
	"github.com/codenotary/immudb/pkg/auth"
	"github.com/codenotary/immudb/pkg/stream"
	"google.golang.org/grpc"
	"google.golang.org/grpc/codes"
	"google.golang.org/grpc/metadata"
	"google.golang.org/grpc/status"
	"google.golang.org/protobuf/encoding/prototext"
	"google.golang.org/protobuf/proto"
	"google.golang.org/protobuf/types/known/emptypb"
)

const c18StrmRole = "strm"

var c18TStreams time.Duration

// c18Frame: one message of the chunk protocol (8-byte big-endian length, then the payload)
func c18Frame(b []byte) []byte {
	out := make([]byte, 8+len(b))
	binary.BigEndian.PutUint64(out, uint64(len(b)))
	copy(out[8:], b)
	return out
}

func c18Chunks(bs ...[]byte) []proto.Message {
	var all []byte
	for _, b := range bs {
		all = append(all, b...)
	}
	return []proto.Message{&schema.Chunk{Content: all}}
}

// exportTxBytes: the exported form of tx of db, read by the sysadmin control channel (payload for ReplicateTx).
func (e *c18Env) exportTxBytes(db string, tx uint64) []byte {
	ctx, cancel := tokCtx(e.ctlTok[db])
	defer cancel()
	st, err := e.conn.NewStream(ctx, &grpc.StreamDesc{StreamName: "exportTx", ServerStreams: true}, imm+"exportTx")
	if err != nil {
		return nil
	}
	if err := st.SendMsg(&schema.ExportTxRequest{Tx: tx}); err != nil {
		return nil
	}
	_ = st.CloseSend()
	bs, _, err := c18ReadFrame(st)
	if err != nil {
		return nil
	}
	return bs
}

// c18ReadFrame reads one message of the chunk protocol from a stream of schema.Chunk.
func c18ReadFrame(st grpc.ClientStream) (payload []byte, chunks int, err error) {
	first := &schema.Chunk{}
	if err := st.RecvMsg(first); err != nil {
		return nil, 0, err
	}
	chunks = 1
	if len(first.Content) < 8 {
		return first.Content, chunks, nil
	}
	size := int(binary.BigEndian.Uint64(first.Content))
	payload = append(payload, first.Content[8:]...)
	for len(payload) < size && chunks < 4096 {
		c := &schema.Chunk{}
		if err := st.RecvMsg(c); err != nil {
			return payload, chunks, err
		}
		chunks++
		payload = append(payload, c.Content...)
	}
	return payload, chunks, nil
}

// streamParts: the messages sent before and after the withdrawal.
//
//	server streams: the one request;  bidirectional: one request each;
//	client streams: the parts of ONE request (chunk protocol payloads of the known encodings, else empty messages).
func (e *c18Env) streamParts(p c18Rpc, cr *c18Cred) (before, after []proto.Message) {
	if !p.cliStream {
		rq, _ := e.request(p, cr)
		return []proto.Message{rq}, nil
	}
	if p.srvStream {
		r1, _ := e.request(p, cr)
		r2, _ := e.request(p, cr)
		if x, ok := r2.(*schema.ExportTxRequest); ok {
			x.Tx = uint64(1 + e.rng.Intn(3)) // any committed transaction of the fixture
		}
		return []proto.Message{r1}, []proto.Message{r2}
	}
	if _, isChunk := p.in.New().Interface().(*schema.Chunk); !isChunk {
		r1, _ := e.request(p, cr)
		r2, _ := e.request(p, cr)
		return []proto.Message{r1}, []proto.Message{r2}
	}
	n := e.next()
	k1, v1 := []byte(fmt.Sprintf("sk%06da", n)), []byte(fmt.Sprintf("sv%06d-before-withdrawal", n))
	k2, v2 := []byte(fmt.Sprintf("sk%06db", n)), []byte(fmt.Sprintf("sv%06d-AFTER-withdrawal", n))
	switch p.handler {
	case "StreamSet":
		return c18Chunks(c18Frame(k1), c18Frame(v1)), c18Chunks(c18Frame(k2), c18Frame(v2))
	case "StreamVerifiableSet":
		var since [8]byte
		binary.BigEndian.PutUint64(since[:], 1)
		return c18Chunks(c18Frame(since[:]), c18Frame(k1), c18Frame(v1)), c18Chunks(c18Frame(k2), c18Frame(v2))
	case "StreamExecAll":
		return c18Chunks(c18Frame([]byte{stream.TOp_Kv}), c18Frame(k1), c18Frame(v1)), c18Chunks(c18Frame([]byte{stream.TOp_Kv}), c18Frame(k2), c18Frame(v2))
	case "ReplicateTx":
		if bs := e.exportTxBytes(c18DB1, 1); len(bs) > 2 {
			fr := c18Frame(bs)
			cut := 8 + len(bs)/2
			return []proto.Message{&schema.Chunk{Content: fr[:cut]}}, []proto.Message{&schema.Chunk{Content: fr[cut:]}}
		}
	}
	return []proto.Message{&schema.Chunk{}}, []proto.Message{&schema.Chunk{}}
}

type c18OStream struct {
	p          c18Rpc
	st         grpc.ClientStream
	cancel     context.CancelFunc
	after      []proto.Message
	firstCls   string // answer class of the first unit (ok = served / first part sent)
	firstDesc  string
	sent       []string
	dead       bool
	stateAtUse string
}

func (p c18Rpc) streamKind() string {
	switch {
	case p.cliStream && p.srvStream:
		return "bidi"
	case p.cliStream:
		return "client"
	}
	return "server"
}

type c18Unit struct {
	msg     proto.Message
	payload []byte
	n       int
	err     error
}

// readUnit: one answer unit (a whole chunk-protocol message for Chunk streams, else one message), bounded in time.
func (o *c18OStream) readUnit(wait time.Duration) (u c18Unit, timedOut bool) {
	ch := make(chan c18Unit, 1)
	go func() {
		defer func() {
			if x := recover(); x != nil {
				ch <- c18Unit{err: fmt.Errorf("PANIC: %v", x)}
			}
		}()
		m := o.p.out.New().Interface()
		if _, isChunk := m.(*schema.Chunk); isChunk && o.p.srvStream {
			bs, n, err := c18ReadFrame(o.st)
			ch <- c18Unit{payload: bs, n: n, err: err}
			return
		}
		err := o.st.RecvMsg(m)
		ch <- c18Unit{msg: m, n: 1, err: err}
	}()
	select {
	case u = <-ch:
		return u, false
	case <-time.After(wait):
		return c18Unit{}, true
	}
}

func c18Ended(err error) bool {
	if err == nil {
		return false
	}
	if err == io.EOF {
		return true
	}
	switch status.Code(err) {
	case codes.Canceled, codes.DeadlineExceeded, codes.Unavailable:
		return true
	}
	return false
}

func (u c18Unit) text() string {
	if u.msg != nil {
		return prototext.MarshalOptions{Multiline: false}.Format(u.msg)
	}
	return string(u.payload)
}

func (u c18Unit) brief() string {
	if u.err != nil {
		cls, msg := c18Class(u.err)
		if u.err == io.EOF {
			return "end of stream"
		}
		return cls + " " + msg
	}
	if u.msg != nil {
		t := u.text()
		if len(t) > 160 {
			t = t[:160] + "…"
		}
		return "message " + t
	}
	return fmt.Sprintf("chunk-protocol message of %d bytes in %d chunk(s), sha1=%x", len(u.payload), u.n, sha1.Sum(u.payload))
}

// openStreams opens every streaming RPC with cr and gets the first unit served / sends the first parts.
func (e *c18Env) openStreams(cr *c18Cred, wait time.Duration) []*c18OStream {
	var out []*c18OStream
	for _, p := range e.rpcs {
		if !p.stream || p.svc == "AuthorizationService" {
			continue
		}
		before, after := e.streamParts(p, cr)
		ctx, cancel := context.WithTimeout(context.Background(), 40*time.Minute)
		md := metadata.MD{}
		switch cr.kind {
		case "token":
			md.Set("authorization", cr.token)
		case "session":
			md.Set("sessionid", cr.sess)
		}
		ctx = metadata.NewOutgoingContext(ctx, md)
		o := &c18OStream{p: p, cancel: cancel, after: after}
		out = append(out, o)
		st, err := e.conn.NewStream(ctx, &grpc.StreamDesc{StreamName: p.wire, ServerStreams: p.srvStream, ClientStreams: p.cliStream}, p.full())
		if err != nil {
			o.firstCls, o.firstDesc = c18Class(err)
			o.dead = true
			continue
		}
		o.st = st
		for _, m := range before {
			if err := st.SendMsg(m); err != nil {
				o.firstCls, o.firstDesc = "send-failed", err.Error()
				o.dead = true
				break
			}
			o.sent = append(o.sent, c18MsgBrief(m))
		}
		if o.dead {
			continue
		}
		if !p.cliStream {
			_ = st.CloseSend()
		}
		if p.srvStream {
			u, to := o.readUnit(wait)
			switch {
			case to:
				o.firstCls, o.firstDesc, o.dead = "no-answer", "no answer within the wait", true
			case u.err == io.EOF:
				o.firstCls, o.firstDesc, o.dead = "ok", "empty answer (end of stream)", true
			case u.err != nil:
				o.firstCls, o.firstDesc = c18Class(u.err)
				o.dead = true
			default:
				o.firstCls, o.firstDesc = "ok", u.brief()
			}
		} else {
			o.firstCls, o.firstDesc = "ok", "first part of the request sent"
		}
	}
	return out
}

func c18MsgBrief(m proto.Message) string {
	if c, ok := m.(*schema.Chunk); ok {
		return fmt.Sprintf("Chunk{content: %d bytes %x…}", len(c.Content), c.Content[:minInt(len(c.Content), 24)])
	}
	t := prototext.MarshalOptions{Multiline: false}.Format(m)
	if len(t) > 200 {
		t = t[:200]
	}
	return string(m.ProtoReflect().Descriptor().Name()) + "{" + t + "}"
}

func minInt(a, b int) int {
	if a < b {
		return a
	}
	return b
}

type c18StreamReplay struct {
	Rpc        string   `json:"rpc"`
	StreamKind string   `json:"stream_kind"`
	User       string   `json:"user"`
	Perms      string   `json:"permissions_granted_now"`
	Cred       string   `json:"credential"`
	Withdrawal string   `json:"withdrawal"`
	Recipe     []string `json:"recipe"`
	Probe      string   `json:"fresh_call_with_same_credentials"`
	Continued  string   `json:"same_stream_after_withdrawal"`
	Config     string   `json:"config"`
}

// callerArgs: the server's view of the credential, as the model takes it (same encoding as `c18 gate`).
func (e *c18Env) callerArgs(cr *c18Cred) string {
	u := cr.user
	sPerms := cr.srvPerms()
	isSys := u != nil && u.sysadmin
	dbc := "user"
	switch {
	case cr.kind == "none" || cr.sel == "":
		dbc = "none"
	case cr.sel == c18Sys:
		dbc = "system"
	}
	return fmt.Sprintf("%s %s %s %s %d %d %s %s %s %s", cr.kind, cr.srvState(), dbc, b01(isSys), c18PermIn(isSys, sPerms, cr.sel), c18PermIn(isSys, sPerms, e.db1),
		b01(c18AnyAdmin(sPerms)), b01(false), b01(u != nil && u.logins >= 2), b01(u == nil || !u.noSQL))
}

// continueStreams: after the withdrawal — probe with a fresh call, then continue the same stream, judge.
func (e *c18Env) continueStreams(open []*c18OStream, cr *c18Cred, withdrawal string, how []string, wait time.Duration) {
	r := e.r
	u := cr.user
	for _, o := range open {
		p := o.p
		kind := p.streamKind()
		key := p.svc + "/" + p.wire + "|open-stream|" + kind + "|" + cr.kind + "|" + withdrawal
		if o.dead || o.firstCls != "ok" {
			r.Count("stream.first-unit." + o.firstCls)
			r.Eval(key+"|not-open", false)
			if o.cancel != nil {
				o.cancel()
			}
			continue
		}
		r.Count("stream.opened." + kind)
		// 1. the withdrawal took effect for this method: a fresh call with the very same credentials is refused
		preq, _ := e.request(p, cr)
		_, perr := e.invoke(p, cr, preq)
		pcls, pmsg := c18Class(perr)
		if perr != nil && strings.HasPrefix(perr.Error(), "PANIC") {
			r.Fail("C18:"+p.handler+":panic", perr.Error(), c18StreamReplay{Rpc: p.full(), StreamKind: kind, Withdrawal: withdrawal})
		}
		refused := strings.HasPrefix(pcls, "deny")
		before, _ := e.stateOf(c18DB1)
		// 2. continue the SAME stream
		var sent []string
		sendErr := error(nil)
		for _, m := range o.after {
			if err := o.st.SendMsg(m); err != nil {
				sendErr = err
				break
			}
			sent = append(sent, c18MsgBrief(m))
		}
		if p.cliStream && !p.srvStream {
			_ = o.st.CloseSend()
		}
		var un c18Unit
		var timedOut bool
		extra := 0
		if kind == "server" {
			// the rest of the answer to the request that was authorised at call start
			for i := 0; i < 64; i++ {
				un, timedOut = o.readUnit(wait)
				if timedOut || un.err != nil {
					break
				}
				extra++
			}
		} else {
			un, timedOut = o.readUnit(wait)
		}
		_ = sendErr
		after, _ := e.stateOf(c18DB1)
		o.cancel()

		ccls := "ok"
		switch {
		case timedOut:
			ccls = "no-answer"
		case un.err != nil && un.err == io.EOF && kind == "server":
			ccls = "ok" // clean end of the answer
		case un.err != nil && c18Ended(un.err):
			ccls = "ended"
		case un.err != nil:
			ccls, _ = c18Class(un.err)
			if strings.HasPrefix(un.err.Error(), "PANIC") {
				r.Fail("C18:"+p.handler+":panic", un.err.Error(), c18StreamReplay{Rpc: p.full(), StreamKind: kind, Withdrawal: withdrawal})
			}
		}
		r.Count("stream.continued." + kind + "." + ccls)
		if ccls != "no-answer" && ccls != "ended" {
			r.Corr(fmt.Sprintf("c18 snext %s %s %s", p.handler, e.cfg, e.callerArgs(cr)), c18Verdict(ccls))
		}
		recipe := func() []string {
			rc := []string{
				fmt.Sprintf("user %s holds Admin on %s; credential: %s selecting %s (one login)", u.name, c18DB1, cr.kind, cr.sel),
				fmt.Sprintf("open %s (%s stream) with that credential; send %s; first unit: %s", p.full(), kind, strings.Join(o.sent, ", "), o.firstDesc),
			}
			rc = append(rc, how...)
			rc = append(rc, fmt.Sprintf("fresh %s with the same credential -> %s %q", p.full(), pcls, pmsg))
			if len(sent) > 0 {
				rc = append(rc, fmt.Sprintf("on the SAME open stream send %s", strings.Join(sent, ", ")))
			}
			rc = append(rc, fmt.Sprintf("answer on the open stream: %s (%s state %s -> %s)", un.brief(), c18DB1, before, after))
			return rc
		}
		rp := func() c18StreamReplay {
			return c18StreamReplay{Rpc: p.full(), StreamKind: kind, User: u.name, Perms: fmt.Sprint(u.perms) + fmt.Sprintf(" active=%v", u.active), Cred: cr.kind + "/" + cr.srvState() + " " + cr.why,
				Withdrawal: withdrawal, Recipe: recipe(), Probe: pcls + " " + pmsg, Continued: un.brief(), Config: e.cfg}
		}
		if !refused {
			// still entitled to this method (e.g. a read after the downgrade to R): nothing to judge
			r.Count("stream.probe-still-allowed." + kind)
			r.Eval(key+"|still-entitled", false)
			continue
		}
		r.OracleChecks++
		served := ccls == "ok" || ccls == "pass"
		switch kind {
		case "server":
			// single request, authorised when the call started: the tail of its answer is not a new request
			r.Count(fmt.Sprintf("stream.server-stream-answer-tail-after-withdrawal.%s", ccls))
			r.Eval(key, extra > 0)
		case "bidi":
			if served {
				leak := ""
				if strings.Contains(un.text(), c18Canary(c18DB1)) {
					leak = "; the answer contains the canary value of " + c18DB1
				}
				r.Fail("C18:"+p.handler+":served-on-open-stream-after-withdrawal",
					fmt.Sprintf("%s: a request sent on an open stream AFTER %s (credential %s) was answered (%s%s) although a fresh call with the same credential is refused (%s %q)",
						p.full(), withdrawal, cr.kind, un.brief(), leak, pcls, pmsg), rp())
			} else {
				r.Count("stream.request-refused-after-withdrawal")
			}
			r.Eval(key, true)
		case "client":
			if served {
				chg := ""
				if before != after {
					chg = fmt.Sprintf("; %s changed: %s -> %s", c18DB1, before, after)
				}
				r.Fail("C18:"+p.handler+":upload-accepted-on-open-stream-after-withdrawal",
					fmt.Sprintf("%s: the parts of the request sent on an open stream AFTER %s (credential %s) were accepted (%s%s) although a fresh call with the same credential is refused (%s %q)",
						p.full(), withdrawal, cr.kind, un.brief(), chg, pcls, pmsg), rp())
			} else {
				r.Count("stream.upload-refused-after-withdrawal")
			}
			r.Eval(key, true)
		}
		if os := "stream|" + kind + "|" + ccls; !e.sampled[os] {
			e.sampled[os] = true
			r.Sample(map[string]interface{}{"rpc": p.full(), "stream": kind, "credential": cr.kind, "withdrawal": withdrawal, "fresh_call": pcls, "same_stream": un.brief()})
		}
	}
}

// streamWithdrawals: every streaming RPC × credential kind × way of withdrawing access.
func (e *c18Env) streamWithdrawals(thorough bool) error {
	t0 := time.Now()
	defer func() { c18TStreams += time.Since(t0) }()
	u := e.users[c18StrmRole]
	if u == nil {
		return fmt.Errorf("stream user missing")
	}
	wait := 5 * time.Second
	settle := 150 * time.Millisecond // lets the handlers of the client streams pass their gate before the withdrawal
	type wd struct {
		name  string
		kinds []string
		apply func(cr *c18Cred) ([]string, error)
		undo  func() error
	}
	adminBack := func() error { return e.grant(u, c18DB1, auth.PermissionAdmin) }
	wds := []wd{
		{"user-deactivated", []string{"token", "session"}, func(cr *c18Cred) ([]string, error) {
			return []string{fmt.Sprintf("sysadmin: SetActiveUser{username: %s, active: false}", u.name)}, e.setActive(u, false)
		}, func() error { return e.setActive(u, true) }},
		{"permission-revoked", []string{"token", "session"}, func(cr *c18Cred) ([]string, error) {
			return []string{fmt.Sprintf("sysadmin: ChangePermission{REVOKE, username: %s, database: %s}", u.name, c18DB1)}, e.revoke(u, c18DB1)
		}, adminBack},
		{"permission-lowered-to-R", []string{"token", "session"}, func(cr *c18Cred) ([]string, error) {
			how := []string{fmt.Sprintf("sysadmin: ChangePermission{GRANT, username: %s, database: %s, permission: R} (was Admin)", u.name, c18DB1)}
			if err := e.grant(u, c18DB1, auth.PermissionR); err != nil {
				return how, err
			}
			if cr.kind == "token" {
				// the user logs in again: the old token is accepted again, now with the new permission
				if _, err := e.login(u.name, u.pw); err != nil {
					return how, err
				}
				how = append(how, fmt.Sprintf("%s logs in again (the old token is now judged by the new permission)", u.name))
			}
			return how, nil
		}, adminBack},
		{"session-closed", []string{"session"}, func(cr *c18Cred) ([]string, error) {
			ctx, cancel := cr.ctx()
			defer cancel()
			err := e.call(ctx, imm+"CloseSession", &emptypb.Empty{}, &emptypb.Empty{})
			if err == nil {
				cr.state, cr.why = "stale", "closed"
			}
			return []string{"the user closes the session: CloseSession with the session id"}, err
		}, func() error { return nil }},
		{"token-logged-out", []string{"token"}, func(cr *c18Cred) ([]string, error) {
			ctx, cancel := cr.ctx()
			defer cancel()
			err := e.call(ctx, imm+"Logout", &emptypb.Empty{}, &emptypb.Empty{})
			if u.logins > 0 {
				u.logins--
			}
			return []string{"the user logs out: Logout with the token"}, err
		}, func() error { return nil }},
	}
	for _, w := range wds {
		for _, kind := range w.kinds {
			if err := e.drain(u); err != nil {
				return err
			}
			var cr *c18Cred
			var err error
			if kind == "token" {
				cr, err = e.tokenFor(u, c18DB1)
			} else {
				cr, err = e.sessionFor(u, c18DB1)
			}
			if err != nil {
				return err
			}
			open := e.openStreams(cr, wait)
			time.Sleep(settle)
			how, err := w.apply(cr)
			if err != nil {
				for _, o := range open {
					if o.cancel != nil {
						o.cancel()
					}
				}
				return fmt.Errorf("stream withdrawal %s/%s: %w", w.name, kind, err)
			}
			e.continueStreams(open, cr, w.name, how, wait)
			e.r.Count("stream.scenario." + w.name + "." + kind)
			if err := w.undo(); err != nil {
				return err
			}
		}
	}
	return e.drain(u)
}
