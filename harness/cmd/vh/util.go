package main

import (
	"io"

	"github.com/codenotary/immudb/embedded/logger"
)

// quietLogger: the stores opened by the harness must not flood stdout.
func quietLogger() logger.Logger {
	return logger.NewSimpleLoggerWithLevel("vh", io.Discard, logger.LogError)
}
