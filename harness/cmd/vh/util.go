package main

import (
	"io"
	"os"
	"path/filepath"

	"github.com/codenotary/immudb/embedded/logger"
)

// quietLogger: the stores opened by the harness must not flood stdout.
func quietLogger() logger.Logger {
	return logger.NewSimpleLoggerWithLevel("vh", io.Discard, logger.LogError)
}

// repoDir: where the repository under test lives (the harness module replaces immudb => this dir).
func repoDir() string {
	if d := os.Getenv("VERIF_REPO"); d != "" {
		return d
	}
	return "/repo"
}

func copyDir(src, dst string) error {
	return filepath.Walk(src, func(p string, info os.FileInfo, err error) error {
		if err != nil {
			return err
		}
		rel, _ := filepath.Rel(src, p)
		t := filepath.Join(dst, rel)
		if info.IsDir() {
			return os.MkdirAll(t, 0o755)
		}
		b, err := os.ReadFile(p)
		if err != nil {
			return err
		}
		return os.WriteFile(t, b, 0o644)
	})
}
