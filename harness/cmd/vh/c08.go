package main

import (
	"crypto/sha256"
	"errors"
	"fmt"
	"os"
	"path/filepath"

	"github.com/codenotary/immudb/embedded/ahtree"
	"github.com/codenotary/immudb/embedded/htree"

	"verif/harness/internal/hx"
)

func init() { runners["C08"] = runC08 }

// ---- reference Merkle tree (independent of both the code and the Lean model) ----

func refLeaf(p []byte) [32]byte { return sha256.Sum256(append([]byte{0}, p...)) }
func refNode(l, r [32]byte) [32]byte {
	b := append([]byte{1}, l[:]...)
	return sha256.Sum256(append(b, r[:]...))
}
func refMth(ls [][32]byte) [32]byte {
	switch len(ls) {
	case 0:
		return sha256.Sum256(nil)
	case 1:
		return ls[0]
	}
	k := 1
	for k*2 < len(ls) {
		k *= 2
	}
	return refNode(refMth(ls[:k]), refMth(ls[k:]))
}

// all subtree hashes of the reference tree over ls (candidate forged terms)
func refNodes(ls [][32]byte, acc *[][32]byte) [32]byte {
	if len(ls) == 1 {
		*acc = append(*acc, ls[0])
		return ls[0]
	}
	k := 1
	for k*2 < len(ls) {
		k *= 2
	}
	h := refNode(refNodes(ls[:k], acc), refNodes(ls[k:], acc))
	*acc = append(*acc, h)
	return h
}

func ahtErr(err error) string {
	switch {
	case err == nil:
		return "ok"
	case errors.Is(err, ahtree.ErrIllegalArguments):
		return "err:illegal"
	case errors.Is(err, ahtree.ErrEmptyTree):
		return "err:empty"
	case errors.Is(err, ahtree.ErrUnexistentData):
		return "err:unexistent"
	case errors.Is(err, ahtree.ErrCannotResetToLargerSize):
		return "err:larger"
	}
	return "err:other:" + err.Error()
}

type c08Replay struct {
	Kind   string   `json:"kind"`
	Ops    []string `json:"ops,omitempty"`
	Detail string   `json:"detail,omitempty"`
}

func b2s(b bool) string {
	if b {
		return "true"
	}
	return "false"
}

// verifier probes: Go verdict -> model (corr) and -> semantic oracle
func c08ProbeIncl(r *hx.Result, p [][32]byte, i, j uint64, leaf, root [32]byte, leaves [][32]byte, kind string) {
	got := ahtree.VerifyInclusion(p, i, j, leaf, root)
	op := fmt.Sprintf("c08 vincl %s %d %d %s %s", hx.Csv32(p), i, j, hx.Hex(leaf[:]), hx.Hex(root[:]))
	r.Corr(op, b2s(got))
	r.Count("vincl." + kind + "." + b2s(got))
	r.Eval(op, got || kind != "honest")
	r.OracleChecks++
	// a claim about a position outside the claimed size (i = 0 or i > j) is false whatever proof, leaf and root are
	if got && (i == 0 || i > j) {
		r.Fail("C08:ahtree.VerifyInclusion:accepts-position-outside-size",
			fmt.Sprintf("VerifyInclusion accepted position i=%d in a tree of claimed size j=%d (proof len %d, kind %s)", i, j, len(p), kind),
			c08Replay{Kind: "vincl", Ops: []string{op}})
	}
	// semantic oracle: root is the true root of size j  =>  accepted iff-implies leaf is the i-th leaf
	if j >= 1 && int(j) <= len(leaves) && root == refMth(leaves[:j]) {
		truth := i >= 1 && i <= j && leaves[i-1] == leaf
		// the API takes an already hashed leaf: an internal node's digest passed as iLeaf is outside the
		// claim (callers wrap with leafFor; Lean: internal_node_as_leaf) – only genuine leaf digests
		// or digests foreign to the tree count
		isLeafDigest := false
		for _, l := range leaves[:j] {
			if l == leaf {
				isLeafDigest = true
			}
		}
		if got && !truth && !isLeafDigest {
			r.Count("vincl.accepted-internal-node-as-leaf")
		}
		if got && !truth && isLeafDigest {
			r.Fail("C08:ahtree.VerifyInclusion:accepts-wrong-position-or-leaf",
				fmt.Sprintf("VerifyInclusion accepted i=%d j=%d with a leaf that is not leaf %d of the size-%d tree (proof len %d, kind %s)", i, j, i, j, len(p), kind),
				c08Replay{Kind: "vincl", Ops: []string{op}})
		}
		if !got && truth && kind == "honest" {
			r.Fail("C08:ahtree.VerifyInclusion:rejects-honest", fmt.Sprintf("honest inclusion proof rejected i=%d j=%d", i, j), c08Replay{Kind: "vincl", Ops: []string{op}})
		}
	}
}

func c08ProbeCons(r *hx.Result, p [][32]byte, i, j uint64, r1, r2 [32]byte, leaves [][32]byte, kind string) {
	got := func() (g bool) {
		defer func() {
			if e := recover(); e != nil {
				g = false
				r.Fail("C08:ahtree.VerifyConsistency:panic", fmt.Sprint(e), nil)
			}
		}()
		return ahtree.VerifyConsistency(p, i, j, r1, r2)
	}()
	op := fmt.Sprintf("c08 vcons %s %d %d %s %s", hx.Csv32(p), i, j, hx.Hex(r1[:]), hx.Hex(r2[:]))
	r.Corr(op, b2s(got))
	r.Count("vcons." + kind + "." + b2s(got))
	r.Eval(op, got || kind != "honest")
	r.OracleChecks++
	if got && (i == 0 || i > j) {
		r.Fail("C08:ahtree.VerifyConsistency:accepts-size-outside-size",
			fmt.Sprintf("VerifyConsistency accepted an earlier size i=%d for a tree of claimed size j=%d (proof len %d, kind %s)", i, j, len(p), kind),
			c08Replay{Kind: "vcons", Ops: []string{op}})
	}
	if j >= 1 && int(j) <= len(leaves) && r2 == refMth(leaves[:j]) {
		truth := i >= 1 && i <= j && refMth(leaves[:i]) == r1
		if got && !truth {
			r.Fail("C08:ahtree.VerifyConsistency:accepts-wrong-root-or-size",
				fmt.Sprintf("VerifyConsistency accepted i=%d j=%d with iRoot that is not the root of the first %d leaves (proof len %d, kind %s)", i, j, i, len(p), kind),
				c08Replay{Kind: "vcons", Ops: []string{op}})
		}
		if !got && truth && kind == "honest" {
			r.Fail("C08:ahtree.VerifyConsistency:rejects-honest", fmt.Sprintf("honest consistency proof rejected i=%d j=%d", i, j), c08Replay{Kind: "vcons", Ops: []string{op}})
		}
	}
}

func c08ProbeLast(r *hx.Result, p [][32]byte, i uint64, leaf, root [32]byte, leaves [][32]byte, kind string) {
	got := ahtree.VerifyLastInclusion(p, i, leaf, root)
	op := fmt.Sprintf("c08 vlast %s %d %s %s", hx.Csv32(p), i, hx.Hex(leaf[:]), hx.Hex(root[:]))
	r.Corr(op, b2s(got))
	r.Count("vlast." + kind + "." + b2s(got))
	r.Eval(op, got || kind != "honest")
	r.OracleChecks++
	if i >= 1 && int(i) <= len(leaves) && root == refMth(leaves[:i]) {
		truth := leaves[i-1] == leaf
		if got && !truth {
			r.Fail("C08:ahtree.VerifyLastInclusion:accepts-wrong-leaf", fmt.Sprintf("VerifyLastInclusion accepted i=%d with a leaf that is not the last leaf (kind %s)", i, kind), c08Replay{Kind: "vlast", Ops: []string{op}})
		}
		if !got && truth && kind == "honest" {
			r.Fail("C08:ahtree.VerifyLastInclusion:rejects-honest", fmt.Sprintf("honest last-inclusion proof rejected i=%d", i), c08Replay{Kind: "vlast", Ops: []string{op}})
		}
	}
}

func mutTerms(rng *hx.Rng, p [][32]byte, pool [][32]byte) ([][32]byte, string) {
	q := append([][32]byte{}, p...)
	switch k := rng.Intn(8); {
	case k == 0 && len(q) > 0:
		return q[1:], "dropfirst"
	case k == 1 && len(q) > 0:
		return q[:len(q)-1], "droplast"
	case k == 2 && len(q) > 1:
		i := 1 + rng.Intn(len(q)-1)
		return append(q[:i:i], q[i+1:]...), "dropmid"
	case k == 3 && len(q) > 0:
		i := rng.Intn(len(q))
		q = append(q[:i+1], q[i:]...)
		return q, "dup"
	case k == 4:
		return append(q, pool[rng.Intn(len(pool))]), "append"
	case k == 5 && len(q) > 0:
		i := rng.Intn(len(q))
		q[i][rng.Intn(32)] ^= 1 << uint(rng.Intn(8))
		return q, "flip"
	case k == 6 && len(q) > 1:
		i, j := rng.Intn(len(q)), rng.Intn(len(q))
		q[i], q[j] = q[j], q[i]
		return q, "swap"
	default:
		if len(q) > 0 {
			q[rng.Intn(len(q))] = pool[rng.Intn(len(pool))]
			return q, "replace"
		}
		return append(q, pool[rng.Intn(len(pool))]), "append"
	}
}

// one ahtree life: appends / resets / reopen with tiny caches, then proofs and verifier probes
func c08AhtCase(r *hx.Result, rng *hx.Rng, maxN int, allPairs bool, nProbe int) error {
	r.NextCase()
	dir := hx.TempDir("c08")
	defer os.RemoveAll(dir)
	path := filepath.Join(dir, "aht")
	thld := 1
	fileSize := 64 + rng.Intn(512) // fixed for the life of the tree (chunk size is not stored on disk)
	useDefault := rng.Chance(30)
	mkopts := func() *ahtree.Options {
		thld = 1 + rng.Intn(5)
		o := ahtree.DefaultOptions().WithSyncThld(thld).
			WithDataCacheSlots(1 + rng.Intn(7)).WithDigestsCacheSlots(1 + rng.Intn(9)).
			WithFileSize(fileSize)
		if useDefault {
			o = ahtree.DefaultOptions()
			thld = ahtree.DefaultSyncThld
		}
		return o
	}
	t, err := ahtree.Open(path, mkopts())
	if err != nil {
		return err
	}
	defer func() { t.Close() }()
	r.Corr(fmt.Sprintf("c08 aht.new %d", thld), "ok")
	var payloads [][]byte
	var leaves [][32]byte
	hw := 0 // high-water mark of the size: after a reset, stale commit-log entries survive on disk up to hw
	n := rng.Size(maxN)
	if n < 1 {
		n = 1
	}
	steps := 0
	for len(payloads) < n && steps < 4*maxN+10 {
		steps++
		switch k := rng.Intn(20); {
		case k == 0 && len(payloads) > 0: // reset
			m := rng.Intn(len(payloads) + 2)
			err := t.ResetSize(uint64(m))
			r.Corr(fmt.Sprintf("c08 aht.reset %d", m), ahtErr(err))
			r.Count("aht.reset")
			if err == nil {
				payloads = payloads[:m]
				leaves = leaves[:m]
			}
		case k == 1:
			if err := t.Sync(); err != nil {
				return fmt.Errorf("sync after %v: %w", r.PendingOps(r.Case()), err)
			}
			r.Corr("c08 aht.sync", "ok")
			r.Count("aht.sync")
		case k == 2 && len(payloads) >= hw:
			// (reopen while stale entries of a rolled-back suffix are still on disk is the known finding
			//  C17 stale-tail; it is probed separately by c08StaleProbe and not fed to the model)
			if err := t.Close(); err != nil {
				return fmt.Errorf("close after %v: %w", r.PendingOps(r.Case()), err)
			}
			t, err = ahtree.Open(path, mkopts())
			if err != nil {
				return fmt.Errorf("open after %v: %w", r.PendingOps(r.Case()), err)
			}
			r.Count("aht.reopen")
			r.Corr(fmt.Sprintf("c08 aht.reopen %d", thld), fmt.Sprint(t.Size()))
			// model-independent oracle: reopening never loses or alters what the tree held at close
			// (a reset that was not followed by a durable append is allowed to be undone)
			sz := int(t.Size())
			if sz < len(payloads) {
				r.Fail("C08:ahtree.reopen:lost-leaves", fmt.Sprintf("size %d after reopen < %d before close", sz, len(payloads)), nil)
			}
			var np [][]byte
			var nl [][32]byte
			for m := 1; m <= sz; m++ {
				d, err := t.DataAt(uint64(m))
				if err != nil {
					if m > len(payloads) || len(payloads[m-1]) == 0 {
						r.Fail("C08:ahtree.DataAt:empty-payload-unreadable-after-eviction", fmt.Sprintf("DataAt(%d) of an empty payload after reopen: %v", m, err), nil)
						d = []byte{}
					} else {
						return fmt.Errorf("DataAt(%d) after reopen: %w", m, err)
					}
				}
				if m <= len(payloads) && string(d) != string(payloads[m-1]) {
					r.Fail("C08:ahtree.reopen:altered-leaf", fmt.Sprintf("payload %d differs after reopen", m), nil)
				}
				np = append(np, d)
				nl = append(nl, refLeaf(d))
			}
			if sz > len(payloads) {
				r.Count("aht.reopen.undid-reset")
			}
			payloads, leaves = np, nl
		case k == 3 && len(payloads) > 0:
			m := uint64(rng.Intn(len(payloads) + 2))
			d, err := t.DataAt(m)
			if err != nil && m >= 1 && int(m) <= len(payloads) {
				if len(payloads[m-1]) == 0 {
					r.Fail("C08:ahtree.DataAt:empty-payload-unreadable-after-eviction", fmt.Sprintf("DataAt(%d) of an empty payload: %v", m, err), nil)
					err, d = nil, []byte{}
				} else {
					return fmt.Errorf("DataAt(%d): %w", m, err)
				}
			}
			s := ahtErr(err)
			if err == nil && (m < 1 || int(m) > len(payloads)) {
				r.Fail("C08:ahtree.DataAt:out-of-range-served", fmt.Sprintf("DataAt(%d) with size %d", m, len(payloads)), nil)
			} else if err == nil {
				s = hx.Hex(d)
				if string(d) != string(payloads[m-1]) {
					r.Fail("C08:ahtree.DataAt:wrong-payload", fmt.Sprintf("DataAt(%d) returned a different payload", m), nil)
				}
			}
			r.Corr(fmt.Sprintf("c08 aht.data %d", m), s)
		default:
			var d []byte
			switch rng.Intn(6) {
			case 0:
				d = []byte{}
			case 1:
				d = rng.Bytes(32)
			default:
				d = rng.Bytes(rng.Size(70))
			}
			nn, h, err := t.Append(d)
			if err != nil {
				return fmt.Errorf("append after %v (size %d): %w", r.PendingOps(r.Case()), len(payloads), err)
			}
			payloads = append(payloads, d)
			leaves = append(leaves, refLeaf(d))
			if len(payloads) > hw {
				hw = len(payloads)
			}
			r.Corr(fmt.Sprintf("c08 aht.append %s", hx.Hex(d)), fmt.Sprintf("%d %s", nn, hx.Hex(h[:])))
			r.Count("aht.append")
			r.OracleChecks++
			if want := refMth(leaves); h != want || int(nn) != len(leaves) {
				r.Fail("C08:ahtree.Append:root-differs-from-reference", fmt.Sprintf("root after append %d differs from reference Merkle tree", nn), nil)
			}
		}
	}
	N := uint64(len(payloads))
	if N == 0 {
		return nil
	}
	r.Distribution[fmt.Sprintf("aht.size.log2=%d", bitlen(N))]++
	var pool [][32]byte
	refNodes(leaves, &pool)
	// roots
	for m := uint64(0); m <= N+1; m++ {
		if !allPairs && m > 2 && m < N-1 && !rng.Chance(20) {
			continue
		}
		rt, err := t.RootAt(m)
		s := ahtErr(err)
		if err == nil {
			s = hx.Hex(rt[:])
			r.OracleChecks++
			if rt != refMth(leaves[:m]) {
				r.Fail("C08:ahtree.RootAt:root-differs-from-reference", fmt.Sprintf("RootAt(%d) of size-%d tree differs from reference", m, N), nil)
			}
		}
		r.Corr(fmt.Sprintf("c08 aht.root %d", m), s)
	}
	type pair struct{ i, j uint64 }
	var pairs []pair
	if allPairs {
		for j := uint64(1); j <= N; j++ {
			for i := uint64(1); i <= j; i++ {
				pairs = append(pairs, pair{i, j})
			}
		}
	} else {
		for k := 0; k < nProbe; k++ {
			j := 1 + uint64(rng.Intn(int(N)))
			i := 1 + uint64(rng.Intn(int(j)))
			if rng.Chance(15) {
				i = j
			}
			if rng.Chance(10) {
				j = N
			}
			if i > j {
				i = j
			}
			pairs = append(pairs, pair{i, j})
		}
	}
	for _, pr := range pairs {
		i, j := pr.i, pr.j
		ip, err := t.InclusionProof(i, j)
		if err != nil {
			return err
		}
		r.Corr(fmt.Sprintf("c08 aht.iproof %d %d", i, j), hx.Csv32(ip))
		rj := refMth(leaves[:j])
		c08ProbeIncl(r, ip, i, j, leaves[i-1], rj, leaves, "honest")
		cp, err := t.ConsistencyProof(i, j)
		if err != nil {
			return err
		}
		r.Corr(fmt.Sprintf("c08 aht.cproof %d %d", i, j), hx.Csv32(cp))
		ri := refMth(leaves[:i])
		c08ProbeCons(r, cp, i, j, ri, rj, leaves, "honest")
		if i == j {
			c08ProbeLast(r, ip, j, leaves[j-1], rj, leaves, "honest")
		}
		// mutation stream (bounded per pair)
		nm := 2
		if !allPairs {
			nm = 6
		}
		for m := 0; m < nm; m++ {
			switch rng.Intn(9) {
			case 0: // shifted i, same proof & leaf
				i2 := i + uint64(rng.Intn(3)) - 1
				c08ProbeIncl(r, ip, i2, j, leaves[i-1], rj, leaves, "shift-i")
			case 1: // proof of another position presented for i
				i2 := 1 + uint64(rng.Intn(int(j)))
				ip2, _ := t.InclusionProof(i2, j)
				c08ProbeIncl(r, ip2, i, j, leaves[i2-1], rj, leaves, "foreign-proof")
			case 2: // shifted j with the true root of that j
				j2 := j + uint64(rng.Intn(3)) - 1
				if j2 >= 1 && j2 <= N {
					c08ProbeIncl(r, ip, i, j2, leaves[i-1], refMth(leaves[:j2]), leaves, "shift-j")
				} else {
					c08ProbeIncl(r, ip, i, j2, leaves[i-1], rj, leaves, "shift-j-oob")
				}
				// the genuine proof, leaf and root of (i, j) presented for a claimed size BELOW the position, and for a
				// position beyond the size with the same number of proof terms (e.g. (n,n) as (n,n-1), (4,4) as (6,5))
				if i > 1 {
					c08ProbeIncl(r, ip, i, i-1-uint64(rng.Intn(int(i-1))), leaves[i-1], rj, leaves, "size-below-position")
				}
				for _, d := range []uint64{1, 2, 4, 8} {
					c08ProbeIncl(r, ip, j+d+1, j+d, leaves[i-1], rj, leaves, "position-beyond-size")
				}
			case 3: // mutated terms
				q, k := mutTerms(rng, ip, pool)
				c08ProbeIncl(r, q, i, j, leaves[i-1], rj, leaves, "terms-"+k)
			case 4: // internal node / other leaf as leaf
				c08ProbeIncl(r, ip, i, j, pool[rng.Intn(len(pool))], rj, leaves, "leaf-swap")
				q, _ := mutTerms(rng, ip, pool)
				c08ProbeIncl(r, q, i, j, pool[rng.Intn(len(pool))], rj, leaves, "leaf-swap-terms")
			case 5: // consistency: mutated terms / roots
				q, k := mutTerms(rng, cp, pool)
				c08ProbeCons(r, q, i, j, ri, rj, leaves, "terms-"+k)
			case 6: // consistency: shifted sizes, true root of j, claimed root of i unchanged / other
				i2 := i + uint64(rng.Intn(3)) - 1
				c08ProbeCons(r, cp, i2, j, ri, rj, leaves, "shift-i")
				if i2 >= 1 && i2 <= N {
					c08ProbeCons(r, cp, i2, j, refMth(leaves[:i2]), rj, leaves, "shift-i-trueroot")
				}
				c08ProbeCons(r, cp, i, j, pool[rng.Intn(len(pool))], rj, leaves, "iroot-swap")
				c08ProbeCons(r, cp, i, j, rj, ri, leaves, "roots-swapped")
				// genuine proof and roots presented with the two sizes swapped / the earlier size beyond the later one
				c08ProbeCons(r, cp, j+1, j, ri, rj, leaves, "size-beyond-size")
				if i < j {
					c08ProbeCons(r, cp, j, i, rj, ri, leaves, "sizes-swapped")
				}
			case 7: // consistency: foreign proof
				i2 := 1 + uint64(rng.Intn(int(j)))
				cp2, _ := t.ConsistencyProof(i2, j)
				c08ProbeCons(r, cp2, i, j, refMth(leaves[:i2]), rj, leaves, "foreign-proof")
				c08ProbeCons(r, cp2, i, j, ri, rj, leaves, "foreign-proof-trueroot")
			case 8: // last inclusion
				lp, _ := t.InclusionProof(j, j)
				q, k := mutTerms(rng, lp, pool)
				c08ProbeLast(r, q, j, leaves[j-1], rj, leaves, "terms-"+k)
				c08ProbeLast(r, lp, j, pool[rng.Intn(len(pool))], rj, leaves, "leaf-swap")
				if j > 1 {
					c08ProbeLast(r, lp, j, leaves[j-2], rj, leaves, "neighbour")
				}
			}
		}
	}
	// guards
	c08ProbeIncl(r, nil, 0, N, leaves[0], refMth(leaves), leaves, "i-zero")
	c08ProbeIncl(r, nil, 1, 1, leaves[0], leaves[0], leaves, "honest")
	c08ProbeCons(r, nil, 0, N, leaves[0], refMth(leaves), leaves, "i-zero")
	c08ProbeCons(r, nil, N, N, refMth(leaves), refMth(leaves), leaves, "honest")
	r.Sample(map[string]interface{}{"kind": "ahtree-life", "size": N, "pairs": len(pairs), "steps": steps})
	return nil
}

func bitlen(n uint64) int {
	l := 0
	for n > 0 {
		l++
		n >>= 1
	}
	return l
}

func c08HtCase(r *hx.Result, rng *hx.Rng, w int, all bool) error {
	r.NextCase()
	ht, err := htree.New(w + rng.Intn(3))
	if err != nil {
		return err
	}
	ds := make([][32]byte, w)
	for i := range ds {
		copy(ds[i][:], rng.Bytes(32))
	}
	if w > 1 && rng.Chance(10) {
		ds[rng.Intn(w)] = ds[rng.Intn(w)] // duplicates allowed
	}
	if err := ht.BuildWith(ds); err != nil {
		return err
	}
	root := ht.Root()
	r.Corr("c08 ht.build "+hx.Csv32(ds), hx.Hex(root[:]))
	leaves := make([][32]byte, w)
	for i := range ds {
		leaves[i] = refLeaf(ds[i][:])
	}
	r.OracleChecks++
	if root != refMth(leaves) {
		r.Fail("C08:htree.BuildWith:root-differs-from-reference", fmt.Sprintf("width %d", w), nil)
	}
	r.Count(fmt.Sprintf("ht.width.log2=%d", bitlen(uint64(w))))
	member := func(d [32]byte) bool {
		for _, x := range ds {
			if x == d {
				return true
			}
		}
		return false
	}
	probe := func(p *htree.InclusionProof, d, rt [32]byte, kind string) {
		got := htree.VerifyInclusion(p, d, rt)
		op := fmt.Sprintf("c08 ht.verify %d %d %s %s %s", p.Leaf, p.Width, hx.Csv32(p.Terms), hx.Hex(d[:]), hx.Hex(rt[:]))
		r.Corr(op, b2s(got))
		r.Count("htverify." + kind + "." + b2s(got))
		r.Eval(op, got || kind != "honest")
		r.OracleChecks++
		if rt == root && w > 0 {
			if got && !member(d) {
				r.Fail("C08:htree.VerifyInclusion:accepts-non-member", fmt.Sprintf("width %d kind %s", w, kind), c08Replay{Kind: "htverify", Ops: []string{op}})
			}
			if got && p.Width == w && p.Leaf >= 0 && p.Leaf < w && ds[p.Leaf] != d {
				r.Fail("C08:htree.VerifyInclusion:accepts-wrong-position", fmt.Sprintf("width %d leaf %d kind %s", w, p.Leaf, kind), c08Replay{Kind: "htverify", Ops: []string{op}})
			}
			if !got && kind == "honest" {
				r.Fail("C08:htree.VerifyInclusion:rejects-honest", fmt.Sprintf("width %d leaf %d", w, p.Leaf), c08Replay{Kind: "htverify", Ops: []string{op}})
			}
		}
	}
	var pool [][32]byte
	if w > 0 {
		refNodes(leaves, &pool)
		pool = append(pool, ds...)
	} else {
		pool = [][32]byte{{}}
	}
	// out of range
	_, err = ht.InclusionProof(w)
	r.Corr(fmt.Sprintf("c08 ht.proof %d", w), map[bool]string{true: "err:illegal", false: "ok?"}[err != nil])
	for i := 0; i < w; i++ {
		if !all && w > 8 && !rng.Chance(800/w+1) {
			continue
		}
		p, err := ht.InclusionProof(i)
		if err != nil {
			return err
		}
		r.Corr(fmt.Sprintf("c08 ht.proof %d", i), fmt.Sprintf("%d %d %s", p.Leaf, p.Width, hx.Csv32(p.Terms)))
		probe(p, ds[i], root, "honest")
		for m := 0; m < 3; m++ {
			q := &htree.InclusionProof{Leaf: p.Leaf, Width: p.Width, Terms: append([][32]byte{}, p.Terms...)}
			d := ds[i]
			kind := ""
			switch rng.Intn(7) {
			case 0:
				q.Leaf += rng.Intn(3) - 1
				kind = "shift-leaf"
			case 1:
				q.Width += rng.Intn(5) - 2
				kind = "shift-width"
			case 2:
				q.Terms, kind = mutTerms(rng, q.Terms, pool)
				kind = "terms-" + kind
			case 3:
				d = pool[rng.Intn(len(pool))]
				kind = "digest-swap"
			case 4:
				j := rng.Intn(w)
				d = ds[j]
				kind = "foreign-digest"
			case 5:
				q.Width = rng.Intn(3) - 1
				q.Leaf = rng.Intn(3) - 1
				kind = "degenerate"
			case 6:
				q.Terms, _ = mutTerms(rng, q.Terms, pool)
				d = pool[rng.Intn(len(pool))]
				q.Leaf = rng.Intn(w + 1)
				kind = "multi"
			}
			probe(q, d, root, kind)
		}
	}
	r.Sample(map[string]interface{}{"kind": "htree", "width": w})
	return nil
}

// c08StaleProbe: roll back, re-append fewer leaves, restart. The property says this leaves the tree
// equal to the reference tree over the re-appended leaves.
func c08StaleProbe(r *hx.Result, rng *hx.Rng) error {
	dir := hx.TempDir("c08s")
	defer os.RemoveAll(dir)
	path := filepath.Join(dir, "aht")
	t, err := ahtree.Open(path, ahtree.DefaultOptions().WithSyncThld(1))
	if err != nil {
		return err
	}
	for i := 0; i < 6; i++ {
		t.Append(rng.Bytes(8))
	}
	if err := t.ResetSize(2); err != nil {
		return err
	}
	t.Append([]byte("x"))
	if err := t.Close(); err != nil {
		return err
	}
	t, err = ahtree.Open(path, ahtree.DefaultOptions().WithSyncThld(1))
	if err != nil {
		return err
	}
	defer t.Close()
	r.OracleChecks++
	if t.Size() != 3 {
		r.Fail("C08:ahtree.reopen:stale-tail-after-reset", fmt.Sprintf("6 appends, ResetSize(2), 1 append, close, reopen: size is %d, expected 3 (rolled-back leaves reappear)", t.Size()),
			c08Replay{Kind: "stale-probe", Detail: "append x6; ResetSize(2); append; Close; Open; Size"})
	}
	return nil
}

func runC08(r *hx.Result, rng *hx.Rng, thorough bool, replay string) error {
	r.Rule = "cases: (a0) ahtree fault lives: real multiapp files behind a fault-injecting wrapper, one call of Sync/Flush/Append/SetOffset/ReadAt/Size of the payload, digest or commit log fails once inside an Append/ResetSize/Sync/DataAt/RootAt/proof call (deterministic sweep over the fault points of Append x sync threshold 1..4 + random lives); after every failed operation the observable state must equal the reference tree over the surviving payloads. (a) ahtree lives (append/reset/sync/reopen with tiny caches & chunk files) followed by RootAt for all sizes, Inclusion/Consistency proofs for all or sampled (i,j), and a mutation stream of verifier calls; (b) htree builds of every width with all/sampled leaf proofs + mutations. A verifier evaluation is non-trivial when it is a mutated call or an accepted one; distinct by the full call text."
	// SHA-256 of the model vs crypto/sha256
	for n := 0; n <= 130; n++ {
		b := rng.Bytes(n)
		h := sha256.Sum256(b)
		r.Corr("sha "+hx.Hex(b), hx.Hex(h[:]))
	}
	if err := c08StaleProbe(r, rng.Fork()); err != nil {
		return err
	}
	// fault histories (c08fault.go): own stream, so that the fault-free cases below stay what they were per seed
	if err := c08FaultRun(r, hx.NewRng(r.Seed^0xC08FA017), thorough); err != nil {
		return err
	}
	if os.Getenv("C08_ONLY") == "fault" { // development aid
		return r.Flush()
	}
	exN, lives, lifeN, probes := 40, 30, 300, 60
	htAll, htMax := 70, 300
	if thorough {
		exN, lives, lifeN, probes = 90, 120, 3000, 200
		htAll, htMax = 260, 1100
	}
	// exhaustive small sizes: one life per size, all pairs
	for n := 1; n <= exN; n++ {
		if err := c08AhtCase(r, rng.Fork(), n, true, 0); err != nil {
			return err
		}
		if err := r.Flush(); err != nil {
			return err
		}
	}
	for k := 0; k < lives; k++ {
		if err := c08AhtCase(r, rng.Fork(), lifeN, false, probes); err != nil {
			return err
		}
		if err := r.Flush(); err != nil {
			return err
		}
	}
	for w := 0; w <= htAll; w++ {
		if err := c08HtCase(r, rng.Fork(), w, true); err != nil {
			return err
		}
	}
	for k := 0; k < 20; k++ {
		if err := c08HtCase(r, rng.Fork(), htAll+rng.Intn(htMax-htAll), false); err != nil {
			return err
		}
	}
	return r.Flush()
}
