package main

// C13 — DDL schedules, second widening (added after seeded change c13-b, see DESIGN "C13 — as built").
//
// The DDL schedules of c13_ddl.go compared the catalog attributes the engine can LIST (tables, columns, indexes) and never
// created a constraint: no CHECK, no NOT NULL, no DROP CONSTRAINT / ALTER COLUMN, no TRUNCATE, no view, no sequence, no
// savepoint inside a DDL transaction.  This file adds, in general terms:
//
//   * every remaining DDL statement kind of the grammar that works on one embedded engine: CREATE TABLE with NOT NULL
//     columns and (named / unnamed) CHECK constraints, ALTER TABLE … DROP CONSTRAINT, ALTER COLUMN … SET|DROP NOT NULL,
//     TRUNCATE TABLE, CREATE|DROP VIEW, CREATE|DROP SEQUENCE — autocommit and inside explicit transactions with every
//     ending the schedules have (COMMIT, ROLLBACK, failing statement, read conflict at COMMIT, closed session) plus
//     SAVEPOINT / ROLLBACK TO SAVEPOINT / RELEASE SAVEPOINT around DDL;
//   * DML that violates the constraints of the reference catalog (judged like every other statement: must fail);
//   * the "no trace" oracle for what cannot be listed — BEHAVIOUR PROBES after every event (every ending of every
//     transaction, every autocommit statement, re-open) and therefore also while other sessions hold open transactions
//     with uncommitted DDL: per table of the reference catalog a valid row must be accepted, a row violating each CHECK
//     in force and a row omitting each NOT NULL column must be refused, a row violating a constraint that a COMMITTED
//     transaction dropped must be accepted; every view / sequence of the reference must resolve, every other name the
//     case ever used must not.  A probe is one read-write transaction of a fresh session that is rolled back (it does
//     not touch the engine's catalog cache);
//   * the same observation and probes through a SECOND, fresh engine over the same store (cold catalog = what is
//     persisted) next to the engine the sessions use (warm cache, where uncommitted DDL can leak to).

import (
	"context"
	"fmt"
	"sort"
	"strconv"
	"strings"

	"github.com/codenotary/immudb/embedded/sql"

	"verif/harness/internal/hx"
)

// ---------------------------------------------------------------- CHECK constraints of the reference catalog

type d13Check struct {
	Name string // constraint name as the engine registers it (unnamed: <table>_check<n>)
	Anon bool   // declared without CONSTRAINT name
	Col  string // INTEGER column
	Op   string // ">=" | "<"
	K    int64
}

func (ck d13Check) exp() string { return fmt.Sprintf("%s %s %d", ck.Col, ck.Op, ck.K) }

func (ck d13Check) decl() string {
	if ck.Anon {
		return "CHECK (" + ck.exp() + ")"
	}
	return "CONSTRAINT " + ck.Name + " CHECK (" + ck.exp() + ")"
}

func (ck d13Check) holds(v int64) bool {
	if ck.Op == ">=" {
		return v >= ck.K
	}
	return v < ck.K
}

// a value violating the constraint; n makes it distinct from every other generated value
func (ck d13Check) violating(n int64) int64 {
	if ck.Op == ">=" {
		return ck.K - 1 - n
	}
	return ck.K + n
}

func d13ColFlags(nullable, autoInc, indexed, primary, unique bool) string {
	f := func(b bool, y, n string) string {
		if b {
			return y
		}
		return n
	}
	return f(nullable, "null", "notnull") + f(autoInc, ":autoinc", "") + f(indexed, ":indexed", "") + f(primary, ":pk", "") + f(unique, ":uniq", "")
}

func (t *d13Table) checksOn(col string) []d13Check {
	var out []d13Check
	for _, ck := range t.Checks {
		if ck.Col == col {
			out = append(out, ck)
		}
	}
	return out
}

// constraint classes a row (column -> value, absent = NULL) violates: "not-null" | "check" | ""
func (t *d13Table) rowViolates(r map[string]d13Val, loose bool) string {
	for _, c := range t.Cols[1:] {
		if _, ok := r[c.Name]; !ok && c.NotNull && !loose {
			return "not-null"
		}
	}
	for _, ck := range t.Checks {
		v, ok := r[ck.Col]
		if !ok || v.isStr || !ck.holds(v.i) { // NULL under a comparison: the engine's CHECK evaluates to false (NULL is the least value)
			return "check"
		}
	}
	return ""
}

// ---------------------------------------------------------------- statements

func (s *d13Stmt) sqlX() string {
	switch s.K {
	case "drop-constraint":
		return fmt.Sprintf("ALTER TABLE %s DROP CONSTRAINT %s", s.T, s.C)
	case "set-not-null":
		return fmt.Sprintf("ALTER TABLE %s ALTER COLUMN %s SET NOT NULL", s.T, s.C)
	case "drop-not-null":
		return fmt.Sprintf("ALTER TABLE %s ALTER COLUMN %s DROP NOT NULL", s.T, s.C)
	case "truncate":
		return "TRUNCATE TABLE " + s.T
	case "create-view":
		return fmt.Sprintf("CREATE VIEW %s AS SELECT id FROM %s", s.T, s.T2)
	case "drop-view":
		return "DROP VIEW " + s.T
	case "create-seq":
		return "CREATE SEQUENCE " + s.T
	case "drop-seq":
		return "DROP SEQUENCE " + s.T
	}
	return "?"
}

func (s *d13Stmt) isViewOrSeq() bool {
	switch s.K {
	case "create-view", "drop-view", "create-seq", "drop-seq":
		return true
	}
	return false
}

// textbook semantics of the statement kinds added here; done=false: not one of them
func (db *d13DB) applyX(s *d13Stmt) (string, int, bool) {
	switch s.K {
	case "create-view":
		if db.T[s.T] != nil || db.Views[s.T] != "" {
			return "table-exists", 0, true
		}
		db.Views[s.T] = s.T2
		return "", 0, true
	case "drop-view":
		if db.Views[s.T] == "" {
			return "no-view", 0, true
		}
		delete(db.Views, s.T)
		return "", 0, true
	case "create-seq":
		if db.Seqs[s.T] {
			return "sequence-exists", 0, true
		}
		db.Seqs[s.T] = true
		return "", 0, true
	case "drop-seq":
		if !db.Seqs[s.T] {
			return "no-sequence", 0, true
		}
		delete(db.Seqs, s.T)
		return "", 0, true
	case "drop-constraint", "set-not-null", "drop-not-null", "truncate":
	default:
		return "", 0, false
	}
	t := db.T[s.T]
	if t == nil {
		return "no-table", 0, true
	}
	switch s.K {
	case "drop-constraint":
		for i, ck := range t.Checks {
			if ck.Name == s.C {
				t.Dropped = append(t.Dropped, ck)
				t.Checks = append(t.Checks[:i:i], t.Checks[i+1:]...)
				return "", 0, true
			}
		}
		return "no-constraint", 0, true
	case "set-not-null", "drop-not-null":
		i := t.col(s.C)
		if i < 0 {
			return "no-column", 0, true
		}
		if s.K == "drop-not-null" {
			if i == 0 {
				return "pk-not-null", 0, true
			}
			t.Cols[i].NotNull = false
			return "", 0, true
		}
		if i > 0 {
			for _, r := range t.Rows {
				if _, ok := r[s.C]; !ok {
					return "column-holds-null", 0, true
				}
			}
		}
		t.Cols[i].NotNull = true
		return "", 0, true
	case "truncate":
		t.Rows = map[int64]map[string]d13Val{}
		return "", 0, true
	}
	return "", 0, false
}

// ---------------------------------------------------------------- generators

// CREATE TABLE with NOT NULL columns and CHECK constraints (about half of the tables)
func (c *d13Case) decorateCreate(st *d13Stmt) {
	rng := c.rng
	if rng.Intn(2) == 0 {
		return
	}
	anon := 0
	for i := range st.Cols {
		if rng.Intn(4) == 0 {
			st.Cols[i].NotNull = true
		}
	}
	for _, col := range st.Cols {
		if col.Ty != "INTEGER" || len(st.Checks) >= 2 || rng.Intn(3) == 2 {
			continue
		}
		ck := d13Check{Col: col.Name, Op: ">=", K: 0}
		if rng.Intn(3) == 0 {
			ck.Op, ck.K = "<", 1000000000
		}
		if rng.Intn(3) == 0 {
			anon++
			ck.Anon, ck.Name = true, fmt.Sprintf("%s_check%d", st.T, anon)
		} else {
			c.nextName++
			ck.Name = fmt.Sprintf("ck%d", c.nextName)
		}
		st.Checks = append(st.Checks, ck)
		if rng.Intn(4) == 0 && len(st.Checks) < 2 { // a second constraint on the same column
			c.nextName++
			st.Checks = append(st.Checks, d13Check{Col: col.Name, Op: "<", K: 2000000000, Name: fmt.Sprintf("ck%d", c.nextName)})
		}
	}
	if len(st.Checks) == 0 && len(st.Cols) == 0 && rng.Intn(2) == 0 {
		col := d13Col{Name: c.freshCol(), Ty: "INTEGER"}
		st.Cols = append(st.Cols, col)
		c.nextName++
		st.Checks = append(st.Checks, d13Check{Col: col.Name, Op: ">=", K: 0, Name: fmt.Sprintf("ck%d", c.nextName)})
	}
}

// the DDL kinds added by this file; nil: nothing applicable on this view
func (c *d13Case) genDDLX(db *d13DB, t *d13Table) *d13Stmt {
	rng := c.rng
	for try := 0; try < 4; try++ {
		switch k := rng.Intn(100); {
		case k < 40:
			// constraints first: a table that has one
			for _, n := range db.names() {
				if tt := db.T[n]; len(tt.Checks) > 0 && (tt == t || rng.Intn(2) == 0) {
					return &d13Stmt{K: "drop-constraint", T: tt.Name, C: tt.Checks[rng.Intn(len(tt.Checks))].Name}
				}
			}
			if rng.Intn(6) == 0 {
				return &d13Stmt{K: "drop-constraint", T: t.Name, C: "nosuch"} // invalid
			}
		case k < 58:
			if len(t.Cols) > 1 {
				col := t.Cols[1+rng.Intn(len(t.Cols)-1)]
				if col.NotNull {
					return &d13Stmt{K: "drop-not-null", T: t.Name, C: col.Name}
				}
				return &d13Stmt{K: "set-not-null", T: t.Name, C: col.Name}
			}
		case k < 63:
			return &d13Stmt{K: "truncate", T: t.Name}
		case k < 80:
			c.nextName++
			return &d13Stmt{K: "create-view", T: fmt.Sprintf("v%d", c.nextName), T2: t.Name}
		case k < 86:
			for v := range db.Views {
				if !c.vDead[v] {
					vs := []string{}
					for w := range db.Views {
						if !c.vDead[w] {
							vs = append(vs, w)
						}
					}
					sort.Strings(vs)
					return &d13Stmt{K: "drop-view", T: vs[rng.Intn(len(vs))]}
				}
			}
		case k < 95:
			c.nextName++
			return &d13Stmt{K: "create-seq", T: fmt.Sprintf("q%d", c.nextName)}
		default:
			qs := []string{}
			for q := range db.Seqs {
				if !c.vDead[q] {
					qs = append(qs, q)
				}
			}
			if len(qs) > 0 {
				sort.Strings(qs)
				return &d13Stmt{K: "drop-seq", T: qs[rng.Intn(len(qs))]}
			}
		}
	}
	return nil
}

// ---------------------------------------------------------------- views and sequences: known causes

const (
	d13ViewTxCause  = ":view-ddl-not-transactional"
	d13ViewLost     = ":views-not-persisted"
	d13SeqTxCause   = ":sequence-ddl-not-transactional"
	d13AlterColLost = ":alter-column-not-persisted"
)

// a view / sequence statement ran inside an explicit transaction: the engine changed engine-wide state at once
func (c *d13Case) taintName(st *d13Stmt, inTx bool) {
	if !st.isViewOrSeq() {
		return
	}
	if c.vTaint == nil {
		c.vTaint, c.vDead = map[string]string{}, map[string]bool{}
	}
	if inTx {
		if strings.HasSuffix(st.K, "view") {
			c.vTaint[st.T] = d13ViewTxCause
		} else {
			c.vTaint[st.T] = d13SeqTxCause
		}
	} else if _, ok := c.vTaint[st.T]; !ok {
		c.vTaint[st.T] = "" // known name, no cause
	}
}

// the engine was re-opened: its in-memory view registry is gone (views are never written to the store), the
// sequences are re-read from the store (a sequence changed by an uncommitted transaction is as committed again)
func (c *d13Case) reopenedNames() {
	for n := range c.vTaint {
		if strings.HasPrefix(n, "v") {
			c.vTaint[n] = d13ViewLost
		} else if !c.vDead[n] {
			c.vTaint[n] = ""
		}
	}
}

// does a name resolve? views: SELECT through it; sequences: NEXTVAL. Inside one read-write transaction that is rolled back.
func (c *d13Case) nameResolves(tx *sql.SQLTx, name string) (bool, string) {
	eng, pfx := c.engine()
	q := "SELECT * FROM " + name
	if strings.HasPrefix(name, "q") {
		q = "SELECT NEXTVAL('" + name + "')"
	}
	rd, err := eng.Query(context.Background(), tx, q, nil)
	if err == nil {
		_, err = rd.Read(context.Background())
		rd.Close()
		if err == sql.ErrNoMoreRows {
			err = nil
		}
	}
	out := "ok"
	exists := true
	if err != nil {
		out = "ERR " + err.Error()
		m := err.Error()
		// the object itself is missing (a view over a dropped table exists and fails differently)
		if strings.Contains(m, "sequence does not exist") || (strings.Contains(m, "table does not exist ("+name+")") && !strings.Contains(m, "resolving view")) {
			exists = false
		}
	}
	c.log(fmt.Sprintf("%s[s9] %s (Query)   => %s", pfx, q, strings.SplitN(out, "\n", 2)[0]))
	return exists, out
}

// ---------------------------------------------------------------- behaviour probes

// one probe = BEGIN; statement; ROLLBACK by a fresh session (a failing statement cancels the transaction itself)
func (c *d13Case) probeStmt(q string) string {
	b := c.exec(9, nil, "BEGIN TRANSACTION")
	if b.Err != "" || b.Tx == nil {
		return "begin: " + b.Err
	}
	res := c.exec(9, b.Tx, q)
	if res.Err == "" && res.Tx != nil {
		c.exec(9, res.Tx, "ROLLBACK")
	} else if res.Tx != nil {
		res.Tx.Cancel()
	}
	if res.Err == "" {
		return ""
	}
	return res.Err
}

func (c *d13Case) probeRow(t *d13Table, omit string, bad *d13Check) string {
	c.probeID++
	id := 900000 + c.probeID
	names, vals := []string{"id"}, []string{strconv.FormatInt(id, 10)}
	for _, col := range t.Cols[1:] {
		if col.Name == omit {
			continue
		}
		checked := len(t.checksOn(col.Name)) > 0
		if bad != nil && col.Name == bad.Col {
			names, vals = append(names, col.Name), append(vals, strconv.FormatInt(bad.violating(c.probeID), 10))
			continue
		}
		if !col.NotNull && !checked && !t.hasUnique() && omit == "" && bad == nil {
			continue // the valid-row probe leaves every column NULL that may be NULL: a NOT NULL that leaked in refuses it
		}
		c.nextVal++
		if col.Ty == "VARCHAR" {
			names, vals = append(names, col.Name), append(vals, fmt.Sprintf("'p%d'", c.nextVal%100000))
		} else {
			names, vals = append(names, col.Name), append(vals, strconv.FormatInt(id*1000+c.nextVal%1000, 10))
		}
	}
	return fmt.Sprintf("INSERT INTO %s(%s) VALUES (%s)", t.Name, strings.Join(names, ", "), strings.Join(vals, ", "))
}

// Behaviour of the catalog new transactions work with = behaviour of the reference catalog (committed DDL only).
// sig: signature family of the event after which the probes run.
func (c *d13Case) probes(where, sig string) {
	if c.dead {
		return
	}
	r := c.r
	via := "a fresh session of the same engine"
	if c.cold != nil {
		via = "a fresh session of a second engine over the same store"
	}
	base := sig + ":catalog"
	if sig == "C13:commit:state-differs-from-reference" {
		base = "C13:commit:catalog-differs-from-reference"
	}
	// open transactions of other sessions holding uncommitted DDL (for the counters and the message)
	openDDL := []string{}
	for _, s := range c.sess {
		if s.inTx {
			for _, d := range s.full {
				if d.st.isDDL() {
					openDDL = append(openDDL, fmt.Sprintf("session %d: [%s]", s.id, d.st.sql()))
				}
			}
		}
	}
	note := ""
	if len(openDDL) > 0 {
		note = "; uncommitted DDL of open transactions: " + strings.Join(openDDL, ", ")
		r.Count("ddl.probe.while-uncommitted-ddl-open")
	}
	bad := func(class, desc string) {
		c.fail(base+":"+class, fmt.Sprintf("%s: %s %s%s", where, via, desc, note))
		c.dead = true
	}
	for _, n := range c.ref.names() {
		t := c.ref.T[n]
		if t.CkStale || c.dead {
			continue
		}
		r.OracleChecks++
		r.Count("ddl.probe.valid-row")
		if e := c.probeStmt(c.probeRow(t, "", nil)); e != "" {
			bad("valid-row-refused", fmt.Sprintf("cannot insert a row that satisfies every constraint of the reference catalog of %s {%s}: %s", n, t.constraintLine(), e))
			return
		}
		for i := range t.Checks {
			ck := t.Checks[i]
			r.OracleChecks++
			r.Count("ddl.probe.check")
			if len(openDDL) > 0 {
				r.Count("ddl.probe.check.while-uncommitted-ddl-open")
			}
			if e := c.probeStmt(c.probeRow(t, "", &ck)); e == "" {
				bad("check-constraint-not-enforced", fmt.Sprintf("inserts a row violating CHECK (%s) [%s] of table %s, which no committed transaction dropped", ck.exp(), ck.Name, n))
				return
			}
		}
		for _, col := range t.Cols[1:] {
			if !col.NotNull {
				continue
			}
			r.OracleChecks++
			r.Count("ddl.probe.not-null")
			if e := c.probeStmt(c.probeRow(t, col.Name, nil)); e == "" {
				bad("not-null-not-enforced", fmt.Sprintf("inserts a row without the NOT NULL column %s.%s", n, col.Name))
				return
			}
		}
		for i := range t.Dropped {
			ck := t.Dropped[i]
			if t.col(ck.Col) < 0 {
				continue
			}
			clash := false
			for _, live := range t.Checks {
				if live.Col == ck.Col && !live.holds(ck.violating(c.probeID+1)) {
					clash = true
				}
			}
			if clash {
				continue
			}
			r.OracleChecks++
			r.Count("ddl.probe.dropped-check")
			if e := c.probeStmt(c.probeRow(t, "", &ck)); e != "" {
				bad("dropped-constraint-still-enforced", fmt.Sprintf("cannot insert a row violating CHECK (%s) [%s] of table %s although a committed transaction dropped that constraint: %s", ck.exp(), ck.Name, n, e))
				return
			}
		}
	}
	// views and sequences: every name of the reference resolves, every other name the case used does not
	if len(c.vTaint) == 0 {
		return
	}
	var names []string
	for n := range c.vTaint {
		if !c.vDead[n] && !(c.cold != nil && strings.HasPrefix(n, "v")) { // views are not persisted at all (known): a second engine has none
			names = append(names, n)
		}
	}
	if len(names) == 0 {
		return
	}
	sort.Strings(names)
	b := c.exec(9, nil, "BEGIN TRANSACTION")
	if b.Err != "" || b.Tx == nil {
		return
	}
	for _, n := range names {
		want := c.ref.Views[n] != "" || c.ref.Seqs[n]
		got, out := c.nameResolves(b.Tx, n)
		r.OracleChecks++
		r.Count("ddl.probe.view-or-sequence")
		if got != want {
			kind := "view"
			if strings.HasPrefix(n, "q") {
				kind = "sequence"
			}
			cz := c.vTaint[n]
			what := fmt.Sprintf("%s %s does not exist (%s) although a committed transaction created it and none dropped it", kind, n, out)
			if got {
				what = fmt.Sprintf("%s %s exists although no committed transaction created it (or a committed one dropped it)", kind, n)
			}
			c.fail(d13NameSig(n)+cz, fmt.Sprintf("%s: %s: %s%s", where, via, what, note))
			if cz == "" {
				c.dead = true
			}
			c.vDead[n] = true // reported: the engine's registry and the reference go separate ways for this name
			delete(c.ref.Views, n)
			delete(c.ref.Seqs, n)
			for _, s := range c.sess {
				if s.view != nil {
					delete(s.view.Views, n)
					delete(s.view.Seqs, n)
				}
			}
		}
	}
	if !b.Tx.Closed() {
		c.exec(9, b.Tx, "ROLLBACK")
	}
}

func (t *d13Table) constraintLine() string {
	var xs []string
	for _, c := range t.Cols[1:] {
		if c.NotNull {
			xs = append(xs, c.Name+" NOT NULL")
		}
	}
	for _, ck := range t.Checks {
		xs = append(xs, ck.decl())
	}
	return strings.Join(xs, ", ")
}

// the same observation and probes through a second, fresh engine over the same store: its catalog is the persisted one
func (c *d13Case) observeCold(where, sig, cz string) {
	eng, err := sql.NewEngine(c.env.st, sql.DefaultOptions().WithPrefix([]byte("sql")))
	if err != nil {
		c.r.Count("ddl.observe.cold.err")
		return
	}
	c.r.Count("ddl.observe.cold")
	c.cold = eng
	defer func() { c.cold = nil }()
	if c.observe1(where+", through a second engine", sig, cz) && !c.dead {
		c.probes(where+", through a second engine", sig)
	}
}

// ---------------------------------------------------------------- savepoints around DDL

type d13SP struct {
	name string
	view *d13DB
	n    int // len(s.prog) when established
}

func (c *d13Case) savepointStep(s *d13Sess) {
	rng, r := c.rng, c.r
	name := []string{"sa", "sb", "sc"}[rng.Intn(3)]
	at := -1
	for i := len(s.sps) - 1; i >= 0; i-- {
		if s.sps[i].name == name {
			at = i
			break
		}
	}
	switch k := rng.Intn(10); {
	case k < 5 || len(s.sps) == 0:
		if at >= 0 {
			return // duplicate savepoint names are R7 territory (c13.go)
		}
		res := c.exec(s.id, s.tx, "SAVEPOINT "+name)
		r.Count("ddl.savepoint")
		if res.Err != "" || res.Tx == nil {
			c.fail("C13:savepoint:fails", fmt.Sprintf("session %d: SAVEPOINT %s fails with %s", s.id, name, res.Err))
			s.reset()
			c.dead = true
			return
		}
		s.tx = res.Tx
		s.sps = append(s.sps, d13SP{name: name, view: s.view.clone(), n: len(s.prog)})
	case k < 9:
		if at < 0 {
			at = len(s.sps) - 1
			name = s.sps[at].name
		}
		res := c.exec(s.id, s.tx, "ROLLBACK TO SAVEPOINT "+name)
		r.Count("ddl.rollback-to")
		r.OracleChecks++
		if res.Err != "" || res.Tx == nil {
			c.fail("C13:savepoint:rollback-to-existing-savepoint-fails", fmt.Sprintf("session %d: ROLLBACK TO SAVEPOINT %s fails with %s although the savepoint exists", s.id, name, res.Err))
			s.reset()
			c.dead = true
			return
		}
		s.tx = res.Tx
		s.engUpd = res.OpenUpd
		sp := s.sps[at]
		hasDDL := false
		for _, d := range s.prog[sp.n:] {
			if d.st.isDDL() {
				hasDDL = true
			}
		}
		if len(s.prog) > sp.n {
			// statements ran after the savepoint: the engine keeps their writes (K1 = R5): from here on its transaction and
			// the reference's view go separate ways; at COMMIT the engine's outcome is compared under the known signature
			s.k1, s.viewLost = true, true
			r.Count("ddl.rollback-to.with-statements")
			if hasDDL {
				s.k1ddl = true
				r.Count("ddl.rollback-to.with-ddl")
			}
		}
		s.prog = s.prog[:sp.n]
		s.view = sp.view.clone()
		s.sps = s.sps[:at] // the engine forgets the savepoint it rolled back to (R6): it is not used again
	default:
		if at < 0 || at != len(s.sps)-1 {
			return // releasing an older savepoint: R6c territory (c13.go)
		}
		res := c.exec(s.id, s.tx, "RELEASE SAVEPOINT "+name)
		r.Count("ddl.release")
		if res.Err != "" || res.Tx == nil {
			c.fail("C13:savepoint:release-of-existing-savepoint-fails", fmt.Sprintf("session %d: RELEASE SAVEPOINT %s fails with %s", s.id, name, res.Err))
			s.reset()
			c.dead = true
			return
		}
		s.tx = res.Tx
		s.sps = s.sps[:at]
	}
}

// ---------------------------------------------------------------- known causes attached to a statement, endings

// known cause under which a divergence between the engine's and the reference's verdict on this statement is reported
// (errClass: class of the engine's error, "" when the statement succeeded)
func (c *d13Case) stmtCause(st *d13Stmt, db *d13DB, errClass string) string {
	switch {
	case st.isViewOrSeq():
		return c.vTaint[st.T]
	case st.K == "set-not-null" || st.K == "drop-not-null":
		return d13AlterColLost
	}
	t := db.T[st.T]
	if t != nil && t.CkStale {
		return ":check-references-renamed-column"
	}
	if t != nil && len(t.Checks) > 0 && (st.K == "drop-table" || st.K == "truncate") && errClass == "key-not-found" {
		// R22, repaired (known_findings.json → fixed): DropTableStmt deleted the catalog keys of the CHECK constraints under the constraint
		// NAME, they are stored under the constraint ID. The reference expects the statement to succeed; the exact symptom keeps its signature
		return ":drop-table-with-check-constraint"
	}
	return ""
}

// a divergence with a known cause was reported for this statement: stop comparing the object it names
func (c *d13Case) giveUpOn(st *d13Stmt) {
	if !st.isViewOrSeq() {
		return
	}
	c.vDead[st.T] = true
	delete(c.ref.Views, st.T)
	delete(c.ref.Seqs, st.T)
	for _, s := range c.sess {
		if s.view != nil {
			delete(s.view.Views, st.T)
			delete(s.view.Seqs, st.T)
		}
	}
}

// how a transaction ended, and which DDL kinds it had executed (counters: does every kind meet every ending?)
func (c *d13Case) ending(s *d13Sess, how string) {
	c.r.Count("ddl.ending." + how)
	seen := map[string]bool{}
	for _, d := range s.full {
		if d.st.isDDL() && !seen[d.st.K] {
			seen[d.st.K] = true
			c.r.Count("ddl.ending." + how + ".with." + d.st.K)
		}
	}
	if s.k1 {
		c.r.Count("ddl.ending." + how + ".after-rollback-to-savepoint")
	}
}

// ---------------------------------------------------------------- signatures

func d13NameSig(name string) string {
	if strings.HasPrefix(name, "q") {
		return "C13:catalog:sequence-existence-differs-from-reference"
	}
	return "C13:catalog:view-existence-differs-from-reference"
}

// Signature of a statement-level divergence. Divergences with a known cause that can surface under many error classes are
// reported under ONE signature per cause, so that the list of known findings stays finite.
func (c *d13Case) stmtSig(sig, cause string, st *d13Stmt) string {
	switch {
	case cause == "":
		return sig
	case st.isViewOrSeq():
		return d13NameSig(st.T) + cause
	case cause == ":check-references-renamed-column":
		return "C13:stmt:spurious-failure" + cause
	}
	return sig + cause
}

func (c *d13Case) noteTruncate(st *d13Stmt) {
	if st.K == "truncate" {
		if c.trunc == nil {
			c.trunc = map[string]bool{}
		}
		c.trunc[st.T] = true
	}
	if st.K == "rename-table" && c.trunc[st.T] {
		c.trunc[st.T2] = true
	}
}

// the observed catalog equals the reference up to the order of the columns of tables a committed TRUNCATE TABLE emptied
func (c *d13Case) onlyTruncateReordered(got, want []string) bool {
	if len(got) != len(want) || len(c.trunc) == 0 {
		return false
	}
	norm := func(l string) string {
		i, j := strings.Index(l, "cols["), strings.Index(l, "] idx[")
		if i < 0 || j < i {
			return l
		}
		cs := strings.Fields(l[i+5 : j])
		sort.Strings(cs)
		return l[:i+5] + strings.Join(cs, " ") + l[j:]
	}
	differs := false
	for i := range got {
		if got[i] == want[i] {
			continue
		}
		name := strings.SplitN(want[i], " ", 2)[0]
		if !c.trunc[name] || norm(got[i]) != norm(want[i]) {
			return false
		}
		differs = true
	}
	return differs
}

// After the COMMIT of a transaction that rolled back to a savepoint the engine's own sessions showed the reference state
// (statements after the savepoint undone). RollbackToSavepoint also restores `mutatedCatalog`, so when the statements taken
// back were DDL the COMMIT persists them (K1) WITHOUT invalidating the catalog cache: the warm engine keeps showing the old
// catalog until an unrelated DDL commit or a restart. A second engine over the same store shows what is persisted.
func (c *d13Case) k1Latent(alt *d13DB) {
	eng, err := sql.NewEngine(c.env.st, sql.DefaultOptions().WithPrefix([]byte("sql")))
	if err != nil {
		return
	}
	c.cold = eng
	defer func() { c.cold = nil }()
	b := c.exec(9, nil, "BEGIN TRANSACTION")
	if b.Err != "" || b.Tx == nil {
		return
	}
	o := c.observeAs(9, b.Tx, alt)
	c.exec(9, b.Tx, "ROLLBACK")
	c.r.OracleChecks++
	if !c.same(o, c.ref) && c.same(o, alt) {
		c.r.Count("ddl.k1.persisted-but-cache-stale")
		c.fail("C13:savepoint:rollback-to-keeps-writes", fmt.Sprintf("%s: the statements the transaction took back with ROLLBACK TO SAVEPOINT are persisted (a second engine over the same store sees the catalog {%s}) while the sessions of the engine still see {%s}: RollbackToSavepoint restored mutatedCatalog, so the COMMIT did not invalidate the catalog cache", c.lastWhat, strings.Join(o.catalog, " | "), strings.Join(c.ref.catalogLines(), " | ")))
		c.dead = true // cache and store disagree from here on
	}
}

// ---------------------------------------------------------------- DDL matrix: every DDL kind × every ending × warm / cold cache

// The random schedules meet a given (DDL kind, transaction ending, cache state) combination only by chance. The matrix walks
// through all of them with the machinery (reference, judgement of every statement, observation and probes after every event)
// of the schedules: session 1 sets up the objects the statement needs (autocommit), the catalog cache is warmed (an autocommit
// reader / an empty read-write COMMIT) or left cold (observers that roll back), session 0 opens a transaction and executes the
// DDL statement, session 1 observes and probes while it is open, then the transaction ends in the given way and a fresh
// session observes and probes again.
var d13MatrixKinds = []string{"create-table", "drop-table", "add-column", "drop-column", "rename-column", "rename-table", "create-index", "create-unique-index",
	"drop-index", "drop-constraint", "set-not-null", "drop-not-null", "truncate", "create-view", "drop-view", "create-seq", "drop-seq",
	"drop-table-with-check", "truncate-with-check", "drop-index-then-drop-column", "drop-index-of-doubly-indexed-column"}

var d13MatrixEndings = []string{"commit", "rollback", "failed-statement", "conflict-at-commit", "session-closed", "rollback-to-savepoint"}

func (c *d13Case) matrixCase(kind, ending string, warm bool) {
	r := c.r
	r.NextCase()
	env, err := sqlOpenEnv("c13m")
	if err != nil {
		r.Inconclusive = append(r.Inconclusive, "cannot open store: "+err.Error())
		return
	}
	c.env = env
	defer func() {
		c.closeAll("at the end of the case")
		env.close()
	}()
	c.ref = &d13DB{T: map[string]*d13Table{}, Views: map[string]string{}, Seqs: map[string]bool{}}
	c.vTaint, c.vDead = map[string]string{}, map[string]bool{}
	c.sess = []*d13Sess{{id: 0}, {id: 1}}
	c.policy = 0
	if warm {
		c.policy = 1
	}
	r.Count(fmt.Sprintf("ddl.matrix.%s.%s.warm=%v", kind, ending, warm))
	c.lastWhat = "on the fresh engine"
	a, b := c.sess[0], c.sess[1]
	// objects: tc has a NOT NULL column, a nullable one, a CHECK and a secondary index; tp is plain (DROP TABLE / TRUNCATE are driven on both:
	// with a CHECK they always failed before the repair of R22); an empty table for CREATE UNIQUE INDEX; a view and a sequence
	tc := &d13Stmt{K: "create-table", T: "tc", Cols: []d13Col{{Name: "a", Ty: "INTEGER", NotNull: true}, {Name: "b", Ty: "INTEGER"}, {Name: "s", Ty: "VARCHAR", Len: 16}, {Name: "n", Ty: "INTEGER"}},
		Checks: []d13Check{{Name: "ckb", Col: "b", Op: ">=", K: 0}}}
	tp := &d13Stmt{K: "create-table", T: "tp", Cols: []d13Col{{Name: "p", Ty: "INTEGER"}, {Name: "q", Ty: "VARCHAR", Len: 12}}}
	te := &d13Stmt{K: "create-table", T: "te", Cols: []d13Col{{Name: "u", Ty: "INTEGER"}}}
	setup := []*d13Stmt{tc, tp, te,
		{K: "create-index", T: "tc", ICols: []string{"s"}},
		{K: "insert", T: "tc", ID: 1, Names: []string{"a", "b", "s", "n"}, Vals: []d13Val{{i: 10}, {i: 11}, {isStr: true, s: "x1"}, {i: 12}}},
		{K: "insert", T: "tc", ID: 2, Names: []string{"a", "b", "s", "n"}, Vals: []d13Val{{i: 20}, {i: 21}, {isStr: true, s: "x2"}, {i: 22}}},
		{K: "insert", T: "tp", ID: 1, Names: []string{"p", "q"}, Vals: []d13Val{{i: 30}, {isStr: true, s: "y1"}}},
		{K: "create-view", T: "vw", T2: "tp"},
		{K: "create-seq", T: "qs"},
	}
	if kind == "drop-index-of-doubly-indexed-column" {
		setup = append(setup, &d13Stmt{K: "create-index", T: "tc", ICols: []string{"s", "b"}}) // s stays indexed when tc(s) is dropped
	}
	c.nextID, c.nextName, c.nextVal = 10, 100, 100
	c.quiet = true
	for _, st := range setup {
		if c.dead {
			return
		}
		c.autocommit(b, st)
	}
	c.quiet = false
	c.lastWhat = "after the set-up of the matrix case"
	if !c.observe(c.lastWhat, "C13:commit:state-differs-from-reference", "") || c.dead {
		return
	}
	var st *d13Stmt
	switch kind {
	case "create-table":
		st = &d13Stmt{K: "create-table", T: "tn", Cols: []d13Col{{Name: "z", Ty: "INTEGER", NotNull: true}}, Checks: []d13Check{{Name: "ckz", Col: "z", Op: ">=", K: 0}}}
	case "drop-table":
		st = &d13Stmt{K: "drop-table", T: "tp"}
	case "add-column":
		st = &d13Stmt{K: "add-column", T: "tc", Cols: []d13Col{{Name: "x", Ty: "INTEGER"}}}
	case "drop-column":
		st = &d13Stmt{K: "drop-column", T: "tc", C: "n"}
	case "rename-column":
		st = &d13Stmt{K: "rename-column", T: "tc", C: "n", C2: "m"}
	case "rename-table":
		st = &d13Stmt{K: "rename-table", T: "tp", T2: "tr"}
	case "create-index":
		st = &d13Stmt{K: "create-index", T: "tc", ICols: []string{"n"}}
	case "create-unique-index":
		st = &d13Stmt{K: "create-index", T: "te", ICols: []string{"u"}, Unique: true}
	case "drop-index":
		st = &d13Stmt{K: "drop-index", T: "tc", ICols: []string{"s"}}
	case "drop-constraint":
		st = &d13Stmt{K: "drop-constraint", T: "tc", C: "ckb"}
	case "set-not-null":
		st = &d13Stmt{K: "set-not-null", T: "tc", C: "n"}
	case "drop-not-null":
		st = &d13Stmt{K: "drop-not-null", T: "tc", C: "a"}
	case "truncate":
		st = &d13Stmt{K: "truncate", T: "tp"}
	case "create-view":
		st = &d13Stmt{K: "create-view", T: "vn", T2: "tp"}
	case "drop-view":
		st = &d13Stmt{K: "drop-view", T: "vw"}
	case "create-seq":
		st = &d13Stmt{K: "create-seq", T: "qn"}
	case "drop-seq":
		st = &d13Stmt{K: "drop-seq", T: "qs"}
	case "drop-table-with-check": // the table with the CHECK, the NOT NULL column, the secondary index and two rows
		st = &d13Stmt{K: "drop-table", T: "tc"}
	case "truncate-with-check":
		st = &d13Stmt{K: "truncate", T: "tc"}
	case "drop-index-then-drop-column", "drop-index-of-doubly-indexed-column":
		// R24 (repaired): inTxStmt compares COLUMNS('tc') inside the transaction right after the DROP INDEX (columnsAfterDropIndex)
		st = &d13Stmt{K: "drop-index", T: "tc", ICols: []string{"s"}}
	}
	if st == nil || c.dead {
		return
	}
	// cache state at the BEGIN of the DDL transaction: the setup ended with DDL commits (cache invalidated); the observers of policy 0
	// roll back (the cache stays cold), the autocommit readers of policy 1 have filled it; an empty read-write COMMIT fills it too
	if warm {
		c.begin(b)
		if c.dead || !b.inTx {
			return
		}
		b.kind = "empty"
		c.commit(b)
	}
	c.begin(a)
	if c.dead || !a.inTx {
		return
	}
	a.kind = "ddl"
	if ending == "rollback-to-savepoint" {
		res := c.exec(a.id, a.tx, "SAVEPOINT sa")
		if res.Err != "" || res.Tx == nil {
			return
		}
		a.tx = res.Tx
		a.sps = append(a.sps, d13SP{name: "sa", view: a.view.clone(), n: len(a.prog)})
	}
	c.inTxStmt(a, st)
	if kind == "drop-index-then-drop-column" && !c.dead && a.inTx {
		c.inTxStmt(a, &d13Stmt{K: "drop-column", T: "tc", C: "s"}) // no index needs the column any more
	}
	if c.dead || !a.inTx {
		return
	}
	// isolation: while the transaction is open the other sessions work with the committed catalog
	c.observe(fmt.Sprintf("session 1 reads outside a transaction while session 0 holds an open transaction that executed [%s]", st.sql()), "C13:isolation:dirty-or-lost-read", "")
	if c.dead {
		return
	}
	if dm := c.genDML(c.ref, nil); dm != nil {
		c.autocommit(b, dm) // a write of another session, judged by the committed catalog (may conflict with the open transaction)
	}
	if c.dead || !a.inTx {
		return
	}
	switch ending {
	case "commit":
		c.commit(a)
	case "rollback":
		c.rollback(a)
	case "failed-statement":
		c.inTxStmt(a, &d13Stmt{K: "insert", T: "nosuch", ID: 1})
	case "conflict-at-commit":
		c.autocommit(b, &d13Stmt{K: "add-column", T: "tc", Cols: []d13Col{{Name: "w", Ty: "INTEGER"}}})
		if !c.dead && a.inTx {
			c.commit(a)
		}
	case "session-closed":
		a.tx.Cancel()
		c.log(fmt.Sprintf("[s%d] -- session closed (tx.Cancel)", a.id))
		c.ending(a, "session-closed")
		a.reset()
		c.lastWhat = "after session 0 was closed with an open transaction"
		c.observe(c.lastWhat, "C13:rollback:left-trace", "")
	case "rollback-to-savepoint":
		res := c.exec(a.id, a.tx, "ROLLBACK TO SAVEPOINT sa")
		if res.Err != "" || res.Tx == nil {
			c.fail("C13:savepoint:rollback-to-existing-savepoint-fails", fmt.Sprintf("session 0: ROLLBACK TO SAVEPOINT sa fails with %s", res.Err))
			return
		}
		a.tx, a.engUpd = res.Tx, res.OpenUpd
		a.k1, a.k1ddl, a.viewLost = true, true, true
		a.prog, a.view, a.sps = a.prog[:0], a.sps[0].view.clone(), nil
		c.commit(a)
	}
	// the next transactions of the same engine, with no DDL in between, and a second engine
	if !c.dead {
		if dm := c.genDML(c.ref, nil); dm != nil {
			c.autocommit(b, dm)
		}
	}
	if !c.dead {
		c.observeCold("after the matrix case", "C13:rollback:left-trace", "")
	}
}

func runC13DDLMatrix(r *hx.Result, rng *hx.Rng, thorough bool) {
	for _, kind := range d13MatrixKinds {
		for _, ending := range d13MatrixEndings {
			states := []bool{rng.Intn(2) == 0}
			if thorough || kind == "drop-constraint" || strings.HasSuffix(kind, "not-null") {
				states = []bool{true, false} // what cannot be listed, only probed: both cache states in every run
			}
			for _, warm := range states {
				c := &d13Case{r: r, rng: rng.Fork()}
				c.matrixCase(kind, ending, warm)
			}
		}
	}
}

// What the engine commits for the statements of `prog` on the committed state `before`, given that ALTER COLUMN … SET|DROP NOT
// NULL is in force inside the transaction and has no durable effect (R18): every statement must be valid on the state WITH
// the flags (`live`); the outcome (`alt`) is the same statements without the ALTER COLUMNs, rows that are NULL in a column
// whose NOT NULL was dropped for the duration of the transaction included.
func d13EngineOutcome(before *d13DB, prog []d13Done) (*d13DB, bool) {
	live, alt, ok := before.clone(), before.clone(), true
	alt.loose = true
	for _, d := range prog {
		e, _ := live.apply(d.st)
		if e != "" && !d.st.isViewOrSeq() && d.st.K != "set-not-null" {
			ok = false
		}
		if d.st.K == "set-not-null" || d.st.K == "drop-not-null" {
			continue
		}
		alt.apply(d.st)
	}
	alt.loose = false
	return alt, ok
}
