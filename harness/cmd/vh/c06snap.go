package main

// C06 — multi-key reads are atomic snapshots.
//
// (1) ATOMIC-SNAPSHOT ORACLE (independent of the Lean model AND of c6model.observe): a multi-key answer (GetAll, Scan,
//     ZScan, Count, History) is taken apart into its entries.  From the reference log replay every entry (key, tx, value)
//     has a validity interval — the transaction ids t for which exactly that version is the newest one of the key — and
//     every key of the request that is missing from the answer has the set of t at which it does not exist / is deleted.
//     The answer is a state that existed iff ONE t lies in all of them (same t for all keys), and it is linearizable iff
//     such a t also lies in the real-time window [last write returned before the call, last write invoked before the
//     return].  An empty intersection needs no clock at all: the answer mixes two transactions.
// (2) GROUP PROBE: writers update whole GROUPS of keys with one transaction per round (multi-key Set, ExecAll with the
//     sorted-set entries, multi-key Delete, new keys arriving in bunches) so that in every committed state all keys of a
//     group carry the same round marker, while readers issue every multi-key read of the API over the groups (many keys
//     per call: one call is many index lookups).  Checked by c6check (one operation = one version) and by (1).

import (
	"bytes"
	"fmt"
	"sort"
	"strings"
	"sync"
	"sync/atomic"
	"time"

	"github.com/codenotary/immudb/embedded/store"
	"github.com/codenotary/immudb/pkg/api/schema"
	"github.com/codenotary/immudb/pkg/database"

	"verif/harness/internal/hx"
)

// ---------- sets of transaction ids as sorted disjoint closed intervals ----------

type ivset [][2]uint64

func (a ivset) isect(b ivset) ivset {
	var out ivset
	i, j := 0, 0
	for i < len(a) && j < len(b) {
		lo, hi := a[i][0], a[i][1]
		if b[j][0] > lo {
			lo = b[j][0]
		}
		if b[j][1] < hi {
			hi = b[j][1]
		}
		if lo <= hi {
			out = append(out, [2]uint64{lo, hi})
		}
		if a[i][1] < b[j][1] {
			i++
		} else {
			j++
		}
	}
	return out
}

func (a ivset) union(b ivset) ivset {
	all := append(append(ivset{}, a...), b...)
	sort.Slice(all, func(i, j int) bool { return all[i][0] < all[j][0] })
	var out ivset
	for _, iv := range all {
		if n := len(out); n > 0 && iv[0] <= out[n-1][1]+1 {
			if iv[1] > out[n-1][1] {
				out[n-1][1] = iv[1]
			}
		} else {
			out = append(out, iv)
		}
	}
	return out
}

func (a ivset) String() string {
	if len(a) == 0 {
		return "{}"
	}
	var ss []string
	for i, iv := range a {
		if i == 4 && len(a) > 6 {
			ss = append(ss, fmt.Sprintf("…%d more…", len(a)-5))
			continue
		}
		if i > 4 && i < len(a)-1 && len(a) > 6 {
			continue
		}
		if iv[0] == iv[1] {
			ss = append(ss, fmt.Sprintf("%d", iv[0]))
		} else {
			ss = append(ss, fmt.Sprintf("%d..%d", iv[0], iv[1]))
		}
	}
	return "{" + strings.Join(ss, ",") + "}"
}

// the transaction ids at which version (tx, val, del) is the NEWEST version of key
func (m *c6model) ivVersion(key []byte, tx uint64, val []byte, del bool) ivset {
	h := m.st.hist[string(key)]
	for i, v := range h {
		if v.Tx == tx {
			if v.Del != del || !bytes.Equal(v.Val, val) {
				return nil // no such version was ever written
			}
			end := m.max
			if i+1 < len(h) {
				end = h[i+1].Tx - 1
			}
			return ivset{{tx, end}}
		}
	}
	return nil
}

// the transaction ids at which key does not exist or its newest version is a deletion
func (m *c6model) ivAbsent(key []byte) ivset {
	h := m.st.hist[string(key)]
	if len(h) == 0 {
		return ivset{{0, m.max}}
	}
	out := ivset{}
	if h[0].Tx > 0 {
		out = append(out, [2]uint64{0, h[0].Tx - 1})
	}
	for i, v := range h {
		if !v.Del {
			continue
		}
		end := m.max
		if i+1 < len(h) {
			end = h[i+1].Tx - 1
		}
		out = out.union(ivset{{v.Tx, end}})
	}
	return out
}

// the transaction ids at which key has some version (deleted or not)
func (m *c6model) ivExists(key []byte) ivset {
	h := m.st.hist[string(key)]
	if len(h) == 0 {
		return nil
	}
	return ivset{{h[0].Tx, m.max}}
}

func (m *c6model) everRef(key []byte) bool {
	for i := range m.st.hist[string(key)] {
		if isRef(&m.st.hist[string(key)][i]) {
			return true
		}
	}
	return false
}

type c6cons struct {
	label string
	iv    ivset
}

func rowLabel(r c6row) string {
	val := r.Val
	if len(val) > 0 && val[0] == database.PlainValuePrefix {
		val = val[1:]
	}
	key := r.Key
	if len(key) > 0 && key[0] == database.SetKeyPrefix {
		key = key[1:]
	}
	return fmt.Sprintf("%s=%q written by tx %d", key, val, r.Tx)
}

// c6constraints: the answer of o, entry by entry; ok=false when the oracle does not apply to o (references involved,
// offsets, non-default History ranges …: those are left to c6check alone)
func (m *c6model) c6constraints(o *c6rec) (cons []c6cons, ok bool) {
	present := func(r c6row) c6cons {
		iv := m.ivVersion(r.Key, r.Tx, r.Val, false)
		l := rowLabel(r)
		if iv == nil {
			l += " (never written)"
		}
		return c6cons{l, iv}
	}
	absent := func(k []byte) c6cons {
		return c6cons{fmt.Sprintf("%s missing from the answer", k[1:]), m.ivAbsent(k)}
	}
	// answer rows are matched against the keys of the request IN ORDER (answers keep the order of the request / of the index)
	match := func(domain [][]byte, limit int) bool {
		ri := 0
		for _, k := range domain {
			if limit > 0 && ri >= limit {
				break
			}
			if m.everRef(k) {
				return false
			}
			if ri < len(o.Rows) && bytes.Equal(o.Rows[ri].Key, k) {
				if o.Rows[ri].IsRef {
					return false
				}
				cons = append(cons, present(o.Rows[ri]))
				ri++
			} else {
				cons = append(cons, absent(k))
			}
		}
		for ; ri < len(o.Rows); ri++ {
			cons = append(cons, c6cons{rowLabel(o.Rows[ri]) + " (not asked for / out of order)", nil})
		}
		return true
	}
	switch o.Kind {
	case "getall":
		var domain [][]byte
		for _, k := range o.Keys {
			domain = append(domain, sk(k))
		}
		return cons, match(domain, 0) && len(cons) > 0
	case "scan":
		if len(o.Spec.Pfx) == 0 || o.Offset != 0 {
			return nil, false
		}
		sp := c5spec{Pfx: sk(o.Spec.Pfx), InclSeek: o.Spec.InclSeek, InclEnd: o.Spec.InclEnd, Desc: o.Spec.Desc}
		if len(o.Spec.Seek) > 0 {
			sp.Seek = sk(o.Spec.Seek)
		}
		if len(o.Spec.End) > 0 {
			sp.End = sk(o.Spec.End)
		}
		var domain [][]byte
		for _, k := range m.st.keys() {
			if inRangeNat(sp, k) {
				domain = append(domain, k)
			}
		}
		if sp.Desc {
			for i, j := 0, len(domain)-1; i < j; i, j = i+1, j-1 {
				domain[i], domain[j] = domain[j], domain[i]
			}
		}
		return cons, match(domain, o.Limit) && len(cons) > 0
	case "zscan":
		// members in index order; a member is in the answer iff its index entry exists AND its key is readable
		prefix := database.WrapZAddReferenceAt(o.Set, 0, nil, 0)
		prefix = prefix[:len(prefix)-8-8-8]
		var zkeys [][]byte
		for _, k := range m.st.keys() {
			if bytes.HasPrefix(k, prefix) {
				zkeys = append(zkeys, k)
			}
		}
		if o.Desc {
			for i, j := 0, len(zkeys)-1; i < j; i, j = i+1, j-1 {
				zkeys[i], zkeys[j] = zkeys[j], zkeys[i]
			}
		}
		ri := 0
		for _, zk := range zkeys {
			key := zk[len(prefix)+16 : len(zk)-8]
			atTx := uint64(0)
			for _, b := range zk[len(zk)-8:] {
				atTx = atTx<<8 | uint64(b)
			}
			if atTx != 0 || m.everRef(key) {
				return nil, false
			}
			if ri < len(o.Rows) && bytes.Equal(o.Rows[ri].ZKey, zk) {
				r := o.Rows[ri]
				ri++
				c := present(r)
				c.iv = c.iv.isect(m.ivExists(zk))
				c.label = fmt.Sprintf("member %s with %s", key[1:], c.label)
				cons = append(cons, c)
			} else {
				cons = append(cons, c6cons{fmt.Sprintf("member %s (added by tx %d) missing from the answer", key[1:], m.st.hist[string(zk)][0].Tx),
					m.ivAbsent(zk).union(m.ivAbsent(key))})
			}
		}
		for ; ri < len(o.Rows); ri++ {
			cons = append(cons, c6cons{"member " + rowLabel(o.Rows[ri]) + " (no such member / out of order)", nil})
		}
		return cons, len(cons) > 0
	case "count":
		// the number of keys under the prefix never decreases (deleted keys are counted): one interval
		var firsts []uint64
		for _, k := range m.st.keys() {
			if bytes.HasPrefix(k, sk(o.Keys[0])) {
				firsts = append(firsts, m.st.hist[string(k)][0].Tx)
			}
		}
		sort.Slice(firsts, func(i, j int) bool { return firsts[i] < firsts[j] })
		var iv ivset
		if o.N <= len(firsts) {
			lo, hi := uint64(0), m.max
			if o.N > 0 {
				lo = firsts[o.N-1]
			}
			if o.N < len(firsts) {
				if firsts[o.N] == 0 || firsts[o.N]-1 < lo {
					return []c6cons{{fmt.Sprintf("count %d (no state has that many keys)", o.N), nil}}, true
				}
				hi = firsts[o.N] - 1
			}
			iv = ivset{{lo, hi}}
		}
		return []c6cons{{fmt.Sprintf("count %d", o.N), iv}}, true
	case "history":
		if o.Offset != 0 || o.Limit != 0 || o.Desc || len(o.Rows) == 0 {
			return nil, false
		}
		h := m.st.hist[string(sk(o.Keys[0]))]
		n := len(o.Rows)
		for i, r := range o.Rows {
			if i >= len(h) || h[i].Tx != r.Tx || h[i].Del != r.Del || (!isRef(&h[i]) && !bytes.Equal(h[i].Val, r.Val)) {
				return []c6cons{{fmt.Sprintf("version #%d of the answer (%s) is not version #%d of the key", i+1, rowLabel(r), i+1), nil}}, true
			}
		}
		hi := m.max
		if n < len(h) {
			hi = h[n].Tx - 1
		}
		return []c6cons{{fmt.Sprintf("%d versions, the newest by tx %d", n, h[n-1].Tx), ivset{{h[n-1].Tx, hi}}}}, true
	}
	return nil, false
}

type c6snapStats struct {
	Checked, Nontrivial int // nontrivial: the real-time window holds more than one version
	Concurrent          int // multi-key reads with a MULTI-KEY write on >= 2 of their keys taking effect inside the window
	MaxEntries          int
}

// c6snapshotOracle: run after c6check (uses the windows o.Lo/o.Hi it computed).  flagged = return times of the operations
// c6check has a verdict for (the non-torn classes are not reported twice).
func c6snapshotOracle(m *c6model, recs []*c6rec, flagged map[int64]string) ([]c6verdict, c6snapStats) {
	var out []c6verdict
	var st c6snapStats
	byID := map[uint64]*c6rec{}
	for _, o := range recs {
		if o.isWrite() && o.Err == "" {
			byID[o.ID] = o
		}
	}
	for _, o := range recs {
		if o.isWrite() || o.Err != "" {
			continue
		}
		cons, ok := m.c6constraints(o)
		if !ok {
			continue
		}
		st.Checked++
		if len(cons) > st.MaxEntries {
			st.MaxEntries = len(cons)
		}
		if o.Hi > o.Lo {
			st.Nontrivial++
			// a multi-key write on >= 2 keys of this answer's domain among the writes that may take effect during the call
			domain := map[string]bool{}
			for _, k := range o.Keys {
				domain[string(sk(k))] = true
			}
			for id := o.Lo + 1; id <= o.Hi && id <= o.Lo+64; id++ {
				w := byID[id]
				if w == nil || len(w.Entries) < 2 {
					continue
				}
				n := 0
				for _, e := range w.Entries {
					switch o.Kind {
					case "getall":
						if domain[string(e.Key)] {
							n++
						}
					case "scan":
						if bytes.HasPrefix(e.Key, sk(o.Spec.Pfx)) {
							n++
						}
					case "count":
						if bytes.HasPrefix(e.Key, sk(o.Keys[0])) {
							n++
						}
					case "zscan":
						n++
					}
				}
				if n >= 2 {
					st.Concurrent++
					break
				}
			}
		}
		all := ivset{{0, m.max}}
		emptiedBy := -1
		for i, c := range cons {
			all = all.isect(c.iv)
			if len(all) == 0 {
				emptiedBy = i
				break
			}
		}
		if o.Lo <= o.Hi && len(all.isect(ivset{{o.Lo, o.Hi}})) > 0 {
			continue
		}
		prev := flagged[o.Ret]
		switch {
		case emptiedBy >= 0:
			// no state at all: name two parts of the answer that never coexisted
			b := cons[emptiedBy]
			a := c6cons{"the entries before it", nil}
			run := ivset{{0, m.max}}
			for i := 0; i < emptiedBy; i++ {
				if len(cons[i].iv.isect(b.iv)) == 0 {
					a = cons[i]
					run = cons[i].iv
					break
				}
				run = run.isect(cons[i].iv)
			}
			if a.iv == nil {
				a.iv = run
			}
			if o.Kind == "zscan" {
				if prev == "C06:atomic-snapshot:zscan:members-and-entries-from-two-snapshots" {
					continue
				}
				if why := m.zTwoSnapshots(o, o.Lo, o.Hi); why != "" {
					out = append(out, c6verdict{"C06:atomic-snapshot:zscan:members-and-entries-from-two-snapshots", fmt.Sprintf("%s is %s", o, why), o.Ret})
					continue
				}
			}
			out = append(out, c6verdict{"C06:atomic-snapshot:" + o.Kind + ":mixes-two-transactions",
				fmt.Sprintf("the answer is a state that never existed: [%s] is the state only at tx %s, but [%s] only at tx %s (%d entries; window [%d,%d]) — %s",
					a.label, a.iv, b.label, b.iv, len(cons), o.Lo, o.Hi, o), o.Ret})
		case prev != "":
			// already reported by c6check
		case len(all) > 0 && all[len(all)-1][1] < o.Lo:
			out = append(out, c6verdict{"C06:read-after-write:stale", fmt.Sprintf("atomic-snapshot oracle: the answer is the state at tx %s, but write %d had returned before the call — %s", all, o.Lo, o), o.Ret})
		default:
			out = append(out, c6verdict{"C06:linearizability:violation", fmt.Sprintf("atomic-snapshot oracle: the answer is the state at tx %s, none of them in the window [%d,%d] — %s", all, o.Lo, o.Hi, o), o.Ret})
		}
	}
	return out, st
}

// ---------- the group probe ----------

type c6probeCfg struct {
	Name    string
	K       int // keys of the wide group g0
	Writers int // writers of g0
	Readers int
	Budget  time.Duration
	MaxOps  int  // recorded operations
	MaxTx   int  // stop writing after that many transactions
	Lean    bool // replay everything through the Lean model (only sensible for small K / few transactions)
}

func c6openWide(maxTxEntries int) (*c6run, error) {
	dir := hx.TempDir("c06")
	io := store.DefaultIndexOptions().WithMaxBulkSize(1).WithCacheSize(256).WithFlushBufferSize(1 << 16).
		WithMaxBufferedDataSize(1 << 22).WithMaxGlobalBufferedDataSize(1 << 24).WithMaxActiveSnapshots(200)
	so := store.DefaultOptions().WithLogger(quietLogger()).WithIndexOptions(io).WithSynced(false).WithMaxConcurrency(24).
		WithMaxTxEntries(maxTxEntries).WithMaxKeyLen(64).WithMaxValueLen(64).WithVLogCacheSize(0).WithTxLogCacheSize(16).
		WithWriteBufferSize(1 << 18).WithFileSize(1 << 22)
	opts := database.DefaultOptions().WithDBRootPath(dir).WithStoreOptions(so)
	d, err := database.NewDB("db", nil, opts, quietLogger())
	if err != nil {
		removeAll(dir)
		return nil, err
	}
	return &c6run{d: d, dir: dir, log: map[uint64][]c5row{}}, nil
}

func runC06GroupProbe(r *hx.Result, rng *hx.Rng, cfg c6probeCfg) error {
	r.NextCase()
	run, err := c6openWide(2*cfg.K + 64)
	if err != nil {
		return err
	}
	defer run.close()
	// g0: the wide group (members of sorted set z0 with fixed scores); g1: a small group whose sorted set z1 GROWS by one
	// member per round in the transaction that rewrites the group; n0/: keys arriving three at a time
	var g0, g1 [][]byte
	for i := 0; i < cfg.K; i++ {
		g0 = append(g0, []byte(fmt.Sprintf("g0/%04d", i)))
	}
	for i := 0; i < 5; i++ {
		g1 = append(g1, []byte(fmt.Sprintf("g1/%d", i)))
	}
	vals := func(n int, v string) [][]byte {
		out := make([][]byte, n)
		for i := range out {
			out[i] = []byte(v)
		}
		return out
	}
	run.do(&c6rec{Client: -1, Kind: "execall", Keys: g0, Vals: vals(len(g0), "r0"), Set: []byte("z0"), Score: 0, ZAll: true})
	run.do(&c6rec{Client: -1, Kind: "set", Keys: g1, Vals: vals(len(g1), "r0")})
	var stop int32
	var ntx, nops int64
	deadline := time.Now().Add(cfg.Budget)
	done := func() bool {
		return atomic.LoadInt32(&stop) != 0 || time.Now().After(deadline) || atomic.LoadInt64(&nops) >= int64(cfg.MaxOps)
	}
	var wg sync.WaitGroup
	subset := func(rg *hx.Rng, ks [][]byte, n int) [][]byte {
		if n > len(ks) {
			n = len(ks)
		}
		start, step := rg.Intn(len(ks)), 1+rg.Intn(3)
		seen := map[int]bool{}
		var out [][]byte
		for i := start; len(out) < n; i += step {
			j := i % len(ks)
			for seen[j] {
				j = (j + 1) % len(ks)
			}
			seen[j] = true
			out = append(out, ks[j])
		}
		return out
	}
	for w := 0; w < cfg.Writers+1; w++ {
		wg.Add(1)
		go func(w int, rg *hx.Rng) {
			defer wg.Done()
			grown := 0
			for round := 1; !done() && atomic.LoadInt64(&ntx) < int64(cfg.MaxTx); round++ {
				atomic.AddInt64(&ntx, 1)
				atomic.AddInt64(&nops, 1)
				mark := fmt.Sprintf("w%d.r%d", w, round)
				if w == cfg.Writers { // the writer of g1: the whole group + (up to 60 rounds) one NEW member of z1, in one transaction
					ks := append(append([][]byte{}, g1[round%len(g1):]...), g1[:round%len(g1)]...)
					o := &c6rec{Client: w, Kind: "execall", Keys: ks, Vals: vals(len(ks), mark)}
					if round <= 60 {
						o.Set, o.Score = []byte("z1"), float64(round) // ZAdd(z1, score = round, key = ks[0])
					}
					run.do(o)
					time.Sleep(time.Duration(rg.Intn(300)) * time.Microsecond)
					continue
				}
				switch x := rg.Intn(100); {
				case x < 40: // the whole group in one Set
					run.do(&c6rec{Client: w, Kind: "set", Keys: g0, Vals: vals(len(g0), mark)})
				case x < 60: // the whole group + its sorted-set entries in one ExecAll
					run.do(&c6rec{Client: w, Kind: "execall", Keys: g0, Vals: vals(len(g0), mark), Set: []byte("z0"), Score: 0, ZAll: true})
				case x < 78: // a part of the group
					ks := subset(rg, g0, 2+rg.Intn(len(g0)))
					run.do(&c6rec{Client: w, Kind: "set", Keys: ks, Vals: vals(len(ks), mark)})
				case x < 86 && grown < 40: // three new keys and a part of the group in one transaction
					ks := subset(rg, g0, 2+rg.Intn(4))
					for j := 0; j < 3; j++ {
						ks = append(ks, []byte(fmt.Sprintf("n0/%d.%03d.%d", w, grown, j)))
					}
					grown++
					run.do(&c6rec{Client: w, Kind: "set", Keys: ks, Vals: vals(len(ks), mark)})
				case x < 93: // multi-key Delete (the keys come back with the next whole-group round)
					run.do(&c6rec{Client: w, Kind: "del", Keys: subset(rg, g0, 2+rg.Intn(3))})
				default:
					ks := append(subset(rg, g0, 1+rg.Intn(3)), subset(rg, g1, 1+rg.Intn(2))...)
					run.do(&c6rec{Client: w, Kind: "execall", Keys: ks, Vals: vals(len(ks), mark)})
				}
			}
		}(w, rng.Fork())
	}
	var rg sync.WaitGroup
	for c := 0; c < cfg.Readers; c++ {
		rg.Add(1)
		go func(c int, rn *hx.Rng) {
			defer rg.Done()
			for !done() {
				atomic.AddInt64(&nops, 1)
				o := &c6rec{Client: 100 + c}
				switch x := rn.Intn(100); {
				case x < 34: // every key of the group, random rotation / direction
					o.Kind, o.Keys = "getall", subset(rn, g0, len(g0))
				case x < 44:
					o.Kind, o.Keys = "getall", append(subset(rn, g0, 2+rn.Intn(8)), subset(rn, g1, 1+rn.Intn(len(g1)))...)
				case x < 50:
					o.Kind, o.Keys = "getall", subset(rn, g1, len(g1))
				case x < 64:
					o.Kind, o.Spec = "scan", c5spec{Pfx: []byte("g0/"), Desc: rn.Chance(30)}
					if rn.Chance(25) {
						o.Limit = 1 + rn.Intn(len(g0))
					}
				case x < 68:
					o.Kind, o.Spec = "scan", c5spec{Pfx: []byte("g"), Desc: rn.Chance(30)}
				case x < 76:
					o.Kind, o.Set, o.Desc = "zscan", []byte("z0"), rn.Chance(30)
				case x < 84:
					o.Kind, o.Set, o.Desc = "zscan", []byte("z1"), rn.Chance(30)
				case x < 91:
					o.Kind, o.Keys = "count", [][]byte{[]byte("n0/")}
				case x < 93:
					o.Kind, o.Keys = "count", [][]byte{[]byte("g")}
				case x < 97:
					o.Kind, o.Keys, o.Desc, o.Limit = "history", subset(rn, g0, 1), true, 1+rn.Intn(6)
				default:
					o.Kind, o.Keys = "get", subset(rn, g0, 1)
				}
				run.do(o)
			}
		}(c, rng.Fork())
	}
	rg.Wait()
	atomic.StoreInt32(&stop, 1)
	wg.Wait()

	recs := run.recs
	sort.Slice(recs, func(i, j int) bool { return recs[i].Call < recs[j].Call })
	c6diagCap = 8
	m, verdicts := c6check(recs, run.log)
	c6diagCap = 1 << 30
	flagged := map[int64]string{}
	for _, v := range verdicts {
		if v.Ret != 0 {
			flagged[v.Ret] = v.Sig
		}
	}
	sv, st := c6snapshotOracle(m, recs, flagged)
	verdicts = append(verdicts, sv...)
	r.OracleChecks += len(recs) + st.Checked
	for _, o := range recs {
		r.Count("groupprobe.op." + o.Kind)
		if o.Err != "" {
			cls := o.Err
			if strings.HasPrefix(cls, "other:") || strings.HasPrefix(cls, "panic:") {
				r.Notes = append(r.Notes, cfg.Name+": "+o.String())
				cls = cls[:5]
			}
			r.Count("groupprobe.err." + o.Kind + "." + cls)
		}
		if strings.HasPrefix(o.Err, "panic:") {
			r.Fail("C06:panic:database-api", o.String(), map[string]interface{}{"probe": cfg.Name, "op": o.String()})
		}
	}
	r.CountN("groupprobe.transactions", int(m.max))
	r.CountN("snapshot-oracle.checked", st.Checked)
	r.CountN("snapshot-oracle.window>1-version", st.Nontrivial)
	r.CountN("snapshot-oracle.multi-key-write-inside-window", st.Concurrent)
	if st.MaxEntries > r.Distribution["snapshot-oracle.max-entries-per-answer"] {
		r.Distribution["snapshot-oracle.max-entries-per-answer"] = st.MaxEntries
	}
	r.Eval(cfg.Name, st.Concurrent > 0)
	seen := map[string]int{}
	for _, v := range verdicts {
		r.Count("groupprobe.violations")
		seen[v.Sig]++
		if seen[v.Sig] <= 2 {
			r.Fail(v.Sig, cfg.Name+": "+v.Desc, c6probeReplay(cfg, recs, v))
		}
	}
	if cfg.Lean {
		c6corrHistory(r, m, recs, run.log)
		return r.Flush()
	}
	return nil
}

// the replay of a probe verdict: the probe, the failing call, and the transactions (as issued) the answer could stem from
func c6probeReplay(cfg c6probeCfg, recs []*c6rec, v c6verdict) interface{} {
	rp := map[string]interface{}{
		"probe": fmt.Sprintf("%s: %d writers rewrite the %d keys g0/0000.. with ONE transaction per round (multi-key Set / ExecAll incl. the sorted-set entries of z0 / "+
			"multi-key Delete / new keys n0/… three at a time), one writer rewrites g1/0..4 and adds one member to z1 per round; %d readers loop over "+
			"GetAll(all keys of g0 | parts of g0+g1) / Scan(prefix) / ZScan(z0|z1) / Count / History / Get", cfg.Name, cfg.Writers, cfg.K, cfg.Readers),
		"violation": v.Desc,
	}
	for _, o := range recs {
		if o.Ret == v.Ret && v.Ret != 0 {
			rp["call"] = o.String()
			var ans []string
			for i, x := range o.Rows {
				if len(o.Rows) > 40 && i >= 30 && i < len(o.Rows)-5 {
					if i == 30 {
						ans = append(ans, fmt.Sprintf("…%d more…", len(o.Rows)-35))
					}
					continue
				}
				ans = append(ans, rowLabel(x))
			}
			rp["answer"] = ans
			var ws []string
			for _, w := range recs {
				if w.isWrite() && w.Err == "" && w.ID+1 >= o.Lo && w.ID <= o.Hi+1 && len(ws) < 12 {
					ws = append(ws, w.String())
				}
			}
			rp["transactions-around-the-call"] = ws
		}
	}
	return rp
}

// ---------- self-test of the atomic-snapshot oracle ----------

func c6SnapSelfTest(r *hx.Result) {
	set := func(call, ret int64, id uint64, val string, keys ...string) *c6rec {
		o := &c6rec{Client: 0, Call: call, Ret: ret, Kind: "set", ID: id}
		var es []*store.EntrySpec
		for _, k := range keys {
			o.Keys = append(o.Keys, []byte(k))
			o.Vals = append(o.Vals, []byte(val))
			es = append(es, database.EncodeEntrySpec([]byte(k), nil, []byte(val)))
		}
		o.Entries = specEntries(es...)
		return o
	}
	getall := func(call, ret int64, rows ...c6row) *c6rec {
		o := &c6rec{Client: 1, Call: call, Ret: ret, Kind: "getall", Keys: [][]byte{[]byte("a"), []byte("b"), []byte("c")}, Rows: rows}
		var es []*schema.Entry
		for _, x := range rows {
			es = append(es, &schema.Entry{Key: x.Key[1:], Tx: x.Tx, Value: x.Val[1:]})
		}
		o.Res = c6entriesStr(es)
		return o
	}
	row := func(k, v string, tx uint64) c6row { return c6row{Key: sk([]byte(k)), Tx: tx, Val: sv([]byte(v))} }
	type tc struct {
		name string
		recs []*c6rec
		sig  string // "" = must pass
	}
	w1, w2 := func() *c6rec { return set(1, 2, 1, "x", "a", "b", "c") }, func() *c6rec { return set(3, 10, 2, "y", "a", "b", "c") }
	tests := []tc{
		{"snapshot-ok-old", []*c6rec{w1(), w2(), getall(4, 5, row("a", "x", 1), row("b", "x", 1), row("c", "x", 1))}, ""},
		{"snapshot-ok-new", []*c6rec{w1(), w2(), getall(4, 5, row("a", "y", 2), row("b", "y", 2), row("c", "y", 2))}, ""},
		{"torn", []*c6rec{w1(), w2(), getall(4, 5, row("a", "x", 1), row("b", "y", 2), row("c", "y", 2))}, "C06:atomic-snapshot:getall:mixes-two-transactions"},
		{"torn-missing-key", []*c6rec{set(1, 2, 1, "x", "a"), set(3, 10, 2, "y", "a", "b", "c"), getall(4, 5, row("a", "x", 1), row("c", "y", 2))}, "C06:atomic-snapshot:getall:mixes-two-transactions"},
		{"stale", []*c6rec{w1(), set(3, 4, 2, "y", "a", "b", "c"), getall(5, 6, row("a", "x", 1), row("b", "x", 1), row("c", "x", 1))}, "C06:read-after-write:stale"},
		{"fabricated", []*c6rec{w1(), getall(4, 5, row("a", "x", 1), row("b", "q", 1), row("c", "x", 1))}, "C06:atomic-snapshot:getall:mixes-two-transactions"},
	}
	for _, t := range tests {
		log := map[uint64][]c5row{}
		for _, o := range t.recs {
			if o.isWrite() {
				log[o.ID] = o.Entries
			}
		}
		m, vs := c6check(t.recs, log)
		svs, _ := c6snapshotOracle(m, t.recs, map[int64]string{})
		found := t.sig == "" && len(svs) == 0 && len(vs) == 0
		for _, v := range svs {
			if v.Sig == t.sig {
				found = true
			}
		}
		if t.sig != "" && len(vs) == 0 {
			found = false // c6check (one operation = one version) must reject it as well
		}
		r.Count("selftest.run")
		if !found {
			r.Inconclusive = append(r.Inconclusive, "atomic-snapshot oracle self-test "+t.name+" failed")
		}
	}
}
