package main

// C07 — concurrent exporters (strengthening after the seeded change c07-b).
//
// A primary serves several replicas AT THE SAME TIME: pkg/server StreamExportTx -> database.ExportTxByID ->
// store.ExportTx runs once per connected replica (and per ExportTx/StreamExportTx client), all on ONE store, while
// clients keep committing. Everything store-wide that ExportTx touches is then shared between the calls (the scratch
// buffer for values up to DefaultMaxValueLen and its mutex, the value cache, the value-log handles, the tx-log cache).
// The first version of the check only ever had ONE ExportTx call in flight (measured: c07ExportMeasure).
//
// Scenario (c07Exporters): one real primary store whose committed transactions the harness knows (ground truth = what
// it passed to Set / WithMetadata and the header Commit returned); N = 2..12 exporter goroutines, each with its own Tx
// holder and its own random stream (a function of the seed), export overlapping and different tx ids — catch-up sweeps
// from staggered offsets, windows, a few "hot" ids everybody asks for, random ids, the newest ids — with and without
// skipIntegrityCheck, with runtime.Gosched / short sleeps drawn from the seed between the calls, while committer
// goroutines append further transactions (values of every size around the scratch-buffer boundary: 1..4096, 4097+,
// empty). On a store with small value-log files the same is repeated after TruncateUptoTx (exports by digest and the
// "partially truncated" error exits of the entry loop).
//
// ORACLE (model independent):
//   - the strictly sequential export of every tx (taken when nothing else runs) parses — with the harness's own frame
//     parser — to the committed header, keys, kv-metadata and VALUES (or their digests after a truncation), and the
//     sequential export taken before the concurrent phase equals the one taken after it;
//   - EVERY answer an exporter got for tx id t (bytes or error class) is identical to the sequential answer for t;
//   - each exporter's stream (the first answer it got for every id) is fed to a replica of its own (integrity check on,
//     some with skipIntegrityCheck): the replica must accept every tx and end with the primary's id, Alh, entries and
//     the committed values for every id;
//   - liveness: the exporters make progress (no ExportTx call outlives the bound: `C07:ExportTx:hang`, e.g. the
//     scratch-buffer mutex left locked on an error exit), and the sequential exports afterwards run under c07Live.
// TIE: the committed transaction goes through the Lean writer (`c15 xp.enc`, Tx/Export.lean `exportTx`) and must give
// every distinct byte string the concurrent exporters returned for it; those bytes go through the Lean parser
// (`c07 parse`) and writer again (`c07 xrt`) — Props/C07.lean `exports_of_same_tx_equal`, `export_determines_tx`,
// `concurrent_exports_match_sequential`.

import (
	"bytes"
	"context"
	"crypto/sha256"
	"errors"
	"fmt"
	"os"
	"path/filepath"
	"runtime"
	"sort"
	"strings"
	"sync"
	"sync/atomic"
	"time"

	"github.com/codenotary/immudb/embedded/store"

	"verif/harness/internal/hx"
)

// ------------------------------------------------------------------ ground truth

type c07xTx struct {
	id      uint64
	entries []c15xEntry
	hdr     *store.TxHeader // what Commit returned
	alh     [32]byte
	live    bool // committed while the exporters were running
}

type c07xSpec struct {
	ver      int
	mode     int // 0 embedded values, 1 value logs, 2 value logs with small files (+ TruncateUptoTx afterwards)
	nExp     int // exporter goroutines
	nCommit  int // committer goroutines
	n0       int // transactions committed before the exporters start
	nLive    int // transactions committed while they run
	rounds   int // rounds per exporter after its catch-up sweep
	maxVal   int
	maxEnt   int
	maxKey   int
	vcache   int  // value-log cache entries (0 = none, the default)
	smallBuf bool // 64 KiB write buffers instead of 4 MiB (more reads are served from the files)
}

func (sp c07xSpec) String() string {
	return fmt.Sprintf("v%d.%s exporters=%d committers=%d txs=%d+%d rounds=%d maxVal=%d maxEnt=%d vcache=%d smallBuf=%v",
		sp.ver, []string{"embedded", "vlog", "vlog-smallfiles"}[sp.mode], sp.nExp, sp.nCommit, sp.n0, sp.nLive, sp.rounds, sp.maxVal, sp.maxEnt, sp.vcache, sp.smallBuf)
}

// sizes around the boundaries of the format and of the store-wide scratch buffer (DefaultMaxValueLen = 4096)
var c07xSizes = []int{1, 2, 3, 31, 32, 33, 63, 64, 65, 255, 256, 257, 1023, 1024, 1025, 2047, 2048, 4094, 4095, 4096, 4097, 4098}

func c07xGenVal(rng *hx.Rng, sp c07xSpec) []byte {
	if sp.mode == 2 {
		return rng.Bytes(150 + rng.Intn(500))
	}
	n := 0
	switch k := rng.Intn(100); {
	case k < 8:
		return nil
	case k < 28:
		n = c07xSizes[rng.Intn(len(c07xSizes))]
	case k < 40:
		n = sp.maxVal - rng.Intn(2) // beyond the scratch buffer: ExportTx reads these into a private buffer
	case k < 62:
		n = store.DefaultMaxValueLen - rng.Intn(1200) // just fits the scratch buffer
	case k < 85:
		n = 1 + rng.Intn(store.DefaultMaxValueLen)
	default:
		n = 1 + rng.Size(300)
	}
	if n > sp.maxVal {
		n = sp.maxVal
	}
	if n < 0 {
		n = 0
	}
	return rng.Bytes(n)
}

func c07xGenTx(rng *hx.Rng, sp c07xSpec, tag string) []c15xEntry {
	ne := 1 + rng.Intn(sp.maxEnt)
	if rng.Chance(40) {
		ne = sp.maxEnt - rng.Intn(3)
	}
	if sp.mode == 2 {
		ne = 1 + rng.Intn(4)
	}
	if ne < 1 {
		ne = 1
	}
	var es []c15xEntry
	for e := 0; e < ne; e++ {
		key := []byte(fmt.Sprintf("%s.%d.", tag, e))
		if room := sp.maxKey - len(key); room > 0 {
			key = append(key, rng.Bytes(rng.Intn(min(room, 24)+1))...)
		}
		es = append(es, c15xEntry{key: key, md: c15xGenMd(rng, sp.ver), val: c07xGenVal(rng, sp)})
	}
	return es
}

// ------------------------------------------------------------------ the primary

type c07xPrim struct {
	sp       c07xSpec
	dir      string
	st       *c07Store
	mu       sync.Mutex // guards txs (committers append, everybody else reads after the phase or up to `published`)
	txs      []*c07xTx  // txs[id-1]
	clock    int64
	seq      int64
	commitMu sync.Mutex // one Commit at a time (the commits race with the exports, not with each other)
}

func (p *c07xPrim) tx(id uint64) *c07xTx {
	p.mu.Lock()
	defer p.mu.Unlock()
	if id == 0 || int(id) > len(p.txs) {
		return nil
	}
	return p.txs[id-1]
}

func (p *c07xPrim) count() uint64 {
	p.mu.Lock()
	defer p.mu.Unlock()
	return uint64(len(p.txs))
}

func c07xOpenPrimary(r *hx.Result, rng *hx.Rng, sp c07xSpec) (*c07xPrim, error) {
	p := &c07xPrim{sp: sp, dir: hx.TempDir("c07x")}
	opts := store.DefaultOptions().WithSynced(false).WithMaxConcurrency(sp.nExp + sp.nCommit + 6).WithWriteTxHeaderVersion(sp.ver).
		WithLogger(quietLogger()).WithMaxValueLen(sp.maxVal).WithMaxKeyLen(sp.maxKey).WithMaxTxEntries(sp.maxEnt).
		WithVLogCacheSize(sp.vcache).
		WithTimeFunc(func() time.Time { return time.Unix(1_700_000_000+atomic.AddInt64(&p.clock, 1), 0) })
	switch sp.mode {
	case 0:
		opts = opts.WithEmbeddedValues(true).WithFileSize(1 << (14 + rng.Intn(6)))
	case 1:
		opts = opts.WithEmbeddedValues(false).WithFileSize(1 << (14 + rng.Intn(6))).WithMaxIOConcurrency(1 + rng.Intn(3))
	default:
		opts = opts.WithEmbeddedValues(false).WithFileSize(512).WithMaxIOConcurrency(1)
	}
	if sp.smallBuf {
		opts = opts.WithWriteBufferSize(1 << 16).WithAHTOptions(store.DefaultAHTOptions().WithWriteBufferSize(1 << 16))
	}
	st, err := c07OpenStore(r, filepath.Join(p.dir, "p"), opts)
	if err != nil {
		os.RemoveAll(p.dir)
		return nil, err
	}
	p.st = st
	return p, nil
}

func (p *c07xPrim) close() {
	if p.st != nil {
		p.st.Close()
	}
	os.RemoveAll(p.dir)
}

// commit one generated transaction (any goroutine; touches only p). The ground truth is recorded before the id is
// published to the exporters.
func (p *c07xPrim) commit(rng *hx.Rng, live bool) (*c07xTx, error) {
	p.commitMu.Lock()
	defer p.commitMu.Unlock()
	k := atomic.AddInt64(&p.seq, 1)
	es := c07xGenTx(rng, p.sp, fmt.Sprintf("t%d", k))
	ctx, cancel := context.WithTimeout(context.Background(), c07Bound())
	defer cancel()
	raw := p.st.raw
	tx, err := raw.NewWriteOnlyTx(ctx)
	if err != nil {
		return nil, fmt.Errorf("NewWriteOnlyTx: %w", err)
	}
	for _, e := range es {
		if err := tx.Set(e.key, e.md.build(), e.val); err != nil {
			tx.Cancel()
			return nil, fmt.Errorf("Set(%s, %s, value[%d]): %w", hx.Hex(e.key), e.md.kind(), len(e.val), err)
		}
	}
	if p.sp.ver == 1 && rng.Chance(30) {
		md := store.NewTxMetadata()
		if rng.Chance(70) {
			md.WithExtra(rng.Bytes(1 + rng.Size(60)))
		}
		if rng.Chance(40) {
			md.WithTruncatedTxID(uint64(1 + rng.Intn(int(k))))
		}
		tx.WithMetadata(md)
	}
	h, err := tx.Commit(ctx)
	if err != nil {
		return nil, fmt.Errorf("Commit: %w", err)
	}
	t := &c07xTx{id: h.ID, entries: es, hdr: h, alh: h.Alh(), live: live}
	p.mu.Lock()
	defer p.mu.Unlock()
	if int(h.ID) != len(p.txs)+1 {
		return nil, fmt.Errorf("Commit returned tx id %d, %d transactions were committed before", h.ID, len(p.txs))
	}
	p.txs = append(p.txs, t)
	return t, nil
}

// ------------------------------------------------------------------ answers

// one ExportTx call as far as its answer may depend on it: (id, skipIntegrityCheck)
type c07xKey struct {
	id   uint64
	skip bool
}

func (k c07xKey) String() string { return fmt.Sprintf("ExportTx(%d, false, %v, holder)", k.id, k.skip) }

// one answer of ExportTx: the bytes, or the error class
type c07xAns struct {
	b   []byte
	err string // "" = ok
}

func (a c07xAns) eq(o c07xAns) bool { return a.err == o.err && bytes.Equal(a.b, o.b) }

func (a c07xAns) String() string {
	if a.err != "" {
		return a.err
	}
	return fmt.Sprintf("%d bytes %s", len(a.b), c07Short(hx.Hex(a.b)))
}

func c07xErrClass(err error) string {
	if err == nil {
		return ""
	}
	if strings.Contains(err.Error(), "partially truncated") {
		return "err:partially-truncated"
	}
	return c07Class(err)
}

func c07xExportRaw(st *store.ImmuStore, id uint64, skip bool, holder *store.Tx) (a c07xAns, panicked string) {
	defer func() {
		if x := recover(); x != nil {
			panicked = fmt.Sprint(x)
		}
	}()
	b, err := st.ExportTx(id, false, skip, holder)
	if err != nil {
		return c07xAns{err: c07xErrClass(err)}, ""
	}
	return c07xAns{b: b}, ""
}

// a deviation seen by an exporter goroutine (reported by the owner of the Result afterwards)
type c07xBad struct {
	g, round, call int
	id             uint64
	skip           bool
	got, want      c07xAns
	wantFrom       string   // "sequential reference" | "this exporter's earlier export"
	others         []uint64 // tx ids the other exporters had in flight when the answer came back
	panicked       string
}

// ------------------------------------------------------------------ one concurrent phase

type c07xPhase struct {
	p         *c07xPrim
	name      string
	ref       map[c07xKey]c07xAns // sequential answers known before the phase (ids committed before it)
	published uint64              // atomic: ids 1..published may be exported
	stop      int32               // atomic
	calls     int64               // atomic: ExportTx calls made
	inflight  int32               // atomic
	maxIn     int32               // atomic
	overlap   int64               // atomic
	cur       []uint64            // atomic per exporter: id in flight (0 = none)
	roundsEnd int32               // atomic: exporters that finished their rounds
	commitEnd int32               // atomic: committers that are done
	first     []map[c07xKey]c07xAns
	nCalls    []int
	bad       [][]c07xBad
	cErr      []error // committer errors
}

func (ph *c07xPhase) enter(g int, id uint64) {
	atomic.StoreUint64(&ph.cur[g], id)
	n := atomic.AddInt32(&ph.inflight, 1)
	if n > 1 {
		atomic.AddInt64(&ph.overlap, 1)
	}
	for {
		m := atomic.LoadInt32(&ph.maxIn)
		if n <= m || atomic.CompareAndSwapInt32(&ph.maxIn, m, n) {
			break
		}
	}
}

func (ph *c07xPhase) leave(g int) {
	atomic.AddInt32(&ph.inflight, -1)
	atomic.StoreUint64(&ph.cur[g], 0)
	atomic.AddInt64(&ph.calls, 1)
}

func c07xPause(rng *hx.Rng, style int) {
	switch style {
	case 0: // tight loop
	case 1:
		if rng.Chance(30) {
			runtime.Gosched()
		}
	case 2:
		runtime.Gosched()
	default:
		switch k := rng.Intn(100); {
		case k < 60:
		case k < 85:
			runtime.Gosched()
		default:
			time.Sleep(time.Duration(1+rng.Intn(40)) * time.Microsecond)
		}
	}
}

func c07xSkipOf(g int) bool { return g%3 == 2 }

// exporter g: one goroutine = one replica being served / one ExportTx client
func (ph *c07xPhase) exporter(g int, rng *hx.Rng, hot []uint64, followCommitters bool) {
	p, sp := ph.p, ph.p.sp
	raw := p.st.raw
	holder := store.NewTx(sp.maxEnt, sp.maxKey)
	first := ph.first[g]
	call := 0
	one := func(round int, id uint64, skip bool) bool {
		if atomic.LoadInt32(&ph.stop) != 0 {
			return false
		}
		ph.enter(g, id)
		a, pan := c07xExportRaw(raw, id, skip, holder)
		var others []uint64
		for i := range ph.cur {
			if i != g {
				if o := atomic.LoadUint64(&ph.cur[i]); o != 0 {
					others = append(others, o)
				}
			}
		}
		ph.leave(g)
		call++
		key := c07xKey{id, skip}
		want, from, have := ph.ref[key], "the sequential export", false
		if _, ok := ph.ref[key]; ok {
			have = true
		} else if f, ok := first[key]; ok {
			want, from, have = f, "this exporter's own earlier export", true
		}
		if _, ok := first[key]; !ok {
			first[key] = a
		}
		if pan != "" || (have && !a.eq(want)) {
			ph.bad[g] = append(ph.bad[g], c07xBad{g: g, round: round, call: call, id: id, skip: skip, got: a, want: want, wantFrom: from, others: others, panicked: pan})
			atomic.StoreInt32(&ph.stop, 1)
			return false
		}
		return true
	}
	defer func() { ph.nCalls[g] = call }()
	pub := func() uint64 { return atomic.LoadUint64(&ph.published) }
	// a replica configured with replication-skip-integrity-check asks for skipIntegrityCheck exports (every third one);
	// in the mixed rounds everybody asks for both kinds
	mySkip := c07xSkipOf(g)
	skipOf := func() bool { return rng.Chance(25) != mySkip }
	// round 0: catch up with the history from a staggered offset, as a replica that connects
	style := rng.Intn(4)
	if n := pub(); n > 0 {
		off := uint64((g * (1 + rng.Intn(3))) % int(n))
		for k := uint64(0); k < n; k++ {
			if !one(0, 1+(off+k)%n, mySkip) {
				return
			}
			c07xPause(rng, style)
		}
	}
	for round := 1; round <= sp.rounds; round++ {
		style = rng.Intn(4)
		n := pub()
		if n == 0 {
			break
		}
		switch rng.Intn(5) {
		case 0: // a window, ascending
			a := uint64(1 + rng.Intn(int(n)))
			w := uint64(1 + rng.Intn(8))
			for id := a; id < a+w && id <= n; id++ {
				if !one(round, id, skipOf()) {
					return
				}
				c07xPause(rng, style)
			}
		case 1: // the ids every exporter keeps asking for
			for k := 0; k < 6; k++ {
				if !one(round, hot[rng.Intn(len(hot))], skipOf()) {
					return
				}
				c07xPause(rng, style)
			}
		case 2: // random ids
			for k := 0; k < 6; k++ {
				if !one(round, uint64(1+rng.Intn(int(n))), skipOf()) {
					return
				}
				c07xPause(rng, style)
			}
		case 3: // the newest ones
			for id := n; id > 0 && id+4 > n; id-- {
				if !one(round, id, skipOf()) {
					return
				}
				c07xPause(rng, style)
			}
		default: // one id again and again (two exporters doing this on different ids alternate on the scratch buffer)
			id := uint64(1 + rng.Intn(int(n)))
			for k := 0; k < 5; k++ {
				if !one(round, id, skipOf()) {
					return
				}
				c07xPause(rng, style)
			}
		}
	}
	atomic.AddInt32(&ph.roundsEnd, 1)
	// follow the committers until they are done, then complete the stream: every id at least once
	for followCommitters && atomic.LoadInt32(&ph.commitEnd) < int32(sp.nCommit) && atomic.LoadInt32(&ph.stop) == 0 {
		n := pub()
		id := uint64(1 + rng.Intn(int(n)))
		if _, ok := first[c07xKey{n, mySkip}]; !ok {
			id = n
		}
		if !one(sp.rounds+1, id, mySkip) {
			return
		}
		c07xPause(rng, 3)
	}
	for id, n := uint64(1), pub(); id <= n; id++ {
		if _, ok := first[c07xKey{id, mySkip}]; !ok {
			if !one(sp.rounds+2, id, mySkip) {
				return
			}
		}
	}
}

// committer c: appends transactions while the exporters run, paced by THEIR progress (no wall clock)
func (ph *c07xPhase) committer(c int, rng *hx.Rng, n int, callsPerCommit int64) {
	defer atomic.AddInt32(&ph.commitEnd, 1)
	for i := 0; i < n && atomic.LoadInt32(&ph.stop) == 0; i++ {
		target := int64(i+1) * callsPerCommit
		for atomic.LoadInt64(&ph.calls) < target && atomic.LoadInt32(&ph.stop) == 0 && atomic.LoadInt32(&ph.roundsEnd) < int32(ph.p.sp.nExp) {
			if rng.Chance(50) {
				runtime.Gosched()
			} else {
				time.Sleep(time.Duration(20+rng.Intn(80)) * time.Microsecond)
			}
		}
		t, err := ph.p.commit(rng, true)
		if err != nil {
			ph.cErr[c] = err
			atomic.StoreInt32(&ph.stop, 1)
			return
		}
		// ids are published in order: commit() appends under commitMu, so t.id-1 was published by its committer or is about to
		for atomic.LoadUint64(&ph.published) != t.id-1 && atomic.LoadInt32(&ph.stop) == 0 {
			runtime.Gosched()
		}
		atomic.StoreUint64(&ph.published, t.id)
	}
}

// run the phase: exporters (+ committers) until all are done; the watchdog looks at PROGRESS (ExportTx calls completed),
// so a busy machine does not matter and a call that never returns does.
func (ph *c07xPhase) run(r *hx.Result, rng *hx.Rng, nLive int, hot []uint64) {
	p, sp := ph.p, ph.p.sp
	ph.cur = make([]uint64, sp.nExp)
	ph.first = make([]map[c07xKey]c07xAns, sp.nExp)
	ph.nCalls = make([]int, sp.nExp)
	ph.bad = make([][]c07xBad, sp.nExp)
	nCommit := sp.nCommit
	if nLive == 0 {
		nCommit = 0
	}
	ph.cErr = make([]error, nCommit+1)
	atomic.StoreUint64(&ph.published, p.count())
	var wg sync.WaitGroup
	for g := 0; g < sp.nExp; g++ {
		ph.first[g] = map[c07xKey]c07xAns{}
		wg.Add(1)
		go func(g int, rg *hx.Rng) {
			defer wg.Done()
			ph.exporter(g, rg, hot, nCommit > 0)
		}(g, rng.Fork())
	}
	if nCommit == 0 {
		atomic.StoreInt32(&ph.commitEnd, int32(sp.nCommit))
	} else {
		// expected number of calls of the exporters' rounds (about 5.5 per round + the catch-up sweep)
		expected := int64(sp.nExp) * (int64(p.count()) + int64(sp.rounds)*5)
		per := expected / int64(nLive+1)
		if per < 1 {
			per = 1
		}
		atomic.StoreInt32(&ph.commitEnd, int32(sp.nCommit-nCommit))
		for c := 0; c < nCommit; c++ {
			n := nLive / nCommit
			if c == 0 {
				n += nLive % nCommit
			}
			wg.Add(1)
			go func(c int, rg *hx.Rng, n int) {
				defer wg.Done()
				ph.committer(c, rg, n, per*int64(nCommit))
			}(c, rng.Fork(), n)
		}
	}
	c07T("%s: %d exporters x (catch-up + %d rounds), %d committers appending %d txs, %d txs before", ph.name, sp.nExp, sp.rounds, nCommit, nLive, p.count())
	done := make(chan struct{})
	go func() { wg.Wait(); close(done) }()
	last, lastAt := int64(-1), time.Now()
	pubLast, pubAt := uint64(0), time.Now()
	tick := time.NewTicker(50 * time.Millisecond)
	defer tick.Stop()
	for {
		select {
		case <-done:
			return
		case <-tick.C:
			// the committers: once every exporter only follows them, a new id has to be published within the bound
			if pub := atomic.LoadUint64(&ph.published); pub != pubLast || atomic.LoadInt32(&ph.roundsEnd) < int32(sp.nExp) {
				pubLast, pubAt = pub, time.Now()
			} else if atomic.LoadInt32(&ph.commitEnd) < int32(sp.nCommit) && time.Since(pubAt) > c07Bound() {
				atomic.StoreInt32(&ph.stop, 1)
				c07T("Commit of tx %d did not return", pub+1)
				c07ReportHang(r, "Commit", fmt.Sprintf(" (%s, primary %s: tx %d is being committed while %d exporters keep calling ExportTx; %d calls so far)", ph.name, sp, pub+1, sp.nExp, atomic.LoadInt64(&ph.calls)))
				panic(c07Hang{"Commit"})
			}
			if c := atomic.LoadInt64(&ph.calls) + int64(atomic.LoadUint64(&ph.published)); c != last {
				last, lastAt = c, time.Now()
			} else if time.Since(lastAt) > c07Bound() {
				var fl []string
				for g := range ph.cur {
					if id := atomic.LoadUint64(&ph.cur[g]); id != 0 {
						fl = append(fl, fmt.Sprintf("exporter %d: ExportTx(%d)", g, id))
					}
				}
				atomic.StoreInt32(&ph.stop, 1)
				c07T("ExportTx calls that did not return: %s", strings.Join(fl, "; "))
				c07ReportHang(r, "ExportTx", fmt.Sprintf(" (%s, primary %s: %d concurrent exporters made %d calls, then no call returned any more; in flight: %s)", ph.name, sp, sp.nExp, atomic.LoadInt64(&ph.calls), strings.Join(fl, "; ")))
				panic(c07Hang{"ExportTx"})
			}
		}
	}
}

// ------------------------------------------------------------------ oracle helpers

func c07xTxReplay(p *c07xPrim, t *c07xTx) map[string]interface{} {
	var es []string
	for _, e := range t.entries {
		es = append(es, fmt.Sprintf("Set(key=%s, md=%s, value[%d]=%s)", hx.Hex(e.key), e.md.kind(), len(e.val), c07Short(hx.Hex(e.val))))
	}
	return map[string]interface{}{"primary": p.sp.String(), "tx": t.id, "committed_while_exporting": t.live, "entries": es}
}

// c07xCheckFrame: the frame b (harness's own parser) against the committed transaction; "" = equal.
func c07xCheckFrame(t *c07xTx, b []byte, ver int) (class, desc string) {
	f, err := c15xParse(b)
	if err != nil {
		return "frame-malformed", err.Error()
	}
	h := t.hdr
	var wantTxmd []byte
	if h.Metadata != nil {
		wantTxmd, _ = c15TxmdBytes(h.Metadata)
	}
	if f.id != h.ID || f.ts != h.Ts || f.blTxID != h.BlTxID || f.prevAlh != h.PrevAlh || f.eh != h.Eh || f.blr != h.BlRoot ||
		f.version != h.Version || f.nentries != h.NEntries || !bytes.Equal(f.txmd, wantTxmd) || f.version != ver {
		return "header-differs", fmt.Sprintf("exported header (id=%d ts=%d bl=%d ver=%d n=%d txmd=%s) differs from the committed one (%s)", f.id, f.ts, f.blTxID, f.version, f.nentries, hx.Hex(f.txmd), c15HdrTok(h))
	}
	if len(f.entries) != len(t.entries) {
		return "entry-count-differs", fmt.Sprintf("%d entries exported, %d committed", len(f.entries), len(t.entries))
	}
	for i, e := range t.entries {
		fe := f.entries[i]
		if !bytes.Equal(fe.key, e.key) {
			return "entry-key-differs", fmt.Sprintf("entry %d: exported key %s, committed %s", i, hx.Hex(fe.key), hx.Hex(e.key))
		}
		if want := e.md.wantBytes(); !bytes.Equal(fe.md, want) {
			return "entry-kvmetadata-differs", fmt.Sprintf("entry %d: exported kv-metadata %s, committed %s", i, hx.Hex(fe.md), hx.Hex(want))
		}
		want := e.val
		if f.trunc {
			d := sha256.Sum256(e.val)
			want = d[:]
		}
		if !bytes.Equal(fe.payload, want) {
			off := 0
			for off < len(fe.payload) && off < len(want) && fe.payload[off] == want[off] {
				off++
			}
			return "entry-value-differs", fmt.Sprintf("entry %d of %d (key %s): exported value[%d] differs from the committed value[%d] from byte %d on: exported …%s, committed …%s (by digest: %v)",
				i, len(t.entries), hx.Hex(e.key), len(fe.payload), len(want), off, c07Short(hx.Hex(fe.payload[off:])), c07Short(hx.Hex(want[off:])), f.trunc)
		}
	}
	return "", ""
}

// c07xWhose: whose bytes are these? Looks for another committed value that carries, at the same offsets, the bytes by
// which `got` differs from the committed transaction (diagnosis only).
func c07xWhose(p *c07xPrim, t *c07xTx, got []byte) string {
	f, err := c15xParse(got)
	if err != nil || len(f.entries) != len(t.entries) {
		return ""
	}
	for i, e := range t.entries {
		pl := f.entries[i].payload
		if f.trunc || bytes.Equal(pl, e.val) || len(pl) != len(e.val) {
			continue
		}
		off := 0
		for off < len(pl) && pl[off] == e.val[off] {
			off++
		}
		end := len(pl)
		for end > off && pl[end-1] == e.val[end-1] {
			end--
		}
		n := p.count()
		for id := uint64(1); id <= n; id++ {
			o := p.tx(id)
			for j, oe := range o.entries {
				// the scratch buffer is filled from its start: the foreign bytes sit at the same offsets of the other value
				to := min(end, len(oe.val))
				if (o.id == t.id && j == i) || to-off < 4 {
					continue
				}
				if bytes.Equal(oe.val[off:to], pl[off:to]) {
					return fmt.Sprintf("bytes %d..%d of the exported value[%d] of entry %d are bytes %d..%d of the value[%d] of tx %d entry %d (another transaction's data)", off, to, len(pl), i, off, to, len(oe.val), o.id, j)
				}
			}
		}
		return fmt.Sprintf("bytes %d..%d of the exported value of entry %d are not the committed ones", off, end, i)
	}
	return ""
}

func c07xFirstDiff(a, b []byte) int {
	i := 0
	for i < len(a) && i < len(b) && a[i] == b[i] {
		i++
	}
	return i
}

// sequential answers for ids 1..n (nothing else runs; every call under the liveness bound)
func c07xSequential(p *c07xPrim, n uint64) map[c07xKey]c07xAns {
	holder := store.NewTx(p.sp.maxEnt, p.sp.maxKey)
	m := map[c07xKey]c07xAns{}
	for id := uint64(1); id <= n; id++ {
		for _, skip := range []bool{false, true} {
			b, err := p.st.ExportTx(id, false, skip, holder)
			if err != nil {
				m[c07xKey{id, skip}] = c07xAns{err: c07xErrClass(err)}
			} else {
				m[c07xKey{id, skip}] = c07xAns{b: b}
			}
		}
	}
	return m
}

// c07xEhZeroed: b is the frame `full` with the Eh field of the header (the 32 bytes in front of BlTxID(8) BlRoot(32)) set
// to zero — what ExportTx hands out when it is asked to skip the integrity check (the tx log does not store Eh; it is
// only recomputed, from the entry digests, by the integrity check).
func c07xEhZeroed(b, full []byte) bool {
	if len(b) != len(full) || len(b) < 4 {
		return false
	}
	hdrLen := int(b[0])<<24 | int(b[1])<<16 | int(b[2])<<8 | int(b[3])
	ehOff := 4 + hdrLen - 72
	if hdrLen < 72 || 4+hdrLen > len(b) {
		return false
	}
	c := append([]byte{}, full...)
	for i := 0; i < 32; i++ {
		c[ehOff+i] = 0
	}
	return bytes.Equal(b, c) && !bytes.Equal(b, full)
}

// c07xCheckReference: the sequential answers against the ground truth. truncated = TruncateUptoTx has been called.
func c07xCheckReference(r *hx.Result, p *c07xPrim, ref map[c07xKey]c07xAns, n uint64, truncated bool, when string) {
	for id := uint64(1); id <= n; id++ {
		t, a := p.tx(id), ref[c07xKey{id, false}]
		r.OracleChecks++
		if a.err != "" {
			if truncated && a.err == "err:partially-truncated" {
				r.Count("cx.reference.partially-truncated") // some values deleted, some not: documented refusal
			} else {
				r.Fail("C07:ExportTx:committed-tx-not-exportable", fmt.Sprintf("%s: sequential ExportTx(%d) answers %s", when, id, a.err), c07xTxReplay(p, t))
			}
		} else if cl, d := c07xCheckFrame(t, a.b, p.sp.ver); cl != "" {
			r.Fail("C07:ExportTx:export-differs-from-committed:"+cl, fmt.Sprintf("%s: sequential ExportTx(%d): %s", when, id, d), c07xTxReplay(p, t))
		} else if a.b[len(a.b)-1] == 1 {
			if !truncated {
				r.Fail("C07:ExportTx:export-differs-from-committed:by-digest-without-truncation", fmt.Sprintf("%s: sequential ExportTx(%d) exports digests although nothing was truncated", when, id), c07xTxReplay(p, t))
			}
			r.Count("cx.reference.by-digest")
		} else {
			r.Count("cx.reference.with-values")
		}
		// the same transaction asked for with skipIntegrityCheck: the same answer is required
		s := ref[c07xKey{id, true}]
		r.OracleChecks++
		switch {
		case s.eq(a):
			r.Count("cx.reference.skip-export-equal")
		case s.err == "" && a.err == "" && c07xEhZeroed(s.b, a.b):
			r.Count("cx.reference.skip-export-eh-zeroed")
			rp := c07xTxReplay(p, t)
			rp["calls"] = fmt.Sprintf("ExportTx(%d, false, false, holder) = %s; ExportTx(%d, false, true, holder) = the same bytes with the 32 bytes of Eh (offset %d) zeroed", id, a, id, c07xFirstDiff(s.b, a.b))
			r.Fail("C07:ExportTx:skip-integrity-export-carries-zero-eh", fmt.Sprintf("%s: ExportTx(%d) with skipIntegrityCheck=true hands out the transaction with Eh = 00…00 in its header (Eh is not stored in the tx log and only recomputed by the integrity check): not the primary's transaction %s — a replica that checks integrity rejects it, one that does not recomputes Eh from the delivered entries", when, id, c15HdrTok(t.hdr)), rp)
		default:
			r.Fail("C07:ExportTx:skip-integrity-export-differs", fmt.Sprintf("%s: sequential ExportTx(%d) answers %s, with skipIntegrityCheck=true %s", when, id, a, s), c07xTxReplay(p, t))
		}
	}
}

// c07xReport: everything the exporters saw against the sequential answers `ref` (complete: all ids, both kinds).
func c07xReport(r *hx.Result, ph *c07xPhase, ref map[c07xKey]c07xAns) (deviations int) {
	p := ph.p
	report := func(b c07xBad) {
		deviations++
		t := p.tx(b.id)
		rp := c07xTxReplay(p, t)
		rp["phase"] = ph.name
		rp["how"] = fmt.Sprintf("%d goroutines call ExportTx(id, false, skip, ownHolder) on ONE store at the same time (ids: catch-up sweeps from staggered offsets, windows, hot ids, random ids, newest ids), %d committers append transactions meanwhile; the answer below came back on exporter %d (round %d, its call no. %d) while the other exporters were inside ExportTx for txs %v", p.sp.nExp, p.sp.nCommit, b.g, b.round, b.call, b.others)
		rp["call"] = c07xKey{b.id, b.skip}.String()
		rp["in_flight_on_other_exporters"] = b.others
		rp["rerun"] = fmt.Sprintf("VERIF_SEED=%d ./check C07 %s   (C07_ONLY=exporters runs this part alone; a race: the same seed gives the same inputs and schedules of calls, the interleaving is the machine's)", r.Seed, r.Tier)
		if b.panicked != "" {
			r.Fail("C07:ExportTx:panic", fmt.Sprintf("%s: %s panicked on exporter %d: %s", ph.name, c07xKey{b.id, b.skip}, b.g, b.panicked), rp)
			return
		}
		want := ref[c07xKey{b.id, b.skip}]
		rp["sequential_export"] = want.String()
		rp["concurrent_export"] = b.got.String()
		switch {
		case b.got.err != "" || want.err != "":
			r.Fail("C07:ExportTx:concurrent-answer-differs-from-sequential", fmt.Sprintf("%s: %s answered %s to exporter %d while %d other exports were in flight; the sequential call answers %s",
				ph.name, c07xKey{b.id, b.skip}, b.got, b.g, len(b.others), want), rp)
		default:
			off := c07xFirstDiff(b.got.b, want.b)
			rp["first_difference_at"] = off
			cl, d := "", ""
			if full := ref[c07xKey{b.id, false}]; full.err == "" && full.b[len(full.b)-1] == 0 && !b.skip {
				cl, d = c07xCheckFrame(t, b.got.b, p.sp.ver)
			}
			who := c07xWhose(p, t, b.got.b)
			if who != "" {
				rp["diagnosis"] = who
			}
			r.Fail("C07:ExportTx:concurrent-export-differs-from-sequential", fmt.Sprintf("%s: the primary handed out, for tx %d (%s), %d bytes that differ from its sequential export of that tx (%d bytes) from offset %d on — exporter %d of %d, other exports in flight: txs %v. %s %s %s",
				ph.name, b.id, c07xKey{b.id, b.skip}, len(b.got.b), len(want.b), off, b.g, p.sp.nExp, b.others, cl, d, who), rp)
		}
	}
	for g := range ph.bad {
		for _, b := range ph.bad[g] {
			report(b)
		}
	}
	// the first answer every exporter got for every (id, kind): ids committed during the phase had no reference yet
	for g := range ph.first {
		keys := make([]c07xKey, 0, len(ph.first[g]))
		for k := range ph.first[g] {
			keys = append(keys, k)
		}
		sort.Slice(keys, func(a, b int) bool {
			return keys[a].id < keys[b].id || (keys[a].id == keys[b].id && !keys[a].skip && keys[b].skip)
		})
		for _, k := range keys {
			r.OracleChecks++
			a := ph.first[g][k]
			if !a.eq(ref[k]) {
				dup := false
				for _, b := range ph.bad[g] {
					if b.id == k.id && b.skip == k.skip && b.got.eq(a) {
						dup = true
					}
				}
				if !dup {
					report(c07xBad{g: g, round: -1, call: -1, id: k.id, skip: k.skip, got: a})
				}
			}
		}
	}
	return deviations
}

// ------------------------------------------------------------------ Lean tie

// c07xTie: the committed tx through the Lean writer must give every distinct byte string handed out for it (integrity
// check on); those bytes through the Lean parser give the committed tx, and written again the same bytes.
func c07xTie(r *hx.Result, p *c07xPrim, ph *c07xPhase, ref map[c07xKey]c07xAns, n uint64, budget int) {
	type cand struct {
		id uint64
		n  int
	}
	var cs []cand
	for id := uint64(1); id <= n; id++ {
		if a := ref[c07xKey{id, false}]; a.err == "" {
			cs = append(cs, cand{id, len(a.b)})
		}
	}
	sort.Slice(cs, func(a, b int) bool {
		if cs[a].n != cs[b].n {
			return cs[a].n < cs[b].n
		}
		return cs[a].id < cs[b].id
	})
	// small ones first, and always the largest (multi-entry, values at the scratch-buffer boundary)
	var pick []uint64
	used := 0
	if len(cs) > 0 {
		pick = append(pick, cs[len(cs)-1].id)
		used = cs[len(cs)-1].n
		cs = cs[:len(cs)-1]
	}
	for _, c := range cs {
		if used+c.n > budget {
			break
		}
		pick = append(pick, c.id)
		used += c.n
	}
	// ids with a deviation are always tied (every variant)
	for g := range ph.bad {
		for _, b := range ph.bad[g] {
			if !b.skip {
				pick = append(pick, b.id)
			}
		}
	}
	sort.Slice(pick, func(a, b int) bool { return pick[a] < pick[b] })
	var prev uint64
	for _, id := range pick {
		key := c07xKey{id, false}
		if id == prev || ref[key].err != "" {
			continue
		}
		prev = id
		t := p.tx(id)
		trunc := ref[key].b[len(ref[key].b)-1] == 1
		variants := [][]byte{ref[key].b}
		add := func(b []byte) {
			if b == nil {
				return
			}
			for _, v := range variants {
				if bytes.Equal(v, b) {
					return
				}
			}
			variants = append(variants, b)
		}
		for g := range ph.first {
			add(ph.first[g][key].b)
		}
		for g := range ph.bad {
			for _, b := range ph.bad[g] {
				if b.id == id && !b.skip {
					add(b.got.b)
				}
			}
		}
		var enc strings.Builder
		fmt.Fprintf(&enc, "c15 xp.enc %s %s %d", c15xHdrArg(t.hdr), c15x01(trunc), len(t.entries))
		var es []string
		for _, e := range t.entries {
			pl := e.val
			if trunc {
				d := sha256.Sum256(e.val)
				pl = d[:]
			}
			fmt.Fprintf(&enc, " %s %s %s", hx.Hex(e.key), e.md.tok(), hx.Hex(pl))
			mdTok := "-"
			if mb := e.md.wantBytes(); len(mb) > 0 {
				mdTok = hx.Hex(mb)
			}
			es = append(es, fmt.Sprintf("%s/%s/%d", hx.Hex(e.key), mdTok, len(pl)))
		}
		hb, herr := t.hdr.Bytes()
		for _, v := range variants {
			r.Corr(enc.String(), "ok "+hx.Hex(v))
			if herr == nil {
				r.Corr("c07 parse "+hx.Hex(v), fmt.Sprintf("ok %s %s %s", hx.Hex(hb), c15x01(trunc), strings.Join(es, ",")))
			}
			r.Corr("c07 xrt "+hx.Hex(v), hx.Hex(v))
			r.Count("cx.tie.export-variant")
		}
		r.Count("cx.tie.tx")
		if len(variants) > 1 {
			r.Count("cx.tie.tx-with-several-variants")
		}
	}
}

// ------------------------------------------------------------------ replicas

// c07xReplica: exporter g's stream into a replica of its own.
func c07xReplica(r *hx.Result, rng *hx.Rng, p *c07xPrim, ph *c07xPhase, g int, n uint64, ref map[c07xKey]c07xAns) {
	sp := p.sp
	skip := c07xSkipOf(g)
	dir := hx.TempDir("c07xr")
	defer os.RemoveAll(dir)
	opts := store.DefaultOptions().WithSynced(false).WithMaxConcurrency(3).WithLogger(quietLogger()).
		WithMaxValueLen(sp.maxVal).WithMaxKeyLen(sp.maxKey).WithMaxTxEntries(sp.maxEnt).WithEmbeddedValues(rng.Bool()).
		WithWriteBufferSize(1 << 16).WithAHTOptions(store.DefaultAHTOptions().WithWriteBufferSize(1 << 16)).
		WithTimeFunc(func() time.Time { return time.Unix(1_700_000_000, 0) })
	rst, err := c07OpenStore(r, filepath.Join(dir, "r"), opts)
	if err != nil {
		r.Notes = append(r.Notes, "c07x: replica does not open: "+err.Error())
		return
	}
	defer rst.Close()
	r.Count(fmt.Sprintf("cx.replica.skipIntegrityCheck=%v", skip))
	rp := func(id uint64) map[string]interface{} {
		m := c07xTxReplay(p, p.tx(id))
		m["stream"] = fmt.Sprintf("the first answer exporter %d of %d got for ExportTx(id, false, %v, holder), id = 1..%d, fed in order to an empty replica with ReplicateTx(b, skipIntegrityCheck=%v, false)", g, sp.nExp, skip, n, skip)
		m["phase"] = ph.name
		if a, ok := ph.first[g][c07xKey{id, skip}]; ok {
			m["delivered_equals_sequential_export"] = a.eq(ref[c07xKey{id, skip}])
		}
		return m
	}
	var upto uint64
	for id := uint64(1); id <= n; id++ {
		key := c07xKey{id, skip}
		a, ok := ph.first[g][key]
		if !ok || a.err != "" {
			r.Count("cx.replica.stream-incomplete") // the exporter stopped early (a deviation was reported) or the tx is not exportable
			break
		}
		type he struct {
			h   *store.TxHeader
			err error
		}
		v := c07Live(r, "ReplicateTx", fmt.Sprintf("stream of exporter %d, tx %d", g, id), func() he {
			ctx, cancel := context.WithTimeout(context.Background(), c07Bound()*2/3)
			defer cancel()
			h, err, _ := c07Retry(func() (*store.TxHeader, error) { return rst.raw.ReplicateTx(ctx, a.b, skip, false) })
			return he{h, err}
		})
		r.OracleChecks++
		if v.err != nil {
			c07GenuineRejected(r, c07Class(v.err), fmt.Sprintf("%s: the replica fed by exporter %d rejects what the primary exported for tx %d: %v (delivered bytes equal the sequential export: %v)", ph.name, g, id, v.err, a.eq(ref[key])), rp(id))
			break
		}
		t := p.tx(id)
		if v.h.ID != id || v.h.Alh() != t.alh {
			alh := v.h.Alh()
			r.Fail("C07:replica:history-differs", fmt.Sprintf("%s: the replica fed by exporter %d holds tx %d with id %d and Alh %x; the primary committed Alh %x (skipIntegrityCheck=%v)", ph.name, g, id, v.h.ID, alh[:8], t.alh[:8], skip), rp(id))
			break
		}
		upto = id
	}
	rd := store.NewTx(sp.maxEnt, sp.maxKey)
	for id := uint64(1); id <= upto; id++ {
		t := p.tx(id)
		r.OracleChecks++
		if err := rst.ReadTx(id, false, rd); err != nil {
			r.Fail("C07:replica:history-differs", fmt.Sprintf("%s: replica of exporter %d: ReadTx(%d): %v", ph.name, g, id, err), rp(id))
			continue
		}
		es := rd.Entries()
		if len(es) != len(t.entries) {
			r.Fail("C07:replica:history-differs", fmt.Sprintf("%s: replica of exporter %d holds %d entries for tx %d, the primary committed %d", ph.name, g, len(es), id, len(t.entries)), rp(id))
			continue
		}
		a := ph.first[g][c07xKey{id, skip}]
		byDigest := a.err == "" && a.b[len(a.b)-1] == 1
		for i, e := range es {
			in := t.entries[i]
			var mdb []byte
			if e.Metadata() != nil {
				mdb = e.Metadata().Bytes()
			}
			if !bytes.Equal(e.Key(), in.key) || !bytes.Equal(mdb, in.md.wantBytes()) || e.HVal() != sha256.Sum256(in.val) {
				r.Fail("C07:replica:history-differs", fmt.Sprintf("%s: replica of exporter %d, tx %d entry %d: key/metadata/value hash differ from what the primary committed", ph.name, g, id, i), rp(id))
				continue
			}
			if byDigest {
				continue
			}
			v, err := rst.ReadValue(e)
			if errors.Is(err, store.ErrExpiredEntry) {
				r.Count("cx.replica.value-of-expired-entry-not-readable") // the stored hash (compared above) binds the value
				continue
			}
			if err != nil || !bytes.Equal(v, in.val) {
				r.Fail("C07:replica:history-differs", fmt.Sprintf("%s: replica of exporter %d, tx %d entry %d: value[%d] (err %v) differs from the committed value[%d] at byte %d", ph.name, g, id, i, len(v), err, len(in.val), c07xFirstDiff(v, in.val)), rp(id))
			}
		}
		r.Count("cx.replica.tx-compared")
	}
	if upto == n {
		r.Count("cx.replica.reproduced-whole-history")
	}
}

// c07xStraddling: truncation points after which some earlier transaction has a value in a removed chunk and a later
// value entirely in the chunks that stay.
func c07xStraddling(p *c07xPrim, n uint64, fileSize int) []uint64 {
	type span struct{ from, to int }
	var spans [][]span
	off := 0
	start := map[uint64]int{}
	for id := uint64(1); id <= n; id++ {
		start[id] = off
		var sp []span
		for _, e := range p.tx(id).entries {
			if len(e.val) > 0 {
				sp = append(sp, span{off, off + len(e.val)})
				off += len(e.val)
			}
		}
		spans = append(spans, sp)
	}
	var out []uint64
	for upto := uint64(2); upto <= n; upto++ {
		b := start[upto] / fileSize * fileSize
		for j := uint64(1); j < upto; j++ {
			sp := spans[j-1]
			if len(sp) >= 2 && sp[0].from < b && sp[len(sp)-1].from >= b {
				out = append(out, upto)
				break
			}
		}
	}
	return out
}

// c07xSkipExportIntoCheckingReplica: what a replica that checks integrity answers to the export of tx 1 taken with
// skipIntegrityCheck (only counted: the deviation of that export is reported by c07xCheckReference).
func c07xSkipExportIntoCheckingReplica(r *hx.Result, p *c07xPrim, ref map[c07xKey]c07xAns) {
	a, full := ref[c07xKey{1, true}], ref[c07xKey{1, false}]
	if a.err != "" || full.err != "" || a.eq(full) {
		return
	}
	sp := p.sp
	dir := hx.TempDir("c07xs")
	defer os.RemoveAll(dir)
	opts := store.DefaultOptions().WithSynced(false).WithMaxConcurrency(3).WithLogger(quietLogger()).
		WithMaxValueLen(sp.maxVal).WithMaxKeyLen(sp.maxKey).WithMaxTxEntries(sp.maxEnt).
		WithWriteBufferSize(1 << 16).WithAHTOptions(store.DefaultAHTOptions().WithWriteBufferSize(1 << 16))
	rst, err := c07OpenStore(r, filepath.Join(dir, "r"), opts)
	if err != nil {
		return
	}
	defer rst.Close()
	cls := c07Live(r, "ReplicateTx", "skipIntegrityCheck export of tx 1 into a checking replica", func() string {
		ctx, cancel := context.WithTimeout(context.Background(), c07Bound()*2/3)
		defer cancel()
		_, err := rst.raw.ReplicateTx(ctx, a.b, false, false)
		if err != nil && strings.Contains(err.Error(), "entries hash (Eh) differs") {
			return "rejected:eh-differs"
		}
		return c07Class(err)
	})
	r.Count("cx.probe.skip-export-into-checking-replica." + cls)
}

// ------------------------------------------------------------------ the scenario

func c07Exporters(r *hx.Result, rng *hx.Rng, sp c07xSpec, tieBudget int) error {
	r.NextCase()
	p, err := c07xOpenPrimary(r, rng, sp)
	if err != nil {
		return err
	}
	defer p.close()
	r.Count(fmt.Sprintf("cx.primary.v%d.mode%d", sp.ver, sp.mode))
	r.Count(fmt.Sprintf("cx.exporters.%d", sp.nExp))
	for i := 0; i < sp.n0; i++ {
		if _, err := p.commit(rng, false); err != nil {
			return fmt.Errorf("c07x primary: %w", err)
		}
	}
	// the ids everybody asks for: the biggest transactions (longest copies out of the scratch buffer)
	var hot []uint64
	{
		ids := make([]uint64, 0, p.count())
		size := map[uint64]int{}
		for id := uint64(1); id <= p.count(); id++ {
			ids = append(ids, id)
			for _, e := range p.tx(id).entries {
				size[id] += len(e.val)
			}
		}
		sort.Slice(ids, func(a, b int) bool {
			return size[ids[a]] > size[ids[b]] || (size[ids[a]] == size[ids[b]] && ids[a] < ids[b])
		})
		hot = append(hot, ids[:min(3, len(ids))]...)
		hot = append(hot, uint64(1+rng.Intn(int(p.count()))))
	}
	finish := func(ph *c07xPhase, ref map[c07xKey]c07xAns, n uint64, replicas int) int {
		dev := c07xReport(r, ph, ref)
		total := 0
		for g := range ph.nCalls {
			total += ph.nCalls[g]
		}
		r.CountN("cx.export.calls", total)
		for g := range ph.first {
			for _, a := range ph.first[g] {
				if a.err != "" {
					r.Count("cx.export.concurrent-answer." + a.err) // distinct (exporter, id, kind) answered with an error
				}
			}
		}
		r.CountN("cx.export.calls-while-another-in-flight", int(atomic.LoadInt64(&ph.overlap)))
		c07ExportRecord(int(atomic.LoadInt32(&ph.maxIn)), int64(total), atomic.LoadInt64(&ph.overlap))
		r.Eval(fmt.Sprintf("exporters:%s:%s:dev=%v", ph.name, sp, dev > 0), true)
		if m := int(atomic.LoadInt32(&ph.maxIn)); m < 2 && dev == 0 {
			r.Inconclusive = append(r.Inconclusive, fmt.Sprintf("%s (%s): never two ExportTx calls in flight on the primary", ph.name, sp))
		}
		for _, e := range ph.cErr {
			if e != nil {
				r.Fail("C07:primary:commit-fails-while-exporting", fmt.Sprintf("%s: a committer got %v while %d exporters were running", ph.name, e, sp.nExp), map[string]interface{}{"primary": sp.String()})
			}
		}
		c07xTie(r, p, ph, ref, n, tieBudget)
		for g := 0; g < replicas && g < sp.nExp; g++ {
			c07xReplica(r, rng, p, ph, g, n, ref)
		}
		return dev
	}

	// ---- phase A: exporters and committers
	refBefore := c07xSequential(p, p.count())
	c07xCheckReference(r, p, refBefore, p.count(), false, "before the concurrent phase")
	phA := &c07xPhase{p: p, name: "exporters+committers", ref: refBefore}
	phA.run(r, rng, sp.nLive, hot)
	n := p.count()
	r.CountN("cx.primary.txs-committed-while-exporting", int(n)-sp.n0)
	for id := uint64(1); id <= n; id++ {
		for _, e := range p.tx(id).entries {
			switch l := len(e.val); {
			case l == 0:
				r.Count("cx.value.empty")
			case l < store.DefaultMaxValueLen:
				r.Count("cx.value.below-scratch-size")
			case l == store.DefaultMaxValueLen:
				r.Count("cx.value.scratch-size")
			default:
				r.Count("cx.value.beyond-scratch-size")
			}
		}
	}
	ref := c07xSequential(p, n)
	c07xCheckReference(r, p, ref, n, false, "after the concurrent phase")
	for k, a := range refBefore {
		r.OracleChecks++
		if !ref[k].eq(a) {
			r.Fail("C07:ExportTx:sequential-exports-differ", fmt.Sprintf("sequential %s before the concurrent phase: %s, after it: %s", k, a, ref[k]), c07xTxReplay(p, p.tx(k.id)))
		}
	}
	dev := finish(phA, ref, n, sp.nExp)
	if dev == 0 {
		c07xSkipExportIntoCheckingReplica(r, p, ref)
	}
	if sp.mode != 2 || dev > 0 || n < 6 {
		return nil
	}

	// ---- phase B: after TruncateUptoTx — exports by digest and the "partially truncated" error exits, concurrently
	var lastUpto uint64
	for step := 0; step < 2; step++ {
		upto := uint64(2 + rng.Intn(int(n)-3))
		if step == 1 {
			upto = n - uint64(rng.Intn(3))
		}
		// prefer a truncation point that leaves a transaction with its first values gone and its last ones present (the
		// error exits of the entry loop): one value log, values appended in commit order, chunks of 512 bytes, chunks
		// below the chunk of tx upto's first value are removed. Only the choice of the input uses this.
		if cands := c07xStraddling(p, n, 512); len(cands) > 0 && rng.Chance(80) {
			var later []uint64
			for _, c := range cands {
				if step == 0 || c > lastUpto {
					later = append(later, c)
				}
			}
			if len(later) > 0 {
				upto = later[rng.Intn(len(later))]
				r.Count("cx.truncate.point-chosen-to-split-a-tx")
			}
		}
		lastUpto = upto
		terr := c07Live(r, "TruncateUptoTx", fmt.Sprint(upto), func() error { return p.st.raw.TruncateUptoTx(upto) })
		if terr != nil {
			r.Count("cx.truncate." + c07Class(terr))
			continue
		}
		r.Count("cx.truncate.ok")
		refT := c07xSequential(p, n)
		c07xCheckReference(r, p, refT, n, true, fmt.Sprintf("after TruncateUptoTx(%d)", upto))
		nErr := 0
		for _, a := range refT {
			if a.err != "" {
				nErr++
			}
		}
		r.CountN("cx.truncate.answers-not-exportable", nErr)
		phB := &c07xPhase{p: p, name: fmt.Sprintf("exporters after TruncateUptoTx(%d)", upto), ref: refT}
		phB.run(r, rng, 0, hot)
		// the error exits must have left nothing behind: the same sequential answers again (under the liveness bound)
		refT2 := c07xSequential(p, n)
		for k, a := range refT {
			r.OracleChecks++
			if !refT2[k].eq(a) {
				r.Fail("C07:ExportTx:sequential-exports-differ", fmt.Sprintf("after TruncateUptoTx(%d): sequential %s before the concurrent phase: %s, after it: %s", upto, k, a, refT2[k]), c07xTxReplay(p, p.tx(k.id)))
			}
		}
		if finish(phB, refT, n, 3) > 0 {
			return nil
		}
	}
	return nil
}

// ------------------------------------------------------------------ deterministic probe: value cache vs TruncateUptoTx

// c07xProbeCacheAfterTruncate: twin stores with the same history and the same truncation, one with a value-log cache
// (VLogCacheSize > 0, not the default) and one without. What ExportTx answers for a transaction below the truncation point
// must not depend on the cache (model independent: the twin is the reference). Found by the exporter scenario: the
// sequential answers after TruncateUptoTx changed over time on a store with a value cache (TruncateUptoTx did not
// invalidate vLogCache; repaired — it now evicts the values stored before the discard offsets — the probe stays armed).
func c07xProbeCacheAfterTruncate(r *hx.Result) error {
	r.NextCase()
	type twin struct {
		st  *c07Store
		dir string
	}
	open := func(vcache int) (*twin, error) {
		dir := hx.TempDir("c07xc")
		var clock int64
		opts := store.DefaultOptions().WithSynced(false).WithMaxConcurrency(2).WithLogger(quietLogger()).WithMaxValueLen(1024).WithMaxKeyLen(32).WithMaxTxEntries(4).
			WithEmbeddedValues(false).WithFileSize(512).WithMaxIOConcurrency(1).WithVLogCacheSize(vcache).
			WithTimeFunc(func() time.Time { clock++; return time.Unix(1_700_000_000+clock, 0) })
		st, err := c07OpenStore(r, filepath.Join(dir, "s"), opts)
		if err != nil {
			os.RemoveAll(dir)
			return nil, err
		}
		return &twin{st, dir}, nil
	}
	val := func(k, e int) []byte {
		v := make([]byte, 300)
		for i := range v {
			v[i] = byte(k*31 + e*7 + i)
		}
		return v
	}
	a, err := open(64)
	if err != nil {
		return err
	}
	defer func() { a.st.Close(); os.RemoveAll(a.dir) }()
	b, err := open(0)
	if err != nil {
		return err
	}
	defer func() { b.st.Close(); os.RemoveAll(b.dir) }()
	const nTx, upto = 8, 6
	for _, t := range []*twin{a, b} {
		for k := 1; k <= nTx; k++ {
			tx, err := t.st.raw.NewWriteOnlyTx(context.Background())
			if err != nil {
				return err
			}
			for e := 0; e < 2; e++ {
				if err := tx.Set([]byte(fmt.Sprintf("k%d.%d", k, e)), nil, val(k, e)); err != nil {
					return err
				}
			}
			if _, err := tx.Commit(context.Background()); err != nil {
				return err
			}
		}
		// before the truncation: ONE value of tx 2 and BOTH values of tx 3 are read (a Get / a scan / an earlier export)
		rd := store.NewTx(4, 32)
		for _, q := range []struct{ id, n int }{{2, 1}, {3, 2}} {
			if err := t.st.ReadTx(uint64(q.id), false, rd); err != nil {
				return err
			}
			for i := 0; i < q.n; i++ {
				if _, err := t.st.ReadValue(rd.Entries()[i]); err != nil {
					return err
				}
			}
		}
		if err := c07Live(r, "TruncateUptoTx", fmt.Sprint(upto), func() error { return t.st.raw.TruncateUptoTx(upto) }); err != nil {
			return fmt.Errorf("c07x probe: TruncateUptoTx(%d): %w", upto, err)
		}
	}
	ha, hb := store.NewTx(4, 32), store.NewTx(4, 32)
	for id := uint64(1); id <= nTx; id++ {
		ba, ea := a.st.ExportTx(id, false, false, ha)
		bb, eb := b.st.ExportTx(id, false, false, hb)
		xa, xb := c07xAns{b: ba, err: c07xErrClass(ea)}, c07xAns{b: bb, err: c07xErrClass(eb)}
		if ea != nil {
			xa.b = nil
		}
		if eb != nil {
			xb.b = nil
		}
		r.OracleChecks++
		kind := func(x c07xAns) string {
			switch {
			case x.err != "":
				return x.err
			case x.b[len(x.b)-1] == 1:
				return "by digest"
			}
			return "with values"
		}
		r.Count("cx.probe.cache-after-truncate." + kind(xb) + "/" + kind(xa))
		r.Eval(fmt.Sprintf("probe:cache-after-truncate:%d:%s:%s", id, kind(xb), kind(xa)), true)
		if !xa.eq(xb) {
			r.Fail("C07:ExportTx:value-cache-serves-truncated-values", fmt.Sprintf("twin stores, same %d transactions (2 values of 300 bytes each, value-log files of 512 bytes), ReadValue of entry 0 of tx 2 and of both entries of tx 3, then TruncateUptoTx(%d) on both: ExportTx(%d) answers %q on the store without value cache and %q on the store with VLogCacheSize=64 — TruncateUptoTx does not invalidate the value cache: a transaction whose value-log chunks are gone is still exported with values, or refused as 'partially truncated' when only some of its values are cached, until the entries happen to be evicted",
				nTx, upto, id, kind(xb), kind(xa)),
				map[string]interface{}{"options": "EmbeddedValues=false FileSize=512 MaxIOConcurrency=1 MaxValueLen=1024; twin A VLogCacheSize=64, twin B VLogCacheSize=0",
					"ops":           []string{"8 x { NewWriteOnlyTx; Set(k<i>.0, nil, 300 bytes); Set(k<i>.1, nil, 300 bytes); Commit }", "ReadTx(2); ReadValue(entry 0)", "ReadTx(3); ReadValue(entry 0); ReadValue(entry 1)", fmt.Sprintf("TruncateUptoTx(%d)", upto), fmt.Sprintf("ExportTx(%d, false, false, holder)", id)},
					"without_cache": xb.String(), "with_cache": xa.String()})
		}
	}
	return nil
}

// c07ExportersPart: the specs of a run.
func c07ExportersPart(r *hx.Result, rng *hx.Rng, thorough bool) error {
	specs := []c07xSpec{
		{ver: 1, mode: 1, nExp: 12, nCommit: 2, n0: 20, nLive: 8, rounds: 60},
		{ver: 0, mode: 0, nExp: 2 + rng.Intn(11), nCommit: 1, n0: 14, nLive: 6, rounds: 60},
		{ver: 1, mode: 2, nExp: 3 + rng.Intn(6), nCommit: 1, n0: 14, nLive: 4, rounds: 25},
	}
	if thorough {
		for i := 0; i < 9; i++ {
			specs = append(specs, c07xSpec{ver: rng.Intn(2), mode: rng.Intn(3), nExp: 2 + rng.Intn(11), nCommit: rng.Intn(3), n0: 8 + rng.Intn(30), nLive: 4 + rng.Intn(16), rounds: 100 + rng.Intn(300)})
		}
		for i := range specs[:3] {
			specs[i].rounds *= 6
		}
	}
	if err, _ := c07Run(r, "probe: value cache after TruncateUptoTx", func() error { return c07xProbeCacheAfterTruncate(r) }); err != nil {
		return err
	}
	budget := 60_000
	if thorough {
		budget = 150_000
	}
	for i, sp := range specs {
		sp.maxVal, sp.maxEnt, sp.maxKey = 8192, 8, 64
		if sp.mode == 2 {
			sp.maxVal, sp.maxEnt = 1024, 4
		}
		if sp.nCommit == 0 {
			sp.nLive = 0
		}
		sp.vcache = []int{0, 0, 16, 256}[rng.Intn(4)]
		// (mode 2 too: TruncateUptoTx evicts the values it made unreadable since the repair of
		// C07:ExportTx:value-cache-serves-truncated-values, so the sequential reference is stable with a value cache)
		sp.smallBuf = rng.Bool()
		if c07TooManyHangs() {
			return nil
		}
		frng := rng.Fork()
		err, _ := c07Run(r, fmt.Sprintf("exporters %d: %s", i, sp), func() error { return c07Exporters(r, frng, sp, budget) })
		if err != nil {
			return err
		}
		c07Lap(fmt.Sprintf("exporters %d (%s)", i, sp))
		if err := r.Flush(); err != nil {
			return err
		}
		c07Lap("exporters flush")
	}
	return nil
}
