package main

// C11 — SQL query results do not depend on the physical plan.
//
// METAMORPHIC ORACLE on the real engine (model-free).  A case = one generated schema `t` with
// secondary/unique indexes, a twin `tw` with the same columns and data but NO secondary index,
// a small join partner `r` (twin `rw`), a DML history applied to both twins inside the same
// transactions, and a set of generated queries.  Every query is executed
//   (1) as is, (2) under every `USE INDEX ON` hint, (3) on the twin without indexes,
//   (4) inside the writing transaction before COMMIT, after COMMIT and after close/reopen,
//   (5) by an engine with a 2-row sort buffer (file sort),
// results compared as multisets (lists when the ORDER BY is total); ORDER BY output must be
// sorted under the engine's own comparison; rows(Q∧P) ⊎ rows(Q∧NOT P) = rows(Q) and
// rows(Q ∧ (P) IS NULL) = ∅ (the engine's comparisons are two-valued: NULL is the least value);
// COUNT(*) = number of rows; GROUP BY totals = ungrouped totals; LIMIT/OFFSET = slice.
// The single-table fragment is additionally evaluated by the Lean model (`c11 …` lines).

import (
	"fmt"
	"os"
	"sort"
	"strconv"
	"strings"

	"github.com/codenotary/immudb/embedded/sql"

	"verif/harness/internal/hx"
)

func init() { runners["C11"] = runC11 }

type c11Replay struct {
	Script []string `json:"script"`
	Query  string   `json:"query,omitempty"`
	Other  string   `json:"other,omitempty"`
	Detail string   `json:"detail,omitempty"`
}

type c11Query struct {
	Kind    string
	Tmpl    string // {T} {R} {H}
	PS      *sqlParams
	Ord     []int // output positions of the ORDER BY columns
	OrdDesc []bool
	Total   bool   // ORDER BY determines the output order completely
	Limit   int    // -1 none
	Offset  int    // -1 none
	NoLimit string // the same query without LIMIT/OFFSET (template)
	Where   *pexp
	Select  string // target list (partition rewrites)
	Mixed   bool
	LongStr bool
	Frag    *c11Frag
	// structure of the query (shape counters, index-relative generator, planner correspondence: c11plan.go)
	Gen      string // "" general generator | "idxrel" index-relative generator
	OrdCols  []int  // table columns of the ORDER BY list
	GrpCols  []int  // table columns of the GROUP BY list
	GroupN   int    // number of leading output columns that are group keys (0 = 1 for kind "group")
	WhereAll *pexp  // the WHERE predicate whatever the kind (nil = none)
	Star     bool   // SELECT * (output columns = table columns)
}

type c11Hist struct {
	tx  uint64
	bag string
	n   int
}

type c11Frag struct {
	Idx    []int
	Desc   bool
	Limit  int
	Offset int
	P      *pexp
}

type c11Case struct {
	r      *hx.Result
	rng    *hx.Rng
	env    *sqlEnv
	sc     *sqlSchema
	script []string
	// taints: reasons already known to make plans disagree (registered findings); a discrepancy
	// observed while a taint applies is reported under the finer signature of that finding
	negZero  bool // t holds -0.0 and +0.0 floats
	emptyStr bool // t holds '' / empty blob (file sort writes them as NULL)
	intxIdx  bool // the open tx has written rows of a table with secondary indexes (their in-tx view is unreliable: known finding)
	diverged bool
	intxEver bool      // some committed tx wrote more than once to the indexed table (its DML may have used the unreliable in-tx index view)
	idxLive  []sqlIdx  // indexes created so far
	hist     []c11Hist // committed states of t by transaction id
	// c11plan.go
	snap     [][]c15Val       // rows of t at the last twin check (constants of index-relative predicates, shape counters)
	snapOK   bool             // no DML since
	tblSent  bool             // the Lean driver holds the current rows of t (planner correspondence)
	hot      map[int][]c15Val // hot values of the leading index columns (bulk units)
	bulkLeft int              // statements of the running bulk unit
	noIdxRel bool             // VH_C11_IDXREL=0: measurement of the general generator alone
}

func (c *c11Case) log(s string) { c.script = append(c.script, s) }

func (c *c11Case) replay(q, other, detail string) c11Replay {
	sc := c.script
	if len(sc) > 120 {
		sc = append(append([]string{}, sc[:40]...), append([]string{fmt.Sprintf("… (%d lines omitted; rerun with the seed)", len(sc)-100)}, sc[len(sc)-60:]...)...)
	}
	return c11Replay{Script: append([]string{}, sc...), Query: q, Other: other, Detail: detail}
}

func (c *c11Case) exec(tx *sql.SQLTx, q sqlText) sqlXRes {
	res := sqlExec(c.env.eng, tx, q)
	st := "ok"
	if res.Err != "" {
		st = "ERR " + res.Err
	}
	c.log(q.String() + "   => " + st)
	return res
}

func (q *c11Query) text(tmpl, T, R, H string) sqlText {
	s := strings.ReplaceAll(tmpl, "{T}", T)
	s = strings.ReplaceAll(s, "{R}", R)
	s = strings.ReplaceAll(s, "{H}", H)
	return q.PS.text(strings.TrimSpace(s)) // never normalise white space: literals may contain runs of blanks
}

func (c *c11Case) hint(ix []int) string {
	return "USE INDEX ON (" + c.sc.colNames(ix) + ")"
}

// ---------------------------------------------------------------- query generator

func (c *c11Case) genQuery() *c11Query {
	rng, sc := c.rng, c.sc
	q := &c11Query{PS: &sqlParams{}, Limit: -1, Offset: -1}
	po := pexpOpts{Mixed: true, Like: true, BoolCol: true, Depth: 2, LongStr: true}
	var idxCols []int
	for _, ix := range c.idxLive {
		idxCols = append(idxCols, ix.Cols...)
	}
	idxCols = append(idxCols, sc.PK...)
	where := func() (*pexp, string) {
		if rng.Intn(6) == 0 {
			return nil, ""
		}
		p := sqlGenPred(rng, sc, po, idxCols)
		return p, " WHERE " + p.render(sc, "", q.PS, rng)
	}
	switch k := rng.Intn(100); {
	case k < 50: // simple select
		q.Kind = "simple"
		p, w := where()
		q.Where = p
		distinct := rng.Intn(8) == 0
		targets := "*"
		pos := map[int]int{}
		for i := range sc.Cols {
			pos[i] = i
		}
		if distinct || rng.Intn(4) == 0 {
			var cs []int
			for i := range sc.Cols {
				if rng.Intn(2) == 0 {
					cs = append(cs, i)
				}
			}
			if len(cs) == 0 {
				cs = []int{rng.Intn(len(sc.Cols))}
			}
			pos = map[int]int{}
			for j, ci := range cs {
				pos[ci] = j
			}
			targets = sc.colNames(cs)
		}
		q.Select = targets
		q.WhereAll = p
		q.Star = targets == "*"
		s := "SELECT "
		if distinct {
			s += "DISTINCT "
		}
		s += targets + " FROM {T} {H}" + w
		if rng.Intn(2) == 0 {
			var obs []string
			n := 1 + rng.Intn(2)
			desc := rng.Intn(3) == 0
			seen := map[int]bool{}
			var ocols []int
			for ; n > 0; n-- {
				ci := rng.Intn(len(sc.Cols))
				if len(idxCols) > 0 && rng.Intn(2) == 0 {
					ci = idxCols[rng.Intn(len(idxCols))]
				}
				if _, ok := pos[ci]; !ok || seen[ci] {
					continue
				}
				seen[ci] = true
				d := desc
				if rng.Intn(6) == 0 {
					d = !d
				}
				ocols = append(ocols, ci)
				q.OrdDesc = append(q.OrdDesc, d)
			}
			// make the order total when a LIMIT follows (most of the time)
			wantLimit := rng.Intn(3) == 0
			if wantLimit && !distinct && rng.Intn(5) != 0 {
				for _, pc := range sc.PK {
					if _, ok := pos[pc]; ok && !seen[pc] {
						seen[pc] = true
						ocols = append(ocols, pc)
						q.OrdDesc = append(q.OrdDesc, desc)
					}
				}
			}
			for i, ci := range ocols {
				o := sc.Cols[ci].Name
				if q.OrdDesc[i] {
					o += " DESC"
				} else if rng.Intn(3) == 0 {
					o += " ASC"
				}
				obs = append(obs, o)
				q.Ord = append(q.Ord, pos[ci])
			}
			q.OrdCols = ocols
			if len(obs) > 0 {
				s += " ORDER BY " + strings.Join(obs, ", ")
				all := true
				for _, pc := range sc.PK {
					if !seen[pc] {
						all = false
					}
				}
				q.Total = all && !distinct
			}
			q.NoLimit = s
			if wantLimit {
				q.Limit = rng.Intn(5)
				s += " LIMIT " + strconv.Itoa(q.Limit)
				if rng.Intn(2) == 0 {
					q.Offset = rng.Intn(4)
					s += " OFFSET " + strconv.Itoa(q.Offset)
				}
			}
		} else {
			q.NoLimit = s
			if rng.Intn(6) == 0 {
				q.Limit = rng.Intn(5)
				s += " LIMIT " + strconv.Itoa(q.Limit)
				if rng.Intn(2) == 0 {
					q.Offset = rng.Intn(4)
					s += " OFFSET " + strconv.Itoa(q.Offset)
				}
			}
		}
		if distinct {
			q.Where = nil // no partition rewrite for DISTINCT
			q.Kind = "distinct"
		}
		q.Tmpl = s
	case k < 60: // count
		q.Kind = "count"
		p, w := where()
		q.Where = p
		q.WhereAll = p
		q.Tmpl = "SELECT COUNT(*) FROM {T} {H}" + w
		q.NoLimit = "SELECT * FROM {T} {H}" + w
	case k < 75: // group by
		q.Kind = "group"
		g := rng.Intn(len(sc.Cols))
		var aggs []string
		aggs = append(aggs, "COUNT(*)")
		for ci, col := range sc.Cols {
			if col.Ty == sql.IntegerType && rng.Intn(2) == 0 {
				small := true
				for _, v := range col.Pool {
					if v.i > 1<<40 || v.i < -(1<<40) {
						small = false
					}
				}
				fns := []string{"MIN", "MAX"}
				if small {
					fns = append(fns, "SUM", "AVG")
				}
				aggs = append(aggs, fns[rng.Intn(len(fns))]+"("+sc.Cols[ci].Name+")")
			} else if (col.Ty == sql.VarcharType || col.Ty == sql.TimestampType || col.Ty == sql.Float64Type) && rng.Intn(4) == 0 {
				aggs = append(aggs, []string{"MIN", "MAX"}[rng.Intn(2)]+"("+col.Name+")")
			}
		}
		pw, w := where()
		q.WhereAll, q.GrpCols, q.GroupN = pw, []int{g}, 1
		gname := sc.Cols[g].Name
		s := "SELECT " + gname + ", " + strings.Join(aggs, ", ") + " FROM {T} {H}" + w + " GROUP BY " + gname
		if rng.Intn(4) == 0 {
			s += " HAVING COUNT(*) > " + strconv.Itoa(rng.Intn(3))
		} else {
			// totals of the groups vs the ungrouped aggregate
			q.NoLimit = "SELECT " + strings.Join(aggs, ", ") + " FROM {T} {H}" + w
			q.Select = strings.Join(aggs, ",")
		}
		if rng.Intn(2) == 0 {
			s += " ORDER BY " + gname
			if rng.Intn(3) == 0 {
				s += " DESC"
				q.OrdDesc = []bool{true}
			} else {
				q.OrdDesc = []bool{false}
			}
			q.Ord = []int{0}
			q.OrdCols = []int{g}
			q.Total = true
		}
		q.Tmpl = s
	case k < 88: // join with r
		q.Kind = "join"
		var ints []int
		for ci, col := range sc.Cols {
			if col.Ty == sql.IntegerType {
				ints = append(ints, ci)
			}
		}
		if len(ints) == 0 {
			return c.genQuery()
		}
		jc := sc.Cols[ints[rng.Intn(len(ints))]].Name
		jt := []string{"INNER JOIN", "LEFT JOIN"}[rng.Intn(2)]
		rcol := []string{"ra", "rid"}[rng.Intn(2)]
		w := ""
		if rng.Intn(2) == 0 {
			p := sqlGenPred(rng, sc, pexpOpts{Depth: 1}, idxCols)
			w = " WHERE " + p.render(sc, "x", q.PS, rng)
		}
		if rng.Intn(3) == 0 {
			if w == "" {
				w = " WHERE "
			} else {
				w += " AND "
			}
			w += "y.ra " + sqlCmpOps[rng.Intn(6)] + " " + strconv.Itoa(rng.Intn(6))
		}
		q.Tmpl = "SELECT x." + sc.Cols[sc.PK[0]].Name + ", x." + jc + ", y.rid, y.ra, y.rs FROM {T} AS x {H} " + jt + " {R} AS y ON x." + jc + " = y." + rcol + w
	default: // subqueries
		q.Kind = "subquery"
		var ints []int
		for ci, col := range sc.Cols {
			if col.Ty == sql.IntegerType {
				ints = append(ints, ci)
			}
		}
		switch j := rng.Intn(3); {
		case j == 0 && len(ints) > 0:
			jc := sc.Cols[ints[rng.Intn(len(ints))]].Name
			neg := ""
			if rng.Intn(4) == 0 {
				neg = "NOT "
			}
			q.Tmpl = "SELECT * FROM {T} {H} WHERE " + jc + " " + neg + "IN (SELECT ra FROM {R} WHERE ra " + sqlCmpOps[rng.Intn(6)] + " " + strconv.Itoa(rng.Intn(6)) + ")"
		case j == 1 && len(ints) > 0:
			jc := sc.Cols[ints[rng.Intn(len(ints))]].Name
			q.Tmpl = "SELECT * FROM {T} AS x {H} WHERE EXISTS (SELECT rid FROM {R} AS y WHERE y.ra = x." + jc + ")"
		default:
			p1 := sqlGenPred(rng, sc, po, idxCols)
			p2 := sqlGenPred(rng, sc, pexpOpts{Depth: 1}, nil)
			q.Tmpl = "SELECT * FROM (SELECT * FROM {T} {H} WHERE " + p1.render(sc, "", q.PS, rng) + ") WHERE " + p2.render(sc, "", q.PS, rng)
			q.Mixed = p1.hasMixedNumeric(sc)
		}
	}
	if q.Where != nil {
		q.Mixed = q.Mixed || q.Where.hasMixedNumeric(sc)
	}
	q.Mixed = q.Mixed || strings.Contains(q.Tmpl, "WHERE") && q.Kind != "simple" && q.Kind != "count" // conservative for other kinds
	return q
}

// fragment query for the Lean model: SELECT * FROM t USE INDEX ON (idx) WHERE p [ORDER BY idx0 DESC] [LIMIT] [OFFSET]
func (c *c11Case) genFragQuery() *c11Query {
	rng, sc := c.rng, c.sc
	q := &c11Query{Kind: "fragment", PS: &sqlParams{}, Limit: -1, Offset: -1}
	idxs := append([]sqlIdx{{Cols: sc.PK}}, c.idxLive...)
	ix := idxs[rng.Intn(len(idxs))]
	p := sqlGenPred(rng, sc, pexpOpts{Depth: 2}, ix.Cols)
	f := &c11Frag{Idx: ix.Cols, P: p, Limit: -1, Offset: -1}
	s := "SELECT * FROM {T} " + c.hint(ix.Cols) + " WHERE " + p.render(sc, "", q.PS, rng)
	if rng.Intn(4) == 0 {
		f.Desc = true
		s += " ORDER BY " + sc.Cols[ix.Cols[0]].Name + " DESC"
		q.OrdCols, q.OrdDesc, q.Ord = []int{ix.Cols[0]}, []bool{true}, []int{ix.Cols[0]}
	} else if rng.Intn(4) == 0 {
		s += " ORDER BY " + sc.Cols[ix.Cols[0]].Name
		q.OrdCols, q.OrdDesc, q.Ord = []int{ix.Cols[0]}, []bool{false}, []int{ix.Cols[0]}
	}
	q.Star, q.WhereAll = true, p
	if rng.Intn(3) == 0 {
		f.Limit = rng.Intn(5)
		s += " LIMIT " + strconv.Itoa(f.Limit)
		if rng.Intn(2) == 0 {
			f.Offset = rng.Intn(4)
			s += " OFFSET " + strconv.Itoa(f.Offset)
		}
	}
	q.Tmpl, q.Frag, q.Where = s, f, p
	return q
}

// ---------------------------------------------------------------- oracle helpers

func c11Sorted(rows [][]c15Val, ord []int, desc []bool) (bool, int) {
	for i := 1; i < len(rows); i++ {
		for k, pos := range ord {
			if pos >= len(rows[i]) {
				return true, 0
			}
			cm := sqlCmpVal(rows[i-1][pos], rows[i][pos])
			if desc[k] {
				cm = -cm
			}
			if cm < 0 {
				break
			}
			if cm > 0 {
				return false, i
			}
		}
	}
	return true, 0
}

// ” / empty blob rendered as NULL (what the file sorter's codec does)
func c11EmptyAsNull(q sqlQRes, blobLenOnly bool) sqlQRes {
	out := sqlQRes{Err: q.Err, Cols: q.Cols}
	for _, r := range q.Rows {
		n := make([]c15Val, len(r))
		for i, v := range r {
			if blobLenOnly && !v.null && v.ty == sql.BLOBType && len(v.x) > 0 {
				v = c15Val{ty: sql.IntegerType, i: int64(len(v.x))}
			}
			if !v.null && ((v.ty == sql.VarcharType && v.s == "") || (v.ty == sql.BLOBType && len(v.x) == 0)) {
				v = sqlNull(v.ty)
			}
			if v.null {
				v = c15Val{null: true}
			}
			n[i] = v
		}
		out.Rows = append(out.Rows, n)
	}
	return out
}

func (c *c11Case) same(q *c11Query, a, b sqlQRes) bool {
	if a.Err != b.Err {
		return false
	}
	if q.Total {
		return a.list() == b.list()
	}
	if q.Limit >= 0 {
		// without a total order the chosen rows may differ: compare sizes only
		return len(a.Rows) == len(b.Rows)
	}
	return a.bag() == b.bag()
}

func (c *c11Case) cause(q *c11Query, a, b sqlQRes) string {
	switch {
	case (a.Err == "not-comparable") != (b.Err == "not-comparable") && q.Mixed:
		return ":null-compared-with-other-numeric-type"
	case (a.Err == "max-len") != (b.Err == "max-len"):
		return ":constant-longer-than-indexed-column"
	case c11BoolErr(a.Err) != c11BoolErr(b.Err):
		return ":null-boolean-operand"
	case c.intxIdx:
		return ":secondary-index-view-in-tx"
	case c.negZero || (q != nil && (q.Where.hasNegZero() || q.WhereAll.hasNegZero())):
		return ":negzero-float-key"
	}
	return ""
}

func (c *c11Case) fail(sig string, q *c11Query, qa, qb sqlText, a, b sqlQRes, what string) {
	for _, x := range []sqlQRes{a, b} {
		if strings.HasPrefix(x.Err, "panic:") {
			site := x.Err
			if i := strings.Index(site, " at "); i >= 0 {
				site = site[i+4:]
			}
			if j := strings.Index(site, " < "); j >= 0 {
				site = site[:j]
			}
			c.r.Fail("C11:query:panic:"+site, fmt.Sprintf("%s: [%s] / [%s] => %s", what, qa.String(), qb.String(), x.Err), c.replay(qa.String(), qb.String(), x.Err))
			return
		}
	}
	sig += c.cause(q, a, b)
	desc := fmt.Sprintf("%s: [%s] => %s %s  VS  [%s] => %s %s", what, qa.String(), a.Err, sqlRowsShow(a.Rows, 12), qb.String(), b.Err, sqlRowsShow(b.Rows, 12))
	c.r.Fail(sig, desc, c.replay(qa.String(), qb.String(), what))
}

// ---------------------------------------------------------------- the metamorphic checks of one query

func (c *c11Case) checkQuery(q *c11Query, tx *sql.SQLTx, small *sql.Engine) sqlQRes {
	r, sc := c.r, c.sc
	eng := c.env.eng
	baseT := q.text(q.Tmpl, "t", "r", "")
	if q.Frag != nil {
		baseT = q.text(q.Tmpl, "t", "r", "")
	}
	base := sqlQuery(eng, tx, baseT)
	r.Count("q." + q.Kind)
	if base.Err != "" {
		r.Count("q.err." + base.Err)
	} else if len(base.Rows) > 0 {
		r.Count("q.nonempty")
	}
	if strings.HasPrefix(base.Err, "panic:") {
		r.Fail("C11:query:panic", base.Err+" in "+baseT.String(), c.replay(baseT.String(), "", base.Err))
		return base
	}
	r.Eval(q.Kind+"|"+baseT.SQL, len(base.Rows) > 0)
	if q.Gen != "" {
		r.Count("q.gen." + q.Gen)
		if base.Err == "" && q.Kind == "simple" && q.Limit < 0 {
			r.Count("q.gen." + q.Gen + ".rows." + []string{"0", "1", "2-3", "4-7", "8-15", "16+"}[min(5, bitsLen(len(base.Rows)))])
		}
	}
	if tx == nil && q.Frag == nil {
		c.countShape(q)
	}

	// ORDER BY output sorted: on the unhinted (auto-chosen) plan first, under every hint below
	if base.Err == "" && len(q.Ord) > 0 {
		r.OracleChecks++
		r.Count("oracle.sorted.unhinted")
		if ok, at := c11Sorted(base.Rows, q.Ord, q.OrdDesc); !ok {
			c.r.Fail("C11:orderby:not-sorted"+c.cause(q, base, base), fmt.Sprintf("[%s] row %d out of order: %s", baseT.String(), at, sqlRowsShow(base.Rows, 12)), c.replay(baseT.String(), "", "not sorted"))
		}
	}
	if q.Frag != nil {
		return base
	}
	c.checkGroups(q, baseT, base)
	c.planCorr(q, tx, nil, base)
	// (2) every USE INDEX ON hint
	idxs := append([]sqlIdx{{Cols: sc.PK}}, c.idxLive...)
	for _, ix := range idxs {
		ht := q.text(q.Tmpl, "t", "r", c.hint(ix.Cols))
		hr := sqlQuery(eng, tx, ht)
		r.OracleChecks++
		r.Count("variant.hint")
		if !c.same(q, base, hr) {
			sig := "C11:plan:forced-index-differs"
			if (base.Err == "") != (hr.Err == "") {
				sig = "C11:plan:error-depends-on-plan"
			}
			c.fail(sig, q, baseT, ht, base, hr, "result under a forced index differs from the unhinted plan")
		}
		c.checkGroups(q, ht, hr)
		c.planCorr(q, tx, ix.Cols, hr)
		if hr.Err == "" && len(q.Ord) > 0 {
			r.OracleChecks++
			r.Count("oracle.sorted.hinted")
			if ok, at := c11Sorted(hr.Rows, q.Ord, q.OrdDesc); !ok {
				c.r.Fail("C11:orderby:not-sorted"+c.cause(q, hr, hr), fmt.Sprintf("[%s] row %d out of order: %s", ht.String(), at, sqlRowsShow(hr.Rows, 12)), c.replay(ht.String(), "", "not sorted"))
			}
		}
	}
	// (3) twin without secondary indexes
	if !c.diverged {
		tt := q.text(q.Tmpl, "tw", "rw", "")
		tr := sqlQuery(eng, tx, tt)
		r.OracleChecks++
		r.Count("variant.twin")
		if !c.same(q, base, tr) {
			sig := "C11:plan:index-vs-scan-differs"
			if (base.Err == "") != (tr.Err == "") {
				sig = "C11:plan:error-depends-on-plan"
			}
			c.fail(sig, q, baseT, tt, base, tr, "result on the indexed table differs from the twin without secondary indexes")
		}
	}
	// (5) tiny sort buffer
	if small != nil && tx == nil {
		sr := sqlQuery(small, nil, baseT)
		r.OracleChecks++
		r.Count("variant.filesort")
		if !c.same(q, base, sr) {
			sig := "C11:filesort-differs"
			na, nb := c11EmptyAsNull(base, false), c11EmptyAsNull(sr, false)
			la, lb := c11EmptyAsNull(base, true), c11EmptyAsNull(sr, true)
			// DISTINCT is applied above the sort: rows that the spill codec made equal ('' read back as NULL, BLOBs
			// overwritten by later rows) are then merged, so the two results are compared as SETS for the attribution
			bagOf := func(x sqlQRes) string {
				if q.Kind != "distinct" {
					return x.bag()
				}
				seen := map[string]bool{}
				var ts []string
				for _, t := range x.rowToks() {
					if !seen[t] {
						seen[t] = true
						ts = append(ts, t)
					}
				}
				sort.Strings(ts)
				return x.Err + "|" + strings.Join(ts, ";")
			}
			switch {
			case c.emptyStr && (bagOf(na) == bagOf(nb) || (q.Limit >= 0 && len(na.Rows) == len(nb.Rows))):
				// C15 finding: the spill codec writes '' as NULL (and then merges the chunks by the decoded values)
				sig += ":empty-string-as-null"
			case base.Err == "" && sr.Err == "" && bagOf(la) == bagOf(lb):
				sig += ":blob-values-corrupted"
			default:
				sig += c.cause(q, base, sr)
			}
			desc := fmt.Sprintf("sort buffer of 2 rows vs default: [%s] => %s %s  VS  %s %s", baseT.String(), base.Err, sqlRowsShow(base.Rows, 12), sr.Err, sqlRowsShow(sr.Rows, 12))
			if strings.HasPrefix(sr.Err, "panic:") {
				c.fail(sig, q, baseT, sqlPlain("same query, sql.Options.WithSortBufferSize(2)"), base, sr, "file sort")
			} else {
				c.r.Fail(sig, desc, c.replay(baseT.String(), "WithSortBufferSize(2)", "file sort"))
			}
		}
	}
	// LIMIT/OFFSET = slice of the unlimited result (total order only)
	if q.Limit >= 0 && q.NoLimit != "" && base.Err == "" {
		nt := q.text(q.NoLimit, "t", "r", "")
		full := sqlQuery(eng, tx, nt)
		r.OracleChecks++
		r.Count("variant.limit")
		off := 0
		if q.Offset > 0 {
			off = q.Offset
		}
		lo, hi := off, off+q.Limit
		if lo > len(full.Rows) {
			lo = len(full.Rows)
		}
		if hi > len(full.Rows) {
			hi = len(full.Rows)
		}
		// LIMIT 0 means "no limit" in this engine? observed semantics are checked, not assumed: see c11LimitZero
		want := sqlQRes{Rows: full.Rows[lo:hi]}
		if q.Limit == 0 {
			want = sqlQRes{Rows: full.Rows[lo:]}
			if c11LimitZeroIsEmpty {
				want = sqlQRes{}
			}
		}
		bad := false
		if full.Err != "" {
			bad = true
		} else if q.Total {
			bad = want.list() != base.list()
		} else {
			bad = len(want.Rows) != len(base.Rows)
			// every returned row must be a row of the unlimited result
			have := map[string]int{}
			for _, t := range full.rowToks() {
				have[t]++
			}
			for _, t := range base.rowToks() {
				have[t]--
				if have[t] < 0 {
					bad = true
				}
			}
		}
		if bad {
			c.fail("C11:limit-offset:not-a-slice", q, baseT, nt, base, full, "LIMIT/OFFSET result is not the slice of the unlimited result")
		}
		c.checkLimitKeys(q, baseT, nt, base, full)
	}
	// COUNT(*) = number of rows
	if q.Kind == "count" && base.Err == "" {
		nt := q.text(q.NoLimit, "t", "r", "")
		full := sqlQuery(eng, tx, nt)
		r.OracleChecks++
		if full.Err == "" && (len(base.Rows) != 1 || base.Rows[0][0].null || int(base.Rows[0][0].i) != len(full.Rows)) {
			c.fail("C11:count:differs-from-row-count", q, baseT, nt, base, full, "COUNT(*) differs from the number of rows")
		}
	}
	// GROUP BY totals = ungrouped totals
	if q.Kind == "group" && q.NoLimit != "" && base.Err == "" {
		nt := q.text(q.NoLimit, "t", "r", "")
		tot := sqlQuery(eng, tx, nt)
		r.OracleChecks++
		if tot.Err == "" && len(tot.Rows) == 1 {
			aggs := strings.Split(q.Select, ",")
			gn := max(q.GroupN, 1)
			for ai, a := range aggs {
				var acc *c15Val
				for _, row := range base.Rows {
					v := row[gn+ai]
					if v.null {
						continue
					}
					switch {
					case acc == nil:
						vv := v
						acc = &vv
					case strings.HasPrefix(a, "COUNT"), strings.HasPrefix(a, "SUM"):
						acc.i += v.i
					case strings.HasPrefix(a, "MIN"):
						if sqlCmpVal(v, *acc) < 0 {
							*acc = v
						}
					case strings.HasPrefix(a, "MAX"):
						if sqlCmpVal(v, *acc) > 0 {
							*acc = v
						}
					}
				}
				if strings.HasPrefix(a, "AVG") {
					continue
				}
				got := tot.Rows[0][ai]
				bad := false
				if acc == nil {
					bad = !got.null && !(strings.HasPrefix(a, "COUNT") && got.i == 0) && !(strings.HasPrefix(a, "SUM") && got.i == 0) && len(base.Rows) > 0
				} else {
					bad = got.null || sqlCmpVal(*acc, got) != 0
				}
				if bad {
					c.fail("C11:groupby:totals-differ", q, baseT, nt, base, tot, "aggregate "+a+" over the groups differs from the ungrouped aggregate")
					break
				}
			}
		}
	}
	// PARTITION by a predicate P
	if q.Kind == "simple" && q.Limit < 0 && base.Err == "" && c.rng.Intn(2) == 0 {
		p := sqlGenPred(c.rng, sc, pexpOpts{Depth: 1}, nil)
		ps := &sqlParams{}
		pt := p.render(sc, "", ps, nil)
		qs := ""
		if q.Where != nil {
			qs = "(" + q.Where.render(sc, "", ps, nil) + ") AND "
		}
		h := ""
		if len(idxs) > 0 && c.rng.Intn(2) == 0 {
			h = c.hint(idxs[c.rng.Intn(len(idxs))].Cols)
		}
		mk := func(cond string) sqlText {
			return ps.text("SELECT " + q.Select + " FROM t " + h + " WHERE " + qs + cond)
		}
		q1, q2, q3 := mk("("+pt+")"), mk("NOT ("+pt+")"), mk("("+pt+") IS NULL")
		r1, r2, r3 := sqlQuery(eng, tx, q1), sqlQuery(eng, tx, q2), sqlQuery(eng, tx, q3)
		r.OracleChecks++
		r.Count("variant.partition")
		if r1.Err == "" && r2.Err == "" && r3.Err == "" {
			all := append(append(append([]string{}, r1.rowToks()...), r2.rowToks()...), r3.rowToks()...)
			sort.Strings(all)
			bt := base.rowToks()
			sort.Strings(bt)
			if strings.Join(all, ";") != strings.Join(bt, ";") {
				sig := "C11:partition:rows-lost-or-duplicated" + c.cause(q, base, r1)
				desc := fmt.Sprintf("[%s] has %d rows but P:%d + NOT P:%d + P IS NULL:%d; P = %s; base=%s P=%s NOT P=%s", baseT.String(), len(base.Rows), len(r1.Rows), len(r2.Rows), len(r3.Rows), pt, sqlRowsShow(base.Rows, 8), sqlRowsShow(r1.Rows, 8), sqlRowsShow(r2.Rows, 8))
				c.r.Fail(sig, desc, c.replay(q1.String(), q2.String(), "partition"))
			}
		} else {
			r.Count("variant.partition.err")
		}
	}
	return base
}

var c11LimitZeroIsEmpty = false

func bitsLen(n int) int {
	k := 0
	for ; n > 0; n >>= 1 {
		k++
	}
	return k
}

// evaluation errors of a NULL boolean under NOT (ErrInvalidCondition) or AND/OR (ErrInvalidValue)
func c11BoolErr(e string) bool { return e == "invalid-value" || e == "invalid-condition" }

// ---------------------------------------------------------------- one case

func (c *c11Case) run(thorough bool) {
	r, rng := c.r, c.rng
	r.NextCase()
	env, err := sqlOpenEnv("c11")
	if err != nil {
		r.Inconclusive = append(r.Inconclusive, "cannot open store: "+err.Error())
		return
	}
	c.env = env
	defer env.close()
	c.sc = sqlGenSchema(rng, "t", sqlGenOpts{Exotic: true, UniqueProb: 25})
	sc := c.sc
	must := func(s string) bool {
		if res := c.exec(nil, sqlPlain(s)); res.Err != "" {
			r.Count("setup.err." + res.Err)
			return false
		}
		return true
	}
	if !must(sc.createTable("t")) || !must(sc.createTable("tw")) ||
		!must("CREATE TABLE r (rid INTEGER, ra INTEGER, rs VARCHAR[8], PRIMARY KEY rid)") ||
		!must("CREATE TABLE rw (rid INTEGER, ra INTEGER, rs VARCHAR[8], PRIMARY KEY rid)") ||
		!must("CREATE INDEX ON r(ra)") {
		r.Notes = append(r.Notes, "setup failed: "+strings.Join(c.script, " ;; "))
		return
	}
	for i := 0; i < 6; i++ {
		ra := strconv.Itoa(rng.Intn(6) - 1)
		if rng.Intn(6) == 0 {
			ra = "NULL"
		}
		vals := fmt.Sprintf("(%d, %s, '%s')", i+1, ra, []string{"", "a", "b", "ab"}[rng.Intn(4)])
		must("INSERT INTO r(rid, ra, rs) VALUES " + vals + "; INSERT INTO rw(rid, ra, rs) VALUES " + vals)
	}
	// indexes: unique ones and some others before data, the rest after the first batch
	var later []sqlIdx
	for _, ix := range sc.Idx {
		if ix.Unique || rng.Intn(2) == 0 {
			if must(sc.createIndex("t", ix)) {
				c.idxLive = append(c.idxLive, ix)
				r.Count("index.before-data")
			}
		} else {
			later = append(later, ix)
		}
	}
	r.Count(fmt.Sprintf("schema.pk%d.idx%d", len(sc.PK), len(sc.Idx)))
	for _, col := range sc.Cols {
		r.Count("coltype." + c15TyName(col.Ty))
	}
	nUnits := 6 + rng.Intn(14)
	if thorough {
		nUnits += rng.Intn(20)
	}
	do := dmlOpts{G: sqlGenOpts{Exotic: true}, P: pexpOpts{Depth: 1, Mixed: false}}
	seedBase := rng.U64()
	unit := func(inTxQueries []*c11Query, small *sql.Engine) {
		// one transaction applied to both twins
		multi := rng.Intn(100) < 25 || inTxQueries != nil
		n := 1
		if multi {
			n = 1 + rng.Intn(3)
		}
		if c.bulkLeft > 0 {
			n = c.bulkLeft
			r.Count("unit.bulk")
		}
		c.snapOK, c.tblSent = false, false
		var tx *sql.SQLTx
		if multi {
			res := c.exec(nil, sqlPlain("BEGIN TRANSACTION"))
			if res.Err != "" || res.Tx == nil {
				return
			}
			tx = res.Tx
			r.Count("unit.multi")
		} else {
			r.Count("unit.auto")
		}
		c.intxIdx = false
		ok := true
		for i := 0; i < n && ok; i++ {
			d := sqlGenDML(rng, sc, do)
			if len(c.rowsHint()) < 3 && rng.Intn(2) == 0 {
				d = sqlGenDML(rng, sc, dmlOpts{G: do.G, P: do.P}) // bias to inserts when the table is small
			}
			if c.bulkLeft > 0 {
				d = c.genBulk()
				c.bulkLeft--
			}
			seedBase++
			t1, t2 := d.text(sc, "t", seedBase), d.text(sc, "tw", seedBase)
			r.Count("dml." + d.K)
			both := sqlText{SQL: t1.SQL + "; " + t2.SQL, Params: t1.Params, PToks: t1.PToks}
			var res sqlXRes
			if tx != nil {
				// statement by statement so that a failure on the twin alone is visible
				res = c.exec(tx, t1)
				if res.Err == "" {
					tx = res.Tx
					res = c.exec(tx, t2)
					if res.Err != "" {
						r.Fail("C11:dml:twin-outcome-differs"+c.causeDML(), "statement succeeded on t but failed on the twin tw ("+res.Err+"): "+t2.String(), c.replay(t1.String(), t2.String(), res.Err))
					}
				}
				tx = res.Tx
			} else {
				res = c.exec(nil, both)
			}
			if res.Err != "" {
				r.Count("dml.err." + res.Err)
				ok = false
				tx = nil
				break
			}
			if tx == nil && len(res.TxIDs) > 0 {
				c.recordHist(res.TxIDs[len(res.TxIDs)-1])
			}
			if multi && len(c.idxLive) > 0 {
				if c.intxIdx {
					c.intxEver = true
				}
				c.intxIdx = true
			}
			c.noteValues(d)
		}
		if tx != nil && ok {
			if inTxQueries != nil {
				// (4) inside the writing transaction
				var inTx []sqlQRes
				for _, q := range inTxQueries {
					inTx = append(inTx, c.checkQuery(q, tx, nil))
				}
				stale := c.intxIdx
				res := c.exec(tx, sqlPlain("COMMIT"))
				if res.Err != "" {
					r.Count("commit.err." + res.Err)
					return
				}
				c.intxIdx = false
				// the DML of this transaction may have used the unreliable in-tx index view (R1): a divergence of the
				// twins is reported as such, and the twin comparison of the queries below is then skipped
				c.twinCheck()
				var after []sqlQRes
				for i, q := range inTxQueries {
					a := c.checkQuery(q, nil, small)
					after = append(after, a)
					r.OracleChecks++
					r.Count("variant.tx-vs-committed")
					if !c.same(q, inTx[i], a) {
						c.intxIdx = stale
						qt := q.text(q.Tmpl, "t", "r", "")
						c.fail("C11:tx-vs-committed-differs", q, qt, qt, inTx[i], a, "result inside the writing transaction differs from the result after COMMIT")
						c.intxIdx = false
					}
				}
				c.log("-- close / reopen")
				if err := c.env.reopen(); err != nil {
					r.Inconclusive = append(r.Inconclusive, "reopen: "+err.Error())
					return
				}
				for i, q := range inTxQueries {
					b := c.checkQuery(q, nil, nil)
					r.OracleChecks++
					r.Count("variant.restart")
					if !c.same(q, after[i], b) {
						qt := q.text(q.Tmpl, "t", "r", "")
						c.fail("C11:restart-differs", q, qt, qt, after[i], b, "result after close/reopen differs from the result before")
					}
				}
				return
			}
			if rng.Intn(8) == 0 {
				c.exec(tx, sqlPlain("ROLLBACK"))
				r.Count("unit.rollback")
			} else {
				res := c.exec(tx, sqlPlain("COMMIT"))
				if res.Err != "" {
					r.Count("commit.err." + res.Err)
				} else if len(res.TxIDs) > 0 {
					c.recordHist(res.TxIDs[len(res.TxIDs)-1])
				}
			}
		}
		c.intxIdx = false
	}
	queryPhase := func(nq int) {
		small, err := c.env.engineWith(2)
		if err != nil {
			small = nil
		}
		c.twinCheck()
		c.histCheck()
		for i := 0; i < nq; i++ {
			var q *c11Query
			if rng.Intn(4) == 0 {
				q = c.genFragQuery()
			} else if !c.noIdxRel && rng.Intn(100) < 45 {
				q = c.genIdxRelQuery()
			} else {
				q = c.genQuery()
			}
			base := c.checkQuery(q, nil, small)
			if q.Frag != nil {
				c.fragCorr(q, base)
			}
		}
	}
	// bulk units (rows sharing the leading index columns): one somewhere in the history, one near its end
	bulkAt, bulkLate := -1, -1
	if !c.noIdxRel && rng.Intn(100) < 75 {
		bulkAt = rng.Intn(nUnits)
	}
	if !c.noIdxRel && rng.Intn(100) < 50 {
		bulkLate = nUnits - 1 - rng.Intn(2)
	}
	for u := 0; u < nUnits; u++ {
		if u == bulkAt || u == bulkLate {
			c.bulkLeft = 4 + rng.Intn(5)
		}
		unit(nil, nil)
		c.bulkLeft = 0
		if u == nUnits/3 {
			for _, ix := range later {
				if must(sc.createIndex("t", ix)) {
					c.idxLive = append(c.idxLive, ix)
					r.Count("index.after-data")
				}
			}
			later = nil
			queryPhase(3)
		}
		if c.diverged {
			break
		}
	}
	nq := 8
	if thorough {
		nq = 16
	}
	queryPhase(nq)
	if c.diverged {
		return
	}
	// final unit: queries inside the writing tx, after commit, after reopen
	var qs []*c11Query
	for i := 0; i < 5; i++ {
		if rng.Intn(4) == 0 {
			qs = append(qs, c.genFragQuery())
		} else if !c.noIdxRel && rng.Intn(100) < 45 {
			qs = append(qs, c.genIdxRelQuery())
		} else {
			qs = append(qs, c.genQuery())
		}
	}
	small, _ := c.env.engineWith(2)
	unit(qs, small)
	if len(r.Samples) < 3 {
		r.Sample(map[string]interface{}{"case": r.Case(), "script_head": c.script[:min(len(c.script), 14)], "lines": len(c.script)})
	}
}

func (c *c11Case) rowsHint() [][]c15Val { return nil }

// historical queries: `SELECT * FROM t BEFORE TX n+1` must return the table as it was after tx n
func (c *c11Case) recordHist(tx uint64) {
	if c.diverged {
		return
	}
	s := sqlScan(c.env.eng, nil, c.sc, "t", c.sc.PK)
	if s.Err == "" {
		c.hist = append(c.hist, c11Hist{tx: tx, bag: s.bag(), n: len(s.Rows)})
	}
}

func (c *c11Case) histCheck() {
	if len(c.hist) == 0 {
		return
	}
	for k := 0; k < 2; k++ {
		h := c.hist[c.rng.Intn(len(c.hist))]
		q := sqlPlain(fmt.Sprintf("SELECT * FROM t BEFORE TX %d", h.tx+1))
		got := sqlQuery(c.env.eng, nil, q)
		c.r.OracleChecks++
		c.r.Count("variant.historical")
		if got.bag() != h.bag {
			c.r.Fail("C11:historical:before-tx-differs"+c.causeDML(), fmt.Sprintf("[%s] => %s %s but after transaction %d the table held %d rows: %s", q.SQL, got.Err, sqlRowsShow(got.Rows, 10), h.tx, h.n, h.bag), c.replay(q.SQL, "", "historical"))
		}
	}
}

func (c *c11Case) causeDML() string {
	if c.intxIdx || c.intxEver {
		return ":secondary-index-view-in-tx"
	}
	if c.negZero {
		return ":negzero-float-key"
	}
	return ""
}

func (c *c11Case) noteValues(d *dml) {
	note := func(v c15Val) {
		if v.null {
			return
		}
		switch v.ty {
		case sql.Float64Type:
			if v.f == 1<<63 {
				c.negZero = true
			}
		case sql.VarcharType:
			if v.s == "" {
				c.emptyStr = true
			}
		case sql.BLOBType:
			if len(v.x) == 0 {
				c.emptyStr = true
			}
		}
	}
	for _, row := range d.Rows {
		for _, v := range row {
			note(v)
		}
	}
	for _, s := range d.Set {
		note(s.V)
	}
	// a -0.0 constant in the WHERE clause of a DML statement selects different rows through an index on the column
	// (key of -0.0) than through a scan (Compare: -0.0 = +0.0): same root cause R13
	if d.Where.hasNegZero() {
		c.negZero = true
	}
}

// the twins must hold the same rows after every committed unit
func (c *c11Case) twinCheck() {
	if c.diverged {
		return
	}
	a := sqlScan(c.env.eng, nil, c.sc, "t", nil)
	b := sqlScan(c.env.eng, nil, c.sc, "tw", nil)
	c.r.OracleChecks++
	if a.Err == "" {
		c.snap, c.snapOK = a.Rows, true
		c.r.Count("table.rows." + []string{"0", "1", "2-3", "4-7", "8-15", "16+"}[min(5, bitsLen(len(a.Rows)))])
	}
	if a.bag() != b.bag() {
		c.diverged = true
		desc := fmt.Sprintf("after the same DML history t = %s %s but tw = %s %s", a.Err, sqlRowsShow(a.Rows, 12), b.Err, sqlRowsShow(b.Rows, 12))
		c.r.Fail("C11:dml:twin-tables-diverged"+c.causeDML(), desc, c.replay("SELECT * FROM t", "SELECT * FROM tw", "twin divergence"))
	}
}

// Lean correspondence of a fragment query: same data (the engine's own PK scan), same query
func (c *c11Case) fragCorr(q *c11Query, base sqlQRes) {
	sc := c.sc
	if !q.Frag.P.inFragment(sc) {
		return
	}
	data := sqlScan(c.env.eng, nil, sc, "t", sc.PK)
	if data.Err != "" {
		return
	}
	// values the model does not cover: NaN never generated; -0.0 keys excluded (F5 is C15's finding)
	if c.negZero {
		c.r.Count("frag.skipped-negzero")
		return
	}
	f := q.Frag
	// `runIndex` models a scan of the FORCED index. The engine does not always scan it: a hint naming the primary
	// key does not stop the equality-lookup fallback of genScanSpecs (`sortingIndex == table.primaryIndex`), which
	// replaces it by a secondary index whose leading columns are bound by equality. Such a query goes to the
	// planner model (`c11 plan` / `c11 pq`, which mirrors the fallback) instead of `c11 q`.
	qt0 := q.text(q.Tmpl, "t", "r", "")
	if pl := c.observePlan(nil, qt0); pl.Err == "" && base.Err == "" && fmt.Sprint(pl.Idx) != fmt.Sprint(f.Idx) {
		c.r.Count("frag.forced-index-replaced-by-equality-lookup")
		qq := *q
		qq.Kind, qq.Limit, qq.Offset = "simple", f.Limit, f.Offset
		c.planCorr(&qq, nil, f.Idx, base)
	} else {
		if !c.sendTable(data) {
			return
		}
		ix := make([]string, len(f.Idx))
		for i, p := range f.Idx {
			ix[i] = strconv.Itoa(p)
		}
		ans := "rows " + strings.Join(base.rowToks(), ";")
		if base.Err != "" {
			ans = "err:" + base.Err
		}
		c.r.Corr(fmt.Sprintf("c11 q %d %s %s %d %d %s", len(ix), strings.Join(ix, " "), b01s(f.Desc), f.Limit, f.Offset, strings.Join(f.P.toks(), " ")), ans)
		c.r.Count("frag.corr")
	}
	// model-independent cross-check of the same query with the Go evaluator (engine semantics)
	var want [][]c15Val
	for _, row := range data.Rows {
		v, n, e := f.P.eval(sc, row)
		if e != "" {
			return
		}
		if v && !n {
			want = append(want, row)
		}
	}
	c.r.OracleChecks++
	wb := sqlQRes{Rows: want}
	if base.Err == "" && f.Limit < 0 && wb.bag() != base.bag() {
		qt := q.text(q.Tmpl, "t", "r", "")
		c.r.Fail("C11:fragment:rows-differ-from-reference-evaluator"+c.cause(q, base, wb), fmt.Sprintf("[%s] => %s but filtering the PK scan with the predicate gives %s", qt.String(), sqlRowsShow(base.Rows, 12), sqlRowsShow(want, 12)), c.replay(qt.String(), "", "reference evaluator"))
	}
}

func runC11(r *hx.Result, rng *hx.Rng, thorough bool, replay string) error {
	if replay != "" {
		r.Rule = "replay of a recorded failure: the recorded SQL script executed again on a fresh store"
		return sqlReplay(r, replay)
	}
	rng = rng.Fork() // hx.NewRng(seed+1) is hx.NewRng(seed) shifted by one draw: fork once so that seeds give unrelated streams
	r.Rule = "evaluation = one generated query executed under all its plan variants (hints, twin without indexes, in-tx/committed/reopened, file sort, partition, count, totals); nontrivial = distinct query text with a non-empty result"
	cases := 60
	if thorough {
		cases = 500
	}
	c11ProbeLimitZero(r)
	if os.Getenv("VH_C11_JOINS") == "only" { // measurement of the JOIN family alone
		runC11Joins(r, rng.Fork(), thorough)
		return r.Flush()
	}
	for i := 0; i < cases; i++ {
		c := &c11Case{r: r, rng: rng.Fork(), noIdxRel: os.Getenv("VH_C11_IDXREL") == "0"}
		c.run(thorough)
		if i%10 == 9 {
			if err := r.Flush(); err != nil {
				return err
			}
		}
	}
	// JOIN family (c11join.go): its own stream, forked after the single-table cases so that their streams are unchanged
	if os.Getenv("VH_C11_JOINS") != "0" {
		runC11Joins(r, rng.Fork(), thorough)
		if err := r.Flush(); err != nil {
			return err
		}
	}
	must := []string{"variant.hint", "variant.twin", "variant.filesort", "variant.tx-vs-committed", "variant.restart", "variant.partition", "q.nonempty", "index.after-data", "index.before-data", "unit.multi"}
	if os.Getenv("VH_C11_IDXREL") != "0" {
		// the shapes the planner decisions depend on must have been reached, on the unhinted plan
		must = append(must, "q.gen.idxrel", "unit.bulk", "oracle.sorted.unhinted", "plan.corr", "plan.rows-corr", "plan.order-by-without-sort-step", "plan.sort-step",
			"shape.eq-lead.composite-index+order-by.not-covered", "shape.eq-lead.composite-index+order-by.pk-prefix", "shape.eq-lead.composite-index+group-by")
	}
	for _, k := range must {
		if r.Distribution[k] == 0 {
			r.Inconclusive = append(r.Inconclusive, "generator never produced class "+k)
		}
	}
	r.Notes = append(r.Notes,
		"search-only (outside the Lean fragment): joins, subqueries, GROUP BY/aggregates, DISTINCT, LIKE, mixed numeric constants, file sort, in-tx/restart equality",
		"planner tie: index / DescOrder / presence of the sort step of every fragment SELECT (unhinted and hinted) are observed through RowReader.ScanSpecs() and the reader chain and compared with the Lean planOf; VH_C11_IDXREL=0 switches the index-relative generator and the bulk units off (measurement of the general generator alone)",
		"engine semantics observed and used by the oracle: comparisons are two-valued with NULL as the least value; a NULL boolean at the top of WHERE drops the row, under NOT/AND/OR it is an evaluation error")
	return nil
}

// what LIMIT 0 means is observed once (the oracle checks consistency across plans, not a convention)
func c11ProbeLimitZero(r *hx.Result) {
	env, err := sqlOpenEnv("c11p")
	if err != nil {
		return
	}
	defer env.close()
	sqlExec(env.eng, nil, sqlPlain("CREATE TABLE p (id INTEGER, PRIMARY KEY id)"))
	sqlExec(env.eng, nil, sqlPlain("INSERT INTO p(id) VALUES (1),(2)"))
	q := sqlQuery(env.eng, nil, sqlPlain("SELECT id FROM p LIMIT 0"))
	c11LimitZeroIsEmpty = q.Err == "" && len(q.Rows) == 0
	r.Extra["limit_zero_returns_no_rows"] = c11LimitZeroIsEmpty
}
