package main

// C13 — catalog-cache schedules: the tie between the engine and the Lean model `Sql/CatalogCache.lean`
// (driver ops `c13c …`, lean/Driver/C13Cache.lean).
//
// Several sessions open read-write transactions (BEGIN), autocommit readers peek, transactions execute DDL
// (CREATE TABLE with a fresh name: the catalog GENERATION a transaction sees = the number of tables it lists),
// DML (INSERT of a fresh key into a fixed table), COMMIT (incl. EMPTY ones and ones that must conflict),
// ROLLBACK; the engine is closed and re-opened.  For every BEGIN / peek the harness reports to the model the
// generation the new transaction sees and whether the engine-level catalog cache was hit (through the
// package-level sql.CatalogCacheHitObserver / CatalogCacheMissObserver hooks), for every COMMIT ok / conflict.
// ORACLE (model independent): a transaction opened now sees exactly as many tables as DDL transactions have
// committed — a committed DDL is visible to every later transaction, whatever older (empty) transactions
// committed in between.

import (
	"fmt"
	"strconv"

	"github.com/codenotary/immudb/embedded/sql"

	"verif/harness/internal/hx"
)

type c13cSess struct {
	tx    *sql.SQLTx
	ddl   bool
	wrote bool
}

func runC13Cache(r *hx.Result, rng *hx.Rng, thorough bool) error {
	hits, misses := 0, 0
	oldHit, oldMiss := sql.CatalogCacheHitObserver, sql.CatalogCacheMissObserver
	sql.CatalogCacheHitObserver = func() { hits++ }
	sql.CatalogCacheMissObserver = func() { misses++ }
	defer func() { sql.CatalogCacheHitObserver, sql.CatalogCacheMissObserver = oldHit, oldMiss }()

	cases := 40
	if thorough {
		cases = 400
	}
	for ci := 0; ci < cases; ci++ {
		crng := rng.Fork()
		r.NextCase()
		env, err := sqlOpenEnv("c13c")
		if err != nil {
			r.Inconclusive = append(r.Inconclusive, "cannot open store: "+err.Error())
			return nil
		}
		var script []string
		dead := false
		gen := 0 // DDL transactions committed so far (harness count, model independent)
		nextTable, nextKey := 0, 0
		nSess := 2 + crng.Intn(3)
		peekPct := []int{0, 5, 20}[crng.Intn(3)] // some cases never warm the cache through readers
		sess := make([]*c13cSess, nSess)
		for i := range sess {
			sess[i] = &c13cSess{}
		}
		r.Count(fmt.Sprintf("cache.case.sessions%d.peek%d", nSess, peekPct))
		fail := func(sig, desc string) {
			r.Fail(sig, desc, c11Replay{Script: append([]string{}, script...), Detail: desc})
			dead = true
		}
		exec := func(sid int, tx *sql.SQLTx, q string) sqlXRes {
			res := sqlExec(env.eng, tx, sqlPlain(q))
			st := "ok"
			if res.Err != "" {
				st = "ERR " + res.Err
			}
			script = append(script, fmt.Sprintf("[s%d] %s   => %s", sid, q, st))
			return res
		}
		hm := func(h0 int) string {
			if hits > h0 {
				return "hit"
			}
			return "miss"
		}
		seen := func(sid int, n int, how string) {
			r.OracleChecks++
			r.Eval(fmt.Sprintf("cache|%d|%d|%d", r.Case(), len(script), n), n > 0)
			if n != gen {
				fail("C13:cache:new-transaction-does-not-see-committed-ddl", fmt.Sprintf("session %d %s and sees %d tables; %d DDL transactions (one CREATE TABLE each) have committed", sid, how, n, gen))
			}
		}
		begin := func(sid int) {
			s := sess[sid]
			h0 := hits
			res := exec(sid, nil, "BEGIN TRANSACTION")
			if res.Err != "" || res.Tx == nil {
				r.Corr(fmt.Sprintf("c13c newtx %d rw", sid), "err:"+res.Err)
				fail("C13:begin:fails", fmt.Sprintf("session %d: BEGIN TRANSACTION fails with %s", sid, res.Err))
				return
			}
			*s = c13cSess{tx: res.Tx}
			n := len(res.Tx.Catalog().GetTables())
			if n != gen { // make the stale catalog visible in the script (replays compare query outcomes)
				q := sqlQuery(env.eng, res.Tx, sqlPlain("SELECT * FROM TABLES()"))
				script = append(script, fmt.Sprintf("[s%d] SELECT * FROM TABLES() (Query)   => %s", sid, sqlQueryOutcome(q)))
			}
			r.Corr(fmt.Sprintf("c13c newtx %d rw", sid), fmt.Sprintf("gen=%d %s", n, hm(h0)))
			r.Count("cache.op.begin." + hm(h0))
			seen(sid, n, "begins a read-write transaction")
		}
		peek := func(sid int) {
			h0 := hits
			q := sqlQuery(env.eng, nil, sqlPlain("SELECT * FROM TABLES()"))
			script = append(script, fmt.Sprintf("[s%d] SELECT * FROM TABLES() (Query)   => %s", sid, sqlQueryOutcome(q)))
			r.Corr(fmt.Sprintf("c13c newtx %d ro", sid), fmt.Sprintf("gen=%d %s", len(q.Rows), hm(h0)))
			r.Corr(fmt.Sprintf("c13c cancel %d", sid), "ok")
			r.Count("cache.op.peek." + hm(h0))
			if q.Err != "" {
				fail("C13:cache:reader-fails", fmt.Sprintf("session %d: autocommit SELECT * FROM TABLES() fails with %s", sid, q.Err))
				return
			}
			seen(sid, len(q.Rows), "runs an autocommit query (read-only transaction)")
		}
		stmt := func(sid int, ddl bool) {
			s := sess[sid]
			var q, op string
			if ddl {
				nextTable++
				q, op = fmt.Sprintf("CREATE TABLE g%d (id INTEGER, PRIMARY KEY id)", nextTable), "ddl"
			} else {
				nextKey++
				q, op = fmt.Sprintf("INSERT INTO g1(id) VALUES (%d)", nextKey), "dml"
			}
			res := exec(sid, s.tx, q)
			r.Count("cache.op." + op)
			if res.Err != "" {
				r.Corr(fmt.Sprintf("c13c %s %d", op, sid), "err:"+res.Err)
				*s = c13cSess{}
				return
			}
			r.Corr(fmt.Sprintf("c13c %s %d", op, sid), "ok")
			s.tx = res.Tx
			s.wrote = true
			if ddl {
				s.ddl = true
			}
		}
		commit := func(sid int) {
			s := sess[sid]
			res := exec(sid, s.tx, "COMMIT")
			ans := "ok"
			switch res.Err {
			case "":
			case "read-conflict":
				ans = "conflict"
			default:
				ans = "err:" + res.Err
			}
			r.Corr(fmt.Sprintf("c13c commit %d", sid), ans)
			kind := "empty"
			if s.ddl {
				kind = "ddl"
			} else if s.wrote {
				kind = "dml"
			}
			r.Count("cache.op.commit." + kind + "." + ans)
			if res.Err == "" && s.ddl {
				gen++
			}
			*s = c13cSess{}
		}
		cancel := func(sid int) {
			s := sess[sid]
			res := exec(sid, s.tx, "ROLLBACK")
			ans := "ok"
			if res.Err != "" {
				ans = "err:" + res.Err
			}
			r.Corr(fmt.Sprintf("c13c cancel %d", sid), ans)
			r.Count("cache.op.rollback")
			*s = c13cSess{}
		}

		r.Corr("c13c reset", "ok")
		// generation 1: the table the DML goes to
		begin(0)
		if !dead {
			stmt(0, true)
			commit(0)
		}
		steps := 50 + crng.Intn(60)
		if thorough {
			steps *= 2
		}
		for st := 0; st < steps && !dead; st++ {
			if crng.Intn(70) == 0 {
				for sid, s := range sess {
					if s.tx != nil {
						cancel(sid)
					}
				}
				script = append(script, "-- close / reopen")
				if err := env.reopen(); err != nil {
					r.Inconclusive = append(r.Inconclusive, "C13 cache: reopen failed: "+err.Error())
					dead = true
					break
				}
				r.Corr("c13c reopen", "ok")
				r.Count("cache.op.reopen")
				continue
			}
			sid := crng.Intn(nSess)
			s := sess[sid]
			k := crng.Intn(100)
			if s.tx == nil {
				if k < peekPct {
					peek(sid)
				} else {
					begin(sid)
				}
				continue
			}
			switch {
			case k < 15:
				stmt(sid, !s.ddl) // one CREATE TABLE per transaction: generation = number of tables
			case k < 38:
				stmt(sid, false)
			case k < 80:
				commit(sid)
			case k < 90:
				cancel(sid)
			default: // stays open, does nothing this turn
			}
		}
		for sid, s := range sess {
			if s.tx != nil && !dead {
				cancel(sid)
			}
		}
		if !dead {
			peek(0)
		}
		if r.Distribution["cache.sampled"] < 1 {
			r.Count("cache.sampled")
			r.Sample(map[string]interface{}{"case": r.Case(), "mode": "catalog-cache-schedule", "script_head": script[:min(len(script), 14)], "lines": len(script), "ddl_commits": strconv.Itoa(gen)})
		}
		for _, s := range sess {
			if s.tx != nil {
				s.tx.Cancel()
			}
		}
		env.close()
		if ci%10 == 9 {
			if err := r.Flush(); err != nil {
				return err
			}
		}
	}
	for _, k := range []string{"cache.op.begin.hit", "cache.op.begin.miss", "cache.op.peek.hit", "cache.op.peek.miss", "cache.op.commit.empty.ok", "cache.op.commit.ddl.ok", "cache.op.commit.dml.ok", "cache.op.commit.dml.conflict", "cache.op.commit.ddl.conflict", "cache.op.rollback", "cache.op.reopen"} {
		if r.Distribution[k] == 0 {
			r.Inconclusive = append(r.Inconclusive, "generator never produced class "+k)
		}
	}
	return r.Flush()
}
