package main

// C19: the two ways the real document code is driven: embedded/document.Engine on a store (as
// engine_test.go does) and the pkg/database document API (as pkg/database's tests do).

import (
	"context"
	"errors"
	"fmt"
	"path/filepath"
	"strings"
	"time"

	"github.com/codenotary/immudb/embedded/document"
	"github.com/codenotary/immudb/embedded/sql"
	"github.com/codenotary/immudb/embedded/store"
	"github.com/codenotary/immudb/pkg/api/protomodel"
	"github.com/codenotary/immudb/pkg/api/schema"
	"github.com/codenotary/immudb/pkg/database"
	"google.golang.org/protobuf/types/known/structpb"
)

var c19Ctx = context.Background()

type c19API interface {
	Stage() string
	CreateCollection(name string, fields []*protomodel.Field, idx []*protomodel.Index) error
	GetCollection(name string) (*protomodel.Collection, error)
	AddField(coll string, f *protomodel.Field) error
	RemoveField(coll, name string) error
	CreateIndex(coll string, fields []string, unique bool) error
	DeleteIndex(coll string, fields []string) error
	Insert(coll string, docs []*structpb.Struct) (uint64, []string, error)
	Replace(q *protomodel.Query, doc *structpb.Struct) ([]*protomodel.DocumentAtRevision, error)
	Delete(q *protomodel.Query) error
	Search(q *protomodel.Query, offset int64, n int) ([]*protomodel.DocumentAtRevision, error)
	Count(q *protomodel.Query) (int64, error)
	Audit(coll, id string, desc bool, offset, limit int) ([]*protomodel.DocumentAtRevision, error)
	Proof(req *protomodel.ProofDocumentRequest) (*protomodel.ProofDocumentResponse, error) // nil,nil when not available
	State() *schema.ImmutableState
	Reopen() error
	Close()
}

func c19ErrClass(err error) string {
	switch {
	case err == nil:
		return "ok"
	case errors.Is(err, document.ErrUnexpectedValue):
		return "err:unexpected-value"
	case errors.Is(err, document.ErrFieldDoesNotExist):
		return "err:field-not-found"
	case errors.Is(err, sql.ErrColumnDoesNotExist):
		return "err:column-not-found"
	case errors.Is(err, document.ErrConflict):
		return "err:conflict"
	case errors.Is(err, document.ErrMaxLengthExceeded), errors.Is(err, sql.ErrMaxLengthExceeded):
		return "err:max-length"
	case errors.Is(err, document.ErrReservedName):
		return "err:reserved"
	case errors.Is(err, document.ErrIllegalArguments):
		return "err:illegal"
	case errors.Is(err, document.ErrFieldAlreadyExists):
		return "err:field-exists"
	case errors.Is(err, document.ErrLimitedIndexCreation):
		return "err:limited-index-creation"
	case errors.Is(err, document.ErrCollectionDoesNotExist):
		return "err:no-collection"
	case errors.Is(err, document.ErrDocumentNotFound):
		return "err:doc-not-found"
	case errors.Is(err, document.ErrUnsupportedType):
		return "err:unsupported-type"
	case strings.Contains(err.Error(), "invalid UUID"):
		return "err:uuid"
	case strings.Contains(err.Error(), "encoding/hex"):
		return "err:hex"
	}
	return "err:other:" + err.Error()
}

func c19ReadN(rd document.DocumentReader, n int) ([]*protomodel.DocumentAtRevision, error) {
	defer rd.Close()
	docs, err := rd.ReadN(c19Ctx, n)
	if err != nil && !errors.Is(err, document.ErrNoMoreDocuments) {
		return nil, err
	}
	return docs, nil
}

// ---------------- stage 1: document.Engine ----------------

type c19Eng struct {
	dir string
	st  *store.ImmuStore
	e   *document.Engine
}

func c19StoreOpts() *store.Options {
	// small buffers/caches: the defaults allocate a 128 MB cache per index, which dominates the run time of short cases
	o := store.DefaultOptions().WithMultiIndexing(true).WithSynced(false).WithLogger(quietLogger()).
		WithMaxConcurrency(4).WithWriteBufferSize(1 << 16).WithMaxTxEntries(256).WithMaxValueLen(1 << 20).
		WithAHTOptions(store.DefaultAHTOptions().WithWriteBufferSize(1 << 16).WithSyncThld(1000))
	return o.WithIndexOptions(o.IndexOpts.WithCacheSize(1 << 20).WithMaxActiveSnapshots(20).WithFlushBufferSize(1 << 16).
		WithMaxBufferedDataSize(1 << 20).WithMaxGlobalBufferedDataSize(1 << 24))
}

func newC19Eng(dir string) (*c19Eng, error) {
	a := &c19Eng{dir: dir}
	return a, a.open()
}

func (a *c19Eng) open() error {
	t0 := time.Now()
	st, err := store.Open(a.dir, c19StoreOpts())
	if err != nil {
		return err
	}
	c19Timing["x.store.Open"] += time.Since(t0)
	t0 = time.Now()
	defer func() { c19Timing["x.NewEngine"] += time.Since(t0) }()
	e, err := document.NewEngine(st, document.DefaultOptions().WithPrefix([]byte{3}))
	if err != nil {
		st.Close()
		return err
	}
	a.st, a.e = st, e
	return nil
}

func (a *c19Eng) Stage() string { return "engine" }
func (a *c19Eng) CreateCollection(name string, fields []*protomodel.Field, idx []*protomodel.Index) error {
	return a.e.CreateCollection(c19Ctx, "u", name, "", fields, idx)
}
func (a *c19Eng) GetCollection(name string) (*protomodel.Collection, error) {
	return a.e.GetCollection(c19Ctx, name)
}
func (a *c19Eng) AddField(coll string, f *protomodel.Field) error {
	return a.e.AddField(c19Ctx, "u", coll, f)
}
func (a *c19Eng) RemoveField(coll, name string) error { return a.e.RemoveField(c19Ctx, "u", coll, name) }
func (a *c19Eng) CreateIndex(coll string, fields []string, unique bool) error {
	return a.e.CreateIndex(c19Ctx, "u", coll, fields, unique)
}
func (a *c19Eng) DeleteIndex(coll string, fields []string) error {
	return a.e.DeleteIndex(c19Ctx, "u", coll, fields)
}
func (a *c19Eng) Insert(coll string, docs []*structpb.Struct) (uint64, []string, error) {
	tx, ids, err := a.e.InsertDocuments(c19Ctx, "u", coll, docs)
	if err != nil {
		return 0, nil, err
	}
	out := make([]string, len(ids))
	for i, id := range ids {
		out[i] = id.EncodeToHexString()
	}
	return tx, out, nil
}
func (a *c19Eng) Replace(q *protomodel.Query, doc *structpb.Struct) ([]*protomodel.DocumentAtRevision, error) {
	return a.e.ReplaceDocuments(c19Ctx, "u", q, doc)
}
func (a *c19Eng) Delete(q *protomodel.Query) error { return a.e.DeleteDocuments(c19Ctx, "u", q) }
func (a *c19Eng) Search(q *protomodel.Query, offset int64, n int) ([]*protomodel.DocumentAtRevision, error) {
	rd, err := a.e.GetDocuments(c19Ctx, q, offset)
	if err != nil {
		return nil, err
	}
	return c19ReadN(rd, n)
}
func (a *c19Eng) Count(q *protomodel.Query) (int64, error) { return a.e.CountDocuments(c19Ctx, q, 0) }
func (a *c19Eng) Audit(coll, id string, desc bool, offset, limit int) ([]*protomodel.DocumentAtRevision, error) {
	did, err := document.NewDocumentIDFromHexEncodedString(id)
	if err != nil {
		return nil, err
	}
	return a.e.AuditDocument(c19Ctx, coll, did, desc, uint64(offset), limit, true)
}
func (a *c19Eng) Proof(req *protomodel.ProofDocumentRequest) (*protomodel.ProofDocumentResponse, error) {
	return nil, nil
}
func (a *c19Eng) State() *schema.ImmutableState { return nil }
func (a *c19Eng) Reopen() error {
	t0 := time.Now()
	if err := a.st.Close(); err != nil {
		return err
	}
	c19Timing["x.close"] += time.Since(t0)
	t0 = time.Now()
	defer func() { c19Timing["x.open"] += time.Since(t0) }()
	return a.open()
}
func (a *c19Eng) Close() {
	if a.st != nil {
		a.st.Close()
	}
}

// ---------------- stage 2: pkg/database ----------------

type c19MultiDB struct{}

func (h *c19MultiDB) ListDatabases(ctx context.Context) ([]string, error) { return nil, sql.ErrNoSupported }
func (h *c19MultiDB) CreateDatabase(ctx context.Context, db string, ifNotExists bool) error {
	return sql.ErrNoSupported
}
func (h *c19MultiDB) UseDatabase(ctx context.Context, db string) error { return sql.ErrNoSupported }
func (h *c19MultiDB) GetLoggedUser(ctx context.Context) (sql.User, error) {
	return nil, sql.ErrNoSupported
}
func (h *c19MultiDB) ListUsers(ctx context.Context) ([]sql.User, error) { return nil, sql.ErrNoSupported }
func (h *c19MultiDB) CreateUser(ctx context.Context, username, password string, permission sql.Permission) error {
	return sql.ErrNoSupported
}
func (h *c19MultiDB) AlterUser(ctx context.Context, username, password string, permission sql.Permission) error {
	return sql.ErrNoSupported
}
func (h *c19MultiDB) GrantSQLPrivileges(ctx context.Context, database, username string, privileges []sql.SQLPrivilege) error {
	return sql.ErrNoSupported
}
func (h *c19MultiDB) RevokeSQLPrivileges(ctx context.Context, database, username string, privileges []sql.SQLPrivilege) error {
	return sql.ErrNoSupported
}
func (h *c19MultiDB) DropUser(ctx context.Context, username string) error { return sql.ErrNoSupported }
func (h *c19MultiDB) ExecPreparedStmts(ctx context.Context, opts *sql.TxOptions, stmts []sql.SQLStmt, params map[string]interface{}) (*sql.SQLTx, []*sql.SQLTx, error) {
	return nil, nil, sql.ErrNoSupported
}

type c19DB struct {
	dir string
	d   database.DB
}

func (a *c19DB) opts() *database.Options {
	return database.DefaultOptions().WithDBRootPath(a.dir).WithStoreOptions(c19StoreOpts())
}

func newC19DB(dir string) (*c19DB, error) {
	a := &c19DB{dir: filepath.Join(dir, "root")}
	d, err := database.NewDB("db", &c19MultiDB{}, a.opts(), quietLogger())
	if err != nil {
		return nil, err
	}
	a.d = d
	return a, nil
}

func (a *c19DB) Stage() string { return "db" }
func (a *c19DB) CreateCollection(name string, fields []*protomodel.Field, idx []*protomodel.Index) error {
	_, err := a.d.CreateCollection(c19Ctx, "u", &protomodel.CreateCollectionRequest{Name: name, Fields: fields, Indexes: idx})
	return err
}
func (a *c19DB) GetCollection(name string) (*protomodel.Collection, error) {
	r, err := a.d.GetCollection(c19Ctx, &protomodel.GetCollectionRequest{Name: name})
	if err != nil {
		return nil, err
	}
	return r.Collection, nil
}
func (a *c19DB) AddField(coll string, f *protomodel.Field) error {
	_, err := a.d.AddField(c19Ctx, "u", &protomodel.AddFieldRequest{CollectionName: coll, Field: f})
	return err
}
func (a *c19DB) RemoveField(coll, name string) error {
	_, err := a.d.RemoveField(c19Ctx, "u", &protomodel.RemoveFieldRequest{CollectionName: coll, FieldName: name})
	return err
}
func (a *c19DB) CreateIndex(coll string, fields []string, unique bool) error {
	_, err := a.d.CreateIndex(c19Ctx, "u", &protomodel.CreateIndexRequest{CollectionName: coll, Fields: fields, IsUnique: unique})
	return err
}
func (a *c19DB) DeleteIndex(coll string, fields []string) error {
	_, err := a.d.DeleteIndex(c19Ctx, "u", &protomodel.DeleteIndexRequest{CollectionName: coll, Fields: fields})
	return err
}
func (a *c19DB) Insert(coll string, docs []*structpb.Struct) (uint64, []string, error) {
	r, err := a.d.InsertDocuments(c19Ctx, "u", &protomodel.InsertDocumentsRequest{CollectionName: coll, Documents: docs})
	if err != nil {
		return 0, nil, err
	}
	return r.TransactionId, r.DocumentIds, nil
}
func (a *c19DB) Replace(q *protomodel.Query, doc *structpb.Struct) ([]*protomodel.DocumentAtRevision, error) {
	r, err := a.d.ReplaceDocuments(c19Ctx, "u", &protomodel.ReplaceDocumentsRequest{Query: q, Document: doc})
	if err != nil {
		return nil, err
	}
	return r.Revisions, nil
}
func (a *c19DB) Delete(q *protomodel.Query) error {
	_, err := a.d.DeleteDocuments(c19Ctx, "u", &protomodel.DeleteDocumentsRequest{Query: q})
	return err
}
func (a *c19DB) Search(q *protomodel.Query, offset int64, n int) ([]*protomodel.DocumentAtRevision, error) {
	rd, err := a.d.SearchDocuments(c19Ctx, q, offset)
	if err != nil {
		return nil, err
	}
	return c19ReadN(rd, n)
}
func (a *c19DB) Count(q *protomodel.Query) (int64, error) {
	r, err := a.d.CountDocuments(c19Ctx, &protomodel.CountDocumentsRequest{Query: q})
	if err != nil {
		return 0, err
	}
	return r.Count, nil
}
func (a *c19DB) Audit(coll, id string, desc bool, offset, limit int) ([]*protomodel.DocumentAtRevision, error) {
	// the database API pages: page (1-based) and pageSize; offset must be a multiple of limit here
	if limit < 1 || offset%limit != 0 {
		return nil, fmt.Errorf("c19: audit paging (%d,%d) not expressible", offset, limit)
	}
	r, err := a.d.AuditDocument(c19Ctx, &protomodel.AuditDocumentRequest{CollectionName: coll, DocumentId: id, Desc: desc,
		Page: uint32(offset/limit) + 1, PageSize: uint32(limit)})
	if err != nil {
		return nil, err
	}
	return r.Revisions, nil
}
func (a *c19DB) Proof(req *protomodel.ProofDocumentRequest) (*protomodel.ProofDocumentResponse, error) {
	return a.d.ProofDocument(c19Ctx, req)
}
func (a *c19DB) State() *schema.ImmutableState {
	st, err := a.d.CurrentState()
	if err != nil {
		return nil
	}
	return st
}
func (a *c19DB) Reopen() error {
	if err := a.d.Close(); err != nil {
		return err
	}
	d, err := database.OpenDB("db", &c19MultiDB{}, a.opts(), quietLogger())
	if err != nil {
		return err
	}
	a.d = d
	return nil
}
func (a *c19DB) Close() {
	if a.d != nil {
		a.d.Close()
	}
}
