package main

// C13 — DDL schedules (added after seeded change c13-a, see DESIGN "C13 — as built").
//
// The first C13 runner works on ONE table created before the sessions start: no session ever commits DDL
// while another session has a transaction open. This runner widens the exploration in that direction:
//
//   * 2..4 deterministically interleaved sessions over a CHANGING schema: CREATE TABLE / DROP TABLE /
//     ALTER TABLE ADD|DROP|RENAME COLUMN / RENAME TO / CREATE [UNIQUE] INDEX / DROP INDEX, autocommit or
//     inside explicit transactions mixed with DML, statement failures mid-transaction, ROLLBACK, closed
//     sessions;
//   * open read-write transactions of OTHER sessions at the moment of a DDL commit, of every kind: EMPTY
//     (BEGIN … COMMIT), read-only-so-far (queries only), writers, DDL;
//   * fresh engines (nothing has been read yet), engine close/re-open in the middle of a history;
//   * observers that do not disturb the engine's state between two commits (read-write tx + ROLLBACK)
//     as well as the usual autocommit readers.
//
// ORACLE (model independent): a reference database (catalog: tables, columns, indexes; rows) to which the
// statements of a transaction are applied, in commit order, when — and only when — the engine reports the
// COMMIT as successful.  After EVERY commit / rollback / abort / re-open a FRESH session must observe exactly
// the reference: TABLES(), COLUMNS(t), INDEXES(t), the rows of every table through the primary key and through
// every secondary index.  In particular a committed DDL is never undone by a later COMMIT of a transaction
// that executed no DDL, and an unrelated (empty) COMMIT changes nothing.  Autocommit statements are judged
// against the reference (a statement that is valid on the committed state must not fail, e.g. with
// `table does not exist`).  Inside a transaction the catalog is the one of BEGIN plus the transaction's own DDL,
// and — as long as no other session committed since BEGIN — statements and queries behave as on the reference
// snapshot plus own writes.

import (
	"fmt"
	"sort"
	"strconv"
	"strings"

	"github.com/codenotary/immudb/embedded/sql"

	"verif/harness/internal/hx"
)

// ---------------------------------------------------------------- reference database

type d13Col struct {
	Name    string
	Ty      string // INTEGER | VARCHAR
	Len     int
	NotNull bool
}

func (c d13Col) decl() string {
	nn := ""
	if c.NotNull {
		nn = " NOT NULL"
	}
	if c.Ty == "VARCHAR" {
		return fmt.Sprintf("%s VARCHAR[%d]%s", c.Name, c.Len, nn)
	}
	return c.Name + " INTEGER" + nn
}

func (c d13Col) maxLen() int {
	if c.Ty == "VARCHAR" {
		return c.Len
	}
	return 8
}

type d13Idx struct {
	Cols   []string
	Unique bool
}

type d13Val struct {
	isStr bool
	i     int64
	s     string
}

func (v d13Val) lit() string {
	if v.isStr {
		return "'" + v.s + "'"
	}
	return strconv.FormatInt(v.i, 10)
}

type d13Table struct {
	Name    string
	Cols    []d13Col // Cols[0] is the primary key `id INTEGER`
	Idx     []d13Idx
	Checks  []d13Check                  // CHECK constraints in force (c13_ddlx.go)
	Dropped []d13Check                  // CHECK constraints removed by DROP CONSTRAINT: a row violating one of them must be accepted
	CkStale bool                        // a column under a CHECK was renamed (known defect: the constraint keeps the old name)
	Rows    map[int64]map[string]d13Val // id -> column -> value (absent = NULL)
}

func (t *d13Table) clone() *d13Table {
	n := &d13Table{Name: t.Name, Cols: append([]d13Col{}, t.Cols...), Rows: make(map[int64]map[string]d13Val, len(t.Rows)),
		Checks: append([]d13Check{}, t.Checks...), Dropped: append([]d13Check{}, t.Dropped...), CkStale: t.CkStale}
	for _, ix := range t.Idx {
		n.Idx = append(n.Idx, d13Idx{Cols: append([]string{}, ix.Cols...), Unique: ix.Unique})
	}
	for id, r := range t.Rows {
		m := make(map[string]d13Val, len(r))
		for k, v := range r {
			m[k] = v
		}
		n.Rows[id] = m
	}
	return n
}

func (t *d13Table) col(name string) int {
	for i, c := range t.Cols {
		if c.Name == name {
			return i
		}
	}
	return -1
}

func (t *d13Table) idxAt(cols []string) int {
	k := strings.Join(cols, ",")
	for i, ix := range t.Idx {
		if strings.Join(ix.Cols, ",") == k {
			return i
		}
	}
	return -1
}

func (t *d13Table) hasUnique() bool {
	for _, ix := range t.Idx {
		if ix.Unique {
			return true
		}
	}
	return false
}

func (t *d13Table) ids() []int64 {
	out := make([]int64, 0, len(t.Rows))
	for id := range t.Rows {
		out = append(out, id)
	}
	sort.Slice(out, func(i, j int) bool { return out[i] < out[j] })
	return out
}

// canonical rendering: catalog line + sorted rows
func (t *d13Table) catalogLine() string {
	var cs, is []string
	for i, c := range t.Cols {
		// nullable / indexed / unique as COLUMNS() reports them (unique = the column alone is a UNIQUE index; the key column is one)
		indexed, unique := i == 0, i == 0
		for _, ix := range t.Idx {
			for _, ic := range ix.Cols {
				if ic == c.Name {
					indexed = true
					if ix.Unique && len(ix.Cols) == 1 {
						unique = true
					}
				}
			}
		}
		cs = append(cs, fmt.Sprintf("%s:%s:%d:%s", c.Name, c.Ty, c.maxLen(), d13ColFlags(!c.NotNull, false, indexed, i == 0, unique)))
	}
	is = append(is, fmt.Sprintf("%s(id):unique:primary", t.Name))
	var sec []string
	for _, ix := range t.Idx {
		u := "nonunique"
		if ix.Unique {
			u = "unique"
		}
		sec = append(sec, fmt.Sprintf("%s(%s):%s:secondary", t.Name, strings.Join(ix.Cols, ","), u))
	}
	sort.Strings(sec)
	is = append(is, sec...)
	return t.Name + " cols[" + strings.Join(cs, " ") + "] idx[" + strings.Join(is, " ") + "]"
}

func (t *d13Table) rowLines() []string {
	var out []string
	for _, id := range t.ids() {
		r := t.Rows[id]
		vs := []string{strconv.FormatInt(id, 10)}
		for _, c := range t.Cols[1:] {
			if v, ok := r[c.Name]; ok {
				vs = append(vs, v.lit())
			} else {
				vs = append(vs, "NULL")
			}
		}
		out = append(out, "("+strings.Join(vs, ",")+")")
	}
	return out
}

type d13DB struct {
	loose bool // NOT NULL is not tested (computing what the engine commits under R18, c13_ddlx.go)
	T     map[string]*d13Table
	Views map[string]string // view name -> base table (existence is what is compared)
	Seqs  map[string]bool
}

func (db *d13DB) clone() *d13DB {
	n := &d13DB{T: make(map[string]*d13Table, len(db.T)), Views: map[string]string{}, Seqs: map[string]bool{}}
	for k, t := range db.T {
		n.T[k] = t.clone()
	}
	for k, v := range db.Views {
		n.Views[k] = v
	}
	for k := range db.Seqs {
		n.Seqs[k] = true
	}
	return n
}

func (db *d13DB) names() []string {
	out := make([]string, 0, len(db.T))
	for k := range db.T {
		out = append(out, k)
	}
	sort.Strings(out)
	return out
}

func (db *d13DB) catalogLines() []string {
	var out []string
	for _, n := range db.names() {
		out = append(out, db.T[n].catalogLine())
	}
	return out
}

// ---------------------------------------------------------------- statements

type d13Stmt struct {
	K      string // create-table drop-table add-column drop-column rename-column rename-table create-index drop-index insert upsert update delete; c13_ddlx.go: drop-constraint set-not-null drop-not-null truncate create-view drop-view create-seq drop-seq
	T, T2  string
	Cols   []d13Col   // create-table (without id), add-column (one)
	Checks []d13Check // create-table
	C, C2  string
	ICols  []string
	Unique bool
	ID     int64
	Names  []string // insert/upsert: columns given (without id)
	Vals   []d13Val
}

func (s *d13Stmt) isDDL() bool {
	switch s.K {
	case "insert", "upsert", "update", "delete":
		return false
	}
	return true
}

func (s *d13Stmt) sql() string {
	switch s.K {
	case "create-table":
		ds := []string{"id INTEGER"}
		for _, c := range s.Cols {
			ds = append(ds, c.decl())
		}
		for _, ck := range s.Checks {
			ds = append(ds, ck.decl())
		}
		return fmt.Sprintf("CREATE TABLE %s (%s, PRIMARY KEY id)", s.T, strings.Join(ds, ", "))
	case "drop-table":
		return "DROP TABLE " + s.T
	case "add-column":
		return fmt.Sprintf("ALTER TABLE %s ADD COLUMN %s", s.T, s.Cols[0].decl())
	case "drop-column":
		return fmt.Sprintf("ALTER TABLE %s DROP COLUMN %s", s.T, s.C)
	case "rename-column":
		return fmt.Sprintf("ALTER TABLE %s RENAME COLUMN %s TO %s", s.T, s.C, s.C2)
	case "rename-table":
		return fmt.Sprintf("ALTER TABLE %s RENAME TO %s", s.T, s.T2)
	case "create-index":
		u := ""
		if s.Unique {
			u = "UNIQUE "
		}
		return fmt.Sprintf("CREATE %sINDEX ON %s(%s)", u, s.T, strings.Join(s.ICols, ", "))
	case "drop-index":
		return fmt.Sprintf("DROP INDEX ON %s(%s)", s.T, strings.Join(s.ICols, ", "))
	case "insert", "upsert":
		kw := "INSERT"
		if s.K == "upsert" {
			kw = "UPSERT"
		}
		ns := append([]string{"id"}, s.Names...)
		vs := []string{strconv.FormatInt(s.ID, 10)}
		for _, v := range s.Vals {
			vs = append(vs, v.lit())
		}
		return fmt.Sprintf("%s INTO %s(%s) VALUES (%s)", kw, s.T, strings.Join(ns, ", "), strings.Join(vs, ", "))
	case "update":
		return fmt.Sprintf("UPDATE %s SET %s = %s WHERE id = %d", s.T, s.C, s.Vals[0].lit(), s.ID)
	case "delete":
		return fmt.Sprintf("DELETE FROM %s WHERE id = %d", s.T, s.ID)
	}
	return s.sqlX()
}

// reference semantics: error class ("" = ok) and affected rows. Nothing is changed on error.
func (db *d13DB) apply(s *d13Stmt) (string, int) {
	if e, n, done := db.applyX(s); done {
		return e, n
	}
	t := db.T[s.T]
	if s.K != "create-table" && t == nil {
		return "no-table", 0
	}
	switch s.K {
	case "create-table":
		if t != nil {
			return "table-exists", 0
		}
		db.T[s.T] = &d13Table{Name: s.T, Cols: append([]d13Col{{Name: "id", Ty: "INTEGER"}}, s.Cols...), Rows: map[int64]map[string]d13Val{}, Checks: append([]d13Check{}, s.Checks...)}
	case "drop-table":
		delete(db.T, s.T)
	case "add-column":
		if t.col(s.Cols[0].Name) >= 0 {
			return "column-exists", 0
		}
		t.Cols = append(t.Cols, s.Cols[0])
	case "drop-column":
		i := t.col(s.C)
		if i < 0 {
			return "no-column", 0
		}
		if i == 0 {
			return "column-in-index", 0
		}
		for _, ix := range t.Idx {
			for _, c := range ix.Cols {
				if c == s.C {
					return "column-in-index", 0
				}
			}
		}
		for _, ck := range t.Checks {
			if ck.Col == s.C {
				return "column-in-check", 0
			}
		}
		t.Cols = append(t.Cols[:i:i], t.Cols[i+1:]...)
		for _, r := range t.Rows {
			delete(r, s.C)
		}
	case "rename-column":
		i := t.col(s.C)
		if i < 0 {
			return "no-column", 0
		}
		if t.col(s.C2) >= 0 {
			return "column-exists", 0
		}
		t.Cols[i].Name = s.C2
		for k := range t.Checks {
			if t.Checks[k].Col == s.C {
				t.Checks[k].Col = s.C2 // textbook: the constraint follows the column
				t.CkStale = true       // the engine keeps the old name inside the constraint (known finding)
			}
		}
		for _, ix := range t.Idx {
			for k := range ix.Cols {
				if ix.Cols[k] == s.C {
					ix.Cols[k] = s.C2
				}
			}
		}
		for _, r := range t.Rows {
			if v, ok := r[s.C]; ok {
				delete(r, s.C)
				r[s.C2] = v
			}
		}
	case "rename-table":
		if db.T[s.T2] != nil {
			return "table-exists", 0
		}
		delete(db.T, s.T)
		t.Name = s.T2
		db.T[s.T2] = t
	case "create-index":
		for _, c := range s.ICols {
			if t.col(c) < 0 {
				return "no-column", 0
			}
		}
		if t.idxAt(s.ICols) >= 0 || (len(s.ICols) == 1 && s.ICols[0] == "id") {
			return "index-exists", 0
		}
		if s.Unique && len(t.Rows) > 0 {
			return "limited-index-creation", 0
		}
		t.Idx = append(t.Idx, d13Idx{Cols: append([]string{}, s.ICols...), Unique: s.Unique})
	case "drop-index":
		i := t.idxAt(s.ICols)
		if i < 0 {
			return "no-index", 0
		}
		t.Idx = append(t.Idx[:i:i], t.Idx[i+1:]...)
	case "insert", "upsert":
		for _, n := range s.Names {
			if t.col(n) < 0 {
				return "no-column", 0
			}
		}
		if _, ok := t.Rows[s.ID]; ok && s.K == "insert" {
			return "dup-key", 0
		}
		r := map[string]d13Val{}
		for i, n := range s.Names {
			r[n] = s.Vals[i]
		}
		if e := t.rowViolates(r, db.loose); e != "" {
			return e, 0
		}
		t.Rows[s.ID] = r
		return "", 1
	case "update":
		if t.col(s.C) < 0 {
			return "no-column", 0
		}
		r, ok := t.Rows[s.ID]
		if !ok {
			return "", 0
		}
		nr := map[string]d13Val{}
		for k, v := range r {
			nr[k] = v
		}
		nr[s.C] = s.Vals[0]
		if e := t.rowViolates(nr, true); e == "check" { // (UPDATE does not test NOT NULL in the engine, R3; the generator never sets NULL)
			return e, 0
		}
		r[s.C] = s.Vals[0]
		return "", 1
	case "delete":
		if _, ok := t.Rows[s.ID]; !ok {
			return "", 0
		}
		delete(t.Rows, s.ID)
		return "", 1
	}
	return "", 0
}

// ---------------------------------------------------------------- sessions and case

type d13Done struct {
	st  *d13Stmt
	upd int // affected rows the engine reported inside the transaction
}

type d13Sess struct {
	id         int
	tx         *sql.SQLTx
	inTx       bool
	kind       string // empty | reader | writer | ddl
	view       *d13DB // catalog and rows at BEGIN plus the transaction's own statements
	inexact    bool   // another session committed since BEGIN: rows seen may be newer than `view`
	foreignDDL bool   // … and that commit contained DDL
	viewLost   bool   // the engine accepted what the view rejects (only possible when inexact)
	prog       []d13Done
	touched    map[string]int  // table -> number of writes of this tx
	created    map[string]bool // tables created (or renamed) by this tx
	renamed    map[string]bool // tables with a column renamed by this tx
	renamedT   map[string]bool // tables renamed by this tx
	droppedIx  map[string][]string // table -> columns of the indexes this tx dropped (R24, repaired: Table.deleteIndex left them in indexesByColID)
	gone       map[string]bool // "table/id" deleted by this tx
	idxTaint   bool
	engUpd     int
	steps      int
	reads      int
	full       []d13Done // every statement the engine executed in this tx, incl. the ones a ROLLBACK TO SAVEPOINT took back in the reference
	sps        []d13SP   // established savepoints (c13_ddlx.go)
	k1         bool      // ROLLBACK TO SAVEPOINT after statements: the engine keeps their writes (K1 = R5)
	k1ddl      bool      // … and DDL was among them
}

func (s *d13Sess) reset() {
	*s = d13Sess{id: s.id}
}

type d13Case struct {
	r        *hx.Result
	rng      *hx.Rng
	env      *sqlEnv
	ref      *d13DB
	sess     []*d13Sess
	script   []string
	nextID   int64
	nextName int
	nextVal  int64
	policy   int // 0: observer = read-write tx + ROLLBACK; 1: autocommit reader; 2: mixed
	dead     bool
	lastWhat string // the last event that changed (or must not have changed) the committed state
	ddlNote  string // the last committed DDL
	commits  int
	alt      *d13DB // state the next observation may also show (a failed COMMIT that took effect), reported under altSig
	altSig   string
	altWhat  string
	cold     *sql.Engine       // non-nil while a second, fresh engine over the same store observes (c13_ddlx.go)
	vTaint   map[string]string // view / sequence name -> known cause under which a divergence on that name is reported
	vDead    map[string]bool   // names no longer compared (a known divergence was reported)
	trunc    map[string]bool   // tables emptied by a committed TRUNCATE TABLE
	quiet    bool
	probeID  int64
}

func (c *d13Case) log(s string) { c.script = append(c.script, s) }

func (c *d13Case) replay(detail string) c11Replay {
	sc := c.script
	if len(sc) > 220 {
		sc = append(append([]string{}, sc[:30]...), append([]string{fmt.Sprintf("… (%d lines omitted; rerun with the seed)", len(sc)-190)}, sc[len(sc)-160:]...)...)
	}
	return c11Replay{Script: append([]string{}, sc...), Detail: detail}
}

func (c *d13Case) fail(sig, desc string) {
	c.r.Fail(sig, desc, c.replay(desc))
}

func (c *d13Case) engine() (*sql.Engine, string) {
	if c.cold != nil {
		return c.cold, "-- second engine over the same store: " // not replayable as a session of the first engine: logged as a comment
	}
	return c.env.eng, ""
}

func (c *d13Case) exec(sid int, tx *sql.SQLTx, q string) sqlXRes {
	eng, pfx := c.engine()
	res := sqlExec(eng, tx, sqlPlain(q))
	st := "ok"
	if res.Err != "" {
		st = "ERR " + res.Err
	}
	c.log(fmt.Sprintf("%s[s%d] %s   => %s", pfx, sid, q, st))
	return res
}

func (c *d13Case) query(sid int, tx *sql.SQLTx, q string) sqlQRes {
	eng, pfx := c.engine()
	res := sqlQuery(eng, tx, sqlPlain(q))
	c.log(fmt.Sprintf("%s[s%d] %s (Query)   => %s", pfx, sid, q, sqlQueryOutcome(res)))
	return res
}

// stable error class: messages of unclassified errors carry object names
func d13Class(e string) string {
	if strings.HasPrefix(e, "other:") {
		if i := strings.Index(e, " ("); i > 0 {
			e = e[:i]
		}
		e = strings.TrimSpace(e)
		for _, pfx := range []string{"other:cannot drop column "} {
			if strings.HasPrefix(e, pfx) {
				e = "other:cannot drop column"
			}
		}
		for _, sub := range []string{"constraint not found", "view does not exist", "sequence does not exist", "cannot drop NOT NULL"} {
			if strings.Contains(e, sub) {
				e = "other:" + sub
			}
		}
		return strings.ReplaceAll(e, " ", "-")
	}
	return e
}

func d13ValShow(v c15Val) string {
	if v.null {
		return "NULL"
	}
	switch v.ty {
	case sql.IntegerType:
		return strconv.FormatInt(v.i, 10)
	case sql.VarcharType:
		return "'" + v.s + "'"
	case sql.BooleanType:
		return strconv.FormatBool(v.b)
	}
	return sqlValShow(v)
}

func d13RowLines(q sqlQRes) []string {
	var out []string
	for _, r := range q.Rows {
		vs := make([]string, len(r))
		for i, v := range r {
			vs[i] = d13ValShow(v)
		}
		out = append(out, "("+strings.Join(vs, ",")+")")
	}
	sort.Strings(out)
	return out
}

func d13Sorted(xs []string) []string {
	ys := append([]string{}, xs...)
	sort.Strings(ys)
	return ys
}

func d13Show(xs []string) string {
	if len(xs) == 0 {
		return "∅"
	}
	if len(xs) > 12 {
		return strings.Join(xs[:12], " ") + fmt.Sprintf(" …(+%d)", len(xs)-12)
	}
	return strings.Join(xs, " ")
}

// the rows of COLUMNS(t) in the rendering of d13Table.catalogLine
func d13ColLines(cq sqlQRes) []string {
	var cs []string
	for _, r := range cq.Rows {
		if len(r) >= 9 {
			cs = append(cs, fmt.Sprintf("%s:%s:%d:%s", r[1].s, r[2].s, r[3].i, d13ColFlags(r[4].b, r[5].b, r[6].b, r[7].b, r[8].b)))
		} else if len(r) >= 4 {
			cs = append(cs, fmt.Sprintf("%s:%s:%d", r[1].s, r[2].s, r[3].i))
		}
	}
	return cs
}

// what a session observes: the catalog lines and the rows of every table it can see
type d13Obs struct {
	err     string
	catalog []string
	rows    map[string][]string
	viaIdx  map[string][]string // "t(cols)" -> rows through that secondary index
}

// reads catalog and rows as the given transaction (nil = one autocommit reader per query) sees them;
// `expect` only tells which secondary indexes to scan through
func (c *d13Case) observeAs(sid int, tx *sql.SQLTx, expect *d13DB) d13Obs {
	o := d13Obs{rows: map[string][]string{}, viaIdx: map[string][]string{}}
	tq := c.query(sid, tx, "SELECT * FROM TABLES()")
	if tq.Err != "" {
		o.err = "TABLES(): " + tq.Err
		return o
	}
	var names []string
	for _, r := range tq.Rows {
		if len(r) == 1 {
			names = append(names, r[0].s)
		}
	}
	sort.Strings(names)
	for _, n := range names {
		cq := c.query(sid, tx, "SELECT * FROM COLUMNS('"+n+"')")
		iq := c.query(sid, tx, "SELECT * FROM INDEXES('"+n+"')")
		if cq.Err != "" || iq.Err != "" {
			o.catalog = append(o.catalog, n+" COLUMNS/INDEXES: "+cq.Err+"/"+iq.Err)
			continue
		}
		var is, sec []string
		cs := d13ColLines(cq)
		for _, r := range iq.Rows {
			if len(r) >= 4 {
				u := "nonunique"
				if r[2].b {
					u = "unique"
				}
				if r[3].b {
					is = append(is, fmt.Sprintf("%s:%s:primary", r[1].s, u))
				} else {
					sec = append(sec, fmt.Sprintf("%s:%s:secondary", r[1].s, u))
				}
			}
		}
		sort.Strings(sec)
		is = append(is, sec...)
		o.catalog = append(o.catalog, n+" cols["+strings.Join(cs, " ")+"] idx["+strings.Join(is, " ")+"]")
		rq := c.query(sid, tx, "SELECT * FROM "+n)
		if rq.Err != "" {
			o.rows[n] = []string{"ERR " + rq.Err}
		} else {
			o.rows[n] = d13RowLines(rq)
		}
		if et := expect.T[n]; et != nil {
			for _, ix := range et.Idx {
				k := n + "(" + strings.Join(ix.Cols, ",") + ")"
				xq := c.query(sid, tx, "SELECT * FROM "+n+" USE INDEX ON ("+strings.Join(ix.Cols, ", ")+")")
				if xq.Err != "" {
					o.viaIdx[k] = []string{"ERR " + xq.Err}
				} else {
					o.viaIdx[k] = d13RowLines(xq)
				}
			}
		}
	}
	for _, n := range expect.names() {
		if _, ok := o.rows[n]; !ok {
			// not listed: is it at least resolvable?
			rq := c.query(sid, tx, "SELECT * FROM "+n)
			if rq.Err != "" {
				o.rows[n] = []string{"ERR " + rq.Err}
			} else {
				o.rows[n] = d13RowLines(rq)
			}
		}
	}
	return o
}

// A FRESH session observes the committed state; it must equal the reference.
// sig/cz: signature and known-cause suffix to use when the ROWS differ.
func (c *d13Case) observe(where, sig, cz string) bool {
	if c.quiet {
		return true // set-up phase of a matrix case: the statements are judged, the state is observed once at its end
	}
	ok := c.observe1(where, sig, cz)
	if ok && !c.dead {
		// what cannot be listed is probed by behaviour (c13_ddlx.go); sometimes everything again through a second, cold engine
		c.probes(where, sig)
		if !c.dead && c.rng.Intn(6) == 0 {
			c.observeCold(where, sig, cz)
		}
	}
	return ok
}

func (c *d13Case) observe1(where, sig, cz string) bool {
	if c.dead {
		return false
	}
	r := c.r
	mode := c.policy
	if mode == 2 {
		mode = c.rng.Intn(3)
	}
	if c.cold != nil {
		mode = 0
	}
	const obs = 9
	var o d13Obs
	modeName := ""
	switch mode {
	case 0:
		modeName = "read-write transaction, rolled back"
		b := c.exec(obs, nil, "BEGIN TRANSACTION")
		if b.Err != "" || b.Tx == nil {
			c.fail("C13:observer:begin-fails", where+": a fresh session cannot BEGIN: "+b.Err)
			c.dead = true
			return false
		}
		o = c.observeAs(obs, b.Tx, c.ref)
		c.exec(obs, b.Tx, "ROLLBACK")
	case 1:
		modeName = "autocommit queries"
		o = c.observeAs(obs, nil, c.ref)
	default:
		modeName = "read-write transaction, committed empty"
		b := c.exec(obs, nil, "BEGIN TRANSACTION")
		if b.Err != "" || b.Tx == nil {
			c.fail("C13:observer:begin-fails", where+": a fresh session cannot BEGIN: "+b.Err)
			c.dead = true
			return false
		}
		o = c.observeAs(obs, b.Tx, c.ref)
		if cm := c.exec(obs, b.Tx, "COMMIT"); cm.Err != "" {
			c.fail("C13:observer:empty-commit-fails", where+": COMMIT of a transaction that only queried fails with "+cm.Err)
		}
	}
	r.Count("ddl.observe.mode" + strconv.Itoa(mode))
	r.OracleChecks++
	nrows := 0
	for _, t := range c.ref.T {
		nrows += len(t.Rows)
	}
	r.Eval(fmt.Sprintf("ddl|%d|%d|%d|%s", r.Case(), c.commits, nrows, strings.Join(c.ref.names(), ",")), nrows > 0)
	ctx := fmt.Sprintf("%s: a fresh session (%s)", where, modeName)
	catSig := sig + ":catalog"
	if sig == "C13:commit:state-differs-from-reference" {
		catSig = "C13:commit:catalog-differs-from-reference"
	}
	if o.err != "" {
		c.fail(catSig, ctx+" cannot read the catalog: "+o.err)
		c.dead = true
		return false
	}
	if alt := c.alt; alt != nil {
		c.alt = nil
		if !c.same(o, c.ref) && c.same(o, alt) {
			// a COMMIT that reported an error took effect nevertheless / a COMMIT had the effect a known defect gives it
			c.fail(c.altSig, fmt.Sprintf("%s sees the catalog {%s}: %s; reference: {%s}", ctx, strings.Join(o.catalog, " | "), c.altWhat, strings.Join(c.ref.catalogLines(), " | ")))
			c.ref = alt
			c.published(-1, true)
			return false
		}
		if !c.same(o, c.ref) && c.onlyTruncateReordered(o.catalog, alt.catalogLines()) {
			// … and a table the transaction emptied with TRUNCATE TABLE has its columns in another order (R23): the case ends
			c.fail("C13:commit:catalog-differs-from-reference:truncate-reorders-columns", fmt.Sprintf("%s sees the catalog {%s}: %s, and the columns of a table emptied by TRUNCATE TABLE changed their order; reference: {%s}", ctx, strings.Join(o.catalog, " | "), c.altWhat, strings.Join(c.ref.catalogLines(), " | ")))
			c.dead = true
			return false
		}
	}
	want := c.ref.catalogLines()
	if strings.Join(o.catalog, "\n") != strings.Join(want, "\n") && c.onlyTruncateReordered(o.catalog, want) {
		c.fail("C13:commit:catalog-differs-from-reference:truncate-reorders-columns", fmt.Sprintf("%s sees the catalog {%s}; reference {%s}: the columns of a table emptied by TRUNCATE TABLE changed their order", ctx, strings.Join(o.catalog, " | "), strings.Join(want, " | ")))
		c.dead = true
		return false
	}
	if strings.Join(o.catalog, "\n") != strings.Join(want, "\n") {
		note := ""
		if c.ddlNote != "" {
			note = "; last committed DDL: " + c.ddlNote
		}
		c.fail(catSig, fmt.Sprintf("%s sees the catalog {%s}; the committed transactions, applied in commit order, give {%s}%s", ctx, strings.Join(o.catalog, " | "), strings.Join(want, " | "), note))
		c.dead = true
		return false
	}
	ok := true
	for _, n := range c.ref.names() {
		t := c.ref.T[n]
		wantRows := d13Sorted(t.rowLines())
		got := o.rows[n]
		r.OracleChecks++
		if strings.Join(got, " ") != strings.Join(wantRows, " ") {
			c.fail(sig+cz, fmt.Sprintf("%s reads table %s = %s; reference = %s", ctx, n, d13Show(got), d13Show(wantRows)))
			ok = false
			continue
		}
		for _, ix := range t.Idx {
			k := n + "(" + strings.Join(ix.Cols, ",") + ")"
			r.OracleChecks++
			if strings.Join(o.viaIdx[k], " ") != strings.Join(got, " ") {
				c.fail("C13:commit:index-scan-differs-from-pk-scan", fmt.Sprintf("%s: through index %s: %s, through the primary key: %s", ctx, k, d13Show(o.viaIdx[k]), d13Show(got)))
				ok = false
			}
		}
	}
	if !ok {
		if cz == "" {
			c.dead = true
		} else {
			c.adoptRows()
		}
	}
	return ok
}

// catalog and rows (through the primary key) of an observation equal a reference database
func (c *d13Case) same(o d13Obs, db *d13DB) bool {
	if strings.Join(o.catalog, "\n") != strings.Join(db.catalogLines(), "\n") {
		return false
	}
	for _, n := range db.names() {
		if strings.Join(o.rows[n], " ") != strings.Join(d13Sorted(db.T[n].rowLines()), " ") {
			return false
		}
	}
	return true
}

// after a divergence with a KNOWN cause: take the engine's rows (catalog is equal) so that the case can go on
func (c *d13Case) adoptRows() {
	for _, n := range c.ref.names() {
		t := c.ref.T[n]
		q := sqlQuery(c.env.eng, nil, sqlPlain("SELECT * FROM "+n))
		if q.Err != "" {
			c.dead = true
			return
		}
		t.Rows = map[int64]map[string]d13Val{}
		for _, row := range q.Rows {
			if len(row) != len(t.Cols) || row[0].null {
				c.dead = true
				return
			}
			m := map[string]d13Val{}
			for i, col := range t.Cols[1:] {
				v := row[i+1]
				if v.null {
					continue
				}
				if col.Ty == "VARCHAR" {
					m[col.Name] = d13Val{isStr: true, s: v.s}
				} else {
					m[col.Name] = d13Val{i: v.i}
				}
			}
			t.Rows[row[0].i] = m
		}
	}
}

// ---------------------------------------------------------------- generators

func (c *d13Case) freshTable() string { c.nextName++; return fmt.Sprintf("t%d", c.nextName) }
func (c *d13Case) freshCol() string   { c.nextName++; return fmt.Sprintf("c%d", c.nextName) }

func (c *d13Case) newCol() d13Col {
	if c.rng.Intn(2) == 0 {
		return d13Col{Name: c.freshCol(), Ty: "INTEGER"}
	}
	return d13Col{Name: c.freshCol(), Ty: "VARCHAR", Len: []int{12, 16, 32}[c.rng.Intn(3)]}
}

// values never repeat within a case and differ between rows (UNIQUE indexes are never violated by construction)
func (c *d13Case) val(col d13Col, id int64) d13Val {
	c.nextVal++
	if col.Ty == "VARCHAR" {
		return d13Val{isStr: true, s: fmt.Sprintf("%d.%d", id, c.nextVal%1000)}
	}
	return d13Val{i: id*1000 + c.nextVal%1000}
}

func (c *d13Case) pickTable(db *d13DB) *d13Table {
	ns := db.names()
	if len(ns) == 0 {
		return nil
	}
	return db.T[ns[c.rng.Intn(len(ns))]]
}

func (c *d13Case) genCreate() *d13Stmt {
	st := &d13Stmt{K: "create-table", T: c.freshTable()}
	for i, n := 0, c.rng.Intn(3); i < n; i++ {
		st.Cols = append(st.Cols, c.newCol())
	}
	c.decorateCreate(st) // NOT NULL columns, CHECK constraints (c13_ddlx.go)
	return st
}

func (c *d13Case) genDDL(db *d13DB) *d13Stmt {
	rng := c.rng
	t := c.pickTable(db)
	if t == nil {
		return c.genCreate()
	}
	if rng.Intn(20) == 0 { // deliberately invalid on this view
		switch rng.Intn(3) {
		case 0:
			return &d13Stmt{K: "create-table", T: t.Name}
		case 1:
			return &d13Stmt{K: "drop-table", T: "nosuch"}
		default:
			return &d13Stmt{K: "add-column", T: t.Name, Cols: []d13Col{{Name: "id", Ty: "INTEGER"}}}
		}
	}
	if rng.Intn(100) < 24 { // DROP CONSTRAINT, ALTER COLUMN, TRUNCATE, views, sequences (c13_ddlx.go)
		if st := c.genDDLX(db, t); st != nil {
			return st
		}
	}
	var second []string
	for _, col := range t.Cols[1:] {
		second = append(second, col.Name)
	}
	for try := 0; try < 6; try++ {
		switch k := rng.Intn(100); {
		case k < 26:
			if len(db.T) < 4 {
				return c.genCreate()
			}
		case k < 34:
			if len(db.T) > 1 || rng.Intn(3) == 0 {
				return &d13Stmt{K: "drop-table", T: t.Name}
			}
		case k < 58:
			if len(t.Cols) < 6 {
				return &d13Stmt{K: "add-column", T: t.Name, Cols: []d13Col{c.newCol()}}
			}
		case k < 66:
			if len(second) > 0 {
				return &d13Stmt{K: "drop-column", T: t.Name, C: second[rng.Intn(len(second))]}
			}
		case k < 72:
			if len(second) > 0 {
				return &d13Stmt{K: "rename-column", T: t.Name, C: second[rng.Intn(len(second))], C2: c.freshCol()}
			}
		case k < 76:
			return &d13Stmt{K: "rename-table", T: t.Name, T2: c.freshTable()}
		case k < 93:
			if len(second) > 0 && len(t.Idx) < 3 {
				cols := []string{second[rng.Intn(len(second))]}
				if len(second) > 1 && rng.Intn(3) == 0 {
					if o := second[rng.Intn(len(second))]; o != cols[0] {
						cols = append(cols, o)
					}
				}
				return &d13Stmt{K: "create-index", T: t.Name, ICols: cols, Unique: len(t.Rows) == 0 && rng.Intn(3) == 0}
			}
		default:
			if len(t.Idx) > 0 {
				return &d13Stmt{K: "drop-index", T: t.Name, ICols: append([]string{}, t.Idx[rng.Intn(len(t.Idx))].Cols...)}
			}
		}
	}
	return &d13Stmt{K: "add-column", T: t.Name, Cols: []d13Col{c.newCol()}}
}

func (c *d13Case) genDML(db *d13DB, s *d13Sess) *d13Stmt {
	rng := c.rng
	t := c.pickTable(db)
	if t == nil {
		return nil
	}
	if rng.Intn(25) == 0 { // statement failure mid-transaction
		if rng.Intn(2) == 0 {
			return &d13Stmt{K: "insert", T: "nosuch", ID: 1}
		}
		if ids := t.ids(); len(ids) > 0 {
			return &d13Stmt{K: "insert", T: t.Name, ID: ids[rng.Intn(len(ids))]}
		}
	}
	live := t.ids()
	if s != nil {
		var l2 []int64
		for _, id := range live {
			if !s.gone[t.Name+"/"+strconv.FormatInt(id, 10)] {
				l2 = append(l2, id)
			}
		}
		live = l2
	}
	fresh := func() int64 { c.nextID++; return c.nextID }
	row := func(st *d13Stmt, id int64, all bool) {
		for _, col := range t.Cols[1:] {
			cks := t.checksOn(col.Name)
			if col.NotNull || len(cks) > 0 {
				if col.NotNull && rng.Intn(12) == 0 {
					c.r.Count("ddl.dml.violates.not-null")
					continue // must fail: NOT NULL column omitted
				}
			} else if !all && !t.hasUnique() && rng.Intn(6) == 0 {
				continue // NULL by omission
			}
			st.Names = append(st.Names, col.Name)
			if len(cks) > 0 && rng.Intn(5) == 0 {
				c.nextVal++
				c.r.Count("ddl.dml.violates.check")
				st.Vals = append(st.Vals, d13Val{i: cks[rng.Intn(len(cks))].violating(c.nextVal)}) // must fail: CHECK violated
				continue
			}
			st.Vals = append(st.Vals, c.val(col, id))
		}
	}
	k := rng.Intn(100)
	switch {
	case len(live) == 0 || (k < 45 && len(t.Rows) <= 14):
		st := &d13Stmt{K: "insert", T: t.Name, ID: fresh()}
		row(st, st.ID, false)
		return st
	case k < 60:
		st := &d13Stmt{K: "upsert", T: t.Name}
		if rng.Intn(2) == 0 {
			st.ID = live[rng.Intn(len(live))]
		} else {
			st.ID = fresh()
		}
		row(st, st.ID, false)
		return st
	case k < 82 && len(t.Cols) > 1:
		st := &d13Stmt{K: "update", T: t.Name}
		if rng.Intn(10) < 8 {
			st.ID = live[rng.Intn(len(live))]
		} else {
			st.ID = fresh()
		}
		col := t.Cols[1+rng.Intn(len(t.Cols)-1)]
		st.C = col.Name
		st.Vals = []d13Val{c.val(col, st.ID)}
		if cks := t.checksOn(col.Name); len(cks) > 0 && rng.Intn(4) == 0 {
			c.nextVal++
			c.r.Count("ddl.dml.violates.check")
			st.Vals = []d13Val{{i: cks[rng.Intn(len(cks))].violating(c.nextVal)}}
		}
		return st
	default:
		st := &d13Stmt{K: "delete", T: t.Name}
		if rng.Intn(10) < 8 {
			st.ID = live[rng.Intn(len(live))]
		} else {
			st.ID = fresh()
		}
		return st
	}
}

// ---------------------------------------------------------------- schedule steps

// a commit of `by` (−1: autocommit) changed the committed state
func (c *d13Case) published(by int, ddl bool) {
	c.commits++
	for _, s := range c.sess {
		if s.inTx && s.id != by {
			s.inexact = true
			if ddl {
				s.foreignDDL = true
			}
		}
	}
}

func (c *d13Case) autocommit(s *d13Sess, st *d13Stmt) {
	r := c.r
	q := st.sql()
	res := c.exec(s.id, nil, q)
	tmp := c.ref.clone()
	want, wantUpd := tmp.apply(st)
	r.Count("ddl.auto." + st.K)
	r.OracleChecks++
	c.lastWhat = fmt.Sprintf("after the autocommit statement of session %d [%s]", s.id, q)
	kz := c.stmtCause(st, c.ref, d13Class(res.Err)) // known cause attached to this statement kind / object (c13_ddlx.go), "" otherwise
	c.taintName(st, false)
	switch {
	case res.Err != "" && want == "":
		c.fail(c.stmtSig("C13:stmt:spurious-failure:"+d13Class(res.Err), kz, st), fmt.Sprintf("session %d, autocommit: [%s] is valid on the committed state (reference catalog {%s}) but fails with %s", s.id, q, strings.Join(c.ref.catalogLines(), " | "), res.Err))
		if kz != "" {
			c.giveUpOn(st)
			return
		}
		c.observe(c.lastWhat+" (which failed)", "C13:failed-stmt:left-trace", "")
		c.dead = true
	case res.Err != "":
		r.Count("ddl.auto.err." + want)
		c.observe(c.lastWhat+" (which failed)", "C13:failed-stmt:left-trace", "")
	case want != "":
		c.fail(c.stmtSig("C13:stmt:must-fail-accepted:"+want, kz, st), fmt.Sprintf("session %d, autocommit: [%s] succeeds although the committed state makes it invalid (%s)", s.id, q, want))
		if kz != "" {
			c.giveUpOn(st)
			return
		}
		c.dead = true
	default:
		if st.K == "set-not-null" || st.K == "drop-not-null" {
			// known: ALTER COLUMN changes the transaction's in-memory catalog only
			c.alt, c.altSig, c.altWhat = c.ref, "C13:commit:catalog-differs-from-reference"+d13AlterColLost, "the committed ALTER COLUMN has no effect"
		}
		c.ref = tmp
		if st.isDDL() {
			c.ddlNote = fmt.Sprintf("[%s] (autocommit, session %d)", q, s.id)
			c.noteTruncate(st)
		}
		c.published(-1, st.isDDL())
		if !st.isDDL() && res.Updated != wantUpd {
			c.fail("C13:counts:affected-rows-differ", fmt.Sprintf("session %d, autocommit: [%s] reports %d affected rows, reference %d", s.id, q, res.Updated, wantUpd))
		}
		c.observe(c.lastWhat, "C13:commit:state-differs-from-reference", "")
		c.alt = nil
	}
}

func (c *d13Case) begin(s *d13Sess) {
	res := c.exec(s.id, nil, "BEGIN TRANSACTION")
	if res.Err != "" || res.Tx == nil {
		c.fail("C13:begin:fails", fmt.Sprintf("session %d: BEGIN TRANSACTION fails with %s", s.id, res.Err))
		c.dead = true
		return
	}
	s.reset()
	s.tx, s.inTx = res.Tx, true
	s.view = c.ref.clone()
	s.touched, s.gone, s.created, s.renamed, s.renamedT = map[string]int{}, map[string]bool{}, map[string]bool{}, map[string]bool{}, map[string]bool{}
	s.droppedIx = map[string][]string{}
	s.kind = []string{"empty", "empty", "reader", "reader", "writer", "writer", "writer", "ddl", "ddl", "mixed"}[c.rng.Intn(10)]
	c.r.Count("ddl.begin." + s.kind)
}

// known defects of a transaction that works on objects it created / renamed itself (R14, R16)
func (s *d13Sess) ownDDLCause(st *d13Stmt) string {
	switch {
	case s.renamed[st.T]:
		return ":column-renamed-in-same-tx"
	case s.renamedT[st.T]:
		return ":table-renamed-in-same-tx"
	case s.created[st.T]:
		return ":table-created-in-same-tx"
	}
	return ""
}

func (s *d13Sess) deletedFrom(table string) bool {
	for k := range s.gone {
		if strings.HasPrefix(k, table+"/") {
			return true
		}
	}
	return false
}

func (s *d13Sess) cause() string {
	if s.idxTaint {
		return ":secondary-index-view-in-tx"
	}
	return ""
}

// one statement inside the open transaction of s
func (c *d13Case) inTxStmt(s *d13Sess, st *d13Stmt) {
	r := c.r
	q := st.sql()
	res := c.exec(s.id, s.tx, q)
	r.Count("ddl.intx." + st.K)
	c.taintName(st, true)
	var want string
	var wantUpd int
	tmp := s.view.clone()
	if !s.viewLost {
		want, wantUpd = tmp.apply(st)
	}
	exact := !s.inexact && !s.viewLost
	if vt := s.view.T[st.T]; vt != nil && !st.isDDL() {
		if len(vt.Idx) > 0 && s.touched[st.T] > 0 {
			s.idxTaint = true
		}
	}
	if res.Err != "" {
		r.Count("ddl.intx.err." + res.Err)
		r.OracleChecks++
		if exact && want == "" {
			cz := s.cause()
			switch {
			case st.isDDL() && s.renamed[st.T]:
				cz = ":column-renamed-in-same-tx"
			case st.isDDL() && s.renamedT[st.T]:
				cz = ":table-renamed-in-same-tx"
			case s.created[st.T] && strings.Contains(res.Err, "index not found"):
				cz = ":table-created-in-same-tx" // its store index is registered by the next transaction's BEGIN
			case st.K == "create-index" && st.Unique && res.Err == "limited-index-creation" && s.deletedFrom(st.T):
				cz = ":row-deleted-earlier-in-same-tx" // R4: the emptiness test (one prefix read) still finds a row this transaction deleted
			case st.K == "drop-column" && len(s.droppedIx[st.T]) > 0 && strings.Contains(res.Err, "indexes require it"):
				// R24, repaired (known_findings.json → fixed): Table.deleteIndex deleted indexesByColID[index.id], a column map keyed by an
				// index id. The reference expects the statement to succeed; the exact symptom keeps its signature
				cz = ":index-dropped-in-same-tx"
			}
			if kz := c.stmtCause(st, s.view, d13Class(res.Err)); kz != "" {
				cz = kz // a cause attached to the statement kind / the object it names (c13_ddlx.go)
			}
			cls := d13Class(res.Err) + cz
			if strings.Contains(res.Err, "non-transient key to transient") && cz == ":secondary-index-view-in-tx" {
				cls = "transient-key-clash" // R1, same signature as the single-table runner
			}
			sg := c.stmtSig("C13:stmt:spurious-failure:"+strings.TrimSuffix(cls, cz), cz, st)
			if cls == "transient-key-clash" {
				sg = "C13:stmt:spurious-failure:" + cls
			}
			c.fail(sg, fmt.Sprintf("session %d: [%s] is valid on the transaction's view (catalog of BEGIN plus own statements: {%s}) but fails with %s", s.id, q, strings.Join(s.view.catalogLines(), " | "), res.Err))
			if cz == "" {
				c.dead = true
			}
		}
		// a statement error aborts the whole transaction: nothing of it may be visible
		c.ending(s, "failed-statement")
		s.reset()
		c.lastWhat = fmt.Sprintf("after [%s] failed inside the transaction of session %d and aborted it", q, s.id)
		c.observe(c.lastWhat, "C13:rollback:left-trace", "")
		return
	}
	s.tx = res.Tx
	if s.tx == nil {
		c.fail("C13:stmt:transaction-lost", fmt.Sprintf("session %d: [%s] succeeded but the explicit transaction is gone", s.id, q))
		c.dead = true
		s.reset()
		return
	}
	delta := res.OpenUpd - s.engUpd
	s.engUpd = res.OpenUpd
	r.OracleChecks++
	switch {
	case s.viewLost:
	case want != "" && exact:
		cz := s.ownDDLCause(st)
		if kz := c.stmtCause(st, s.view, ""); kz != "" {
			cz = kz
		}
		c.fail(c.stmtSig("C13:stmt:must-fail-accepted:"+want, cz, st), fmt.Sprintf("session %d: [%s] succeeds inside the transaction although its view makes it invalid (%s)", s.id, q, want))
		s.viewLost = true
		if cz == "" {
			c.dead = true
		}
	case want != "":
		s.viewLost = true
	default:
		s.view = tmp
		if exact && !st.isDDL() && delta != wantUpd {
			c.fail("C13:counts:affected-rows-differ"+s.cause(), fmt.Sprintf("session %d: engine counts %d rows for [%s], reference %d", s.id, delta, q, wantUpd))
		}
	}
	s.prog = append(s.prog, d13Done{st: st, upd: delta})
	s.full = append(s.full, d13Done{st: st, upd: delta})
	s.touched[st.T]++
	switch st.K {
	case "create-table", "truncate": // TRUNCATE = DROP TABLE + CREATE TABLE: a new table id, whose store index is not registered yet (R14)
		s.created[st.T] = true
	case "rename-table":
		s.renamedT[st.T2] = true
		if s.created[st.T] {
			s.created[st.T2] = true
		}
		if s.renamed[st.T] {
			s.renamed[st.T2] = true
		}
	case "rename-column":
		s.renamed[st.T] = true
	case "drop-index":
		s.droppedIx[st.T] = append(s.droppedIx[st.T], st.ICols...)
		c.r.Count("ddl.intx.drop-index.ok")
		c.columnsAfterDropIndex(s, st)
	case "drop-column":
		if len(s.droppedIx[st.T]) > 0 {
			c.r.Count("ddl.intx.drop-column.after-drop-index-in-same-tx")
		}
	}
	if st.K == "delete" {
		s.gone[st.T+"/"+strconv.FormatInt(st.ID, 10)] = true
	}
}

// R24 (repaired): inside the transaction that dropped an index COLUMNS(t) must report indexed / unique from the remaining indexes: the
// columns of the dropped index are indexed only where another index covers them, every other column keeps its flags. Compared where
// the transaction's view is exact and the per-table maps are not under another known defect (R14 created, R16 renamed, R23 reordered).
func (c *d13Case) columnsAfterDropIndex(s *d13Sess, st *d13Stmt) {
	vt := s.view.T[st.T]
	if vt == nil || s.viewLost || s.created[st.T] || s.renamed[st.T] || s.renamedT[st.T] || c.trunc[st.T] {
		return
	}
	cq := c.query(s.id, s.tx, "SELECT * FROM COLUMNS('"+st.T+"')")
	c.r.OracleChecks++
	c.r.Count("ddl.intx.columns-after-drop-index")
	line := vt.catalogLine()
	want := line[strings.Index(line, "cols[")+5 : strings.Index(line, "] idx[")]
	if got := strings.Join(d13ColLines(cq), " "); cq.Err != "" || got != want {
		c.fail("C13:intx:catalog-differs-from-begin-plus-own-ddl:columns-after-drop-index", fmt.Sprintf("session %d inside its transaction, after [%s]: COLUMNS('%s') reports %s [%s]; the catalog of BEGIN plus its own DDL has [%s] (name:type:length:flags, flags = nullable/auto_increment/indexed/primary/unique)", s.id, st.sql(), st.T, cq.Err, got, want))
	}
}

// a column of an index this transaction dropped (sorted: deterministic), "" if there is none in the view any more
func (s *d13Sess) droppedIxColumn(rng *hx.Rng) (table, col string) {
	var cands [][2]string
	for t, cols := range s.droppedIx {
		vt := s.view.T[t]
		if vt == nil {
			continue
		}
		for _, cn := range cols {
			for _, vc := range vt.Cols[1:] {
				if vc.Name == cn {
					cands = append(cands, [2]string{t, cn})
				}
			}
		}
	}
	if len(cands) == 0 {
		return "", ""
	}
	sort.Slice(cands, func(i, j int) bool { return cands[i][0]+"/"+cands[i][1] < cands[j][0]+"/"+cands[j][1] })
	k := cands[rng.Intn(len(cands))]
	return k[0], k[1]
}

// queries inside the open transaction
func (c *d13Case) inTxRead(s *d13Sess) {
	r := c.r
	r.Count("ddl.intx.read")
	s.reads++
	if s.viewLost {
		return
	}
	// the catalog of a transaction is fixed at BEGIN
	tq := c.query(s.id, s.tx, "SELECT * FROM TABLES()")
	var names []string
	for _, row := range tq.Rows {
		if len(row) == 1 {
			names = append(names, row[0].s)
		}
	}
	sort.Strings(names)
	r.OracleChecks++
	if tq.Err != "" || strings.Join(names, ",") != strings.Join(s.view.names(), ",") {
		c.fail("C13:intx:catalog-differs-from-begin-plus-own-ddl", fmt.Sprintf("session %d inside its transaction lists the tables %s %v; the committed catalog at its BEGIN plus its own DDL has %v", s.id, tq.Err, names, s.view.names()))
		c.dead = true
		return
	}
	t := c.pickTable(s.view)
	if t == nil {
		return
	}
	q := c.query(s.id, s.tx, "SELECT * FROM "+t.Name)
	r.OracleChecks++
	switch {
	case q.Err != "" && s.created[t.Name]:
		c.fail("C13:intx:read-fails:table-created-in-same-tx", fmt.Sprintf("session %d inside its transaction: SELECT * FROM %s fails with %s (the table was created by this transaction)", s.id, t.Name, q.Err))
	case q.Err != "" && s.foreignDDL:
		// the catalog is the one of BEGIN but rows are read from a snapshot taken at first use
		c.fail("C13:intx:read-fails:catalog-older-than-row-snapshot", fmt.Sprintf("session %d inside its transaction: SELECT * FROM %s fails with %s (another session committed DDL after this transaction's BEGIN)", s.id, t.Name, q.Err))
	case q.Err != "":
		c.fail("C13:intx:read-fails", fmt.Sprintf("session %d inside its transaction: SELECT * FROM %s fails with %s", s.id, t.Name, q.Err))
		c.dead = true
	case !s.inexact:
		got, want := d13RowLines(q), d13Sorted(t.rowLines())
		if strings.Join(got, " ") != strings.Join(want, " ") {
			c.fail("C13:intx:view-differs-from-own-writes-on-snapshot"+s.cause(), fmt.Sprintf("session %d inside its transaction reads %s = %s; its snapshot plus its own writes is %s", s.id, t.Name, d13Show(got), d13Show(want)))
			if s.cause() == "" {
				c.dead = true
			}
			s.viewLost = true
		}
	default:
		r.Count("ddl.intx.read.unchecked-after-foreign-commit")
	}
}

func (c *d13Case) commit(s *d13Sess) {
	r := c.r
	res := c.exec(s.id, s.tx, "COMMIT")
	r.Count("ddl.commit." + s.kind)
	hasDDL := false
	var progSQL []string
	for _, d := range s.prog {
		if d.st.isDDL() {
			hasDDL = true
		}
		progSQL = append(progSQL, d.st.sql())
	}
	if res.Err != "" {
		c.ending(s, "failed-commit")
	} else {
		c.ending(s, "commit")
	}
	if res.Err != "read-conflict" {
		for _, d := range s.full {
			c.noteTruncate(d.st) // (a COMMIT that fails after the store commit has taken effect, R17)
		}
	}
	// what the engine commits under a known defect: every statement it executed, also the ones taken back by ROLLBACK TO SAVEPOINT
	// (K1 = R5), without the effect of ALTER COLUMN … SET|DROP NOT NULL (in-memory only)
	c.alt = nil
	if res.Err == "" {
		engProg, differs := []d13Done{}, s.k1
		src := s.prog
		if s.k1 {
			src = s.full
		}
		for _, d := range src {
			if d.st.K == "set-not-null" || d.st.K == "drop-not-null" {
				differs = true
			}
			engProg = append(engProg, d)
		}
		if differs {
			alt, okAlt := d13EngineOutcome(c.ref, engProg) // ALTER COLUMN in force while the transaction ran, gone with its COMMIT
			if okAlt {
				c.alt, c.altSig, c.altWhat = alt, "C13:commit:catalog-differs-from-reference"+d13AlterColLost, "the committed ALTER COLUMN has no effect"
				if s.k1 {
					c.altSig, c.altWhat = "C13:savepoint:rollback-to-keeps-writes", "the statements executed after the savepoint are committed although the transaction rolled back to it"
				}
			}
		}
	}
	altCommit := c.alt
	if res.Err == "" && s.k1 && altCommit == nil {
		// the engine's outcome under K1 cannot be predicted here: stop the case (K1 itself is reported by c13.go)
		r.Count("ddl.k1.outcome-not-predictable")
		s.reset()
		c.dead = true
		return
	}
	what := "executed no statement"
	if len(s.prog) > 0 {
		what = "executed [" + strings.Join(progSQL, "; ") + "]"
	} else if s.reads > 0 {
		what = "only queried"
	}
	if !hasDDL {
		what += ", no DDL"
	}
	if len(s.full) > len(s.prog) {
		what += fmt.Sprintf(" (and %d statement(s) it took back with ROLLBACK TO SAVEPOINT)", len(s.full)-len(s.prog))
	}
	if res.Err != "" {
		r.Count("ddl.commit.err." + res.Err)
		r.OracleChecks++
		if len(s.full) == 0 {
			c.fail("C13:commit:empty-commit-fails", fmt.Sprintf("session %d: COMMIT of a transaction that %s fails with %s", s.id, what, res.Err))
		}
		if res.Err != "read-conflict" && len(s.prog) > 0 {
			// an error raised after the store transaction was committed (on-commit callbacks)?
			alt, okAlt := d13EngineOutcome(c.ref, s.prog) // ALTER COLUMN has no durable effect (known, R18)
			if okAlt {
				c.alt, c.altSig = alt, "C13:failed-commit:left-trace:error-after-store-commit"
				c.altWhat = "the COMMIT reported an error but the transaction is committed"
			}
		}
		s.reset()
		c.lastWhat = fmt.Sprintf("after the failed COMMIT (%s) of session %d, which %s", res.Err, s.id, what)
		c.observe(c.lastWhat, "C13:failed-commit:left-trace", "")
		c.alt = nil
		return
	}
	cz := s.cause()
	c.lastWhat = fmt.Sprintf("after COMMIT of session %d, which %s", s.id, what)
	// does the store transaction have entries? (ALTER COLUMN … SET|DROP NOT NULL writes nothing, R18)
	effective, onlyAlter := false, false
	for _, d := range s.prog {
		switch {
		case d.st.K == "set-not-null" || d.st.K == "drop-not-null":
			onlyAlter = true
		case d.st.isDDL() || d.upd > 0:
			effective = true
		}
	}
	if !effective && onlyAlter {
		// no entries, no validation: serialised as a reader; the reference keeps the textbook effect of the statements that are valid now
		tmp := c.ref.clone()
		for _, d := range s.prog {
			if d.st.K != "set-not-null" && d.st.K != "drop-not-null" {
				continue
			}
			if e, _ := tmp.apply(d.st); e != "" {
				c.fail("C13:commit:not-serializable-in-commit-order"+d13AlterColLost, fmt.Sprintf("%s: the engine committed the transaction, but on the state committed before it [%s] is invalid (%s)", c.lastWhat, d.st.sql(), e))
			}
		}
		if !s.k1 {
			// what the engine commits: nothing
			altCommit, c.altSig, c.altWhat = c.ref, "C13:commit:catalog-differs-from-reference"+d13AlterColLost, "the committed ALTER COLUMN has no effect"
		}
		c.ref = tmp
		c.published(s.id, true)
	}
	if !effective && len(s.prog) > 0 {
		// nothing was written (UPDATE/DELETE of no row): the transaction is a reader, serializable at its snapshot
		r.Count("ddl.commit.no-effective-write")
	}
	if effective {
		// committed: the statements take effect, all together, on the committed state (commit order = serial order)
		tmp := c.ref.clone()
		for _, d := range s.prog {
			e, upd := tmp.apply(d.st)
			r.OracleChecks++
			if e != "" && d.st.isViewOrSeq() {
				// known: view / sequence DDL acts on engine-wide state at once, outside the transaction
				c.fail(d13NameSig(d.st.T)+c.vTaint[d.st.T], fmt.Sprintf("%s: on the state committed before the transaction [%s] is invalid (%s)", c.lastWhat, d.st.sql(), e))
				c.giveUpOn(d.st)
				continue
			}
			if e != "" && (d.st.K == "set-not-null" || d.st.K == "drop-not-null") {
				// known: ALTER COLUMN writes nothing, so the transaction is not validated against concurrent commits and the statement has no durable effect
				c.fail("C13:commit:not-serializable-in-commit-order"+d13AlterColLost, fmt.Sprintf("%s: the engine committed the transaction, but on the state committed before it [%s] is invalid (%s)", c.lastWhat, d.st.sql(), e))
				continue
			}
			if e != "" {
				kz := s.ownDDLCause(d.st)
				if d.st.K == "create-index" && d.st.Unique && e == "limited-index-creation" {
					kz = ":unique-index-emptiness-check-reads-first-entry-only" // R2: the check is one prefix read; a tombstone in front hides live rows, also from MVCC validation
				}
				c.fail("C13:commit:not-serializable-in-commit-order"+kz, fmt.Sprintf("%s: the engine committed the transaction, but on the state committed before it [%s] is invalid (%s): the transaction worked on a catalog/rows that a concurrent commit had changed", c.lastWhat, d.st.sql(), e))
				c.dead = true
				s.reset()
				return
			}
			if !d.st.isDDL() && upd != d.upd && !s.viewLost {
				c.fail("C13:commit:not-serializable-in-commit-order"+cz, fmt.Sprintf("%s: [%s] affected %d rows inside the transaction but %d rows on the state committed before the transaction", c.lastWhat, d.st.sql(), d.upd, upd))
				if cz == "" {
					c.dead = true
					s.reset()
					return
				}
			}
		}
		c.ref = tmp
		if hasDDL {
			c.ddlNote = fmt.Sprintf("[%s] (transaction of session %d)", strings.Join(progSQL, "; "), s.id)
			for _, d := range s.full {
				c.noteTruncate(d.st)
			}
		}
		c.published(s.id, hasDDL)
		if res.Updated != s.engUpd {
			c.fail("C13:counts:affected-rows-differ"+cz, fmt.Sprintf("session %d: the committed transaction reports %d affected rows, the statements reported %d in total", s.id, res.Updated, s.engUpd))
		}
	}
	k1ddl := s.k1 && s.k1ddl
	s.reset()
	if k1ddl && altCommit != nil {
		// K1 with DDL: the statements taken back are persisted, but RollbackToSavepoint restored mutatedCatalog and the COMMIT did not
		// invalidate the catalog cache: the engine's own sessions see a mixture (old catalog, new rows) until the next DDL commit
		// (and what was taken back may be invisible in the listed catalog — a dropped constraint): reported if visible, then the case ends
		c.k1Latent(altCommit)
		c.r.Count("ddl.k1.case-ends-after-commit-with-ddl-taken-back")
		c.dead = true
		return
	}
	c.alt = altCommit
	c.observe(c.lastWhat, "C13:commit:state-differs-from-reference", cz)
	c.alt = nil
}

func (c *d13Case) closeAll(why string) {
	for _, s := range c.sess {
		if s.inTx {
			if s.tx != nil {
				s.tx.Cancel()
			}
			c.log(fmt.Sprintf("[s%d] -- session closed (tx.Cancel) %s", s.id, why))
			c.ending(s, "session-closed")
			s.reset()
		}
	}
}

func (c *d13Case) reopen() {
	c.closeAll("before the engine is closed")
	c.log("-- close / reopen")
	if err := c.env.reopen(); err != nil {
		c.r.Inconclusive = append(c.r.Inconclusive, "C13 ddl: reopen failed: "+err.Error())
		c.dead = true
		return
	}
	c.r.Count("ddl.reopen")
	c.reopenedNames()
	c.lastWhat = "after the engine was closed and opened again"
	c.observe(c.lastWhat, "C13:restart:state-differs-from-reference", "")
}

func (c *d13Case) step(s *d13Sess) {
	rng := c.rng
	if !s.inTx {
		switch k := rng.Intn(100); {
		case k < 45:
			c.begin(s)
		case k < 65:
			c.autocommit(s, c.genDDL(c.ref))
		case k < 90:
			if st := c.genDML(c.ref, nil); st != nil {
				c.autocommit(s, st)
			} else {
				c.autocommit(s, c.genCreate())
			}
		default:
			c.observe(fmt.Sprintf("session %d reads outside a transaction (%s)", s.id, c.lastWhat), "C13:isolation:dirty-or-lost-read", "")
		}
		return
	}
	s.steps++
	k := rng.Intn(100)
	// how eager the transaction is to finish: empty ones commit at their first or second turn
	switch s.kind {
	case "empty":
		if k < 70 {
			c.commit(s)
		} else if k < 78 {
			c.rollback(s)
		}
		// else: stays open, does nothing this turn
		return
	case "reader":
		switch {
		case k < 50:
			c.inTxRead(s)
		case k < 88:
			c.commit(s)
		default:
			c.rollback(s)
		}
		return
	}
	if !s.viewLost && rng.Intn(9) == 0 {
		c.savepointStep(s) // SAVEPOINT / ROLLBACK TO SAVEPOINT / RELEASE around the statements of this transaction (c13_ddlx.go)
		return
	}
	switch {
	case k < 40:
		var st *d13Stmt
		wantDDL := s.kind == "ddl" && rng.Intn(10) < 7 || s.kind == "mixed" && rng.Intn(10) < 3
		if !s.viewLost && wantDDL {
			st = c.genDDL(s.view)
			// DROP INDEX then DROP COLUMN of its column in one transaction (R24, repaired): valid unless another index / a CHECK needs the column
			if len(s.droppedIx) > 0 && rng.Intn(2) == 0 {
				if t, col := s.droppedIxColumn(rng); t != "" {
					st = &d13Stmt{K: "drop-column", T: t, C: col}
				}
			}
		} else if !s.viewLost {
			st = c.genDML(s.view, s)
		}
		if st == nil {
			st = c.genCreate()
		}
		c.inTxStmt(s, st)
	case k < 58:
		c.inTxRead(s)
	case k < 88:
		c.commit(s)
	case k < 96:
		c.rollback(s)
	default:
		if s.tx != nil {
			s.tx.Cancel()
		}
		c.log(fmt.Sprintf("[s%d] -- session closed (tx.Cancel)", s.id))
		c.r.Count("ddl.session-closed")
		c.ending(s, "session-closed")
		s.reset()
		c.lastWhat = fmt.Sprintf("after session %d was closed with an open transaction", s.id)
		c.observe(c.lastWhat, "C13:rollback:left-trace", "")
	}
}

func (c *d13Case) rollback(s *d13Sess) {
	res := c.exec(s.id, s.tx, "ROLLBACK")
	c.r.Count("ddl.rollback")
	c.ending(s, "rollback")
	if res.Err != "" {
		c.fail("C13:rollback:fails", fmt.Sprintf("session %d: ROLLBACK fails with %s", s.id, res.Err))
	}
	s.reset()
	c.lastWhat = fmt.Sprintf("after ROLLBACK of session %d", s.id)
	c.observe(c.lastWhat, "C13:rollback:left-trace", "")
}

func (c *d13Case) run(thorough bool) {
	r, rng := c.r, c.rng
	r.NextCase()
	env, err := sqlOpenEnv("c13d")
	if err != nil {
		r.Inconclusive = append(r.Inconclusive, "cannot open store: "+err.Error())
		return
	}
	c.env = env
	defer func() {
		c.closeAll("at the end of the case")
		env.close()
	}()
	c.ref = &d13DB{T: map[string]*d13Table{}, Views: map[string]string{}, Seqs: map[string]bool{}}
	c.vTaint, c.vDead = map[string]string{}, map[string]bool{}
	c.policy = []int{0, 0, 0, 1, 2, 2}[rng.Intn(6)]
	nSess := 2 + rng.Intn(3)
	for i := 0; i < nSess; i++ {
		c.sess = append(c.sess, &d13Sess{id: i})
	}
	r.Count(fmt.Sprintf("ddl.case.sessions%d.policy%d", nSess, c.policy))
	c.lastWhat = "on the fresh engine"
	// some cases start with a schema that was created before the engine was (re)opened: cold start over existing tables
	switch rng.Intn(3) {
	case 0:
	case 1:
		c.autocommit(c.sess[0], c.genCreate())
	default:
		c.autocommit(c.sess[0], c.genCreate())
		if st := c.genDML(c.ref, nil); st != nil && !c.dead {
			c.autocommit(c.sess[0], st)
		}
		if !c.dead {
			c.reopen()
		}
	}
	steps := 40 + rng.Intn(50)
	if thorough {
		steps *= 2
	}
	for st := 0; st < steps && !c.dead; st++ {
		if rng.Intn(60) == 0 {
			c.reopen()
			continue
		}
		c.step(c.sess[rng.Intn(nSess)])
	}
	if !c.dead {
		c.closeAll("at the end of the case")
		c.lastWhat = "after all sessions were closed"
		c.observe(c.lastWhat, "C13:rollback:left-trace", "")
	}
	if r.Distribution["ddl.sampled"] < 1 && len(c.script) > 20 {
		r.Count("ddl.sampled")
		r.Sample(map[string]interface{}{"case": r.Case(), "mode": "ddl-schedule", "script_head": c.script[:min(len(c.script), 16)], "lines": len(c.script)})
	}
}

func runC13DDL(r *hx.Result, rng *hx.Rng, thorough bool) error {
	cases := 36
	if thorough {
		cases = 300
	}
	runC13DDLMatrix(r, rng.Fork(), thorough) // every DDL kind × every ending × cache state (c13_ddlx.go)
	for i := 0; i < cases; i++ {
		c := &d13Case{r: r, rng: rng.Fork()}
		c.run(thorough)
	}
	for _, k := range []string{"ddl.begin.empty", "ddl.begin.reader", "ddl.begin.writer", "ddl.begin.ddl", "ddl.commit.empty", "ddl.commit.reader", "ddl.reopen", "ddl.rollback",
		"ddl.auto.create-table", "ddl.auto.add-column", "ddl.auto.create-index", "ddl.auto.drop-table", "ddl.intx.read", "ddl.observe.mode0", "ddl.observe.mode1", "ddl.observe.mode2",
		"ddl.intx.drop-constraint", "ddl.ending.rollback.with.drop-constraint", "ddl.ending.commit.with.drop-constraint", "ddl.ending.session-closed.with.drop-constraint",
		"ddl.ending.failed-statement.with.drop-constraint", "ddl.ending.rollback.with.set-not-null", "ddl.ending.rollback.with.create-view", "ddl.ending.rollback.with.create-seq",
		"ddl.probe.check", "ddl.probe.not-null", "ddl.probe.dropped-check", "ddl.probe.check.while-uncommitted-ddl-open", "ddl.observe.cold", "ddl.dml.violates.check"} {
		if r.Distribution[k] == 0 {
			r.Inconclusive = append(r.Inconclusive, "generator never produced class "+k)
		}
	}
	return nil
}
