package main

// C19 (g): ProofDocument + verification.VerifyDocument accept the genuine document for the client's known
// state (first use and with a previous state) and reject altered documents / foreign proofs / altered bytes.
// One field is altered at a time here; the rounds for every relation known-state / document tx and the coherent
// forgeries (several fields rebuilt consistently) are in c19_forge.go.

import (
	"bytes"
	"fmt"
	"math"
	"os"
	"sort"

	"github.com/codenotary/immudb/pkg/api/protomodel"
	"github.com/codenotary/immudb/pkg/api/schema"
	"github.com/codenotary/immudb/pkg/verification"
	"google.golang.org/protobuf/proto"
	"google.golang.org/protobuf/types/known/structpb"

	"verif/harness/internal/hx"
)

func c19Verify(proofRes *protomodel.ProofDocumentResponse, doc *structpb.Struct, known *schema.ImmutableState) (st *schema.ImmutableState, err error, panicked interface{}) {
	defer func() {
		if e := recover(); e != nil {
			panicked = e
			err = fmt.Errorf("panic: %v", e)
		}
	}()
	st, err = verification.VerifyDocument(c19Ctx, proofRes, doc, known, nil)
	return
}

// alterations of a document that change its JSON value
func (cs *c19Case) alterDoc(doc *structpb.Struct) (string, *structpb.Struct) {
	rng := cs.rng
	d := c19CloneStruct(doc)
	keys := make([]string, 0, len(d.Fields))
	for k := range d.Fields {
		if k != "_id" {
			keys = append(keys, k)
		}
	}
	sort.Strings(keys)
	switch rng.Intn(4) {
	case 0:
		if len(keys) > 0 {
			k := keys[rng.Intn(len(keys))]
			v := d.Fields[k]
			switch x := v.GetKind().(type) {
			case *structpb.Value_NumberValue:
				nv := x.NumberValue + 1
				if nv == x.NumberValue || nv != nv {
					nv = 17
				}
				if math.IsInf(x.NumberValue, 0) {
					nv = 0
				}
				d.Fields[k] = structpb.NewNumberValue(nv)
			case *structpb.Value_StringValue:
				d.Fields[k] = structpb.NewStringValue(x.StringValue + "x")
			case *structpb.Value_BoolValue:
				d.Fields[k] = structpb.NewBoolValue(!x.BoolValue)
			case *structpb.Value_NullValue:
				d.Fields[k] = structpb.NewNumberValue(0)
			case *structpb.Value_ListValue:
				d.Fields[k] = structpb.NewListValue(&structpb.ListValue{Values: append(append([]*structpb.Value{}, x.ListValue.Values...), structpb.NewNullValue())})
			default:
				d.Fields[k] = structpb.NewStringValue("altered")
			}
			return "changed-field-value", d
		}
		fallthrough
	case 1:
		d.Fields["added_field"] = structpb.NewNumberValue(1)
		return "added-field", d
	case 2:
		if len(keys) > 0 {
			delete(d.Fields, keys[rng.Intn(len(keys))])
			return "removed-field", d
		}
		d.Fields["added_field"] = structpb.NewNullValue()
		return "added-field", d
	default:
		// a null in place of a missing field / missing in place of null
		d.Fields["zz_null"] = structpb.NewNullValue()
		return "added-null-field", d
	}
}

func (cs *c19Case) opProof() {
	rng := cs.rng
	c := cs.C
	if rng.Bool() {
		c = cs.T
	}
	var live []*c19Doc
	for _, d := range c.Docs {
		if d.Live() {
			live = append(live, d)
		}
	}
	if len(live) == 0 {
		return
	}
	d := live[rng.Intn(len(live))]
	revIdx := len(d.Revs) - 1
	req := &protomodel.ProofDocumentRequest{CollectionName: c.Name, DocumentId: d.ID}
	if rng.Chance(35) {
		// an older revision by its transaction
		revIdx = rng.Intn(len(d.Revs))
		if d.Revs[revIdx].Deleted || d.Revs[revIdx].TxID == 0 {
			revIdx = len(d.Revs) - 1
		}
		req.TransactionId = d.Revs[revIdx].TxID
	}
	doc := d.Revs[revIdx].Doc
	known := cs.known
	if rng.Chance(30) {
		known = nil
	}
	mode := "first-use"
	if known != nil {
		req.ProofSinceTransactionId = known.TxId
		mode = "with-known-state"
	}
	cs.r.OracleChecks++
	cs.r.Count("proof." + mode)
	cs.log("proof %s/%s tx=%d since=%d (%s)", c.Name, d.ID, req.TransactionId, req.ProofSinceTransactionId, mode)
	attempt := func() (*protomodel.ProofDocumentResponse, *schema.ImmutableState, string) {
		pr, err := cs.api.Proof(proto.Clone(req).(*protomodel.ProofDocumentRequest))
		if err != nil || pr == nil {
			return nil, nil, fmt.Sprintf("ProofDocument: %v", err)
		}
		st, verr, pan := c19Verify(proto.Clone(pr).(*protomodel.ProofDocumentResponse), c19CloneStruct(doc), known)
		if pan != nil {
			cs.fail("C19:proof:panic", fmt.Sprintf("VerifyDocument genuine %s/%s: %v", c.Name, d.ID, pan))
			return nil, nil, "panic"
		}
		if verr != nil {
			return nil, nil, fmt.Sprintf("VerifyDocument: %v", verr)
		}
		return pr, st, ""
	}
	proofRes, st, bad := attempt()
	if bad != "" && bad != "panic" {
		// GetEncodedDocument(txID = 0) reads the index without waiting for the indexer (the latest revision may
		// be missing or an older one): retry after a query, which does wait
		first := bad
		cs.api.Count(&protomodel.Query{CollectionName: c.Name})
		proofRes, st, bad = attempt()
		if bad == "" && req.TransactionId == 0 {
			cs.fail("C19:proof:stale-read-after-write", fmt.Sprintf("ProofDocument %s/%s (latest revision) right after the write: %s; the same call after a query (which waits for the indexer) is correct", c.Name, d.ID, first))
		}
	}
	if bad != "" {
		if bad != "panic" {
			cs.fail("C19:proof:rejects-genuine", fmt.Sprintf("genuine document %s/%s = %s (%s, tx=%d since=%d): %s", c.Name, d.ID, c19DocTok(doc), mode, req.TransactionId, req.ProofSinceTransactionId, bad))
		}
		return
	}
	cs.r.Eval(fmt.Sprintf("proof|%s|%s|%d|%s", c.Name, d.ID, revIdx, mode), true)
	// the returned state is a genuine state of the database
	cur := cs.api.State()
	if cur != nil && st.TxId == cur.TxId && !bytes.Equal(st.TxHash, cur.TxHash) {
		cs.fail("C19:proof:state-not-genuine", fmt.Sprintf("verified state tx %d has hash %x, the database says %x", st.TxId, st.TxHash, cur.TxHash))
	}
	if known == nil || st.TxId >= known.TxId {
		cs.known = st
	}

	reject := func(what string, p *protomodel.ProofDocumentResponse, dd *structpb.Struct, ks *schema.ImmutableState) {
		cs.r.OracleChecks++
		cs.r.Count("proof.altered." + what)
		_, e, pn := c19Verify(p, dd, ks)
		if pn != nil {
			cs.fail("C19:proof:panic:"+what, fmt.Sprintf("VerifyDocument panics on %s for %s/%s: %v", what, c.Name, d.ID, pn))
			return
		}
		if e == nil {
			cs.fail("C19:proof:accepts-altered:"+what, fmt.Sprintf("VerifyDocument accepted %s: document %s/%s genuine %s, presented %s", what, c.Name, d.ID, c19DocTok(doc), c19DocTok(dd)))
		}
	}
	clone := func() *protomodel.ProofDocumentResponse { return proto.Clone(proofRes).(*protomodel.ProofDocumentResponse) }
	// altered documents
	for i := 0; i < 3; i++ {
		what, ad := cs.alterDoc(doc)
		if proto.Equal(ad, doc) {
			continue
		}
		reject(what, clone(), ad, known)
	}
	// different _id: another document's id and a fresh one
	{
		ad := c19CloneStruct(doc)
		other := "00112233445566778899aabbccddeeff"
		if len(live) > 1 {
			for _, o := range live {
				if o.ID != d.ID {
					other = o.ID
					break
				}
			}
		}
		ad.Fields["_id"] = structpb.NewStringValue(other)
		reject("different-id", clone(), ad, known)
		ad2 := c19CloneStruct(doc)
		delete(ad2.Fields, "_id")
		reject("missing-id", clone(), ad2, known)
	}
	// proof of another document presented for this one
	if len(live) > 1 {
		for _, o := range live {
			if o.ID == d.ID || proto.Equal(o.Cur().Doc, doc) {
				continue
			}
			op, e := cs.api.Proof(&protomodel.ProofDocumentRequest{CollectionName: c.Name, DocumentId: o.ID, ProofSinceTransactionId: req.ProofSinceTransactionId})
			if e == nil {
				reject("proof-for-another-document", op, c19CloneStruct(doc), known)
			}
			break
		}
	}
	// an older/newer revision's content with this proof
	if len(d.Revs) > 1 {
		for j := range d.Revs {
			if j != revIdx && !d.Revs[j].Deleted && !proto.Equal(d.Revs[j].Doc, doc) {
				reject("other-revision-content", clone(), c19CloneStruct(d.Revs[j].Doc), known)
				break
			}
		}
	}
	// altered encoded document bytes
	if n := len(proofRes.EncodedDocument); n > 0 {
		p := clone()
		i := rng.Intn(n)
		p.EncodedDocument[i] ^= 1 << uint(rng.Intn(8))
		reject("encoded-bytes-flipped", p, c19CloneStruct(doc), known)
		p2 := clone()
		p2.EncodedDocument = p2.EncodedDocument[:rng.Intn(n)]
		reject("encoded-bytes-truncated", p2, c19CloneStruct(doc), known)
		p3 := clone()
		p3.EncodedDocument = append(p3.EncodedDocument, 0)
		reject("encoded-bytes-extended", p3, c19CloneStruct(doc), known)
	}
	// collection id of another collection
	{
		p := clone()
		p.CollectionId++
		reject("collection-id", p, c19CloneStruct(doc), known)
	}
	// tampered tx entry digest / header
	if p := clone(); p.VerifiableTx != nil && p.VerifiableTx.Tx != nil && len(p.VerifiableTx.Tx.Entries) > 0 {
		e := p.VerifiableTx.Tx.Entries[rng.Intn(len(p.VerifiableTx.Tx.Entries))]
		if len(e.HValue) > 0 {
			e.HValue[rng.Intn(len(e.HValue))] ^= 0x10
			reject("tx-entry-digest", p, c19CloneStruct(doc), known)
		}
		p2 := clone()
		if len(p2.VerifiableTx.Tx.Header.EH) > 0 {
			p2.VerifiableTx.Tx.Header.EH[0] ^= 1
			reject("tx-header-eh", p2, c19CloneStruct(doc), known)
		}
	}
	// a known state that is not the server's
	if known != nil && known.TxId > 0 {
		ks := proto.Clone(known).(*schema.ImmutableState)
		ks.TxHash = append([]byte{}, ks.TxHash...)
		ks.TxHash[0] ^= 1
		reject("known-state-hash", clone(), c19CloneStruct(doc), ks)
	}
	// the sign of a zero is not part of the JSON value (proto.Equal: -0 == +0): counted, not required
	for k, v := range doc.Fields {
		if n, ok := v.GetKind().(*structpb.Value_NumberValue); ok && n.NumberValue == 0 {
			ad := c19CloneStruct(doc)
			ad.Fields[k] = structpb.NewNumberValue(-n.NumberValue)
			if math.Signbit(n.NumberValue) {
				ad.Fields[k] = structpb.NewNumberValue(0)
			}
			if _, e, _ := c19Verify(clone(), ad, known); e == nil {
				cs.r.Count("proof.zero-sign-change-accepted(same JSON value)")
			}
			break
		}
	}
}

// ---------------- deterministic probes: the exact inputs of the known quirks ----------------

func c19Probes(r *hx.Result) {
	dir := hx.TempDir("c19p")
	defer os.RemoveAll(dir)
	api, err := newC19Eng(dir)
	if err != nil {
		r.Notes = append(r.Notes, "c19 probes: "+err.Error())
		return
	}
	defer api.Close()
	cs := &c19Case{r: r, rng: hx.NewRng(19), api: api, id: r.NextCase(), pair: map[string]string{}, twin: true,
		C: &c19Coll{Name: "c", ByID: map[string]*c19Doc{}}, T: &c19Coll{Name: "t", ByID: map[string]*c19Doc{}}}
	defer func() {
		if e := recover(); e != nil {
			cs.fail("C19:harness:panic", fmt.Sprint(e))
		}
	}()
	fields := []c19Field{{Name: "k", Type: protomodel.FieldType_INTEGER}, {Name: "n1", Type: protomodel.FieldType_INTEGER},
		{Name: "d1", Type: protomodel.FieldType_DOUBLE}, {Name: "s1", Type: protomodel.FieldType_STRING}}
	cs.C.Schema.Fields = append([]c19Field{}, fields...)
	cs.T.Schema.Fields = append([]c19Field{}, fields...)
	cs.C.Indexes = []c19Index{{Fields: []string{"d1"}}, {Fields: []string{"n1"}}}
	idx := []*protomodel.Index{{Fields: []string{"d1"}}, {Fields: []string{"n1"}}}
	cs.log("probe: create c fields=%v indexes=%v; t same fields no index", fields, cs.C.Indexes)
	if err := api.CreateCollection("c", c19ProtoFields(fields), idx); err != nil {
		cs.fail("C19:schema:create-failed", err.Error())
		return
	}
	if err := api.CreateCollection("t", c19ProtoFields(fields), nil); err != nil {
		cs.fail("C19:schema:create-failed", err.Error())
		return
	}
	cs.lean = true
	cs.corr("c19 new", "ok")
	for _, c := range cs.colls() {
		cs.corr("c19 coll "+c.Name+" "+c19FieldsTok(c.Schema.Fields), "ok")
	}
	mk := func(m map[string]interface{}) *structpb.Struct {
		s, err := structpb.NewStruct(m)
		if err != nil {
			panic(err)
		}
		return s
	}
	ins := func(m map[string]interface{}) {
		before, beforeT := len(cs.C.Docs), len(cs.T.Docs)
		d := mk(m)
		okC, _ := cs.insertInto(cs.C, []*structpb.Struct{d})
		okT, _ := cs.insertInto(cs.T, []*structpb.Struct{d})
		if okC && okT {
			cs.pair[cs.C.Docs[before].ID] = cs.T.Docs[beforeT].ID
		}
	}
	ins(map[string]interface{}{"k": 1, "n1": 2.7, "d1": 0.0, "s1": "abc"})
	ins(map[string]interface{}{"k": 2, "n1": 1e308, "d1": math.Copysign(0, -1), "s1": "é"})
	ins(map[string]interface{}{"k": 3, "n1": nil, "d1": 1e308, "s1": "a\nb"})
	ins(map[string]interface{}{"k": 4, "s1": "", "later": 5})
	ins(map[string]interface{}{"k": 5, "n1": 9223372036854775808.0, "d1": -1.5, "s1": "日本"})
	fcmp := func(f string, op protomodel.ComparisonOperator, v interface{}) *protomodel.Query {
		val, err := structpb.NewValue(v)
		if err != nil {
			panic(err)
		}
		return &protomodel.Query{CollectionName: "c", Expressions: []*protomodel.QueryExpression{{FieldComparisons: []*protomodel.FieldComparison{{Field: f, Operator: op, Value: val}}}}}
	}
	cs.r.Count("probe.queries")
	cs.checkQuery(fcmp("d1", protomodel.ComparisonOperator_EQ, 0.0))                       // negzero through the index
	cs.checkQuery(fcmp("d1", protomodel.ComparisonOperator_EQ, math.Copysign(0, -1)))      // negzero
	cs.checkQuery(fcmp("n1", protomodel.ComparisonOperator_GT, 5))                         // 1e308 in an INTEGER field
	cs.checkQuery(fcmp("n1", protomodel.ComparisonOperator_LT, 0))                         // …matches "< 0"
	cs.checkQuery(fcmp("n1", protomodel.ComparisonOperator_EQ, 2.9))                       // truncation, both sides
	cs.checkQuery(fcmp("s1", protomodel.ComparisonOperator_LIKE, "é"))                     // non-ASCII literal
	cs.checkQuery(fcmp("s1", protomodel.ComparisonOperator_LIKE, "日%"))                    // non-ASCII literal
	cs.checkQuery(fcmp("s1", protomodel.ComparisonOperator_LIKE, "a%"))                    // newline
	cs.checkQuery(fcmp("s1", protomodel.ComparisonOperator_NOT_LIKE, "%"))                 // newline
	cs.checkQuery(fcmp("n1", protomodel.ComparisonOperator_EQ, nil))                       // NULL = NULL
	cs.checkQuery(fcmp("n1", protomodel.ComparisonOperator_LE, 2))                         // NULL smallest
	// field added after the documents were written
	cs.epoch++
	lf := c19Field{Name: "later", Type: protomodel.FieldType_INTEGER, Ep: cs.epoch}
	for _, c := range cs.colls() {
		if err := api.AddField(c.Name, &protomodel.Field{Name: lf.Name, Type: lf.Type}); err != nil {
			cs.fail("C19:schema:addfield-outcome", err.Error())
			return
		}
		c.Schema.Fields = append(c.Schema.Fields, lf)
		cs.corr(fmt.Sprintf("c19 addfield %s later:I", c.Name), "ok")
	}
	cs.log("probe: addfield later:I on both")
	cs.checkQuery(fcmp("later", protomodel.ComparisonOperator_EQ, 5))
	ins(map[string]interface{}{"k": 6, "later": 5})
	cs.checkQuery(fcmp("later", protomodel.ComparisonOperator_EQ, 5))
	cs.sweep("probe")
	c19StaleProbes(r, api)
}

// The unique-constraint check of InsertDocuments and the emptiness check of CreateIndex(unique) run on a
// transaction with SnapshotMustIncludeTxID = 0, SnapshotRenewalPeriod = 0 and unsafe MVCC: tbtree then re-uses
// the last index snapshot however old it is (SnapshotMustIncludeTsWithRenewalPeriod: no renewal when ts = 0 and
// renewalPeriod = 0) and nothing re-validates at commit.  A read that caches a snapshot of the index before
// the conflicting write is enough.
func c19StaleProbes(r *hx.Result, api c19API) {
	cs := &c19Case{r: r, rng: hx.NewRng(191), api: api, id: r.NextCase(), pair: map[string]string{}, noSync: true,
		C: &c19Coll{Name: "uq", ByID: map[string]*c19Doc{}}, T: &c19Coll{Name: "uq2", ByID: map[string]*c19Doc{}}}
	defer func() {
		if e := recover(); e != nil {
			cs.fail("C19:harness:panic", fmt.Sprint(e))
		}
	}()
	fields := []c19Field{{Name: "n", Type: protomodel.FieldType_INTEGER}}
	mk := func(n float64) []*structpb.Struct {
		return []*structpb.Struct{{Fields: map[string]*structpb.Value{"n": structpb.NewNumberValue(n)}}}
	}
	// (1) duplicates in a unique index: insert n; read the collection (primary index only); insert n again
	if err := api.CreateCollection("uq", c19ProtoFields(fields), []*protomodel.Index{{Fields: []string{"n"}, IsUnique: true}}); err != nil {
		cs.fail("C19:schema:create-failed", err.Error())
		return
	}
	cs.log("probe: create uq fields=[n INTEGER] unique index [n]")
	admitted := 0
	for i := 0; i < 4; i++ {
		v := float64(30 + i)
		_, _, e1 := api.Insert("uq", mk(v))
		n, _ := api.Count(&protomodel.Query{CollectionName: "uq"})
		_, _, e2 := api.Insert("uq", mk(v))
		cs.log("probe: insert uq {n:%v} => %v ; CountDocuments(uq) = %d ; insert uq {n:%v} => %v", v, e1, n, v, e2)
		cs.r.OracleChecks++
		if e1 == nil && e2 == nil {
			admitted++
		}
	}
	cs.r.Count(fmt.Sprintf("probe.stale-snapshot.duplicates-admitted.%d-of-4", admitted))
	if admitted > 0 {
		cs.fail("C19:unique:duplicate-admitted:stale-snapshot", fmt.Sprintf("unique index on n: InsertDocuments{n:v}; CountDocuments(all); InsertDocuments{n:v} — the second insert was accepted in %d of 4 rounds: two live documents share the unique value", admitted))
	}
	// (2) unique index created on a non-empty collection: read (caches the empty snapshot); insert; CreateIndex(unique)
	if err := api.CreateCollection("uq2", c19ProtoFields(fields), nil); err != nil {
		cs.fail("C19:schema:create-failed", err.Error())
		return
	}
	api.Count(&protomodel.Query{CollectionName: "uq2"})
	_, _, e1 := api.Insert("uq2", mk(1))
	_, _, e2 := api.Insert("uq2", mk(1))
	err := api.CreateIndex("uq2", []string{"n"}, true)
	cs.log("probe: create uq2; CountDocuments(uq2); insert {n:1} => %v; insert {n:1} => %v; CreateIndex(uq2, [n], unique) => %v", e1, e2, err)
	cs.r.OracleChecks++
	if e1 == nil && e2 == nil && err == nil {
		cs.fail("C19:schema:unique-index-on-non-empty:stale-snapshot", "collection uq2 holds two documents with n = 1; CreateIndex([n], unique) right after the inserts is accepted (the emptiness check reads a stale snapshot); the index is unique in name only")
	}
}
