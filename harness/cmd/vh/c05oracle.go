package main

// C05 property oracle — independent of the Lean model: a serial replay on a Go map.
//   state(n) = effect of the transactions 1..n (from the ids returned by Commit).
//   For every COMMITTED read-write transaction with id n, each of its reads is re-executed on
//   state(n-1) overlaid with the transaction's own writes at that point and must give the recorded result.
// The read semantics re-implemented here are those of the store API (GetWithFilters, GetWithPrefixAndFilters,
// KeyReader with seek/end/prefix/desc/offset/filters/Reset) over a sorted map.

import (
	"bytes"
	"fmt"
	"sort"
)

type c5ver struct {
	Tx  uint64
	Val []byte
	Del bool
}

type c5state struct {
	hist   map[string][]c5ver // per key, ascending tx
	sorted [][]byte
}

func newC5State(log map[uint64][]c5row) (*c5state, uint64) {
	s := &c5state{hist: map[string][]c5ver{}}
	var max uint64
	for id := range log {
		if id > max {
			max = id
		}
	}
	for id := uint64(1); id <= max; id++ {
		for _, e := range log[id] {
			k := string(e.Key)
			s.hist[k] = append(s.hist[k], c5ver{Tx: id, Val: e.Val, Del: e.Del})
		}
	}
	return s, max
}

// newest version with tx <= n
func (s *c5state) at(n uint64, key []byte) *c5ver {
	h := s.hist[string(key)]
	i := sort.Search(len(h), func(i int) bool { return h[i].Tx > n })
	if i == 0 {
		return nil
	}
	return &h[i-1]
}

func (s *c5state) keys() [][]byte {
	if s.sorted != nil {
		return s.sorted
	}
	defer func() { s.sorted = s.keysSlow() }()
	return s.keysSlow()
}

func (s *c5state) keysSlow() [][]byte {
	var ks [][]byte
	for k := range s.hist {
		ks = append(ks, []byte(k))
	}
	sort.Slice(ks, func(i, j int) bool { return bytes.Compare(ks[i], ks[j]) < 0 })
	return ks
}

func ownGet(own []c5row, key []byte) *c5row {
	for i := range own {
		if bytes.Equal(own[i].Key, key) {
			return &own[i]
		}
	}
	return nil
}

// the key set a reader / prefix lookup walks: committed keys present at n plus own keys
func (s *c5state) overlayKeys(n uint64, own []c5row) [][]byte {
	set := map[string]bool{}
	for _, k := range s.keys() {
		if s.at(n, k) != nil {
			set[string(k)] = true
		}
	}
	for _, e := range own {
		set[string(e.Key)] = true
	}
	var ks [][]byte
	for k := range set {
		ks = append(ks, []byte(k))
	}
	sort.Slice(ks, func(i, j int) bool { return bytes.Compare(ks[i], ks[j]) < 0 })
	return ks
}

func inRangeNat(sp c5spec, k []byte) bool {
	if !bytes.HasPrefix(k, sp.Pfx) {
		return false
	}
	if len(sp.Seek) > 0 {
		c := bytes.Compare(k, sp.Seek)
		if sp.Desc {
			c = -c
		}
		if !(c > 0 || (c == 0 && sp.InclSeek)) {
			return false
		}
	}
	if len(sp.End) > 0 {
		c := bytes.Compare(k, sp.End)
		if sp.Desc {
			c = -c
		}
		if !(c < 0 || (c == 0 && sp.InclEnd)) {
			return false
		}
	}
	return true
}

// serialExec re-executes one recorded read on state(n) + own ; ok=false when the op is not a read
func (s *c5state) serialExec(n uint64, own []c5row, op c5op) (c5res, bool) {
	switch op.Kind {
	case "get", "del":
		ign := op.Ign
		if op.Kind == "del" {
			ign = true
		}
		if o := ownGet(own, op.Key); o != nil {
			row := c5row{Key: op.Key, Tx: 0, Val: o.Val, Del: o.Del}
			if op.Kind == "del" {
				if o.Del {
					return c5res{Kind: "nf"}, true
				}
				return c5res{Kind: "ok"}, true
			}
			return c5res{Kind: "f", Row: row}, true
		}
		v := s.at(n, op.Key)
		if v == nil || (ign && v.Del) {
			return c5res{Kind: "nf"}, true
		}
		if op.Kind == "del" {
			return c5res{Kind: "ok"}, true
		}
		return c5res{Kind: "f", Row: c5row{Key: op.Key, Tx: v.Tx, Val: v.Val, Del: v.Del}}, true
	case "pget":
		for _, k := range s.overlayKeys(n, own) {
			if !bytes.HasPrefix(k, op.Key) {
				continue
			}
			if len(op.Neq) > 0 && bytes.Compare(k, op.Neq) <= 0 {
				continue
			}
			if o := ownGet(own, k); o != nil {
				return c5res{Kind: "f", Row: c5row{Key: k, Tx: 0, Val: o.Val, Del: o.Del}}, true
			}
			v := s.at(n, k)
			if op.Ign && v.Del {
				return c5res{Kind: "nf"}, true // the first key is not skipped when filtered
			}
			return c5res{Kind: "f", Row: c5row{Key: k, Tx: v.Tx, Val: v.Val, Del: v.Del}}, true
		}
		return c5res{Kind: "nf"}, true
	case "scan":
		raw := s.rawRows(n, own, op.Spec)
		out := c5res{Kind: "rows"}
		skipped := 0
		for _, cnt := range op.Segs {
			seg := []c5row{}
			pos := 0
			for j := 0; j < cnt; j++ {
				var got *c5row
				for pos < len(raw) {
					r := raw[pos]
					pos++
					if op.Spec.IgnDel && r.Del {
						continue
					}
					if skipped < op.Spec.Offset {
						skipped++
						continue
					}
					got = &r
					break
				}
				if got == nil {
					break
				}
				seg = append(seg, *got)
			}
			out.Segs = append(out.Segs, seg)
		}
		return out, true
	}
	return c5res{}, false
}

func (s *c5state) rawRows(n uint64, own []c5row, sp c5spec) []c5row {
	ks := s.overlayKeys(n, own)
	if sp.Desc {
		for i, j := 0, len(ks)-1; i < j; i, j = i+1, j-1 {
			ks[i], ks[j] = ks[j], ks[i]
		}
	}
	var raw []c5row
	for _, k := range ks {
		if !inRangeNat(sp, k) {
			continue
		}
		if o := ownGet(own, k); o != nil {
			raw = append(raw, c5row{Key: k, Tx: 0, Val: o.Val, Del: o.Del})
			continue
		}
		v := s.at(n, k)
		raw = append(raw, c5row{Key: k, Tx: v.Tx, Val: v.Val, Del: v.Del})
	}
	return raw
}

// fingerprint of a marked prefix on state(n) (no own writes: the commit-time snapshot has none)
func (s *c5state) fpRows(n uint64, own []c5row, sp c5spec) string {
	return fmtRows(s.rawRows(n, own, sp))
}

type c5violation struct {
	Sig  string
	Desc string
}

// checkSerializable: every read of a committed tx equals its serial re-execution at id-1.
// classify() refines the signature when the failing read has one of the root causes established by reading the
// code (each is a separate known finding); anything else keeps the generic signature.
func (s *c5state) checkSerializable(t *c5tx) []c5violation {
	var out []c5violation
	if t.Final != "committed" {
		return nil
	}
	n := t.CommitID - 1
	for i, st := range t.Steps {
		own := t.ownAt(i)
		want, isRead := s.serialExec(n, own, st.Op)
		if !isRead {
			continue
		}
		got := st.Res.String()
		if got == want.String() {
			continue
		}
		sig := "C05:serializability:stale-read-committed"
		if st.Op.Kind == "scan" || st.Op.Kind == "pget" {
			sig = "C05:phantom:range-scan-missed-insert"
			if st.Op.Kind == "pget" {
				sig = "C05:phantom:prefix-get-missed-insert"
			}
		}
		if cl := c5classify(t, i, st); cl == ":later-snapshot-unvalidated" {
			sig = "C05:serializability:stale-read-committed" + cl // root cause independent of the read shape
		} else {
			sig += cl
		}
		out = append(out, c5violation{Sig: sig, Desc: fmt.Sprintf("tx %d committed with id %d: op #%d %q returned %q but alone on state(%d) it returns %q",
			t.ID, t.CommitID, i, st.Op.String(), got, n, want.String())})
	}
	return out
}

// c5classify: model-independent description of WHY the validation could not have caught it
func c5classify(t *c5tx, i int, st c5step) string {
	// (1) early return in checkPreconditions (DESIGN K8, repaired: `continue`; the classification stays armed):
	//     an earlier-acquired snapshot is fresh and written (Ts() > lastPre) while the snapshot serving this read
	//     was acquired later and is stale
	my := -1
	for j, p := range t.SnapPfx {
		if bytes.HasPrefix(st.Op.snapKey(), p) {
			my = j
			break
		}
	}
	lastPre := t.CommitID - 1
	for j := 0; j < my; j++ {
		if t.SnapTs[j] > lastPre && t.SnapBase[my] < lastPre {
			return ":later-snapshot-unvalidated"
		}
	}
	switch st.Op.Kind {
	case "pget":
		if st.Res.Kind == "f" && st.Res.Row.Tx == 0 {
			return ":own-write-result-unrecorded"
		}
	case "scan":
		// some segment ended (without exhausting the reader) on a row written by the tx itself
		for si, seg := range st.Res.Segs {
			if len(seg) > 0 && seg[len(seg)-1].Tx == 0 && si < len(st.Op.Segs) && len(seg) == st.Op.Segs[si] {
				return ":own-write-tail-unvalidated"
			}
		}
	}
	return ""
}
