package main

// C11 — JOIN family (oracle only: metamorphic relations on the real engine + a Go reference evaluator; no Lean model).
//
// A case = three small tables `ja`, `jb`, `jc` with the SAME column names (`id` is the primary key of every table,
// `k`, `v`, `w` INTEGER, `s` VARCHAR[8]; nullable; small domains so that joins match many-to-many), secondary
// (composite) indexes created before or after the data, and the index-free twins `jaw`, `jbw`, `jcw` receiving the
// same autocommit DML.  Generated queries join 2–3 tables (INNER / LEFT, self joins, with or without aliases); the ON
// condition of every join is a conjunction of 0–2 equi conjuncts `outer.c = inner.c'` and 0–2 extra conjuncts of
// every kind: inner-only, outer-only, MIXED outer/inner comparisons (also under OR / NOT), constants; WHERE conjuncts
// of the same kinds; ORDER BY / GROUP BY over columns of any side; LIMIT/OFFSET.  Every query is
//   - evaluated by nested loops in Go over the PK scans of the base tables (bag, engine's two-valued comparisons),
//   - executed on the twins, under random USE INDEX ON hints of every table, and with a 2-row sort buffer,
//   - rewritten: conjuncts of INNER joins moved from ON to WHERE and WHERE conjuncts moved into ON (same bag),
//     join order permuted when all joins are INNER (same bag),
//   - checked for sortedness (SQL comparison of the ORDER BY columns), group keys unique, LIMIT/OFFSET keys.
// The join strategy the engine took at every join level (hash table built once vs. one inner query per outer row)
// and the presence of the sort / streaming-group step are OBSERVED by read-only reflection on the reader chain.

import (
	"context"
	"errors"
	"fmt"
	"reflect"
	"sort"
	"strconv"
	"strings"

	"github.com/codenotary/immudb/embedded/sql"

	"verif/harness/internal/hx"
)

// ---------------------------------------------------------------- schema

type jTab struct {
	Name string
	Cols []sqlCol
	PK   []int
	Idx  [][]int    // live secondary indexes
	rows [][]c15Val // last PK scan of the indexed table
	next int64      // next fresh id
}

func (t *jTab) col(name string) int {
	for i, c := range t.Cols {
		if c.Name == name {
			return i
		}
	}
	return -1
}

func (t *jTab) names(ix []int) string {
	ns := make([]string, len(ix))
	for i, c := range ix {
		ns[i] = t.Cols[c].Name
	}
	return strings.Join(ns, ", ")
}

// the column NAME leads (or is part of) the primary key or a live index of the table
func (t *jTab) nameIndexed(name string) bool {
	ci := t.col(name)
	if ci < 0 {
		return false
	}
	for _, ix := range append([][]int{t.PK}, t.Idx...) {
		for _, c := range ix {
			if c == ci {
				return true
			}
		}
	}
	return false
}

// ---------------------------------------------------------------- predicates over several tables

type jRef struct{ T, C int } // T = position in the FROM list, C = column of that table

type jOpd struct {
	IsCol bool
	R     jRef
	V     c15Val
}

type jx struct {
	K    string // cmp isnull in not and or const
	A, B jOpd
	Op   string
	Neg  bool
	Vs   []c15Val
	L, R *jx
	Lit  string // const: SQL text
	Bv   bool   // const: value
}

func (e *jx) tabs(acc map[int]bool) {
	switch e.K {
	case "cmp":
		if e.A.IsCol {
			acc[e.A.R.T] = true
		}
		if e.B.IsCol {
			acc[e.B.R.T] = true
		}
	case "isnull", "in":
		acc[e.A.R.T] = true
	case "not":
		e.L.tabs(acc)
	case "and", "or":
		e.L.tabs(acc)
		e.R.tabs(acc)
	}
}

func (e *jx) maxTab() int {
	m := map[int]bool{}
	e.tabs(m)
	mx := -1
	for t := range m {
		if t > mx {
			mx = t
		}
	}
	return mx
}

// `outer.c = inner.c'` : the only shape the hash join may use as a key
func (e *jx) isEquiPair(inner int) bool {
	if e.K != "cmp" || e.Op != "=" || !e.A.IsCol || !e.B.IsCol {
		return false
	}
	return (e.A.R.T == inner && e.B.R.T < inner) || (e.B.R.T == inner && e.A.R.T < inner)
}

// references the inner table AND an outer one without being a plain equi pair
func (e *jx) isMixed(inner int) bool {
	m := map[int]bool{}
	e.tabs(m)
	return m[inner] && len(m) > 1 && !e.isEquiPair(inner)
}

func (e *jx) remap(perm []int) *jx {
	if e == nil {
		return nil
	}
	n := *e
	if n.A.IsCol {
		n.A.R.T = perm[n.A.R.T]
	}
	if n.B.IsCol {
		n.B.R.T = perm[n.B.R.T]
	}
	n.L, n.R = e.L.remap(perm), e.R.remap(perm)
	return &n
}

func jLit(v c15Val) string {
	if v.null {
		return "NULL"
	}
	if v.ty == sql.VarcharType {
		return "'" + v.s + "'"
	}
	return strconv.FormatInt(v.i, 10)
}

func (e *jx) render(qual []string, tabs []*jTab) string {
	opd := func(o jOpd) string {
		if o.IsCol {
			return qual[o.R.T] + "." + tabs[o.R.T].Cols[o.R.C].Name
		}
		return jLit(o.V)
	}
	switch e.K {
	case "cmp":
		return opd(e.A) + " " + e.Op + " " + opd(e.B)
	case "isnull":
		if e.Neg {
			return opd(e.A) + " IS NOT NULL"
		}
		return opd(e.A) + " IS NULL"
	case "in":
		vs := make([]string, len(e.Vs))
		for i, v := range e.Vs {
			vs[i] = jLit(v)
		}
		n := ""
		if e.Neg {
			n = "NOT "
		}
		return opd(e.A) + " " + n + "IN (" + strings.Join(vs, ", ") + ")"
	case "not":
		return "NOT (" + e.L.render(qual, tabs) + ")"
	case "and":
		return "(" + e.L.render(qual, tabs) + " AND " + e.R.render(qual, tabs) + ")"
	case "or":
		return "(" + e.L.render(qual, tabs) + " OR " + e.R.render(qual, tabs) + ")"
	}
	return e.Lit
}

// the engine's semantics: comparisons are two-valued, NULL is the least value and equal to NULL; a NULL-extended
// side of a LEFT JOIN (env[t] == nil) holds NULL in every column
func (e *jx) eval(env [][]c15Val, tabs []*jTab) bool {
	val := func(o jOpd) c15Val {
		if !o.IsCol {
			return o.V
		}
		if env[o.R.T] == nil {
			return sqlNull(tabs[o.R.T].Cols[o.R.C].Ty)
		}
		return env[o.R.T][o.R.C]
	}
	switch e.K {
	case "cmp":
		return sqlOpHolds(sqlCmpVal(val(e.A), val(e.B)), e.Op)
	case "isnull":
		return val(e.A).null != e.Neg
	case "in":
		for _, v := range e.Vs {
			if sqlCmpVal(val(e.A), v) == 0 {
				return !e.Neg
			}
		}
		return e.Neg
	case "not":
		return !e.L.eval(env, tabs)
	case "and":
		return e.L.eval(env, tabs) && e.R.eval(env, tabs)
	case "or":
		return e.L.eval(env, tabs) || e.R.eval(env, tabs)
	}
	return e.Bv
}

// ---------------------------------------------------------------- queries

type jAgg struct {
	Fn string // COUNT(*) SUM MIN MAX
	R  jRef
}

type jQuery struct {
	Tabs    []*jTab
	Alias   []string // "" = the table is referenced by its name
	Left    []bool   // Left[i], i >= 1
	On      [][]*jx  // On[i], i >= 1
	Where   []*jx
	Kind    string // rows | group
	Sel     []jRef // rows: projected columns
	Ord     []jRef // rows: ORDER BY columns (all projected); group: subset of Grp
	OrdDesc []bool
	Grp     []jRef
	Aggs    []jAgg
	Limit   int // -1 none
	Offset  int // -1 none
}

func (q *jQuery) qual(twin bool) []string {
	out := make([]string, len(q.Tabs))
	for i, t := range q.Tabs {
		out[i] = q.Alias[i]
		if out[i] == "" {
			out[i] = t.Name
			if twin {
				out[i] += "w"
			}
		}
	}
	return out
}

func (q *jQuery) refName(qual []string, r jRef) string {
	return qual[r.T] + "." + q.Tabs[r.T].Cols[r.C].Name
}

// hints[i] = columns of the index forced on the table at position i (nil = none)
func (q *jQuery) render(twin bool, hints [][]int) string {
	qual := q.qual(twin)
	conj := func(cs []*jx) string {
		if len(cs) == 0 {
			return "true"
		}
		ps := make([]string, len(cs))
		for i, c := range cs {
			ps[i] = c.render(qual, q.Tabs)
		}
		return strings.Join(ps, " AND ")
	}
	src := func(i int) string {
		s := q.Tabs[i].Name
		if twin {
			s += "w"
		}
		if q.Alias[i] != "" {
			s += " AS " + q.Alias[i]
		}
		if hints != nil && hints[i] != nil {
			s += " USE INDEX ON (" + q.Tabs[i].names(hints[i]) + ")"
		}
		return s
	}
	var sel []string
	if q.Kind == "group" {
		for _, g := range q.Grp {
			sel = append(sel, q.refName(qual, g))
		}
		for _, a := range q.Aggs {
			if a.Fn == "COUNT(*)" {
				sel = append(sel, a.Fn)
			} else {
				sel = append(sel, a.Fn+"("+q.refName(qual, a.R)+")")
			}
		}
	} else {
		for _, r := range q.Sel {
			sel = append(sel, q.refName(qual, r))
		}
	}
	s := "SELECT " + strings.Join(sel, ", ") + " FROM " + src(0)
	for i := 1; i < len(q.Tabs); i++ {
		jt := " INNER JOIN "
		if q.Left[i] {
			jt = " LEFT JOIN "
		}
		s += jt + src(i) + " ON " + conj(q.On[i])
	}
	if len(q.Where) > 0 {
		s += " WHERE " + conj(q.Where)
	}
	if len(q.Grp) > 0 {
		gs := make([]string, len(q.Grp))
		for i, g := range q.Grp {
			gs[i] = q.refName(qual, g)
		}
		s += " GROUP BY " + strings.Join(gs, ", ")
	}
	if len(q.Ord) > 0 {
		os := make([]string, len(q.Ord))
		for i, o := range q.Ord {
			os[i] = q.refName(qual, o)
			if q.OrdDesc[i] {
				os[i] += " DESC"
			}
		}
		s += " ORDER BY " + strings.Join(os, ", ")
	}
	if q.Limit >= 0 {
		s += " LIMIT " + strconv.Itoa(q.Limit)
	}
	if q.Offset >= 0 {
		s += " OFFSET " + strconv.Itoa(q.Offset)
	}
	return s
}

func (q *jQuery) clone() *jQuery {
	n := *q
	n.On = make([][]*jx, len(q.On))
	for i := range q.On {
		n.On[i] = append([]*jx{}, q.On[i]...)
	}
	n.Where = append([]*jx{}, q.Where...)
	return &n
}

// output positions of the ORDER BY columns
func (q *jQuery) ordPos() []int {
	var out []int
	list := q.Sel
	if q.Kind == "group" {
		list = q.Grp
	}
	for _, o := range q.Ord {
		for i, r := range list {
			if r == o {
				out = append(out, i)
				break
			}
		}
	}
	return out
}

func (q *jQuery) allInner() bool {
	for i := 1; i < len(q.Tabs); i++ {
		if q.Left[i] {
			return false
		}
	}
	return true
}

// ---------------------------------------------------------------- reference evaluator (nested loops over the PK scans)

func (q *jQuery) refEnvs() [][][]c15Val {
	all := func(cs []*jx, env [][]c15Val) bool {
		for _, c := range cs {
			if !c.eval(env, q.Tabs) {
				return false
			}
		}
		return true
	}
	var envs [][][]c15Val
	for _, row := range q.Tabs[0].rows {
		env := make([][]c15Val, len(q.Tabs))
		env[0] = row
		envs = append(envs, env)
	}
	for i := 1; i < len(q.Tabs); i++ {
		var next [][][]c15Val
		for _, env := range envs {
			matched := false
			for _, row := range q.Tabs[i].rows {
				e2 := append([][]c15Val{}, env...)
				e2[i] = row
				if all(q.On[i], e2) {
					next = append(next, e2)
					matched = true
				}
			}
			if !matched && q.Left[i] {
				next = append(next, append([][]c15Val{}, env...)) // env[i] stays nil: NULL-extended
			}
		}
		envs = next
	}
	var out [][][]c15Val
	for _, env := range envs {
		if all(q.Where, env) {
			out = append(out, env)
		}
	}
	return out
}

func (q *jQuery) refVal(env [][]c15Val, r jRef) c15Val {
	if env[r.T] == nil {
		return sqlNull(q.Tabs[r.T].Cols[r.C].Ty)
	}
	return env[r.T][r.C]
}

func (q *jQuery) refRows() [][]c15Val {
	envs := q.refEnvs()
	var out [][]c15Val
	if q.Kind != "group" {
		for _, env := range envs {
			row := make([]c15Val, len(q.Sel))
			for i, r := range q.Sel {
				row[i] = q.refVal(env, r)
			}
			out = append(out, row)
		}
		return out
	}
	type grp struct {
		key  []c15Val
		envs [][][]c15Val
	}
	var groups []*grp
	idx := map[string]*grp{}
	for _, env := range envs {
		key := make([]c15Val, len(q.Grp))
		for i, g := range q.Grp {
			key[i] = q.refVal(env, g)
		}
		k := sqlRowTok(key)
		g := idx[k]
		if g == nil {
			g = &grp{key: key}
			idx[k] = g
			groups = append(groups, g)
		}
		g.envs = append(g.envs, env)
	}
	if len(q.Grp) == 0 {
		groups = []*grp{{envs: envs}} // aggregates without GROUP BY: one row (only COUNT(*) is generated)
	}
	for _, g := range groups {
		row := append([]c15Val{}, g.key...)
		for _, a := range q.Aggs {
			if a.Fn == "COUNT(*)" {
				row = append(row, c15Val{ty: sql.IntegerType, i: int64(len(g.envs))})
				continue
			}
			var acc *c15Val // NULLs are skipped; nothing but NULLs = NULL
			for _, env := range g.envs {
				v := q.refVal(env, a.R)
				if v.null {
					continue
				}
				switch {
				case acc == nil:
					vv := v
					acc = &vv
				case a.Fn == "SUM":
					acc.i += v.i
				case a.Fn == "MIN" && sqlCmpVal(v, *acc) < 0, a.Fn == "MAX" && sqlCmpVal(v, *acc) > 0:
					*acc = v
				}
			}
			if acc == nil {
				row = append(row, sqlNull(sql.IntegerType))
			} else {
				row = append(row, *acc)
			}
		}
		out = append(out, row)
	}
	return out
}

// ---------------------------------------------------------------- execution with observation of the strategy

type jRun struct {
	res   sqlQRes
	sql   string
	path  []string // per join level (index 0 = first JOIN): hash | loop | unreached
	chain []string // reader types, outermost first
}

func (r jRun) has(name string) bool {
	for _, n := range r.chain {
		if n == name {
			return true
		}
	}
	return false
}

// pointers to the readers from the outermost one down to the scan (unexported fields are only READ)
func c11ReaderVals(rd sql.RowReader) []reflect.Value {
	var out []reflect.Value
	v := reflect.ValueOf(rd)
	var inner func(s reflect.Value) reflect.Value
	inner = func(s reflect.Value) reflect.Value {
		for i := 0; i < s.NumField(); i++ {
			f, ft := s.Field(i), s.Type().Field(i)
			switch {
			case ft.Name == "rowReader" || ft.Name == "rawReader":
				return f
			case ft.Anonymous:
				e := f
				for e.Kind() == reflect.Ptr && !e.IsNil() {
					e = e.Elem()
				}
				if e.Kind() == reflect.Struct {
					if n := inner(e); n.IsValid() {
						return n
					}
				}
			}
		}
		return reflect.Value{}
	}
	for depth := 0; depth < 24; depth++ {
		for v.IsValid() && v.Kind() == reflect.Interface {
			v = v.Elem()
		}
		if !v.IsValid() || v.Kind() != reflect.Ptr || v.IsNil() {
			break
		}
		out = append(out, v)
		s := v.Elem()
		if s.Kind() != reflect.Struct {
			break
		}
		v = inner(s)
	}
	return out
}

func jExec(e *sql.Engine, text string) (run jRun) {
	run.sql = text
	defer func() {
		if p := recover(); p != nil {
			run.res = sqlQRes{Err: fmt.Sprintf("panic:%v at %s", p, sqlPanicSite())}
		}
	}()
	ctx := context.Background()
	rd, err := e.Query(ctx, nil, text, nil)
	if err != nil {
		run.res = sqlQRes{Err: sqlErrClass(err)}
		return run
	}
	defer rd.Close()
	var res sqlQRes
	for n := 0; ; n++ {
		row, err := rd.Read(ctx)
		if errors.Is(err, sql.ErrNoMoreRows) {
			break
		}
		if err != nil {
			res = sqlQRes{Err: sqlErrClass(err)}
			break
		}
		r := make([]c15Val, len(row.ValuesByPosition))
		for i, tv := range row.ValuesByPosition {
			r[i] = sqlFromTyped(tv)
		}
		res.Rows = append(res.Rows, r)
		if n > 200000 {
			res = sqlQRes{Err: "runaway-result"}
			break
		}
	}
	run.res = res
	// the decision is taken lazily, when the first outer row reaches a join level: observe AFTER reading
	for _, v := range c11ReaderVals(rd) {
		name := v.Type().Elem().Name()
		run.chain = append(run.chain, name)
		if name != "jointRowReader" {
			continue
		}
		s := v.Elem()
		hts, chk := s.FieldByName("hashTables"), s.FieldByName("hashJoinChecked")
		if !hts.IsValid() || !chk.IsValid() || hts.Kind() != reflect.Slice || chk.Kind() != reflect.Slice {
			run.path = append(run.path, "unobservable")
			continue
		}
		for i := 0; i < hts.Len() && i < chk.Len(); i++ {
			switch {
			case !chk.Index(i).Bool():
				run.path = append(run.path, "unreached")
			case hts.Index(i).IsNil():
				run.path = append(run.path, "loop")
			default:
				run.path = append(run.path, "hash")
			}
		}
	}
	return run
}

// ---------------------------------------------------------------- the case

type jCase struct {
	r      *hx.Result
	rng    *hx.Rng
	env    *sqlEnv
	small  *sql.Engine
	tabs   []*jTab
	script []string
	dead   bool
}

func (c *jCase) log(s string) { c.script = append(c.script, s) }

func (c *jCase) replay(q, other, detail string) c11Replay {
	return c11Replay{Script: append([]string{}, c.script...), Query: q, Other: other, Detail: detail}
}

func (c *jCase) must(s string) bool {
	res := sqlExec(c.env.eng, nil, sqlPlain(s))
	st := "ok"
	if res.Err != "" {
		st = "ERR " + res.Err
		c.r.Count("join.setup.err." + res.Err)
	}
	c.log(s + "   => " + st)
	return res.Err == ""
}

var jColPool = []struct {
	name string
	ty   sql.SQLValueType
}{{"k", sql.IntegerType}, {"v", sql.IntegerType}, {"w", sql.IntegerType}, {"s", sql.VarcharType}}

func (c *jCase) genVal(t *jTab, ci int, notNull bool) c15Val {
	rng := c.rng
	col := t.Cols[ci]
	if !notNull && rng.Intn(8) == 0 {
		return sqlNull(col.Ty)
	}
	if col.Ty == sql.VarcharType {
		return c15Val{ty: sql.VarcharType, s: []string{"a", "b", "ab", "c"}[rng.Intn(4)]}
	}
	switch col.Name {
	case "k":
		return c15Val{ty: sql.IntegerType, i: int64(rng.Intn(4))}
	case "w":
		return c15Val{ty: sql.IntegerType, i: int64(rng.Intn(5) - 1)}
	}
	return c15Val{ty: sql.IntegerType, i: int64(rng.Intn(5))}
}

func (c *jCase) setup() bool {
	rng := c.rng
	for _, name := range []string{"ja", "jb", "jc"} {
		t := &jTab{Name: name, next: 1}
		t.Cols = append(t.Cols, sqlCol{Name: "id", Ty: sql.IntegerType})
		for _, p := range jColPool {
			if p.name == "k" || p.name == "v" || rng.Intn(3) != 0 {
				col := sqlCol{Name: p.name, Ty: p.ty}
				if p.ty == sql.VarcharType {
					col.MaxLen = 8
				}
				t.Cols = append(t.Cols, col)
			}
		}
		// the order of the columns differs between the tables
		rngShuffle(rng, len(t.Cols)-1, func(i, j int) { t.Cols[i+1], t.Cols[j+1] = t.Cols[j+1], t.Cols[i+1] })
		t.PK = []int{0}
		if rng.Intn(4) == 0 { // composite primary key (v, id)
			t.PK = []int{t.col("v"), 0}
			t.Cols[t.col("v")].NotNull = true
		}
		c.tabs = append(c.tabs, t)
		sc := &sqlSchema{Name: name, Cols: t.Cols, PK: t.PK}
		if !c.must(sc.createTable(name)) || !c.must(sc.createTable(name+"w")) {
			return false
		}
	}
	return true
}

func (c *jCase) genIndexes(t *jTab) [][]int {
	rng := c.rng
	var cands [][]int
	for ci := range t.Cols {
		if ci != 0 {
			cands = append(cands, []int{ci})
		}
	}
	for ci := range t.Cols {
		for cj := range t.Cols {
			if ci != cj && ci != 0 {
				cands = append(cands, []int{ci, cj})
			}
		}
	}
	rngShuffle(rng, len(cands), func(i, j int) { cands[i], cands[j] = cands[j], cands[i] })
	n := rng.Intn(4)
	if n > len(cands) {
		n = len(cands)
	}
	return cands[:n]
}

func (c *jCase) createIndex(t *jTab, ix []int, when string) {
	if c.must("CREATE INDEX ON " + t.Name + "(" + t.names(ix) + ")") {
		t.Idx = append(t.Idx, ix)
		c.r.Count("join.index." + when)
	}
}

func (c *jCase) rowSQL(t *jTab, row []c15Val) string {
	vs := make([]string, len(row))
	for i, v := range row {
		vs[i] = jLit(v)
	}
	return "(" + strings.Join(vs, ", ") + ")"
}

func (c *jCase) allCols(t *jTab) string {
	ix := make([]int, len(t.Cols))
	for i := range ix {
		ix[i] = i
	}
	return t.names(ix)
}

func (c *jCase) genRow(t *jTab) []c15Val {
	row := make([]c15Val, len(t.Cols))
	for ci, col := range t.Cols {
		if ci == 0 {
			row[ci] = c15Val{ty: sql.IntegerType, i: t.next}
			t.next++
			continue
		}
		row[ci] = c.genVal(t, ci, col.NotNull)
	}
	return row
}

// one autocommit statement applied to the table and its twin
func (c *jCase) both(t *jTab, f func(name string) string) {
	c.must(f(t.Name))
	c.must(f(t.Name + "w"))
}

func (c *jCase) insertBatch(t *jTab, n int) {
	if n == 0 {
		return
	}
	var rows []string
	for i := 0; i < n; i++ {
		rows = append(rows, c.rowSQL(t, c.genRow(t)))
	}
	c.both(t, func(name string) string {
		return "INSERT INTO " + name + "(" + c.allCols(t) + ") VALUES " + strings.Join(rows, ", ")
	})
	c.r.Count("join.dml.insert")
}

func (c *jCase) dml() {
	rng := c.rng
	t := c.tabs[rng.Intn(len(c.tabs))]
	switch k := rng.Intn(10); {
	case k < 4 || len(t.rows) == 0:
		c.insertBatch(t, 1+rng.Intn(3))
	case k < 8:
		// UPDATE of a non-key column (indexed or not) of the rows selected by id or by a join column
		var cs []int
		for ci := range t.Cols {
			pk := false
			for _, p := range t.PK {
				pk = pk || p == ci
			}
			if !pk {
				cs = append(cs, ci)
			}
		}
		ci := cs[rng.Intn(len(cs))]
		where := "id = " + strconv.Itoa(1+rng.Intn(int(t.next)))
		if rng.Intn(3) == 0 {
			where = "k = " + strconv.Itoa(rng.Intn(4))
		}
		v := c.genVal(t, ci, t.Cols[ci].NotNull)
		c.both(t, func(name string) string {
			return "UPDATE " + name + " SET " + t.Cols[ci].Name + " = " + jLit(v) + " WHERE " + where
		})
		c.r.Count("join.dml.update")
	default:
		where := "id = " + strconv.Itoa(1+rng.Intn(int(t.next)))
		c.both(t, func(name string) string { return "DELETE FROM " + name + " WHERE " + where })
		c.r.Count("join.dml.delete")
	}
}

// PK scans of the base tables (input of the reference evaluator); the twins must hold the same rows
func (c *jCase) scan() bool {
	for _, t := range c.tabs {
		a := sqlQuery(c.env.eng, nil, sqlPlain("SELECT "+c.allCols(t)+" FROM "+t.Name+" USE INDEX ON ("+t.names(t.PK)+")"))
		b := sqlQuery(c.env.eng, nil, sqlPlain("SELECT "+c.allCols(t)+" FROM "+t.Name+"w"))
		c.r.OracleChecks++
		if a.Err != "" || b.Err != "" || a.bag() != b.bag() {
			c.r.Fail("C11:dml:twin-tables-diverged", fmt.Sprintf("join family: after the same autocommit DML %s = %s %s but %sw = %s %s", t.Name, a.Err, sqlRowsShow(a.Rows, 12), t.Name, b.Err, sqlRowsShow(b.Rows, 12)),
				c.replay("SELECT * FROM "+t.Name, "SELECT * FROM "+t.Name+"w", "twin divergence"))
			c.dead = true
			return false
		}
		for _, ix := range t.Idx {
			x := sqlQuery(c.env.eng, nil, sqlPlain("SELECT "+c.allCols(t)+" FROM "+t.Name+" USE INDEX ON ("+t.names(ix)+")"))
			c.r.OracleChecks++
			if x.bag() != a.bag() {
				c.r.Fail("C11:plan:forced-index-differs", fmt.Sprintf("join family: scan of %s through (%s) = %s %s, through the primary key %s", t.Name, t.names(ix), x.Err, sqlRowsShow(x.Rows, 12), sqlRowsShow(a.Rows, 12)),
					c.replay("SELECT * FROM "+t.Name+" USE INDEX ON ("+t.names(ix)+")", "SELECT * FROM "+t.Name, "index scan"))
				c.dead = true
				return false
			}
		}
		t.rows = a.Rows
		c.r.Count("join.table.rows." + []string{"0", "1", "2-3", "4-7", "8-15", "16+"}[min(5, bitsLen(len(a.Rows)))])
	}
	return true
}

// ---------------------------------------------------------------- generator

func (c *jCase) constFor(t *jTab, ci int) c15Val {
	v := c.genVal(t, ci, true)
	if len(t.rows) > 0 && c.rng.Intn(2) == 0 {
		if x := t.rows[c.rng.Intn(len(t.rows))][ci]; !x.null {
			v = x
		}
	}
	return v
}

func (c *jCase) colsOfType(q *jQuery, pos int, ty sql.SQLValueType) []int {
	var out []int
	for ci, col := range q.Tabs[pos].Cols {
		if col.Ty == ty {
			out = append(out, ci)
		}
	}
	return out
}

// comparison of a column of table `pos` with a constant / NULL test / IN list / another column of the same table
func (c *jCase) genSingle(q *jQuery, pos int) *jx {
	rng := c.rng
	t := q.Tabs[pos]
	ci := rng.Intn(len(t.Cols))
	a := jOpd{IsCol: true, R: jRef{pos, ci}}
	switch k := rng.Intn(10); {
	case k < 5:
		e := &jx{K: "cmp", A: a, Op: sqlCmpOps[rng.Intn(6)], B: jOpd{V: c.constFor(t, ci)}}
		if rng.Intn(5) == 0 {
			e.A, e.B = e.B, e.A
		}
		return e
	case k < 7:
		return &jx{K: "isnull", A: a, Neg: rng.Intn(2) == 0}
	case k < 9:
		e := &jx{K: "in", A: a, Neg: rng.Intn(4) == 0}
		for n := 1 + rng.Intn(3); n > 0; n-- {
			e.Vs = append(e.Vs, c.constFor(t, ci))
		}
		return e
	}
	same := c.colsOfType(q, pos, t.Cols[ci].Ty)
	return &jx{K: "cmp", A: a, Op: sqlCmpOps[rng.Intn(6)], B: jOpd{IsCol: true, R: jRef{pos, same[rng.Intn(len(same))]}}}
}

// comparison between a column of table `pa` and a column of table `pb` (same type); op "" = any non-equi shape
func (c *jCase) genPair(q *jQuery, pa, pb int, op string) *jx {
	rng := c.rng
	ta, tb := q.Tabs[pa], q.Tabs[pb]
	ty := sql.IntegerType
	if rng.Intn(6) == 0 && ta.col("s") >= 0 && tb.col("s") >= 0 {
		ty = sql.VarcharType
	}
	ca, cb := c.colsOfType(q, pa, ty), c.colsOfType(q, pb, ty)
	a, b := ca[rng.Intn(len(ca))], cb[rng.Intn(len(cb))]
	if op == "=" && ty == sql.IntegerType && rng.Intn(3) != 0 {
		// join keys: k = k, id = k, k = id most of the time (many-to-many matches)
		a, b = ta.col("k"), tb.col("k")
		if rng.Intn(3) == 0 {
			a = 0
		} else if rng.Intn(4) == 0 {
			b = 0
		}
	}
	if op == "" {
		op = []string{"<", "<=", ">", ">=", "<>", "<", ">"}[rng.Intn(7)]
	}
	e := &jx{K: "cmp", A: jOpd{IsCol: true, R: jRef{pa, a}}, Op: op, B: jOpd{IsCol: true, R: jRef{pb, b}}}
	if rng.Intn(2) == 0 {
		e.A, e.B = e.B, e.A
		switch e.Op {
		case "<":
			e.Op = ">"
		case ">":
			e.Op = "<"
		case "<=":
			e.Op = ">="
		case ">=":
			e.Op = "<="
		}
	}
	return e
}

func (c *jCase) genConst() *jx {
	switch c.rng.Intn(6) {
	case 0:
		return &jx{K: "const", Lit: "true", Bv: true}
	case 1:
		return &jx{K: "const", Lit: "2 > 1", Bv: true}
	case 2:
		return &jx{K: "const", Lit: "0 = 1", Bv: false}
	}
	return &jx{K: "const", Lit: "1 = 1", Bv: true}
}

// an extra conjunct of the ON clause of the join at position `inner`; returns its class
func (c *jCase) genExtra(q *jQuery, inner int) (*jx, string) {
	rng := c.rng
	outer := rng.Intn(inner)
	switch k := rng.Intn(100); {
	case k < 25:
		return c.genSingle(q, inner), "inner-only"
	case k < 45:
		if rng.Intn(4) == 0 && inner >= 2 {
			return c.genPair(q, 0, 1, ""), "outer-only"
		}
		return c.genSingle(q, outer), "outer-only"
	case k < 85:
		m := c.genPair(q, outer, inner, "")
		switch rng.Intn(6) {
		case 0:
			return &jx{K: "or", L: m, R: c.genSingle(q, inner)}, "mixed"
		case 1:
			return &jx{K: "not", L: m}, "mixed"
		case 2:
			// an equality under OR is not a hash key either
			return &jx{K: "or", L: c.genPair(q, outer, inner, "="), R: c.genSingle(q, []int{outer, inner}[rng.Intn(2)])}, "mixed"
		}
		return m, "mixed"
	}
	return c.genConst(), "const"
}

func (c *jCase) genQuery() *jQuery {
	rng := c.rng
	q := &jQuery{Limit: -1, Offset: -1}
	n := 2
	if rng.Intn(3) == 0 {
		n = 3
	}
	perm := []int{0, 1, 2}
	rngShuffle(rng, 3, func(i, j int) { perm[i], perm[j] = perm[j], perm[i] })
	aliased := rng.Intn(5) != 0
	for i := 0; i < n; i++ {
		t := c.tabs[perm[i]]
		if aliased && i > 0 && rng.Intn(7) == 0 {
			t = q.Tabs[rng.Intn(i)] // self join
		}
		q.Tabs = append(q.Tabs, t)
		a := ""
		if aliased {
			a = []string{"x", "y", "z"}[i]
		}
		q.Alias = append(q.Alias, a)
	}
	q.Left, q.On = make([]bool, n), make([][]*jx, n)
	for i := 1; i < n; i++ {
		q.Left[i] = rng.Intn(5) < 2
		nEq := 1
		switch k := rng.Intn(100); {
		case k < 8:
			nEq = 0
		case k < 30:
			nEq = 2
		}
		for j := 0; j < nEq; j++ {
			q.On[i] = append(q.On[i], c.genPair(q, rng.Intn(i), i, "="))
		}
		nEx := 0
		switch k := rng.Intn(100); {
		case k < 45:
			nEx = 1
		case k < 65:
			nEx = 2
		}
		for j := 0; j < nEx; j++ {
			e, class := c.genExtra(q, i)
			q.On[i] = append(q.On[i], e)
			c.r.Count("join.on.extra." + class)
		}
		rngShuffle(rng, len(q.On[i]), func(a, b int) { q.On[i][a], q.On[i][b] = q.On[i][b], q.On[i][a] })
		if len(q.On[i]) == 0 {
			q.On[i] = []*jx{c.genConst()}
		}
	}
	for nw := []int{0, 0, 1, 1, 2}[rng.Intn(5)]; nw > 0; nw-- {
		if rng.Intn(3) == 0 {
			pa := rng.Intn(n)
			pb := (pa + 1 + rng.Intn(n-1)) % n
			op := ""
			if rng.Intn(4) == 0 {
				op = "="
			}
			q.Where = append(q.Where, c.genPair(q, pa, pb, op))
		} else {
			q.Where = append(q.Where, c.genSingle(q, rng.Intn(n)))
		}
	}
	anyRef := func() jRef {
		p := rng.Intn(n)
		return jRef{p, rng.Intn(len(q.Tabs[p].Cols))}
	}
	if rng.Intn(4) == 0 {
		q.Kind = "group"
		seen := map[jRef]bool{}
		for ng := []int{0, 1, 1, 1, 2}[rng.Intn(5)]; ng > 0; ng-- {
			g := anyRef()
			if !seen[g] {
				seen[g] = true
				q.Grp = append(q.Grp, g)
			}
		}
		q.Aggs = []jAgg{{Fn: "COUNT(*)"}}
		if len(q.Grp) > 0 {
			for na := rng.Intn(3); na > 0; na-- {
				p := rng.Intn(n)
				ints := c.colsOfType(q, p, sql.IntegerType)
				q.Aggs = append(q.Aggs, jAgg{Fn: []string{"SUM", "MIN", "MAX"}[rng.Intn(3)], R: jRef{p, ints[rng.Intn(len(ints))]}})
			}
			if rng.Intn(2) == 0 {
				desc := rng.Intn(3) == 0
				for _, g := range q.Grp {
					q.Ord = append(q.Ord, g)
					q.OrdDesc = append(q.OrdDesc, desc)
				}
				if rng.Intn(3) == 0 {
					q.Ord, q.OrdDesc = q.Ord[:1], q.OrdDesc[:1]
				}
			}
		}
		return q
	}
	q.Kind = "rows"
	for p := range q.Tabs {
		for ci := range q.Tabs[p].Cols {
			q.Sel = append(q.Sel, jRef{p, ci})
		}
	}
	if rng.Intn(5) < 3 {
		desc := rng.Intn(3) == 0
		seen := map[jRef]bool{}
		for no := 1 + rng.Intn(2); no > 0; no-- {
			o := anyRef()
			if seen[o] {
				continue
			}
			seen[o] = true
			d := desc
			if rng.Intn(6) == 0 {
				d = !d
			}
			q.Ord, q.OrdDesc = append(q.Ord, o), append(q.OrdDesc, d)
		}
		if rng.Intn(4) == 0 {
			q.Limit = 1 + rng.Intn(4)
			if rng.Intn(2) == 0 {
				q.Offset = rng.Intn(4)
			}
		}
	}
	return q
}

// ---------------------------------------------------------------- rewrites

// conjuncts of INNER joins moved from ON to WHERE (equi conjuncts too when `all`); nil when nothing moves
func (q *jQuery) onToWhere(all bool) *jQuery {
	n := q.clone()
	moved := false
	for i := 1; i < len(q.Tabs); i++ {
		if q.Left[i] {
			continue
		}
		var keep []*jx
		for _, e := range q.On[i] {
			if e.isEquiPair(i) && !all {
				keep = append(keep, e)
				continue
			}
			n.Where = append(n.Where, e)
			moved = true
		}
		n.On[i] = keep
	}
	if !moved {
		return nil
	}
	return n
}

// WHERE conjuncts moved into the ON clause of the first INNER join at or after the last table they mention
func (q *jQuery) whereToOn() *jQuery {
	n := q.clone()
	n.Where = nil
	moved := false
	for _, e := range q.Where {
		lvl := max(e.maxTab(), 1)
		for lvl < len(q.Tabs) && q.Left[lvl] {
			lvl++
		}
		if lvl >= len(q.Tabs) {
			n.Where = append(n.Where, e)
			continue
		}
		n.On[lvl] = append(n.On[lvl], e)
		moved = true
	}
	if !moved {
		return nil
	}
	return n
}

// all joins INNER: the tables in another order, every ON conjunct attached to the first join where all its tables are bound
func (q *jQuery) reorder(rng *hx.Rng) *jQuery {
	n := len(q.Tabs)
	newPos := make([]int, n) // old position -> new position
	for {
		for i := range newPos {
			newPos[i] = i
		}
		rngShuffle(rng, n, func(i, j int) { newPos[i], newPos[j] = newPos[j], newPos[i] })
		id := true
		for i, p := range newPos {
			id = id && i == p
		}
		if !id {
			break
		}
	}
	m := &jQuery{Kind: q.Kind, Limit: q.Limit, Offset: q.Offset, OrdDesc: q.OrdDesc, Aggs: nil}
	m.Tabs, m.Alias, m.Left, m.On = make([]*jTab, n), make([]string, n), make([]bool, n), make([][]*jx, n)
	for old, np := range newPos {
		m.Tabs[np], m.Alias[np] = q.Tabs[old], q.Alias[old]
	}
	ref := func(r jRef) jRef { return jRef{newPos[r.T], r.C} }
	for i := 1; i < n; i++ {
		for _, e := range q.On[i] {
			e2 := e.remap(newPos)
			lvl := e2.maxTab()
			if lvl < 1 {
				if rng.Intn(2) == 0 {
					m.Where = append(m.Where, e2)
					continue
				}
				lvl = 1
			}
			m.On[lvl] = append(m.On[lvl], e2)
		}
	}
	for _, e := range q.Where {
		m.Where = append(m.Where, e.remap(newPos))
	}
	for _, r := range q.Sel {
		m.Sel = append(m.Sel, ref(r))
	}
	for _, r := range q.Ord {
		m.Ord = append(m.Ord, ref(r))
	}
	for _, r := range q.Grp {
		m.Grp = append(m.Grp, ref(r))
	}
	for _, a := range q.Aggs {
		m.Aggs = append(m.Aggs, jAgg{Fn: a.Fn, R: ref(a.R)})
	}
	return m
}

// ---------------------------------------------------------------- attribution of the registered findings (by cause)

// J1: a MIXED non-equi conjunct in the ON clause of a join that was served by the hash table (the reduced conjunct
// `inner.x > <value of the FIRST outer row>` is classified inner-only and baked into the table)
func jHashMixed(q *jQuery, run jRun) bool {
	for i := 1; i < len(q.Tabs); i++ {
		if i-1 >= len(run.path) || run.path[i-1] != "hash" {
			continue
		}
		for _, e := range q.On[i] {
			if e.isMixed(i) {
				return true
			}
		}
	}
	return false
}

// J2: an ORDER BY / GROUP BY column qualified with a joined table while the FIRST table has a column of the same name
// covered by its primary key or a live index, and the engine dropped the sort step / streamed the groups
func jOrdQualifier(q *jQuery, run jRun, twin bool) bool {
	list := q.Ord
	if q.Kind == "group" {
		list = q.Grp
	}
	hit := false
	first := q.Tabs[0]
	for _, r := range list {
		name := q.Tabs[r.T].Cols[r.C].Name
		if r.T == 0 {
			continue
		}
		ci := first.col(name)
		if ci < 0 {
			continue
		}
		if twin { // the twins have the primary index only
			for _, p := range first.PK {
				hit = hit || p == ci
			}
		} else if first.nameIndexed(name) {
			hit = true
		}
	}
	if !hit || run.res.Err != "" {
		return false
	}
	if q.Kind == "group" {
		return run.has("groupedRowReader") && !run.has("hashGroupedRowReader")
	}
	return !run.has("sortRowReader")
}

// J3: a NOT IN list inside a join condition — written in an ON clause, or in a WHERE conjunct over the inner table of an
// INNER join alone (predicate pushdown moves it into that ON clause): InListExp.reduceSelectors drops the negation
func (e *jx) hasNotIn() bool {
	if e == nil {
		return false
	}
	return (e.K == "in" && e.Neg) || e.L.hasNotIn() || e.R.hasNotIn()
}

func jNotInJoinCond(q *jQuery) bool {
	for i := 1; i < len(q.Tabs); i++ {
		for _, e := range q.On[i] {
			if e.hasNotIn() {
				return true
			}
		}
	}
	for _, e := range q.Where {
		m := map[int]bool{}
		e.tabs(m)
		if len(m) == 1 && e.hasNotIn() {
			for t := range m {
				if t >= 1 && !q.Left[t] {
					return true
				}
			}
		}
	}
	return false
}

func (e *jx) dropNotIn() *jx {
	if e == nil {
		return nil
	}
	n := *e
	if n.K == "in" {
		n.Neg = false
	}
	n.L, n.R = e.L.dropNotIn(), e.R.dropNotIn()
	return &n
}

// the query as the engine evaluates it with J3: NOT IN read as IN in every join condition (ON clauses and the WHERE
// conjuncts the predicate pushdown moves into the ON clause of an INNER join)
func (q *jQuery) withLostNegation() *jQuery {
	n := q.clone()
	for i := 1; i < len(q.Tabs); i++ {
		for k, e := range n.On[i] {
			n.On[i][k] = e.dropNotIn()
		}
	}
	for k, e := range n.Where {
		m := map[int]bool{}
		e.tabs(m)
		if len(m) == 1 {
			for t := range m {
				if t >= 1 && !q.Left[t] {
					n.Where[k] = e.dropNotIn()
				}
			}
		}
	}
	return n
}

// the result is EXACTLY what J3 predicts for this query (for a query without NOT IN in a join condition: the reference result)
func (q *jQuery) lostNegationExplains(res sqlQRes) bool {
	if res.Err != "" {
		return false
	}
	want := sqlQRes{Rows: q.withLostNegation().refRows()}
	if q.Limit < 0 {
		return want.bag() == res.bag()
	}
	lo := min(max(q.Offset, 0), len(want.Rows))
	hi := min(lo+q.Limit, len(want.Rows))
	if len(res.Rows) != hi-lo {
		return false
	}
	have := map[string]int{}
	for _, t := range want.rowToks() {
		have[t]++
	}
	for _, t := range res.rowToks() {
		have[t]--
		if have[t] < 0 {
			return false
		}
	}
	return true
}

type jSide struct {
	q     *jQuery
	run   jRun
	twin  bool
	small bool // executed by the engine with the 2-row sort buffer
}

func (q *jQuery) dupAgg() bool {
	seen := map[jAgg]bool{}
	for _, a := range q.Aggs {
		if seen[a] {
			return true
		}
		seen[a] = true
	}
	return false
}

// the cause suffix of a discrepancy: only the registered causes that CAN explain the failing oracle are considered
// (`allow`, in the order given by the caller: '1' frozen mixed conjunct — its condition is OBSERVED (hash path taken) —, '3' NOT IN lost (repaired in /repo: be1e49d; the signature is no longer listed, so it is a violation if it returns), '2' qualifier ignored); J1 and J3 change
// the set of rows, J2 only their order / the grouping
func jCause(allow string, sides ...jSide) string {
	for _, a := range allow {
		if a == '3' {
			// exact: some side has a NOT IN in a join condition and EVERY side returned what the lost negation predicts
			some, all := false, true
			for _, s := range sides {
				some = some || jNotInJoinCond(s.q)
				all = all && s.q.lostNegationExplains(s.run.res)
			}
			if some && all {
				return ":not-in-negation-lost-in-join-condition"
			}
			continue
		}
		for _, s := range sides {
			switch {
			case a == '1' && jHashMixed(s.q, s.run):
				return ":hash-join-mixed-conjunct-frozen"
			case a == '2' && jOrdQualifier(s.q, s.run, s.twin):
				return ":index-coverage-ignores-table-qualifier"
			}
		}
	}
	return ""
}

// causes that can make two executions return different bags (sizes under LIMIT)
func (q *jQuery) rowSetCauses(samePredicates bool) string {
	a := "13" // the frozen mixed conjunct (observed hash path) first: an empty answer is also what a lost negation would predict
	if samePredicates { // same text up to hints / twin tables: the lost negation is lost on both sides
		a = "1"
	}
	return a
}

// ---------------------------------------------------------------- oracles of one query

func (c *jCase) failPair(sig, allow string, a, b jSide, what string) {
	other := b.run.sql
	if b.small {
		other = "WithSortBufferSize(2)"
	}
	for _, x := range []jRun{a.run, b.run} {
		if strings.HasPrefix(x.res.Err, "panic:") {
			site := x.res.Err
			if i := strings.Index(site, " at "); i >= 0 {
				site = site[i+4:]
			}
			if j := strings.Index(site, " < "); j >= 0 {
				site = site[:j]
			}
			// J4: the same aggregate twice in the target list, sort spilled to files (fileRowReader.getRow sizes the row by
			// the number of DISTINCT selectors): only this shape carries the cause suffix
			if site == "sql.decodeValues" && b.q.dupAgg() && b.small {
				site += ":duplicate-aggregate-in-spilled-sort"
			}
			c.r.Fail("C11:query:panic:"+site, what+": ["+x.sql+"] => "+x.res.Err, c.replay(a.run.sql, other, x.res.Err))
			return
		}
	}
	sig += jCause(allow, a, b)
	desc := fmt.Sprintf("%s: [%s] => %s %s (joins: %s)  VS  [%s] => %s %s (joins: %s)", what, a.run.sql, a.run.res.Err, sqlRowsShow(a.run.res.Rows, 12), strings.Join(a.run.path, ","),
		b.run.sql, b.run.res.Err, sqlRowsShow(b.run.res.Rows, 12), strings.Join(b.run.path, ","))
	c.r.Fail(sig, desc, c.replay(a.run.sql, other, what))
}

// same result: bags; under LIMIT/OFFSET only the sizes (which rows are cut is decided by the order among ties)
func jSame(q *jQuery, a, b sqlQRes) bool {
	if a.Err != b.Err {
		return false
	}
	if q.Limit >= 0 {
		return len(a.Rows) == len(b.Rows)
	}
	return a.bag() == b.bag()
}

func (c *jCase) countPaths(q *jQuery, run jRun) {
	r := c.r
	for i := 1; i < len(q.Tabs); i++ {
		p := "unobserved"
		if i-1 < len(run.path) {
			p = run.path[i-1]
		}
		jt := "inner"
		if q.Left[i] {
			jt = "left"
		}
		r.Count("join.path." + p)
		r.Count("join.path." + jt + "." + p)
		mixed, eq := false, 0
		for _, e := range q.On[i] {
			mixed = mixed || e.isMixed(i)
			if e.isEquiPair(i) {
				eq++
			}
		}
		r.Count(fmt.Sprintf("join.on.equi%d.%s", eq, p))
		if mixed {
			r.Count("join.on.mixed-conjunct." + p)
		}
	}
}

// sortedness, unique group keys: evaluated on every execution of the query (whatever the plan)
// Returns true when the result repeats a group: such a result is reported here and not compared any further (every
// comparison of its bag would report the same wrong result again).
func (c *jCase) checkShape(s jSide) (dupGroup bool) {
	q, run := s.q, s.run
	if run.res.Err != "" {
		return false
	}
	if len(q.Ord) > 0 {
		c.r.OracleChecks++
		c.r.Count("join.oracle.sorted")
		if ok, at := c11Sorted(run.res.Rows, q.ordPos(), q.OrdDesc); !ok {
			c.r.Fail("C11:orderby:not-sorted"+jCause("2", s), fmt.Sprintf("[%s] row %d out of order: %s (chain %s)", run.sql, at, sqlRowsShow(run.res.Rows, 12), strings.Join(run.chain, ">")), c.replay(run.sql, "", "not sorted"))
		}
	}
	if q.Kind == "group" && len(q.Grp) > 0 {
		c.r.OracleChecks++
		c.r.Count("join.oracle.group-keys")
		seen := map[string]bool{}
		for _, row := range run.res.Rows {
			k := sqlRowTok(row[:len(q.Grp)])
			if seen[k] {
				c.r.Fail("C11:groupby:duplicate-group"+jCause("2", s), fmt.Sprintf("[%s] emits the group (%s) more than once: %s (chain %s)", run.sql, k, sqlRowsShow(run.res.Rows, 12), strings.Join(run.chain, ">")), c.replay(run.sql, "", "duplicate group"))
				c.r.Count("join.skipped.comparisons-of-a-result-with-a-duplicate-group")
				return true
			}
			seen[k] = true
		}
	}
	return false
}

func (c *jCase) randHints(q *jQuery) [][]int {
	hs := make([][]int, len(q.Tabs))
	any := false
	for i, t := range q.Tabs {
		if c.rng.Intn(3) == 0 {
			continue
		}
		ixs := append([][]int{t.PK}, t.Idx...)
		hs[i] = ixs[c.rng.Intn(len(ixs))]
		any = true
	}
	if !any {
		hs[0] = q.Tabs[0].PK
	}
	return hs
}

func (c *jCase) checkQuery(q *jQuery) {
	r, eng := c.r, c.env.eng
	base := jSide{q: q, run: jExec(eng, q.render(false, nil))}
	r.Count("join.q." + q.Kind)
	r.Count(fmt.Sprintf("join.q.tables%d", len(q.Tabs)))
	if base.run.res.Err != "" {
		r.Count("join.q.err." + base.run.res.Err)
	} else if len(base.run.res.Rows) > 0 {
		r.Count("join.q.nonempty")
	}
	r.Eval("join|"+base.run.sql, len(base.run.res.Rows) > 0)
	if strings.HasPrefix(base.run.res.Err, "panic:") {
		c.failPair("C11:query:panic", "", base, base, "join query")
		return
	}
	c.countPaths(q, base.run)
	c.countShapes(q, base.run)
	baseDup := c.checkShape(base)

	// (1) reference evaluator: nested loops in Go over the PK scans
	want := sqlQRes{Rows: q.refRows()}
	r.OracleChecks++
	r.Count("join.variant.reference")
	if base.run.res.Err != "" {
		c.r.Fail("C11:join:query-fails", fmt.Sprintf("[%s] => %s; the reference evaluator gives %s", base.run.sql, base.run.res.Err, sqlRowsShow(want.Rows, 12)), c.replay(base.run.sql, "", base.run.res.Err))
		return
	}
	if q.Limit < 0 {
		if !baseDup && want.bag() != base.run.res.bag() {
			sig := "C11:join:rows-differ-from-reference-evaluator" + jCause(q.rowSetCauses(false), base)
			c.r.Fail(sig, fmt.Sprintf("[%s] => %s (joins: %s) but nested loops over the PK scans of the tables give %s", base.run.sql, sqlRowsShow(base.run.res.Rows, 12), strings.Join(base.run.path, ","), sqlRowsShow(want.Rows, 12)),
				c.replay(base.run.sql, "", "reference evaluator"))
		}
	} else {
		c.checkLimit(base, want)
	}

	// (2) the index-free twins
	tw := jSide{q: q, run: jExec(eng, q.render(true, nil)), twin: true}
	r.OracleChecks++
	r.Count("join.variant.twin")
	if dup := c.checkShape(tw); !dup && !baseDup && !jSame(q, base.run.res, tw.run.res) {
		c.failPair("C11:plan:index-vs-scan-differs", q.rowSetCauses(true), base, tw, "join on the indexed tables differs from the join on the twins without secondary indexes")
	}
	if q.Limit >= 0 && tw.run.res.Err == "" {
		c.checkLimit(tw, want)
	}

	// (3) forced indexes on every table
	for k := 0; k < 2; k++ {
		h := jSide{q: q, run: jExec(eng, q.render(false, c.randHints(q)))}
		r.OracleChecks++
		r.Count("join.variant.hint")
		c.countPaths(q, h.run)
		if dup := c.checkShape(h); !dup && !baseDup && !jSame(q, base.run.res, h.run.res) {
			sig := "C11:plan:forced-index-differs"
			if (base.run.res.Err == "") != (h.run.res.Err == "") {
				sig = "C11:plan:error-depends-on-plan"
			}
			c.failPair(sig, q.rowSetCauses(true), base, h, "join under forced indexes differs from the unhinted plan")
		}
		if q.Limit >= 0 && h.run.res.Err == "" {
			c.checkLimit(h, want)
		}
	}

	// (4) file sort
	if c.small != nil && (len(q.Ord) > 0 || q.Kind == "group") {
		s := jSide{q: q, run: jExec(c.small, q.render(false, nil)), small: true}
		r.OracleChecks++
		r.Count("join.variant.filesort")
		if dup := c.checkShape(s); !dup && !baseDup && !jSame(q, base.run.res, s.run.res) {
			c.failPair("C11:filesort-differs", strings.TrimPrefix(q.rowSetCauses(true), "1"), base, s, "join with a sort buffer of 2 rows differs from the default")
		}
	}
	if q.Limit >= 0 {
		return
	}

	// (5) the same predicate in ON and in WHERE (INNER joins)
	for k, alt := range []*jQuery{q.onToWhere(false), q.onToWhere(true), q.whereToOn()} {
		if alt == nil {
			continue
		}
		a := jSide{q: alt, run: jExec(eng, alt.render(false, nil))}
		r.OracleChecks++
		r.Count("join.variant.on-vs-where." + []string{"extras-to-where", "all-to-where", "where-to-on"}[k])
		c.countPaths(alt, a.run)
		if dup := c.checkShape(a); !dup && !baseDup && !jSame(q, base.run.res, a.run.res) {
			c.failPair("C11:join:on-vs-where-differs", q.rowSetCauses(false), base, a, "the same conjuncts placed in the ON clause of an INNER join and in WHERE give different rows")
		}
	}

	// (6) join order (all joins INNER)
	if q.allInner() {
		alt := q.reorder(c.rng)
		a := jSide{q: alt, run: jExec(eng, alt.render(false, nil))}
		r.OracleChecks++
		r.Count("join.variant.order-swapped")
		c.countPaths(alt, a.run)
		if dup := c.checkShape(a); !dup && !baseDup && !jSame(q, base.run.res, a.run.res) {
			c.failPair("C11:join:order-swapped-differs", q.rowSetCauses(false), base, a, "INNER joins of the same tables in another order give different rows")
		}
	}
}

// LIMIT/OFFSET under ORDER BY: the ORDER BY keys of the result are the keys at these positions of the sorted
// reference result, and every returned row is a row of the reference result
func (c *jCase) checkLimit(s jSide, want sqlQRes) {
	q, got := s.q, s.run.res
	pos := q.ordPos()
	keys := func(rows [][]c15Val) []string {
		out := make([]string, len(rows))
		for i, row := range rows {
			k := make([]c15Val, len(pos))
			for j, p := range pos {
				k[j] = row[p]
			}
			out[i] = sqlRowTok(k)
		}
		return out
	}
	ref := append([][]c15Val{}, want.Rows...)
	sort.SliceStable(ref, func(i, j int) bool {
		for k, p := range pos {
			cm := sqlCmpVal(ref[i][p], ref[j][p])
			if q.OrdDesc[k] {
				cm = -cm
			}
			if cm != 0 {
				return cm < 0
			}
		}
		return false
	})
	lo := max(q.Offset, 0)
	hi := lo + q.Limit
	lo, hi = min(lo, len(ref)), min(hi, len(ref))
	c.r.OracleChecks++
	c.r.Count("join.oracle.limit")
	have := map[string]int{}
	for _, t := range want.rowToks() {
		have[t]++
	}
	for _, t := range got.rowToks() {
		have[t]--
		if have[t] < 0 {
			c.r.Fail("C11:limit-offset:not-a-slice"+jCause("13", s), fmt.Sprintf("[%s] returns the row (%s) more often than the unlimited join holds it: %s", s.run.sql, t, sqlRowsShow(got.Rows, 12)), c.replay(s.run.sql, "", "limit"))
			return
		}
	}
	if strings.Join(keys(got.Rows), ";") != strings.Join(keys(ref[lo:hi]), ";") {
		c.r.Fail("C11:limit-offset:order-keys-differ"+jCause("132", s), fmt.Sprintf("[%s] => %s but the ORDER BY keys at these positions of the sorted reference result are %s", s.run.sql, sqlRowsShow(got.Rows, 12), strings.Join(keys(ref[lo:hi]), " ")),
			c.replay(s.run.sql, "", "limit keys"))
	}
}

// shapes the two registered causes depend on (counted on the unhinted execution)
func (c *jCase) countShapes(q *jQuery, run jRun) {
	list := q.Ord
	what := "order-by"
	if q.Kind == "group" {
		list, what = q.Grp, "group-by"
	}
	for _, r := range list {
		side := "first-table"
		if r.T > 0 {
			side = "joined-table"
			name := q.Tabs[r.T].Cols[r.C].Name
			if q.Tabs[0].nameIndexed(name) {
				side += ".same-name-indexed-in-first-table"
			}
		} else {
			name := q.Tabs[0].Cols[r.C].Name
			for i := 1; i < len(q.Tabs); i++ {
				if q.Tabs[i] != q.Tabs[0] && q.Tabs[i].nameIndexed(name) {
					side += ".same-name-indexed-in-joined-table"
					break
				}
			}
		}
		c.r.Count("join.shape." + what + "." + side)
	}
	if len(q.Ord) > 0 && q.Kind == "rows" {
		if run.has("sortRowReader") {
			c.r.Count("join.plan.order-by.sort-step")
		} else {
			c.r.Count("join.plan.order-by.without-sort-step")
		}
	}
	if q.Kind == "group" && len(q.Grp) > 0 {
		if run.has("hashGroupedRowReader") {
			c.r.Count("join.plan.group-by.hash")
		} else {
			c.r.Count("join.plan.group-by.streamed")
		}
	}
}

func (c *jCase) run(thorough bool) {
	r, rng := c.r, c.rng
	r.NextCase()
	env, err := sqlOpenEnv("c11j")
	if err != nil {
		r.Inconclusive = append(r.Inconclusive, "cannot open store: "+err.Error())
		return
	}
	c.env = env
	defer env.close()
	if !c.setup() {
		r.Notes = append(r.Notes, "join family: setup failed: "+strings.Join(c.script, " ;; "))
		return
	}
	later := map[*jTab][][]int{}
	for _, t := range c.tabs {
		for _, ix := range c.genIndexes(t) {
			if rng.Intn(2) == 0 {
				c.createIndex(t, ix, "before-data")
			} else {
				later[t] = append(later[t], ix)
			}
		}
	}
	for _, t := range c.tabs {
		n := 3 + rng.Intn(7)
		if rng.Intn(8) == 0 {
			n = rng.Intn(2)
		}
		c.insertBatch(t, n)
	}
	for _, t := range c.tabs {
		for _, ix := range later[t] {
			c.createIndex(t, ix, "after-data")
		}
	}
	c.small, _ = c.env.engineWith(2)
	phases, nq := 3, 14
	if thorough {
		nq = 24
	}
	for ph := 0; ph < phases && !c.dead; ph++ {
		if ph > 0 {
			for n := 2 + rng.Intn(4); n > 0; n-- {
				c.dml()
			}
		}
		if !c.scan() {
			return
		}
		for i := 0; i < nq; i++ {
			c.checkQuery(c.genQuery())
		}
	}
}

func runC11Joins(r *hx.Result, rng *hx.Rng, thorough bool) {
	cases := 14
	if thorough {
		cases = 120
	}
	for i := 0; i < cases; i++ {
		c := &jCase{r: r, rng: rng.Fork()}
		c.run(thorough)
	}
	for _, k := range []string{"join.path.hash", "join.path.loop", "join.path.inner.hash", "join.path.left.hash", "join.path.inner.loop", "join.path.left.loop",
		"join.on.mixed-conjunct.hash", "join.on.mixed-conjunct.loop", "join.on.extra.inner-only", "join.on.extra.outer-only", "join.on.extra.mixed", "join.on.extra.const",
		"join.variant.reference", "join.variant.twin", "join.variant.hint", "join.variant.filesort", "join.variant.on-vs-where.extras-to-where", "join.variant.on-vs-where.where-to-on",
		"join.variant.order-swapped", "join.oracle.sorted", "join.oracle.group-keys", "join.oracle.limit", "join.q.tables3", "join.q.nonempty",
		"join.shape.order-by.joined-table.same-name-indexed-in-first-table", "join.shape.order-by.first-table.same-name-indexed-in-joined-table",
		"join.shape.group-by.joined-table.same-name-indexed-in-first-table", "join.index.before-data", "join.index.after-data"} {
		if r.Distribution[k] == 0 {
			r.Inconclusive = append(r.Inconclusive, "join family never produced class "+k)
		}
	}
	r.Notes = append(r.Notes, "join family (c11join.go): oracle only — reference evaluator (nested loops in Go over the PK scans), twins, forced indexes, file sort, ON-vs-WHERE placement, join order, sortedness, unique group keys, LIMIT keys; the join strategy per level (hash table vs one inner query per outer row) is observed by reflection (counters join.path.*); no Lean model of joins")
}
