package main

// C19 — queries shaped RELATIVE TO THE COLLECTION'S INDEXES, shape counters, dense data.
//
// The general generator (c19.go genQuery) draws the compared fields, the operators and the ORDER BY fields
// independently of the indexes.  A secondary index of a collection is scanned only when the ORDER BY list is a
// prefix of its fields (same direction), or continues its equality-bound leading fields, or — without ORDER BY —
// when its leading field is bound by equality; WHICH PART of the index is scanned (the seek/end keys) depends on
// how the filter bounds each index field: not at all / from above only / from below only / from both sides / by
// equality.  With independent draws the combinations "composite index scanned × bound class of the leading field ×
// bound class of the next field" are almost never reached (countShape measures it: `shape.*`).
// genIdxRelQuery builds them on purpose, for every index of the collection (and for "virtual" indexes of a
// collection that has none, so that the twin sees the same queries):
//   * per index field one of: unbounded, upper bound only (LT/LE), lower bound only (GT/GE), both, equality —
//     constants taken from a stored document (the witness) or from the stored values of the field, sometimes NULL;
//   * optionally further comparisons of any kind the query language has (NE, LIKE, NOT_LIKE, other fields, _id);
//   * one to three OR groups, each built the same way;
//   * ORDER BY relative to the index: a prefix of its fields asc / desc (the engine scans the index), the fields
//     after the equality-bound ones, mixed directions or an uncovered field (sort step over another scan), none;
//   * LIMIT, and the pages of checkQuery.
// opBulk inserts documents whose field values come from small domains, so that many documents share the leading
// index fields and every window of an index scan holds several documents.
// The oracle is unchanged (checkQuery / replaceIn / deleteIn): the reference evaluator over the stored documents,
// on the indexed collection and on its index-free twin.

import (
	"fmt"
	"math"
	"os"
	"strings"

	"github.com/codenotary/immudb/pkg/api/protomodel"
	"google.golang.org/protobuf/types/known/structpb"

	"verif/harness/internal/hx"
)

// ---------------------------------------------------------------- shape of a query w.r.t. the indexes

// how a filter bounds one field, as the SQL layer derives it (selectorRanges): per AND group the bounds are
// refined; an OR keeps only the fields bounded on both sides (hull)
type c19Bnd struct{ lo, hi, eq bool }

func (b c19Bnd) class() string {
	switch {
	case b.eq:
		return "eq"
	case b.lo && b.hi:
		return "both"
	case b.lo:
		return "lower-only"
	case b.hi:
		return "upper-only"
	}
	return "none"
}

func c19GroupBounds(e *protomodel.QueryExpression) map[string]c19Bnd {
	m := map[string]c19Bnd{}
	for _, fc := range e.FieldComparisons {
		b := m[fc.Field]
		switch fc.Operator {
		case protomodel.ComparisonOperator_EQ:
			b.lo, b.hi, b.eq = true, true, true
		case protomodel.ComparisonOperator_LT, protomodel.ComparisonOperator_LE:
			b.hi = true
		case protomodel.ComparisonOperator_GT, protomodel.ComparisonOperator_GE:
			b.lo = true
		default:
			continue
		}
		m[fc.Field] = b
	}
	return m
}

func c19QueryBounds(q *protomodel.Query) map[string]c19Bnd {
	var acc map[string]c19Bnd
	for i, e := range q.Expressions {
		g := c19GroupBounds(e)
		if i == 0 {
			acc = g
			continue
		}
		nx := map[string]c19Bnd{}
		for f, a := range acc {
			if b, ok := g[f]; ok {
				nx[f] = c19Bnd{lo: a.lo && b.lo, hi: a.hi && b.hi} // hull; a point only if both are the same point: not tracked
			}
		}
		acc = nx
	}
	if acc == nil {
		acc = map[string]c19Bnd{}
	}
	return acc
}

func c19OrdSameDir(o []*protomodel.OrderByClause) bool {
	for _, x := range o[1:] {
		if x.Desc != o[0].Desc {
			return false
		}
	}
	return true
}

func c19OrdIsPrefix(o []*protomodel.OrderByClause, fields []string) bool {
	if len(o) > len(fields) {
		return false
	}
	for i, x := range o {
		if x.Field != fields[i] {
			return false
		}
	}
	return true
}

// the index genScanSpecs scans for the query (mirror of selectSortingIndex / coversOrdCols / selectINLJIndex,
// used for COUNTING only — no oracle depends on it); nil = primary index
func c19ScannedIndex(c *c19Coll, q *protomodel.Query, bnd map[string]c19Bnd) *c19Index {
	if len(q.OrderBy) > 0 {
		if !c19OrdSameDir(q.OrderBy) {
			return c19EqLookupIndex(c, bnd)
		}
		if c19OrdIsPrefix(q.OrderBy, []string{"_id"}) {
			return nil
		}
		for i := range c.Indexes {
			ix := &c.Indexes[i]
			if c19OrdIsPrefix(q.OrderBy, ix.Fields) {
				return ix
			}
			for j, f := range ix.Fields { // sortableUsing: equality-bound fields, then the ORDER BY list
				if f == q.OrderBy[0].Field {
					if c19OrdIsPrefix(q.OrderBy, ix.Fields[j:]) {
						return ix
					}
					break
				}
				if !bnd[f].eq {
					break
				}
			}
		}
	}
	return c19EqLookupIndex(c, bnd)
}

func c19EqLookupIndex(c *c19Coll, bnd map[string]c19Bnd) *c19Index {
	var best *c19Index
	bestN := 0
	for i := range c.Indexes {
		n := 0
		for _, f := range c.Indexes[i].Fields {
			if !bnd[f].eq {
				break
			}
			n++
		}
		if n > bestN {
			best, bestN = &c.Indexes[i], n
		}
	}
	return best
}

// counters over every query that reaches the oracle on the indexed collection
func (cs *c19Case) countShape(c *c19Coll, q *protomodel.Query, ex *c19Expect) {
	r := cs.r
	ops := map[protomodel.ComparisonOperator]bool{}
	ncmp := 0
	for _, e := range q.Expressions {
		for _, fc := range e.FieldComparisons {
			ops[fc.Operator] = true
			ncmp++
		}
	}
	for op := range ops {
		r.Count("shape.operator." + op.String())
	}
	switch {
	case len(q.Expressions) == 0:
		r.Count("shape.or-groups.0")
	case len(q.Expressions) == 1:
		r.Count("shape.or-groups.1")
	default:
		r.Count("shape.or-groups.2+")
	}
	if ncmp >= 2 {
		r.Count("shape.comparisons.2+")
	}
	bnd := c19QueryBounds(q)
	ix := c19ScannedIndex(c, q, bnd)
	if ix == nil {
		r.Count("shape.scan.primary")
		return
	}
	kind := "single"
	if len(ix.Fields) > 1 {
		kind = "composite"
	}
	dir := "no-order"
	if len(q.OrderBy) > 0 {
		dir = "asc"
		if q.OrderBy[0].Desc {
			dir = "desc"
		}
	}
	r.Count("shape.scan." + kind)
	r.Count("shape.scan." + kind + "." + dir)
	many := ""
	if len(ex.impl) >= 2 {
		many = ".2+matches"
	}
	lead := bnd[ix.Fields[0]].class()
	if kind == "single" {
		r.Count("shape.single.lead-" + lead + many)
		return
	}
	next := bnd[ix.Fields[1]].class()
	r.Count("shape.composite.lead-" + lead + ".next-" + next + many)
	if q.Limit > 0 {
		r.Count("shape.composite.limited")
	}
	if len(q.Expressions) > 1 {
		r.Count("shape.composite.or-groups.2+")
	}
}

// ---------------------------------------------------------------- index-relative generator

// the typed constant for a comparison with `field`: the witness document's value, a stored value, or a fresh one
func (cs *c19Case) relValue(c *c19Coll, f c19Field, witness *c19Doc) *structpb.Value {
	rng := cs.rng
	var v *structpb.Value
	switch p := rng.Intn(100); {
	case p < 50 && witness != nil && witness.Cur().Doc != nil:
		v = c19Lookup(witness.Cur().Doc, f.Name)
	case p < 85:
		v = cs.existingValue(c, f.Name)
	case p < 90:
		return structpb.NewNullValue()
	}
	if v != nil {
		if _, e := c19Conv(v, f.Type, qAll); e != "" {
			v = nil
		}
	}
	if v == nil {
		if f.Type == c19TypeID {
			return structpb.NewStringValue("00ff")
		}
		v = cs.genTyped(f.Type)
		if _, e := c19Conv(v, f.Type, qAll); e != "" { // e.g. a malformed UUID
			return structpb.NewNullValue()
		}
	}
	return v
}

var c19BoundClasses = []string{"none", "upper-only", "lower-only", "both", "eq"}

// comparisons that bound `f` in the given class
func (cs *c19Case) relBound(c *c19Coll, f c19Field, class string, witness *c19Doc) []*protomodel.FieldComparison {
	rng := cs.rng
	up := protomodel.ComparisonOperator_LE
	if rng.Chance(40) {
		up = protomodel.ComparisonOperator_LT
	}
	low := protomodel.ComparisonOperator_GE
	if rng.Chance(40) {
		low = protomodel.ComparisonOperator_GT
	}
	mk := func(op protomodel.ComparisonOperator) *protomodel.FieldComparison {
		return &protomodel.FieldComparison{Field: f.Name, Operator: op, Value: cs.relValue(c, f, witness)}
	}
	switch class {
	case "upper-only":
		return []*protomodel.FieldComparison{mk(up)}
	case "lower-only":
		return []*protomodel.FieldComparison{mk(low)}
	case "both":
		a, b := mk(low), mk(up)
		if rng.Bool() {
			return []*protomodel.FieldComparison{b, a}
		}
		return []*protomodel.FieldComparison{a, b}
	case "eq":
		return []*protomodel.FieldComparison{mk(protomodel.ComparisonOperator_EQ)}
	}
	return nil
}

func (cs *c19Case) liveDoc(c *c19Coll) *c19Doc {
	var live []*c19Doc
	for _, d := range c.Docs {
		if d.Live() {
			live = append(live, d)
		}
	}
	if len(live) == 0 {
		return nil
	}
	return live[cs.rng.Intn(len(live))]
}

// the index the query is written for: one of the collection's (composite ones preferred), else a virtual one
func (cs *c19Case) relIndex(c *c19Coll) []c19Field {
	rng := cs.rng
	var pick *c19Index
	if len(c.Indexes) > 0 {
		pick = &c.Indexes[rng.Intn(len(c.Indexes))]
		if len(pick.Fields) == 1 && rng.Chance(66) {
			for i := range c.Indexes {
				if len(c.Indexes[i].Fields) > 1 {
					pick = &c.Indexes[i]
					break
				}
			}
		}
	}
	var out []c19Field
	if pick != nil {
		for _, n := range pick.Fields {
			if t, ok := c.Schema.typeOf(n); ok {
				out = append(out, c19Field{Name: n, Type: t})
			}
		}
		if len(out) == len(pick.Fields) {
			return out
		}
	}
	fs := c.Schema.Fields
	out = []c19Field{fs[rng.Intn(len(fs))]}
	if g := fs[rng.Intn(len(fs))]; g.Name != out[0].Name {
		out = append(out, g)
	}
	return out
}

func (cs *c19Case) genIdxRelQuery(c *c19Coll) *protomodel.Query {
	rng := cs.rng
	r := cs.r
	ixf := cs.relIndex(c)
	q := &protomodel.Query{CollectionName: c.Name}
	ng := 1
	if rng.Chance(25) {
		ng = 2 + rng.Intn(2)
	}
	var firstClasses []string
	for g := 0; g < ng; g++ {
		e := &protomodel.QueryExpression{}
		witness := cs.liveDoc(c)
		var classes []string
		for j, f := range ixf {
			class := c19BoundClasses[rng.Intn(len(c19BoundClasses))]
			if j >= 2 && rng.Bool() {
				class = "none"
			}
			classes = append(classes, class)
			e.FieldComparisons = append(e.FieldComparisons, cs.relBound(c, f, class, witness)...)
		}
		if g == 0 {
			firstClasses = classes
		}
		// other comparisons: anything the query language has
		for n := rng.Intn(3); n > 0 && rng.Chance(60); n-- {
			e.FieldComparisons = append(e.FieldComparisons, cs.genComparison(c))
		}
		if len(e.FieldComparisons) == 0 {
			if g > 0 {
				continue
			}
			if rng.Chance(70) { // all index fields unbounded: filter on something else, or no filter at all
				e.FieldComparisons = append(e.FieldComparisons, cs.genComparison(c))
			} else {
				continue
			}
		}
		if rng.Chance(30) { // the order of the conjuncts is not the order of the index fields
			fc := e.FieldComparisons
			i, j := rng.Intn(len(fc)), rng.Intn(len(fc))
			fc[i], fc[j] = fc[j], fc[i]
		}
		q.Expressions = append(q.Expressions, e)
	}
	r.Count("ixrel.query")
	if len(firstClasses) > 1 {
		r.Count("ixrel.lead-" + firstClasses[0] + ".next-" + firstClasses[1])
	} else {
		r.Count("ixrel.lead-" + firstClasses[0])
	}
	// ORDER BY relative to the index
	desc := rng.Bool()
	ord := func(names ...string) {
		for _, n := range names {
			q.OrderBy = append(q.OrderBy, &protomodel.OrderByClause{Field: n, Desc: desc})
		}
	}
	names := make([]string, len(ixf))
	for i, f := range ixf {
		names[i] = f.Name
	}
	other := c.Schema.Fields[rng.Intn(len(c.Schema.Fields))].Name
	switch p := rng.Intn(100); {
	case p < 50: // prefix of the index: the index delivers the order
		ord(names[:1+rng.Intn(len(names))]...)
		r.Count("ixrel.order.index-prefix")
	case p < 62: // the fields after the equality-bound ones
		k := 0
		for k < len(firstClasses)-1 && firstClasses[k] == "eq" {
			k++
		}
		ord(names[k:]...)
		r.Count("ixrel.order.after-bound-fields")
	case p < 70 && len(names) > 1: // mixed directions: no index delivers it
		ord(names...)
		q.OrderBy[len(q.OrderBy)-1].Desc = !desc
		r.Count("ixrel.order.mixed-directions")
	case p < 80:
		ord(names[0], other)
		r.Count("ixrel.order.lead+other")
	case p < 88:
		ord(other)
		r.Count("ixrel.order.other")
	default:
		r.Count("ixrel.order.none")
	}
	if rng.Chance(30) {
		q.Limit = uint32(1 + rng.Intn(6))
	}
	return q
}

func (cs *c19Case) opIxSearch() {
	cs.checkQuery(cs.genIdxRelQuery(cs.C))
}

// ---------------------------------------------------------------- dense data

var c19HotStrings = []string{"", "a", "ab", "abc", "b"}

// a document whose schema fields take values from small domains (many duplicates in every index field); fields of
// UNIQUE indexes get values derived from the running key so that the batch is not refused
func (cs *c19Case) genDenseDoc() *structpb.Struct {
	rng := cs.rng
	uniq := map[string]bool{}
	for _, ix := range cs.C.Indexes {
		if ix.Unique {
			uniq[ix.Fields[len(ix.Fields)-1]] = true
		}
	}
	cs.kNext++
	doc := &structpb.Struct{Fields: map[string]*structpb.Value{"k": structpb.NewNumberValue(float64(cs.kNext))}}
	for _, f := range cs.C.Schema.Fields {
		if f.Name == "k" {
			continue
		}
		if p := rng.Intn(100); p < 5 && !uniq[f.Name] {
			continue // missing
		} else if p < 10 && !uniq[f.Name] {
			c19SetPath(doc, f.Name, structpb.NewNullValue())
			continue
		}
		var v *structpb.Value
		switch f.Type {
		case protomodel.FieldType_INTEGER:
			v = structpb.NewNumberValue(float64(rng.Intn(6)))
			if uniq[f.Name] {
				v = structpb.NewNumberValue(float64(1000 + cs.kNext))
			}
		case protomodel.FieldType_DOUBLE:
			v = structpb.NewNumberValue(float64(rng.Intn(9)) / 2)
			if uniq[f.Name] {
				v = structpb.NewNumberValue(float64(1000+cs.kNext) + 0.25)
			}
		case protomodel.FieldType_STRING:
			v = structpb.NewStringValue(c19HotStrings[rng.Intn(len(c19HotStrings))])
			if uniq[f.Name] {
				v = structpb.NewStringValue(fmt.Sprintf("u%04d", cs.kNext))
			}
		case protomodel.FieldType_BOOLEAN:
			v = structpb.NewBoolValue(rng.Bool())
		case protomodel.FieldType_UUID:
			v = structpb.NewStringValue(c19UUIDs[rng.Intn(4)])
			if uniq[f.Name] {
				v = structpb.NewStringValue(fmt.Sprintf("00000000-0000-4000-8000-%012d", cs.kNext))
			}
		}
		c19SetPath(doc, f.Name, v)
	}
	return doc
}

func (cs *c19Case) opBulk() {
	n := 3 + cs.rng.Intn(4)
	var docs []*structpb.Struct
	for i := 0; i < n; i++ {
		docs = append(docs, cs.genDenseDoc())
	}
	cs.r.Count("bulk.batches")
	cs.insertDocs(docs)
}

// distribution of the data the queries run on: live documents and duplicates in the leading field of every index
func (cs *c19Case) countData(c *c19Coll) {
	live := 0
	for _, d := range c.Docs {
		if d.Live() {
			live++
		}
	}
	b := "0-3"
	switch {
	case live >= 16:
		b = "16+"
	case live >= 8:
		b = "8-15"
	case live >= 4:
		b = "4-7"
	}
	cs.r.Count("data.live-documents." + b)
	for _, ix := range c.Indexes {
		seen := map[string]int{}
		max := 0
		for _, d := range c.Docs {
			if !d.Live() {
				continue
			}
			k := c.rowOf(d, qAll)[ix.Fields[0]].String()
			seen[k]++
			if seen[k] > max {
				max = seen[k]
			}
		}
		kind := "single"
		if len(ix.Fields) > 1 {
			kind = "composite"
		}
		db := "1"
		switch {
		case max >= 4:
			db = "4+"
		case max >= 2:
			db = "2-3"
		}
		cs.r.Count("data.index." + kind + ".max-duplicates-in-leading-field." + db)
	}
}

func c19IndexesTok(ixs []c19Index) string {
	if len(ixs) == 0 {
		return "*"
	}
	var ss []string
	for _, ix := range ixs {
		ss = append(ss, strings.Join(ix.Fields, "+"))
	}
	return strings.Join(ss, ",")
}

// ---------------------------------------------------------------- attribution: constant longer than an indexed field

// A query that should succeed fails with "max length exceeded": known cause (finding 11) when the filter compares an
// indexed STRING field with a constant longer than the field's 512 bytes — the constant is encoded as a KEY of the
// index to build the scan range (keyReaderSpecFrom → EncodeValueAsKey), which refuses it; without the index the same
// comparison is simply evaluated.  Anything else stays under the plain signature.
func (cs *c19Case) longConstCause(c *c19Coll, q *protomodel.Query, got string) string {
	if got != "err:max-length" {
		return ""
	}
	idxd := map[string]bool{}
	for _, ix := range c.Indexes {
		for _, f := range ix.Fields {
			idxd[f] = true
		}
	}
	for _, e := range q.Expressions {
		for _, fc := range e.FieldComparisons {
			t, ok := c.Schema.typeOf(fc.Field)
			if !ok || t != protomodel.FieldType_STRING || !idxd[fc.Field] {
				continue
			}
			switch fc.Operator {
			case protomodel.ComparisonOperator_EQ, protomodel.ComparisonOperator_LT, protomodel.ComparisonOperator_LE,
				protomodel.ComparisonOperator_GT, protomodel.ComparisonOperator_GE:
				if sv, ok := fc.Value.GetKind().(*structpb.Value_StringValue); ok && len(sv.StringValue) > c19MaxStr {
					return ":constant-longer-than-indexed-field"
				}
			}
		}
	}
	return ""
}

// ---------------------------------------------------------------- deterministic sweep over the bound classes

// One collection with two composite indexes ([a b] INTEGER×INTEGER, [d a] DOUBLE×INTEGER) and a single one ([s]),
// its index-free twin, a 5×5 grid of documents plus documents with NULL / missing index fields.  For every
// composite index: every bound class of the leading field × every bound class of the next field × ORDER BY the
// leading field asc / desc (the index is scanned), plus the order continued after an equality-bound leading field
// and the equality look-up without ORDER BY.  Every query goes through checkQuery (reference evaluator, count,
// pages, twin).  Then the recipe of finding 11 (constant longer than an indexed STRING field).
func c19IxProbes(r *hx.Result) {
	dir := hx.TempDir("c19x")
	defer os.RemoveAll(dir)
	api, err := newC19Eng(dir)
	if err != nil {
		r.Notes = append(r.Notes, "c19 index probes: "+err.Error())
		return
	}
	defer api.Close()
	cs := &c19Case{r: r, rng: hx.NewRng(1919), api: api, id: r.NextCase(), pair: map[string]string{}, twin: true,
		C: &c19Coll{Name: "c", ByID: map[string]*c19Doc{}}, T: &c19Coll{Name: "t", ByID: map[string]*c19Doc{}}}
	defer func() {
		if e := recover(); e != nil {
			cs.fail("C19:harness:panic", fmt.Sprint(e))
		}
	}()
	fields := []c19Field{{Name: "k", Type: protomodel.FieldType_INTEGER}, {Name: "a", Type: protomodel.FieldType_INTEGER},
		{Name: "b", Type: protomodel.FieldType_INTEGER}, {Name: "d", Type: protomodel.FieldType_DOUBLE}, {Name: "s", Type: protomodel.FieldType_STRING}}
	cs.C.Schema.Fields = append([]c19Field{}, fields...)
	cs.T.Schema.Fields = append([]c19Field{}, fields...)
	cs.C.Indexes = []c19Index{{Fields: []string{"a", "b"}}, {Fields: []string{"d", "a"}}, {Fields: []string{"s"}}}
	var idx []*protomodel.Index
	for _, ix := range cs.C.Indexes {
		idx = append(idx, &protomodel.Index{Fields: ix.Fields})
	}
	cs.log("index probe: create c fields=%v indexes=%v; t same fields no index", fields, cs.C.Indexes)
	if err := api.CreateCollection("c", c19ProtoFields(fields), idx); err != nil {
		cs.fail("C19:schema:create-failed", err.Error())
		return
	}
	if err := api.CreateCollection("t", c19ProtoFields(fields), nil); err != nil {
		cs.fail("C19:schema:create-failed", err.Error())
		return
	}
	cs.lean = true
	cs.corr("c19 new", "ok")
	for _, c := range cs.colls() {
		cs.corr("c19 coll "+c.Name+" "+c19FieldsTok(c.Schema.Fields), "ok")
	}
	num := structpb.NewNumberValue
	var batch []*structpb.Struct
	flush := func() {
		if len(batch) > 0 {
			cs.insertDocs(batch)
			batch = nil
		}
	}
	for a := 0; a < 5; a++ {
		for b := 0; b < 5; b++ {
			cs.kNext++
			batch = append(batch, &structpb.Struct{Fields: map[string]*structpb.Value{"k": num(float64(cs.kNext)), "a": num(float64(a)), "b": num(float64(b)),
				"d": num(float64(a+b) / 2), "s": structpb.NewStringValue(c19HotStrings[(a*5+b)%len(c19HotStrings)])}})
		}
		flush()
	}
	for i, m := range []map[string]*structpb.Value{{"b": num(3)}, {"a": num(3)}, {"a": structpb.NewNullValue(), "b": num(1), "d": num(1)}, {"a": num(1), "b": structpb.NewNullValue(), "d": structpb.NewNullValue()}, {}} {
		cs.kNext++
		m["k"] = num(float64(cs.kNext))
		_ = i
		batch = append(batch, &structpb.Struct{Fields: m})
	}
	flush()
	cmp := func(f string, op protomodel.ComparisonOperator, v float64) *protomodel.FieldComparison {
		return &protomodel.FieldComparison{Field: f, Operator: op, Value: num(v)}
	}
	bound := func(f, class string, strict bool, mid float64) []*protomodel.FieldComparison {
		up, low := protomodel.ComparisonOperator_LE, protomodel.ComparisonOperator_GE
		if strict {
			up, low = protomodel.ComparisonOperator_LT, protomodel.ComparisonOperator_GT
		}
		switch class {
		case "upper-only":
			return []*protomodel.FieldComparison{cmp(f, up, mid+1)}
		case "lower-only":
			return []*protomodel.FieldComparison{cmp(f, low, mid)}
		case "both":
			return []*protomodel.FieldComparison{cmp(f, low, mid-1), cmp(f, up, mid+1)}
		case "eq":
			return []*protomodel.FieldComparison{cmp(f, protomodel.ComparisonOperator_EQ, mid)}
		}
		return nil
	}
	n := 0
	for _, ix := range cs.C.Indexes[:2] {
		lead, next := ix.Fields[0], ix.Fields[1]
		for _, lc := range c19BoundClasses {
			for _, nc := range c19BoundClasses {
				for _, desc := range []bool{false, true} {
					e := &protomodel.QueryExpression{}
					e.FieldComparisons = append(e.FieldComparisons, bound(lead, lc, desc, 2)...)
					e.FieldComparisons = append(e.FieldComparisons, bound(next, nc, !desc, 2)...)
					q := &protomodel.Query{CollectionName: "c", OrderBy: []*protomodel.OrderByClause{{Field: lead, Desc: desc}}}
					if len(e.FieldComparisons) > 0 {
						q.Expressions = []*protomodel.QueryExpression{e}
					}
					cs.checkQuery(q)
					n++
				}
			}
		}
		// the order continued after the equality-bound leading field; the equality look-up without ORDER BY
		for _, nc := range c19BoundClasses {
			e := &protomodel.QueryExpression{FieldComparisons: append(bound(lead, "eq", false, 2), bound(next, nc, false, 2)...)}
			cs.checkQuery(&protomodel.Query{CollectionName: "c", Expressions: []*protomodel.QueryExpression{e}, OrderBy: []*protomodel.OrderByClause{{Field: next}}})
			cs.checkQuery(&protomodel.Query{CollectionName: "c", Expressions: []*protomodel.QueryExpression{e}})
			n += 2
		}
	}
	cs.r.Count(fmt.Sprintf("probe.index-bound-classes.queries.%d", n))
	// finding 6, the ORDER BY face: +0.0 and −0.0 in the leading DOUBLE field of the index that delivers the order
	for _, m := range []map[string]*structpb.Value{{"d": num(math.Copysign(0, -1)), "a": num(4), "b": num(9)}, {"d": num(0), "a": num(1), "b": num(9)}, {"d": num(math.Copysign(0, -1)), "a": num(3), "b": num(9)}} {
		cs.kNext++
		m["k"] = num(float64(cs.kNext))
		batch = append(batch, &structpb.Struct{Fields: m})
	}
	flush()
	b9 := []*protomodel.QueryExpression{{FieldComparisons: []*protomodel.FieldComparison{cmp("b", protomodel.ComparisonOperator_EQ, 9)}}}
	da := []*protomodel.OrderByClause{{Field: "d"}, {Field: "a"}}
	cs.checkQuery(&protomodel.Query{CollectionName: "c", Expressions: b9, OrderBy: da})
	cs.checkQuery(&protomodel.Query{CollectionName: "c", Expressions: b9, OrderBy: da, Limit: 1})
	// finding 11: a constant longer than an indexed STRING field
	long := structpb.NewStringValue(c19LongStr(c19MaxStr+1, "a"))
	lq := func(coll string) *protomodel.Query {
		return &protomodel.Query{CollectionName: coll, OrderBy: []*protomodel.OrderByClause{{Field: "s"}},
			Expressions: []*protomodel.QueryExpression{{FieldComparisons: []*protomodel.FieldComparison{{Field: "s", Operator: protomodel.ComparisonOperator_LE, Value: long}}}}}
	}
	cs.checkQuery(lq("c"))
	cs.kNext++
	// (a mutating query keeps its ORDER BY only together with a LIMIT, see determinize)
	lqm := func() *protomodel.Query { q := lq("c"); q.Limit = 1000; return q }
	cs.replaceIn(cs.C, lqm(), &structpb.Struct{Fields: map[string]*structpb.Value{"k": num(float64(cs.kNext)), "a": num(9)}})
	cs.deleteIn(cs.C, lqm())
}

// ---------------------------------------------------------------- Lean tie: the query through the planner model

// `c19 ixsearch <coll> <indexes> <query> <order> <offset> <limit>`: the Lean driver translates the compiled query
// into the single-table SELECT the engine issues (Doc/SqlBridge.lean) and runs it through the SQL planner model
// (index choice, key window of the scanned index, sort step, OFFSET/LIMIT) over the collection's indexes in creation
// order.  Compared: the id list — ties of the ORDER BY key canonicalised on both sides; without ORDER BY the unpaged
// result as a set and a page EXACTLY (the model scans the same index, so it predicts the order).
func (cs *c19Case) ixCorr(c *c19Coll, q *protomodel.Query, ex *c19Expect, qt, ot string, offset int, ids []string) {
	op := fmt.Sprintf("c19 ixsearch %s %s %s %s %d %d", c.Name, c19IndexesTok(c.Indexes), qt, ot, offset, q.Limit)
	if len(q.OrderBy) == 0 && (q.Limit != 0 || offset != 0) {
		cs.corr(op, c19Csv(ids))
		cs.r.Count("lean.ixsearch.unordered-page-exact")
		return
	}
	if canon, ok := cs.leanCanon(c, q, ex, offset, ids); ok {
		cs.corr(op, canon)
		cs.r.Count("lean.ixsearch")
	}
}

// ---------------------------------------------------------------- attribution: ±0 in an ORDER BY over an index

// A result in the wrong order: known cause (finding 6, the ORDER BY face) when the ORDER BY list names an indexed DOUBLE
// field and the matches hold both +0.0 and −0.0 in it.  The two zeros are equal values (the next ORDER BY field has
// to decide between them) but have different index keys, so an index that delivers the order lists every −0.0
// document before every +0.0 document whatever the following ORDER BY fields say.
func (cs *c19Case) negzeroOrderCause(c *c19Coll, q *protomodel.Query, ex *c19Expect) string {
	idxd := map[string]bool{}
	for _, ix := range c.Indexes {
		for _, f := range ix.Fields {
			idxd[f] = true
		}
	}
	for _, ob := range q.OrderBy {
		if t, ok := c.Schema.typeOf(ob.Field); !ok || t != protomodel.FieldType_DOUBLE || !idxd[ob.Field] {
			continue
		}
		pos, neg := false, false
		for _, m := range ex.impl {
			if v, ok := m.Row[ob.Field]; ok && !v.Null && v.F == 0 {
				if math.Signbit(v.F) {
					neg = true
				} else {
					pos = true
				}
			}
		}
		if pos && neg {
			return ":negzero-index"
		}
	}
	return ""
}
