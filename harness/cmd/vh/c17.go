package main

// C17 — Appendable files behave as a persistent byte log.
//
// The harness is an INTERPRETER of operation lines ("s.append <hex>", "m.read <n> <off>", …):
//   generator (random, boundary biased, driven by the oracle's view of the size)
//     → line → executed on the REAL singleapp / multiapp in a temp dir → canonical answer
//     → (uncompressed formats) the same line + answer are queued for the Lean mirror model (r.Corr)
//     → the ORACLE, a plain []byte (resp. a list of entries for compressed formats), is evaluated.
// A replay file holds the lines of one case; `vh C17 -replay f` re-executes them.

import (
	"bytes"
	"encoding/hex"
	"encoding/json"
	"errors"
	"fmt"
	"io"
	"os"
	"path/filepath"
	"reflect"
	"strconv"
	"strings"
	"sync"
	"time"

	"github.com/codenotary/immudb/embedded/appendable"
	"github.com/codenotary/immudb/embedded/appendable/multiapp"
	"github.com/codenotary/immudb/embedded/appendable/singleapp"

	"verif/harness/internal/hx"
)

func init() { runners["C17"] = runC17 }

func c17Err(err error) string {
	switch {
	case err == nil:
		return "ok"
	case errors.Is(err, io.EOF):
		return "err:eof"
	case errors.Is(err, singleapp.ErrAlreadyClosed), errors.Is(err, multiapp.ErrAlreadyClosed):
		return "err:closed"
	case errors.Is(err, singleapp.ErrReadOnly), errors.Is(err, multiapp.ErrReadOnly):
		return "err:readonly"
	case errors.Is(err, singleapp.ErrNegativeOffset):
		return "err:negative"
	case errors.Is(err, singleapp.ErrBufferFull):
		return "err:bufferfull"
	case errors.Is(err, singleapp.ErrIllegalArguments), errors.Is(err, multiapp.ErrIllegalArguments):
		return "err:illegal"
	}
	var pe *os.PathError
	if errors.As(err, &pe) {
		switch pe.Op {
		case "sync":
			return "err:sync"
		case "write":
			return "err:write"
		}
	}
	return "err:other:" + strings.ReplaceAll(err.Error(), " ", "_")
}

type c17Replay struct {
	Kind string   `json:"kind"`
	Ops  []string `json:"ops"`
	Note string   `json:"note,omitempty"`
	// the case was run against the byte-array oracle only (it contains fault ops the Lean mirror does not model)
	NoModel bool `json:"no_model,omitempty"`
}

type c17Entry struct {
	off  int64
	end  int64 // physical end (Size() right after the append)
	data []byte
}

// one life of one appendable (over several close/reopen)
type c17Case struct {
	r    *hx.Result
	kind string // "s" singleapp, "m" multiapp
	name string // "singleapp" / "multiapp"
	dir  string
	path string
	ncopy int

	fileSize int
	prealloc int // singleapp: preallocSize; multiapp: 0/1
	comp     int
	meta     []byte
	// options of the current incarnation
	cap, maxOpen int
	retry, auto  bool

	app appendable.Appendable

	// ---- oracle (independent of the Lean model) ----
	data     []byte // logical content from offset 0 (bytes below `floor` are don't-care)
	entries  []c17Entry // compressed formats: the log is a list of entries addressed by their offsets
	osize    int64      // compressed formats: the size the oracle expects
	floor    int64  // DiscardUpto high-water mark: only offsets >= floor are claimed
	dirty    bool   // a rewinding SetOffset happened since the last (re)open
	rwFloor  int64  // lowest offset rewound to since the last (re)open (valid if dirty)
	preFloor int64  // multiapp with prealloc: every chunk rotated into after this offset started as a preallocated (zero-filled) file; -1 = n/a
	rwIdx    int    // compressed: lowest number of entries kept by a rewind since the last (re)open
	closed   bool
	readOnly bool
	broken   bool // oracle suspended (behaviour outside the contract was requested) until the next reopen
	resync   bool  // the next read is the post-reopen sweep: compare with the old content, then adopt
	verifyDiscard int64 // >=0: the next read is the post-DiscardUpto sweep for that offset
	lastBufferFull bool
	noPost bool
	hdr       int64 // bytes of the file header (measured on the fresh file): physical content length = stat size - hdr
	flushMark int64 // generator aid: the oracle's size at the last accepted Flush/Sync/(re)open (-1: none) — the boundary
	                // between what has reached the file and what is only in the write buffer
	tail      bool  // generator profile "buffer tail": small appends that stay in the write buffer, frequent Flush
	                // WITHOUT Sync, rewinds and reads aimed at the last buffer-full of bytes

	// ---- fault injection (c17fault.go) ----
	noModel       bool  // oracle-only case: it contains faults the Lean mirror does not model (short writes, faults inside Append)
	syncMark      int64 // lower bound of the offset at which the write buffer starts: the oracle's size at the last successful
	                    // Sync/(re)open, lowered by rewinds, raised to the last chunk boundary (multiapp)
	fsDirty       bool  // an fsync failed under retryable sync since the last (re)open while the file held bytes at or after fsFloor
	fsFloor       int64 // lowest such syncMark
	faultedAppend bool  // the Append being judged ran inside a fault window
	faultPct      int   // generator: percentage of fault bursts among the ops (0: none)
	createFailed  bool  // the creation of the next chunk file failed (injected) and corrupted the handle: see c17ProbeChunkCreateFail

	ops []string
}

func (c *c17Case) corr() bool { return c.comp == appendable.NoCompression && !c.noModel }

func (c *c17Case) replay() c17Replay {
	ops := c.ops
	note := ""
	if len(ops) > 600 {
		note = fmt.Sprintf("first %d ops omitted", len(ops)-600)
		ops = append([]string{ops[0]}, ops[len(ops)-599:]...)
	}
	return c17Replay{Kind: "c17-ops", Ops: ops, Note: note, NoModel: c.noModel}
}

func (c *c17Case) fail(site, class, desc string) {
	c.r.Fail("C17:"+c.name+"."+site+":"+class, desc, c.replay())
}

func c17b01(b bool) string {
	if b {
		return "1"
	}
	return "0"
}

func (c *c17Case) sopts(ro bool) *singleapp.Options {
	o := singleapp.DefaultOptions().WithRetryableSync(c.retry).WithAutoSync(c.auto).WithReadOnly(ro).
		WithCompressionFormat(c.comp).WithMetadata(c.meta).WithPreallocSize(c.prealloc)
	if !ro {
		o.WithWriteBuffer(make([]byte, c.cap))
	}
	return o
}

func (c *c17Case) mopts(ro bool) *multiapp.Options {
	return multiapp.DefaultOptions().WithRetryableSync(c.retry).WithAutoSync(c.auto).WithReadOnly(ro).
		WithCompressionFormat(c.comp).WithMetadata(c.meta).WithPrealloc(c.prealloc != 0).
		WithFileSize(c.fileSize).WithWriteBufferSize(c.cap).WithMaxOpenedFiles(c.maxOpen).WithFileExt("aof")
}

func (c *c17Case) open(ro bool) error {
	var err error
	if c.kind == "s" {
		var a *singleapp.AppendableFile
		a, err = singleapp.Open(c.path, c.sopts(ro))
		if err == nil {
			c.app = a
		}
	} else {
		var a *multiapp.MultiFileAppendable
		a, err = multiapp.Open(c.path, c.mopts(ro))
		if err == nil {
			c.app = a
		}
	}
	return err
}

// size as seen by the oracle
func (c *c17Case) size() int64 {
	if c.comp != 0 {
		return c.osize
	}
	return int64(len(c.data))
}

func c17atoi(s string) int { n, _ := strconv.Atoi(s); return n }

func c17unhex(s string) []byte {
	if s == "-" {
		return []byte{}
	}
	b, _ := hex.DecodeString(s)
	return b
}

// exec runs one operation line on the real code, feeds model and oracle, returns the canonical answer.
func (c *c17Case) exec(line string) (ans string, err error) {
	c.ops = append(c.ops, line)
	defer func() {
		if e := recover(); e != nil {
			tk := strings.Fields(line)
			c.fail(tk[0], "panic", fmt.Sprintf("%s panicked: %v", line, e))
			c.r.Count("case.aborted-by-panic")
			// the failure is recorded; only this case ends here (its pending model lines stay comparable up to this op)
			ans, err = "panic", fmt.Errorf("%w: %s: %v", errC17Abort, line, e)
		}
	}()
	tk := strings.Fields(line)
	op := tk[0][2:]
	toModel := c.corr()
	r := c.r
	r.Count(c.kind + "." + op)
	var post []string // follow-up operations issued by the harness itself (they go through exec: the model sees them too)
	switch op {
	case "new":
		// s.new cap retry auto prealloc meta comp | m.new fileSize cap maxOpen retry auto prealloc meta comp
		if c.kind == "s" {
			c.cap, c.retry, c.auto, c.prealloc, c.meta, c.comp = c17atoi(tk[1]), tk[2] == "1", tk[3] == "1", c17atoi(tk[4]), c17unhex(tk[5]), c17atoi(tk[6])
		} else {
			c.fileSize, c.cap, c.maxOpen, c.retry, c.auto, c.prealloc, c.meta, c.comp = c17atoi(tk[1]), c17atoi(tk[2]), c17atoi(tk[3]), tk[4] == "1", tk[5] == "1", c17atoi(tk[6]), c17unhex(tk[7]), c17atoi(tk[8])
		}
		toModel = c.corr()
		if err := c.open(false); err != nil {
			return "", err
		}
		sz, err := c.app.Size()
		if err != nil {
			return "", err
		}
		ans = fmt.Sprint(sz)
		// a preallocated file starts with `prealloc` zero bytes that count as content
		c.data = make([]byte, sz)
		c.osize = sz
		if c.kind == "m" && c.prealloc != 0 {
			c.preFloor = sz
		}
		c.hdr, c.flushMark = c.measureHeader(sz), sz
		c.noteSyncPoint(sz)
		r.OracleChecks++
		want := int64(0)
		if c.kind == "s" {
			want = int64(c.prealloc)
		} else if c.prealloc != 0 {
			want = int64(c.fileSize)
		}
		if sz != want {
			c.fail("Open", "initial-size", fmt.Sprintf("fresh appendable has size %d, expected %d", sz, want))
		}
		line = strings.Join(tk[:len(tk)-1], " ") // the model line has no compression token
	case "append":
		bs := c17unhex(tk[1])
		before := c.size()
		off, n, e := c.app.Append(bs)
		ans = fmt.Sprintf("%d %d %s", off, n, c17Err(e))
		c.oracleAppend(bs, before, off, n, e)
		c.noteAppended()
	case "syncfail", "rofail", "flushfail", "syncwfail", "flushshort", "syncshort", "appendwfail", "appendsfail", "appendcfail":
		if c17OracleOnlyOp(op) && c.corr() {
			return "", fmt.Errorf("oracle-only fault op %q in a case that is compared with the model", line)
		}
		var ferr error
		ans, post, ferr = c.execFault(op, tk)
		if ferr != nil {
			return "", ferr
		}
		c.noteAppended()
	case "read":
		off, _ := strconv.ParseInt(tk[2], 10, 64)
		var bs []byte
		if tk[1] != "nil" {
			bs = make([]byte, c17atoi(tk[1]))
		}
		n, e := c.app.ReadAt(bs, off)
		ans = fmt.Sprintf("%d %s %s", n, hx.Hex(bs[:n]), c17Err(e))
		c.oracleRead("ReadAt", bs, off, n, e)
	case "reader":
		// reader off bufsize k : appendable.Reader over ReadAt (oracle only)
		toModel = false
		off, _ := strconv.ParseInt(tk[1], 10, 64)
		rd := appendable.NewReaderFrom(c.app, off, c17atoi(tk[2]))
		bs := make([]byte, c17atoi(tk[3]))
		n, e := rd.Read(bs)
		ans = fmt.Sprintf("%d %s %s", n, hx.Hex(bs[:n]), c17Err(e))
		if c.comp == 0 {
			c.oracleRead("Reader", bs, off, n, e)
		}
	case "setoff":
		off, _ := strconv.ParseInt(tk[1], 10, 64)
		r.Count("setoff.state." + c.setoffClass(off))
		behind := c.bytesBehind(off)
		e := c.app.SetOffset(off)
		ans = c17Err(e)
		if c.oracleSetOffset(off, ans, behind) {
			// an accepted rewind: the new end of the log must be visible at once through Offset() and Size()
			post = append(post, c.kind+".offset", c.kind+".size")
		}
	case "discard":
		off, _ := strconv.ParseInt(tk[1], 10, 64)
		e := c.app.DiscardUpto(off)
		ans = c17Err(e)
		if c.oracleDiscard(off, ans) && c.comp == 0 && c.size() > c.floor {
			c.verifyDiscard = off
			post = append(post, fmt.Sprintf("%s.read %d %d", c.kind, c.size()-c.floor, c.floor))
		}
	case "flush", "sync":
		var e error
		if op == "flush" {
			e = c.app.Flush()
		} else {
			e = c.app.Sync()
		}
		ans = c17Err(e)
		c.expectErr(strings.ToUpper(op[:1])+op[1:], ans, c.stdErr(true))
		if e == nil {
			c.flushMark = c.size()
			if op == "sync" {
				c.noteSyncPoint(c.size())
			}
		}
	case "ro":
		e := c.app.SwitchToReadOnlyMode()
		ans = c17Err(e)
		c.expectErr("SwitchToReadOnlyMode", ans, c.stdErr(true))
		if e == nil {
			c.readOnly = true
		}
	case "size":
		sz, e := c.app.Size()
		if e != nil {
			ans = c17Err(e)
		} else {
			ans = fmt.Sprint(sz)
		}
		r.OracleChecks++
		if !c.broken {
			if c.closed {
				if ans != "err:closed" {
					c.fail("Size", "unexpected-result", fmt.Sprintf("Size() on a closed appendable: %s", ans))
				}
			} else if ans != fmt.Sprint(c.size()) {
				c.fail("Size", "wrong-size", fmt.Sprintf("Size() = %s, byte-log oracle has %d", ans, c.size()))
			}
		}
	case "offset":
		o := c.app.Offset()
		ans = fmt.Sprint(o)
		r.OracleChecks++
		if !c.broken && !c.closed && o != c.size() {
			c.fail("Offset", "wrong-size", fmt.Sprintf("Offset() = %d, byte-log oracle has %d", o, c.size()))
		}
	case "meta":
		m := c.app.Metadata()
		ans = hx.Hex(m)
		r.OracleChecks++
		if !bytes.Equal(m, c.meta) {
			c.fail("Metadata", "altered", fmt.Sprintf("Metadata() = %x, stored %x", m, c.meta))
		}
	case "close":
		e := c.app.Close()
		ans = c17Err(e)
		if !c.broken {
			want := "ok"
			if c.closed {
				want = "err:closed"
			}
			c.expectErr("Close", ans, want)
		}
		c.closed = true
	case "reopen":
		// s.reopen cap retry auto ro | m.reopen cap maxOpen retry auto ro   (after close)
		ro := false
		if c.kind == "s" {
			c.cap, c.retry, c.auto, ro = c17atoi(tk[1]), tk[2] == "1", tk[3] == "1", tk[4] == "1"
		} else {
			c.cap, c.maxOpen, c.retry, c.auto, ro = c17atoi(tk[1]), c17atoi(tk[2]), tk[3] == "1", tk[4] == "1", tk[5] == "1"
		}
		if err := c.open(ro); err != nil {
			cls := "open-failed"
			if c.createFailed {
				cls = "unopenable-after-failed-chunk-creation"
			}
			c.fail("reopen", cls, err.Error())
			// the failure is recorded; only this case ends here
			return "", fmt.Errorf("%w: %s: %v", errC17Abort, line, err)
		}
		sz, e := c.app.Size()
		if e != nil {
			return "", e
		}
		ans = fmt.Sprint(sz)
		c.closed, c.readOnly = false, ro
		c.oracleReopenSize("reopen", c.app, sz)
		c.flushMark = sz
		c.noteSyncPoint(sz)
		c.fsDirty = false
		if c.kind == "m" && c.prealloc != 0 {
			c.preFloor = sz
		}
		if c.comp == 0 {
			if sz > c.floor {
				c.resync = true
				post = append(post, fmt.Sprintf("%s.read %d %d", c.kind, sz-c.floor, c.floor))
			} else {
				c.data = make([]byte, sz)
				c.dirty, c.broken = false, false
			}
		}
	case "copy":
		// copy [floor]: Copy to a fresh path, open the copy with the same options, report size and content from floor
		c.ncopy++
		dst := filepath.Join(c.dir, fmt.Sprintf("copy%d", c.ncopy))
		e := c.app.Copy(dst)
		if e != nil {
			ans = c17Err(e)
			if !c.broken {
				want := "ok"
				if c.closed {
					want = "err:closed"
				}
				c.expectErr("Copy", ans, want)
			}
			break
		}
		var cp appendable.Appendable
		if c.kind == "s" {
			cp, e = singleapp.Open(dst, c.sopts(false))
		} else {
			cp, e = multiapp.Open(dst, c.mopts(false))
		}
		if e != nil {
			c.fail("Copy", "copy-unreadable", e.Error())
			return "", e
		}
		sz, _ := cp.Size()
		var content []byte
		from := int64(0)
		if c.kind == "s" {
			bs := make([]byte, sz)
			n, e := cp.ReadAt(bs, 0)
			content = bs[:n]
			ans = fmt.Sprintf("ok %d %s", sz, hx.Hex(bs[:n]))
			if e != nil {
				ans += " " + c17Err(e)
			}
		} else {
			from = int64(c17atoi(tk[1]))
			if sz-from > 0 {
				bs := make([]byte, sz-from)
				n, e := cp.ReadAt(bs, from)
				content = bs[:n]
				ans = fmt.Sprintf("ok %d %s %s", sz, hx.Hex(bs[:n]), c17Err(e))
			} else {
				ans = fmt.Sprintf("ok %d - err:illegal", sz)
			}
		}
		if c.comp == 0 {
			c.oracleCopy(cp, sz, from, content)
		}
		cp.Close()
		os.RemoveAll(dst)
	default:
		return "", fmt.Errorf("unknown op %q", line)
	}
	if toModel {
		r.Corr("c17 "+line, ans)
	}
	if c17Trace {
		t := func(x string) string {
			if len(x) > 70 {
				return x[:70] + "…"
			}
			return x
		}
		fmt.Fprintf(os.Stderr, "%4d %-40s => %s   [size=%d floor=%d dirty=%v rw=%d broken=%v]\n", len(c.ops), t(line), t(ans), c.size(), c.floor, c.dirty, c.rwFloor, c.broken)
	}
	for _, l := range post {
		if c.noPost {
			break // replay: the follow-up reads are part of the recorded op list
		}
		if _, err := c.exec(l); err != nil {
			return ans, err
		}
	}
	return ans, nil
}

// c17BufState reads (for the DISTRIBUTION counters only, never for the oracle) the write-buffer bookkeeping of the
// single-file appendable that takes the writes: fileOffset, wbufFlushedOffset, wbufUnwrittenOffset. ok=false when the
// fields cannot be found (renamed / other implementation).
func c17BufState(app appendable.Appendable) (fileOffset, flushed, unwritten int64, ok bool) {
	defer func() {
		if recover() != nil {
			ok = false
		}
	}()
	v := reflect.ValueOf(app)
	if _, isMulti := app.(*multiapp.MultiFileAppendable); isMulti {
		v = v.Elem().FieldByName("currApp").Elem()
	}
	if v.Type() != reflect.TypeOf((*singleapp.AppendableFile)(nil)) {
		return 0, 0, 0, false
	}
	v = v.Elem()
	return v.FieldByName("fileOffset").Int(), int64(v.FieldByName("wbufFlushedOffset").Int()), int64(v.FieldByName("wbufUnwrittenOffset").Int()), true
}

func c17CurrAppID(app appendable.Appendable) (id int64, ok bool) {
	defer func() {
		if recover() != nil {
			ok = false
		}
	}()
	return reflect.ValueOf(app).Elem().FieldByName("currAppID").Int(), true
}

// setoffClass: which branch of singleapp.SetOffset the call is about to take, and whether a flushed-but-unsynced
// prefix is still held in the write buffer (retryable sync) at that moment.
func (c *c17Case) setoffClass(off int64) string {
	if c.closed || c.readOnly || c.app == nil {
		return "rejected(closed|readonly)"
	}
	fo, fl, un, ok := c17BufState(c.app)
	if !ok {
		return "n/a"
	}
	local := off
	if c.kind == "m" && off >= 0 {
		id, ok := c17CurrAppID(c.app)
		if !ok {
			return "n/a"
		}
		if off/int64(c.fileSize) != id {
			return "other-chunk"
		}
		local = off % int64(c.fileSize)
	}
	cur := fo + (un - fl)
	held := "flushed=0"
	if fl > 0 {
		held = "flushed>0"
	}
	switch {
	case off < 0 || local > cur:
		return "rejected(range)"
	case local == cur:
		return held + ".noop"
	case local >= fo:
		return held + ".in-memory-rewind"
	default:
		return held + ".file-rewind"
	}
}

// closed / read-only error expected by the interface for a mutating call
func (c *c17Case) stdErr(mutating bool) string {
	if c.closed {
		return "err:closed"
	}
	if mutating && c.readOnly {
		return "err:readonly"
	}
	return "ok"
}

func (c *c17Case) expectErr(site, got, want string) {
	c.r.OracleChecks++
	if c.broken {
		return
	}
	if got != want {
		c.fail(site, "unexpected-result", fmt.Sprintf("%s returned %s, expected %s", site, got, want))
	}
}

func (c *c17Case) oracleAppend(bs []byte, before, off int64, n int, e error) {
	c.r.OracleChecks++
	got := c17Err(e)
	if c.faultedAppend {
		got = c17FaultErr(e)
	}
	if c.broken {
		return
	}
	want := c.stdErr(true)
	if want == "ok" && len(bs) == 0 {
		want = "err:illegal"
	}
	if want != "ok" {
		if got != want {
			c.fail("Append", "unexpected-result", fmt.Sprintf("Append(%d bytes) returned %s, expected %s", len(bs), got, want))
		}
		return
	}
	if (got == "err:bufferfull" && c.retry && !c.auto) || (c.faultedAppend && (got == "err:write" || got == "err:sync")) {
		// documented: with retryableSync and no autoSync the caller must Sync; a prefix may have been taken.
		// Likewise when the flush / auto-sync inside Append fails (injected): the n bytes copied so far stay appended.
		c.r.Count("append." + got[4:])
		sz, _ := c.app.Size()
		m := sz - before
		if m < 0 || m > int64(len(bs)) || (c.kind == "s" && m != int64(n)) || int64(n) > m {
			c.fail("Append", "bufferfull-accounting", fmt.Sprintf("ErrBufferFull: n=%d, size moved by %d for %d bytes", n, m, len(bs)))
			m = 0
		}
		c.lastBufferFull = got == "err:bufferfull"
		if off != before && (c.kind == "s" || n > 0) {
			c.fail("Append", "offset-not-previous-size", fmt.Sprintf("Append (%s after n=%d) returned offset %d, previous size %d", got, n, off, before))
		}
		if c.comp != 0 {
			c.broken = true // a partially written compressed entry is garbage (not generated: see genNew)
			return
		}
		c.data = append(c.data, bs[:m]...)
		return
	}
	if got != "ok" {
		c.fail("Append", "unexpected-result", fmt.Sprintf("Append(%d bytes) returned %s", len(bs), got))
		return
	}
	if c.comp != 0 {
		sz, _ := c.app.Size()
		okOff := off == before
		if c.kind == "m" && off != before && off < before && off%int64(c.fileSize) == 0 {
			// compressed entries are never split: a chunk that overflowed is left behind and the entry
			// starts the next chunk (Size() is then not monotone; offsets are entry handles)
			okOff = true
			c.r.Count("append.compressed.handle-below-previous-size(chunk-overflow)")
		}
		if len(c.entries) > 0 && off <= c.entries[len(c.entries)-1].off {
			okOff = false
		}
		if !okOff {
			c.fail("Append", "offset-not-previous-size", fmt.Sprintf("compressed Append returned offset %d, previous size %d", off, before))
		}
		c.entries = append(c.entries, c17Entry{off: off, end: sz, data: append([]byte{}, bs...)})
		c.osize = sz
		return
	}
	if off != before {
		c.fail("Append", "offset-not-previous-size", fmt.Sprintf("Append returned offset %d, previous size %d", off, before))
	}
	if n != len(bs) {
		c.fail("Append", "short-write", fmt.Sprintf("Append of %d bytes returned n=%d without error", len(bs), n))
	}
	c.data = append(c.data, bs...)
}

// classifyRead compares one read result with the byte array. Returns "" when it conforms, else the
// failing class and a description. The KNOWN class "stale-bytes-after-rewind" is assigned only when a
// rewinding SetOffset happened since the last (re)open, every returned byte below the lowest rewind target
// is exact, and the requested range reaches past that target.
func (c *c17Case) classifyRead(bs []byte, off int64, n int, got string) (string, string) {
	size := int64(len(c.data))
	var want []byte
	if off <= size {
		end := off + int64(len(bs))
		if end > size {
			end = size
		}
		want = c.data[off:end]
	}
	wantErr := "ok"
	if len(want) < len(bs) {
		wantErr = "err:eof"
	}
	if got == wantErr && bytes.Equal(bs[:n], want) {
		return "", ""
	}
	if got != "ok" && got != "err:eof" {
		return "error-in-live-range", fmt.Sprintf("read of %d bytes at %d (size %d, discard floor %d) returned %s", len(bs), off, size, c.floor, got)
	}
	desc := fmt.Sprintf("read of %d bytes at %d with size %d: got n=%d %s %x, byte array has n=%d %s %x", len(bs), off, size, n, got, c17clip(bs[:n]), len(want), wantErr, c17clip(want))
	// which "the file is longer than its logical end" conditions hold: a user rewind (dirty) and/or preallocation
	lim := int64(-1)
	if c.dirty {
		lim = c.rwFloor
	}
	if c.preFloor >= 0 && (lim < 0 || c.preFloor < lim) {
		lim = c.preFloor
	}
	if c.fsDirty && (lim < 0 || c.fsFloor < lim) {
		lim = c.fsFloor
	}
	if lim < 0 {
		return "wrong-bytes", desc
	}
	if lim > size {
		lim = size
	}
	for p := off; p < lim && p < off+int64(len(bs)); p++ {
		i := p - off
		if i >= int64(n) || bs[i] != c.data[p] {
			return "wrong-bytes-below-rewind-point", desc + fmt.Sprintf(" (lowest rewind target %d)", lim)
		}
	}
	if off+int64(len(bs)) <= lim {
		return "wrong-bytes", desc
	}
	if c.dirty && off+int64(len(bs)) > c.rwFloor {
		return "stale-bytes-after-rewind", desc + fmt.Sprintf(" (rewound to %d earlier; the file part of a read is not bounded by the logical end)", c.rwFloor)
	}
	if c.fsDirty && off+int64(len(bs)) > c.fsFloor {
		// the misplaced bytes come from the write buffer, appended where the physical file ends: a read that stays
		// inside the physical file cannot show the defect
		if pe := c.physEnd(); pe >= 0 && off+int64(len(bs)) <= pe {
			return "wrong-bytes", desc
		}
		return "misplaced-bytes-after-failed-sync", desc + fmt.Sprintf(" (an fsync failed earlier under retryable sync: fileOffset went back to the start of the write buffer, >= %d, while the file keeps the flushed bytes; the file part of a read is not bounded by fileOffset, so the read runs to the physical end and continues with the buffer from ITS start)", c.fsFloor)
	}
	return "stale-bytes-prealloc", desc + fmt.Sprintf(" (preallocated chunk files: the zero-filled tail of the current chunk is served instead of the buffered bytes / EOF; chunks after offset %d)", c.preFloor)
}

func (c *c17Case) oracleRead(site string, bs []byte, off int64, n int, e error) {
	c.r.OracleChecks++
	got := c17Err(e)
	if c.resync {
		// post-reopen sweep of [floor, size): same bytes at the same offsets, then adopt what is there
		c.resync = false
		if got != "ok" || n != len(bs) {
			if !c.broken {
				c.fail("reopen", "unreadable", fmt.Sprintf("after reopen: ReadAt(%d bytes, %d) = %d, %s", len(bs), off, n, got))
			}
			// the content cannot be adopted: keep the oracle suspended for the rest of this life
			c.r.Count("reopen.resync-incomplete")
			c.broken = true
			return
		} else if !c.broken {
			keep := int64(len(c.data))
			if off+int64(n) < keep {
				keep = off + int64(n)
			}
			if keep > off && !bytes.Equal(bs[:keep-off], c.data[off:keep]) {
				c.fail("reopen", "altered-bytes", fmt.Sprintf("content of [%d,%d) differs after reopen", off, keep))
			}
		}
		c.data = append(make([]byte, off), bs[:n]...)
		c.dirty, c.broken = false, false
		c.noteSyncPoint(int64(len(c.data)))
		return
	}
	vd := c.verifyDiscard
	c.verifyDiscard = -1
	if c.broken {
		return
	}
	if c.closed {
		if got != "err:closed" {
			c.fail(site, "unexpected-result", fmt.Sprintf("read on a closed appendable returned %s", got))
		}
		return
	}
	if bs == nil {
		if got != "err:illegal" {
			c.fail(site, "unexpected-result", fmt.Sprintf("ReadAt(nil) returned %s", got))
		}
		return
	}
	if off < 0 {
		if got != "err:negative" {
			c.fail(site, "unexpected-result", fmt.Sprintf("ReadAt(off=%d) returned %s", off, got))
		}
		return
	}
	if c.comp != 0 {
		c.oracleReadEntry(site, bs, off, n, got)
		return
	}
	if len(bs) == 0 && site == "ReadAt" {
		want := "ok"
		if c.kind == "m" {
			want = "err:illegal"
		} else if off > int64(len(c.data)) {
			want = "err:eof"
		}
		if got != want {
			c.fail(site, "unexpected-result", fmt.Sprintf("zero-length read at %d returned %s, expected %s", off, got, want))
		}
		return
	}
	if off < c.floor {
		c.r.Count("read.below-discard-floor(not-claimed)")
		return
	}
	c.r.Eval(fmt.Sprintf("%s.%d.%d.%d.%d", c.kind, c.fileSize, off, len(bs), len(c.data)), len(bs) > 0)
	cls, desc := c.classifyRead(bs, off, n, got)
	if cls == "" {
		return
	}
	c.r.Count("read.deviates." + cls)
	switch {
	case cls == "stale-bytes-after-rewind" || cls == "stale-bytes-prealloc" || cls == "misplaced-bytes-after-failed-sync":
		c.fail("ReadAt", cls, desc) // (also when observed through appendable.Reader or the post-discard sweep)
	case vd >= 0:
		c.fail("DiscardUpto", "bytes-at-or-after-offset-affected", fmt.Sprintf("after DiscardUpto(%d): %s: %s", vd, cls, desc))
	default:
		c.fail(site, cls, desc)
	}
}

func c17clip(b []byte) []byte {
	if len(b) > 48 {
		return b[:48]
	}
	return b
}

func (c *c17Case) oracleReadEntry(site string, bs []byte, off int64, n int, got string) {
	idx := -1
	for i, e := range c.entries {
		if e.off == off {
			idx = i
		}
	}
	if idx < 0 {
		c.r.Count("read.compressed.not-a-handle(not-claimed)")
		return
	}
	e := c.entries[idx]
	want := e.data
	if c.kind == "m" && len(bs) > len(want) {
		// multiapp continues a short read at off+n in the NEXT chunk: for compressed entries that is another
		// entry's handle space; only reads of at most the entry length are meaningful
		c.r.Count("read.compressed.longer-than-entry(not-claimed)")
		return
	}
	if len(want) > len(bs) {
		want = want[:len(bs)]
	}
	wantErr := "ok"
	if len(want) < len(bs) {
		wantErr = "err:eof"
	}
	c.r.Eval(fmt.Sprintf("z%d.%s.%d.%d.%d", c.comp, c.kind, c.fileSize, off, len(bs)), true)
	if got == wantErr && bytes.Equal(bs[:n], want) {
		return
	}
	desc := fmt.Sprintf("compressed(%d) read of %d bytes at entry offset %d: got n=%d %s %x, entry has %x", c.comp, len(bs), off, n, got, c17clip(bs[:n]), c17clip(want))
	if c.dirty && idx >= c.rwIdx {
		c.r.Count("read.deviates.stale-bytes-after-rewind.compressed")
		c.fail("ReadAt", "stale-bytes-after-rewind", desc+" (entry written after a rewind; its bytes straddle the flushed part of the file)")
		return
	}
	c.fail(site, "wrong-bytes", desc)
}

// measureHeader: length of the file header of a fresh appendable whose Size() is sz (singleapp: the file; multiapp: chunk 0)
func (c *c17Case) measureHeader(sz int64) int64 {
	p := c.path
	if c.kind == "m" {
		p = filepath.Join(c.path, fmt.Sprintf("%08d.aof", 0))
	}
	st, err := os.Stat(p)
	if err != nil {
		return -1
	}
	return st.Size() - sz
}

// bytesBehind reports whether the FILE SYSTEM holds bytes at or after the rewind target `off` (file of the single
// appendable / chunk file of `off` longer than the target, or a later chunk file exists). Only then can rolled-back
// bytes be served by a later read or reappear after a reopen (known classes stale-bytes-after-rewind /
// stale-tail-after-SetOffset); a rewind inside the write buffer leaves nothing behind, so every deviation after it is
// a NEW failure. Plain os.Stat/os.ReadDir, independent of the code under test and of the Lean model; any doubt => true.
func (c *c17Case) bytesBehind(off int64) bool {
	if c.hdr < 0 || off < 0 || c.app == nil {
		return true
	}
	if c.kind == "s" {
		st, err := os.Stat(c.path)
		return err != nil || off < st.Size()-c.hdr
	}
	id := off / int64(c.fileSize)
	ents, err := os.ReadDir(c.path)
	if err != nil {
		return true
	}
	for _, en := range ents {
		n, err := strconv.ParseInt(strings.TrimSuffix(en.Name(), filepath.Ext(en.Name())), 10, 64)
		if err != nil || n > id {
			return true
		}
	}
	st, err := os.Stat(filepath.Join(c.path, fmt.Sprintf("%08d.aof", id)))
	return err != nil || off%int64(c.fileSize) < st.Size()-c.hdr
}

// returns true when the call was an accepted, actually rewinding SetOffset
func (c *c17Case) oracleSetOffset(off int64, got string, behind bool) bool {
	c.r.OracleChecks++
	if c.broken {
		return false
	}
	want := c.stdErr(true)
	size := c.size()
	if want == "ok" {
		switch {
		case off < 0 && c.kind == "s":
			want = "err:negative"
		case off > size:
			want = "err:illegal"
		}
	}
	if want == "ok" && off < c.floor && c.kind == "m" && off != size {
		// rewinding into the discarded prefix is outside the contract
		c.r.Count("setoff.into-discarded(not-claimed)")
		c.broken = true
		return false
	}
	if got != want {
		c.fail("SetOffset", "unexpected-result", fmt.Sprintf("SetOffset(%d) with size %d returned %s, expected %s", off, size, got, want))
		return false
	}
	if want != "ok" || off == size {
		return false
	}
	if c.comp != 0 {
		k := 0
		for k < len(c.entries) && c.entries[k].off < off {
			k++
		}
		c.entries = c.entries[:k]
		c.osize = off
		if behind && (!c.dirty || k < c.rwIdx) {
			c.rwIdx = k
		}
	} else {
		c.data = c.data[:off]
	}
	if off < c.syncMark {
		c.syncMark = off
	}
	if !behind {
		// nothing at or after the target has reached the file system: the rewind happened inside the write buffer
		c.r.Count("setoff.rewind.buffer-only(no-bytes-behind)")
		return true
	}
	c.r.Count("setoff.rewind.bytes-behind")
	if !c.dirty || off < c.rwFloor {
		c.rwFloor = off
	}
	c.dirty = true
	return true
}

// returns true when the discard was accepted (the caller then sweeps [floor, size))
func (c *c17Case) oracleDiscard(off int64, got string) bool {
	c.r.OracleChecks++
	if c.broken {
		// the oracle is suspended, but an accepted discard still removes chunk files
		if got == "ok" && off > c.floor {
			c.floor = off
		}
		return false
	}
	want := "ok"
	if c.closed {
		want = "err:closed"
	} else if off > c.size() {
		want = "err:illegal"
	}
	if got != want {
		c.fail("DiscardUpto", "unexpected-result", fmt.Sprintf("DiscardUpto(%d) with size %d returned %s, expected %s", off, c.size(), got, want))
		return false
	}
	if want != "ok" {
		return false
	}
	if off > c.floor {
		c.floor = off
	}
	return true
}

// after (re)open or on a copy: same metadata, same size unless preallocated (content: see the sweep in oracleRead)
func (c *c17Case) oracleReopenSize(site string, app appendable.Appendable, sz int64) {
	r := c.r
	r.OracleChecks++
	if !bytes.Equal(app.Metadata(), c.meta) {
		c.fail(site, "metadata-altered", fmt.Sprintf("metadata %x after %s, stored %x", app.Metadata(), site, c.meta))
	}
	osz := c.size()
	if !c.broken {
		if sz < osz && c.comp != 0 && c.kind == "m" && c.dirty {
			// compressed entries may overflow a chunk, so offsets of different chunks overlap numerically: when the
			// stale later chunk file becomes the current one again the size can also be SMALLER than before
			c.fail("reopen", "stale-tail-after-SetOffset", fmt.Sprintf("compressed(%d): size %d after %s, %d before (a later chunk file left behind by SetOffset is the current chunk again)", c.comp, sz, site, osz))
		} else if sz < osz {
			c.fail(site, "lost-bytes", fmt.Sprintf("size %d after %s, %d before", sz, site, osz))
		} else if sz > osz {
			switch {
			case c.prealloc != 0:
				r.Count(site + ".size-grew-prealloc(allowed)")
			case c.dirty:
				c.fail("reopen", "stale-tail-after-SetOffset", fmt.Sprintf("size %d after %s, %d before (SetOffset never truncates the file / removes later chunk files: %d rolled-back bytes reappear)", sz, site, osz, sz-osz))
			default:
				c.fail(site, "size-grew", fmt.Sprintf("size %d after %s, %d before, no rewind happened", sz, site, osz))
			}
		}
	}
	if site == "reopen" && c.comp != 0 {
		c.osize = sz
		c.dirty, c.broken = false, false
	}
}

// the copy must hold the same bytes at the same offsets
func (c *c17Case) oracleCopy(cp appendable.Appendable, sz int64, from int64, content []byte) {
	if c.broken {
		return
	}
	c.oracleReopenSize("Copy", cp, sz)
	keep := int64(len(c.data))
	if sz < keep {
		keep = sz
	}
	lo := c.floor
	if lo < from {
		lo = from
	}
	if keep > lo && (int64(len(content)) < keep-from || !bytes.Equal(content[lo-from:keep-from], c.data[lo:keep])) {
		c.fail("Copy", "altered-bytes", fmt.Sprintf("content of [%d,%d) differs in the copy", lo, keep))
	}
}

// ---------------------------------------------------------------------------------------------
// generators

func c17Pick(rng *hx.Rng, xs ...int64) int64 { return xs[rng.Intn(len(xs))] }

func (c *c17Case) genOffset(rng *hx.Rng, past int64) int64 {
	size := c.size()
	fs := int64(c.fileSize)
	if c.kind == "s" || fs > 1<<20 {
		fs = int64(c.cap)
	}
	var o int64
	switch rng.Intn(11) {
	case 10:
		// around the flushed/buffered boundary and inside the still-buffered tail
		if c.flushMark >= 0 && c.flushMark <= size {
			if rng.Bool() {
				o = c.flushMark + int64(rng.Intn(3)) - 1
			} else {
				o = c.flushMark + int64(rng.Intn(int(size-c.flushMark)+1))
			}
		} else {
			o = size - int64(rng.Intn(c17Min(int(size), c.cap)+1))
		}
	case 0:
		o = 0
	case 1:
		o = size
	case 2:
		o = size - 1 - int64(rng.Intn(3))
	case 3:
		o = size + 1 + int64(rng.Intn(int(past)+1))
	case 4, 5:
		// chunk / buffer boundaries
		k := int64(0)
		if size/fs > 0 {
			k = int64(rng.Intn(int(size/fs) + 2))
		}
		o = k*fs + int64(rng.Intn(3)) - 1
	case 6:
		if c.dirty {
			o = c.rwFloor + int64(rng.Intn(5)) - 2
		} else {
			o = c.floor + int64(rng.Intn(3))
		}
	default:
		o = int64(rng.Intn(int(size) + 1))
	}
	if o < 0 {
		o = 0
	}
	return o
}

func (c *c17Case) genAppendSize(rng *hx.Rng) int {
	unit := c.fileSize
	if c.kind == "s" || unit > 1<<20 {
		unit = c.cap
	}
	if unit > 4096 {
		unit = 4096
	}
	max := 3 * unit
	if unit >= 4096 {
		if rng.Chance(85) {
			max = 300
		} else {
			max = 9000
		}
	}
	switch rng.Intn(8) {
	case 0:
		return 1
	case 1:
		return unit
	case 2:
		return unit + rng.Intn(3) - 1
	case 3:
		return 2*unit + rng.Intn(3) - 1
	default:
		return rng.Intn(max + 1)
	}
}

// next random op line for the uncompressed stream
func (c *c17Case) genOp(rng *hx.Rng, thorough bool) []string {
	k := c.kind
	size := c.size()
	if c.closed {
		// mostly reopen; sometimes poke the closed handle
		if rng.Chance(25) {
			switch rng.Intn(5) {
			case 0:
				return []string{k + ".size"}
			case 1:
				return []string{fmt.Sprintf("%s.read 3 0", k)}
			case 2:
				return []string{k + ".append 00"}
			case 3:
				return []string{k + ".close"}
			default:
				return []string{k + ".flush"}
			}
		}
		ro := rng.Chance(12)
		c2 := c.cap
		if rng.Chance(50) {
			c2 = c17GenCap(rng)
		}
		retry, auto := c.retry, c.auto
		if rng.Chance(30) {
			retry, auto = rng.Bool(), rng.Bool()
		}
		if k == "s" {
			return []string{fmt.Sprintf("s.reopen %d %s %s %s", c2, c17b01(retry), c17b01(auto), c17b01(ro))}
		}
		mo := c.maxOpen
		if rng.Chance(40) {
			mo = 1 + rng.Intn(3)
		}
		return []string{fmt.Sprintf("m.reopen %d %d %s %s %s", c2, mo, c17b01(retry), c17b01(auto), c17b01(ro))}
	}
	p := rng.Intn(100)
	if c.lastBufferFull && rng.Chance(70) {
		c.lastBufferFull = false
		return []string{k + ".sync"}
	}
	if c.readOnly {
		// a read-only handle: reads, rejected writes, close
		switch {
		case p < 60:
			p = 45 // read
		case p < 70:
			p = 0 // append (rejected)
		case p < 75:
			p = 62 // setoff (rejected)
		case p < 80:
			p = 70
		default:
			p = 90 // close
		}
	}
	if c.faultPct > 0 && !c.readOnly && rng.Chance(c.faultPct) {
		return c.genFault(rng)
	}
	if c.tail && !c.readOnly && rng.Chance(80) {
		return c.genOpTail(rng)
	}
	switch {
	case p < 36: // append
		n := c.genAppendSize(rng)
		if rng.Chance(3) {
			n = 0
		}
		return []string{fmt.Sprintf("%s.append %s", k, hx.Hex(rng.Bytes(n)))}
	case p < 60: // read
		off := c.genOffset(rng, int64(c.fileSize)*2+3)
		var n int64
		switch rng.Intn(8) {
		case 0:
			n = 1
		case 1:
			n = size - off
		case 2:
			n = size - off + 1 + int64(rng.Intn(4))
		case 3:
			n = int64(c.fileSize) + int64(rng.Intn(3)) - 1
		case 4:
			n = size + int64(rng.Intn(2*c17Min(c.fileSize, 64)+4))
		default:
			n = int64(rng.Intn(int(size-off+8)&0xffff + 1))
		}
		if n < 0 {
			n = 0
		}
		if n > 20000 {
			n = 20000
		}
		if n == 0 && !rng.Chance(15) {
			n = 1
		}
		if k == "s" && rng.Chance(2) {
			return []string{fmt.Sprintf("s.read nil %d", off)}
		}
		if k == "s" && rng.Chance(2) {
			return []string{fmt.Sprintf("s.read %d -%d", n, 1+rng.Intn(5))}
		}
		if rng.Chance(12) {
			bsz := 1 + rng.Intn(c17Min(c.fileSize, 64)+8)
			return []string{fmt.Sprintf("%s.reader %d %d %d", k, off, bsz, n)}
		}
		return []string{fmt.Sprintf("%s.read %d %d", k, n, off)}
	case p < 70: // setoff
		var off int64
		switch rng.Intn(6) {
		case 0:
			off = size
		case 1:
			off = size + 1 + int64(rng.Intn(3))
		case 2:
			off = size - int64(rng.Intn(4))
		default:
			off = c.genOffset(rng, 0)
		}
		if off < 0 {
			off = 0
		}
		if k == "s" && rng.Chance(3) {
			off = -1 - int64(rng.Intn(3))
		}
		if k == "m" && off < c.floor && !rng.Chance(6) {
			off = c.floor
		}
		return []string{fmt.Sprintf("%s.setoff %d", k, off)}
	case p < 75:
		return []string{k + ".flush"}
	case p < 79:
		return []string{k + ".sync"}
	case p < 83: // discard
		off := c.genOffset(rng, 2)
		return []string{fmt.Sprintf("%s.discard %d", k, off)}
	case p < 86:
		return []string{k + ".size"}
	case p < 87:
		return []string{k + ".offset"}
	case p < 88:
		return []string{k + ".meta"}
	case p < 90:
		if k == "s" {
			return []string{"s.copy"}
		}
		// copy content is compared from the first chunk that still exists
		fl := (c.floor / int64(c.fileSize)) * int64(c.fileSize)
		return []string{fmt.Sprintf("m.copy %d", fl)}
	case p < 92:
		return []string{k + ".ro"}
	default:
		return []string{k + ".close"}
	}
}

// genOpTail: the "buffer tail" profile. Appends small enough to stay in the write buffer, Flush (which with
// retryableSync keeps the flushed bytes in the buffer until a Sync succeeds) far more often than Sync, rewinds and
// reads aimed at the last buffer-full of bytes and at the flushed/buffered boundary — so that SetOffset, ReadAt and
// the next Append are exercised in every combination of (flushed prefix held | not) x (unflushed tail | none) x
// (target in the tail | on the boundary | in the file part).
func (c *c17Case) genOpTail(rng *hx.Rng) []string {
	k := c.kind
	size := c.size()
	win := int64(c17Min(c.cap, 64)) // the stretch of the log that can still be in the buffer
	near := func() int64 { // an offset in the last `win` bytes, biased to the very end and to the flush mark
		var o int64
		switch rng.Intn(6) {
		case 0:
			o = size - 1
		case 1:
			o = c.flushMark + int64(rng.Intn(3)) - 1
		case 2:
			if c.flushMark >= 0 && c.flushMark < size {
				o = c.flushMark + int64(rng.Intn(int(size-c.flushMark)))
			} else {
				o = size - int64(rng.Intn(3))
			}
		default:
			o = size - int64(rng.Intn(int(win)+1))
		}
		if o < 0 {
			o = 0
		}
		if o > size {
			o = size
		}
		return o
	}
	p := rng.Intn(100)
	switch {
	case p < 32:
		n := 1 + rng.Intn(c17Min(c.cap, 64)/3+1)
		if rng.Chance(15) {
			n = c.genAppendSize(rng) + 1
		}
		return []string{fmt.Sprintf("%s.append %s", k, hx.Hex(rng.Bytes(n)))}
	case p < 52:
		off := near()
		n := size - off + int64(rng.Intn(3))
		if rng.Chance(40) {
			n = 1 + int64(rng.Intn(int(size-off)+2))
		}
		if n <= 0 {
			n = 1
		}
		return []string{fmt.Sprintf("%s.read %d %d", k, n, off)}
	case p < 60:
		// burst: Flush (no Sync), an Append that stays in the buffer, a rewind into what that Append wrote (or exactly
		// onto the flushed/buffered boundary, or one byte into the flushed part), overwrite, read across the seam
		n := 1 + rng.Intn(c17Min(c.cap, 64)/3+1)
		t := size + int64(rng.Intn(n+1)) - int64(rng.Intn(8)/7)
		if t < 0 || (k == "m" && t < c.floor) {
			t = size
		}
		m := 1 + rng.Intn(c17Min(c.cap, 64)/3+1)
		from := size - int64(rng.Intn(3))
		if from < 0 || (k == "m" && from < c.floor) {
			from = size
		}
		c.r.Count("burst.flush-append-rewind-append-read")
		rl := t + int64(m) - from + int64(rng.Intn(2))
		if rl < 1 {
			rl = 1
		}
		return []string{k + ".flush",
			fmt.Sprintf("%s.append %s", k, hx.Hex(rng.Bytes(n))),
			fmt.Sprintf("%s.setoff %d", k, t),
			fmt.Sprintf("%s.append %s", k, hx.Hex(rng.Bytes(m))),
			fmt.Sprintf("%s.read %d %d", k, rl, from)}
	case p < 70:
		off := near()
		if off == size && size > 0 && rng.Chance(80) {
			off = size - 1
		}
		if k == "m" && off < c.floor {
			off = c.floor
		}
		if rng.Chance(50) && off < size {
			// rewind and overwrite at once: the next Append must start exactly at the target
			n := 1 + rng.Intn(c17Min(c.cap, 64)/3+1)
			return []string{fmt.Sprintf("%s.setoff %d", k, off), fmt.Sprintf("%s.append %s", k, hx.Hex(rng.Bytes(n)))}
		}
		return []string{fmt.Sprintf("%s.setoff %d", k, off)}
	case p < 84:
		return []string{k + ".flush"}
	case p < 88:
		return []string{k + ".sync"}
	case p < 91:
		return []string{k + ".size"}
	case p < 94:
		return []string{k + ".offset"}
	case p < 96:
		if k == "s" {
			return []string{"s.copy"}
		}
		return []string{fmt.Sprintf("m.copy %d", (c.floor/int64(c.fileSize))*int64(c.fileSize))}
	default:
		return []string{k + ".close"}
	}
}

func c17Min(a, b int) int {
	if a < b {
		return a
	}
	return b
}

func c17GenCap(rng *hx.Rng) int {
	switch rng.Intn(6) {
	case 0:
		return 1
	case 1:
		return 4096
	case 2:
		return 1 + rng.Intn(4)
	default:
		return 1 + rng.Intn(64)
	}
}

func c17GenFileSize(rng *hx.Rng) int {
	switch rng.Intn(8) {
	case 0:
		return 1
	case 1:
		return multiapp.DefaultFileSize
	case 2:
		return 2 + rng.Intn(3)
	case 3:
		return 64
	default:
		return 1 + rng.Intn(64)
	}
}

func (c *c17Case) genNew(rng *hx.Rng, comp int) string {
	meta := rng.Bytes(rng.Intn(9))
	retry, auto := rng.Bool(), rng.Bool()
	if rng.Chance(30) {
		retry, auto = true, true // the defaults
	}
	if comp != 0 && retry && !auto {
		auto = true
	}
	cap := c17GenCap(rng)
	if c.tail {
		// the profile needs room in the buffer and (mostly) the default retryable sync
		if rng.Chance(75) {
			retry = true
			auto = auto || rng.Chance(70)
		}
		if cap < 4 && rng.Chance(80) {
			cap = 4 + rng.Intn(61)
		}
	}
	if c.kind == "s" {
		pre := 0
		if rng.Chance(15) && comp == 0 {
			pre = 1 + rng.Intn(64)
		}
		return fmt.Sprintf("s.new %d %s %s %d %s %d", cap, c17b01(retry), c17b01(auto), pre, hx.Hex(meta), comp)
	}
	fs := c17GenFileSize(rng)
	pre := 0
	if rng.Chance(15) && fs <= 64 && comp == 0 {
		pre = 1
	}
	mo := 1 + rng.Intn(3)
	if rng.Chance(20) {
		mo = multiapp.DefaultMaxOpenedFiles
	}
	return fmt.Sprintf("m.new %d %d %d %s %s %d %s %d", fs, cap, mo, c17b01(retry), c17b01(auto), pre, hx.Hex(meta), comp)
}

func newC17Case(r *hx.Result, kind string) *c17Case {
	c := &c17Case{r: r, kind: kind, name: map[string]string{"s": "singleapp", "m": "multiapp"}[kind], verifyDiscard: -1, preFloor: -1}
	c.dir = hx.TempDir("c17")
	c.path = filepath.Join(c.dir, "app")
	if kind == "s" {
		c.path += ".aof"
	}
	return c
}

var errC17Abort = errors.New("case aborted after a panic of the code under test")

// c17Done: a case that was aborted by a (recorded) panic is finished, not a harness error
func c17Done(err error) error {
	if errors.Is(err, errC17Abort) {
		return nil
	}
	return err
}

func (c *c17Case) cleanup() {
	defer os.RemoveAll(c.dir)
	defer func() { recover() }() // Close of a handle that already panicked may panic again
	if c.app != nil && !c.closed {
		c.app.Close()
	}
}

// a scripted case (known-finding probes, replays)
func c17Script(r *hx.Result, ops []string, recorded, noModel bool) error {
	if len(ops) == 0 {
		return nil
	}
	r.NextCase()
	c := newC17Case(r, ops[0][:1])
	c.noPost = recorded
	c.noModel = noModel
	defer c.cleanup()
	for _, l := range ops {
		if _, err := c.exec(l); err != nil {
			return c17Done(fmt.Errorf("%q: %w", l, err))
		}
	}
	return nil
}

var c17LastNew string
var c17Trace = os.Getenv("VERIF_C17_TRACE") != ""

func c17RandomCase(r *hx.Result, rng *hx.Rng, kind string, comp int, nops int, thorough bool) error {
	return c17Done(c17RandomCase1(r, rng, kind, comp, nops, thorough, false))
}

// oracle-only case with a high rate of injected faults, incl. those the Lean mirror does not model
func c17FaultCase(r *hx.Result, rng *hx.Rng, kind string, nops int, thorough bool) error {
	return c17Done(c17RandomCase1(r, rng, kind, 0, nops, thorough, true))
}

func c17RandomCase1(r *hx.Result, rng *hx.Rng, kind string, comp int, nops int, thorough bool, noModel bool) error {
	r.NextCase()
	c := newC17Case(r, kind)
	defer c.cleanup()
	c.tail = comp == 0 && rng.Chance(35)
	c.noModel = noModel
	if fs, wr, _ := c17FaultSelfTest(); comp == 0 && (fs || wr) {
		c.faultPct = 5
		if noModel {
			c.faultPct = 25
			r.Count("case.oracle-only-faults")
		}
	}
	if _, err := c.exec(c.genNew(rng, comp)); err != nil {
		return err
	}
	r.Count(fmt.Sprintf("case.%s.comp%d", kind, comp))
	if c.tail {
		r.Count("case.profile.buffer-tail")
	}
	defer func() { c17LastNew = fmt.Sprintf("%s ops=%d size=%d", c.ops[0], len(c.ops), c.size()) }()
	if c.kind == "m" {
		r.Count(fmt.Sprintf("case.m.fileSize.log2=%d", bitlen(uint64(c.fileSize))))
	}
	r.Count(fmt.Sprintf("case.cap.log2=%d", bitlen(uint64(c.cap))))
	r.Count(fmt.Sprintf("case.retry=%v.auto=%v", c.retry, c.auto))
	if c.prealloc != 0 {
		r.Count("case.prealloc")
	}
	for i := 0; i < nops; i++ {
		var lines []string
		if comp == 0 {
			lines = c.genOp(rng, thorough)
		} else {
			lines = c.genOpComp(rng)
		}
		for _, l := range lines {
			if _, err := c.exec(l); err != nil {
				return fmt.Errorf("case %d after %d ops: %q: %w", r.Case(), len(c.ops), l, err)
			}
		}
		// keep the files small: tiny chunks make every byte a file
		if c.size() > 6000 || (c.kind == "m" && c.fileSize <= 4 && c.size() > 300) {
			break
		}
	}
	// final sweep: the whole claimed content, chunk by chunk sized reads, and a close/reopen
	if !c.closed && comp == 0 {
		size := c.size()
		if size > c.floor {
			if _, err := c.exec(fmt.Sprintf("%s.read %d %d", kind, size-c.floor, c.floor)); err != nil {
				return err
			}
		}
		if _, err := c.exec(kind + ".size"); err != nil {
			return err
		}
	}
	if !c.closed {
		if _, err := c.exec(kind + ".close"); err != nil {
			return err
		}
	}
	re := fmt.Sprintf("s.reopen %d %s %s 0", c.cap, c17b01(c.retry), c17b01(c.auto))
	if kind == "m" {
		re = fmt.Sprintf("m.reopen %d %d %s %s 0", c.cap, c.maxOpen, c17b01(c.retry), c17b01(c.auto))
	}
	if _, err := c.exec(re); err != nil {
		return err
	}
	if comp != 0 {
		for _, e := range c.entries {
			if _, err := c.exec(fmt.Sprintf("%s.read %d %d", kind, len(e.data), e.off)); err != nil {
				return err
			}
		}
	}
	if r.Case()%40 == 1 {
		r.Sample(map[string]interface{}{"kind": c.name, "new": c.ops[0], "ops": len(c.ops), "final_size": c.size(), "tail": c.ops[len(c.ops)-c17Min(4, len(c.ops)):]})
	}
	return nil
}

// ---- small-scope enumeration ----
// EVERY word of length 4 over {append 1 byte, append 3 bytes, Flush, Sync, SetOffset(size-1), SetOffset(size-3)} is run
// on a fresh appendable with an 8-byte (sometimes 4/64-byte) write buffer, followed by a fixed epilogue that observes
// everything the byte-log contract promises: the offset returned by the next Append, a read of the whole log, Sync, the
// same read, Size, Close, re-Open, the same read and Size again (Offset()/Size() are checked after every accepted rewind
// anyway). The sync mode (retryable/auto), single vs multi-file (chunk size 5 or 16) and the buffer size are drawn per
// word. The random streams reach these buffer states only by luck; here every order of flush / sync / append / rewind
// on a small buffer is covered in every run.
var c17ScopeAlphabet = []string{"a1", "a3", "f", "s", "r1", "r3"}

// the fault alphabet: x = Sync with a failing fsync (after an un-faulted Flush), w = Flush while every write fails
var c17FaultAlphabet = []string{"a1", "a3", "f", "s", "r1", "x", "w"}

func c17ScopeWord(r *hx.Result, rng *hx.Rng, word []string) error {
	return c17Done(c17ScopeWord1(r, rng, word))
}

func c17ScopeWord1(r *hx.Result, rng *hx.Rng, word []string) error {
	r.NextCase()
	kind := "s"
	if rng.Chance(40) {
		kind = "m"
	}
	c := newC17Case(r, kind)
	defer c.cleanup()
	retry, auto := true, true
	if rng.Chance(40) {
		retry, auto = rng.Bool(), rng.Bool()
	}
	cap := int(c17Pick(rng, 8, 8, 8, 4, 64))
	var first string
	if kind == "s" {
		first = fmt.Sprintf("s.new %d %s %s 0 - 0", cap, c17b01(retry), c17b01(auto))
	} else {
		first = fmt.Sprintf("m.new %d %d %d %s %s 0 - 0", c17Pick(rng, 5, 16), cap, 1+rng.Intn(3), c17b01(retry), c17b01(auto))
	}
	r.Count(fmt.Sprintf("scope.case.%s.retry=%v.auto=%v", kind, retry, auto))
	run := func(l string) error {
		if _, err := c.exec(l); err != nil {
			return fmt.Errorf("small-scope case %d %v: %q: %w", r.Case(), word, l, err)
		}
		return nil
	}
	if err := run(first); err != nil {
		return err
	}
	back := func(n int64) string {
		o := c.size() - n
		if o < 0 {
			o = 0
		}
		return fmt.Sprintf("%s.setoff %d", kind, o)
	}
	whole := func() string {
		if c.size() == 0 {
			return kind + ".size"
		}
		return fmt.Sprintf("%s.read %d 0", kind, c.size())
	}
	for _, w := range append(append([]string{}, word...), "a2", "whole", "s", "whole", "close", "reopen", "size") {
		var l string
		switch w {
		case "a1", "a2", "a3":
			l = fmt.Sprintf("%s.append %s", kind, hx.Hex(rng.Bytes(int(w[1]-'0'))))
		case "f":
			l = kind + ".flush"
		case "s":
			l = kind + ".sync"
		case "x":
			l = kind + ".syncfail"
		case "w":
			l = kind + ".flushfail"
		case "r1":
			l = back(1)
		case "r3":
			l = back(3)
		case "whole":
			l = whole()
		case "size", "close":
			l = kind + "." + w
		case "reopen":
			l = fmt.Sprintf("s.reopen %d %s %s 0", c.cap, c17b01(c.retry), c17b01(c.auto))
			if kind == "m" {
				l = fmt.Sprintf("m.reopen %d %d %s %s 0", c.cap, c.maxOpen, c17b01(c.retry), c17b01(c.auto))
			}
		}
		if err := run(l); err != nil {
			return err
		}
	}
	return nil
}

func c17SmallScope(r *hx.Result, rng *hx.Rng, alphabet []string, length int) error {
	c17ScopeAlphabet := alphabet
	n := len(c17ScopeAlphabet)
	total := 1
	for i := 0; i < length; i++ {
		total *= n
	}
	word := make([]string, length)
	for w := 0; w < total; w++ {
		x := w
		for i := length - 1; i >= 0; i-- {
			word[i] = c17ScopeAlphabet[x%n]
			x /= n
		}
		if err := c17ScopeWord(r, rng.Fork(), word); err != nil {
			return err
		}
		if w%100 == 99 {
			if err := r.Flush(); err != nil {
				return err
			}
		}
	}
	r.CountN(fmt.Sprintf("scope.words.alphabet%d", n), total)
	return r.Flush()
}

// compressed formats: the log is a sequence of entries addressed by the offsets Append returned
func (c *c17Case) genOpComp(rng *hx.Rng) []string {
	k := c.kind
	if c.closed {
		if k == "s" {
			return []string{fmt.Sprintf("s.reopen %d %s %s 0", c17GenCap(rng), c17b01(c.retry), c17b01(c.auto))}
		}
		return []string{fmt.Sprintf("m.reopen %d %d %s %s 0", c17GenCap(rng), 1+rng.Intn(3), c17b01(c.retry), c17b01(c.auto))}
	}
	p := rng.Intn(100)
	switch {
	case p < 40 || len(c.entries) == 0:
		n := 1 + c.genAppendSize(rng)
		bs := rng.Bytes(n)
		if rng.Bool() { // compressible
			for i := range bs {
				bs[i] = byte('a' + i%3)
			}
		}
		return []string{fmt.Sprintf("%s.append %s", k, hx.Hex(bs))}
	case p < 75:
		// After a rewind, entries written since then are F2-prone: their compressed bytes (even the 4-byte length
		// prefix) can be served from rolled-back file content, and `make([]byte, clen)` with a garbage length
		// allocates up to 4 GiB. Those reads are covered by the fixed probe c17ProbeF2Compressed only.
		hi := len(c.entries)
		if c.dirty && c.rwIdx < hi {
			hi = c.rwIdx
			c.r.Count("read.compressed.skipped-post-rewind(F2-prone)")
		}
		if hi == 0 {
			return []string{k + ".size"}
		}
		e := c.entries[rng.Intn(hi)]
		if rng.Chance(30) {
			e = c.entries[hi-1]
		}
		n := len(e.data)
		switch rng.Intn(5) {
		case 0:
			n = 1 + rng.Intn(n)
		case 1:
			if k == "s" { // multiapp continues a short read in the next chunk: meaningless (and a garbage length prefix => huge allocation) for compressed entries
				n = n + 1 + rng.Intn(4)
			}
		}
		return []string{fmt.Sprintf("%s.read %d %d", k, n, e.off)}
	case p < 83:
		if rng.Chance(20) {
			return []string{fmt.Sprintf("%s.setoff %d", k, c.osize)}
		}
		e := c.entries[rng.Intn(len(c.entries))]
		if rng.Chance(50) {
			e = c.entries[len(c.entries)-1-rng.Intn(c17Min(2, len(c.entries)))]
		}
		return []string{fmt.Sprintf("%s.setoff %d", k, e.off)}
	case p < 88:
		return []string{k + ".flush"}
	case p < 92:
		return []string{k + ".sync"}
	case p < 95:
		return []string{k + ".size"}
	default:
		return []string{k + ".close"}
	}
}

// concurrent readers during appends (no rewinds): every read of a range below a published size is exact
func c17Concurrent(r *hx.Result, rng *hx.Rng, kind string, nAppends int) error {
	r.NextCase()
	c := newC17Case(r, kind)
	defer c.cleanup()
	c.comp = 0
	c.cap, c.retry, c.auto, c.maxOpen, c.fileSize = c17GenCap(rng), rng.Bool(), true, 1+rng.Intn(3), 1+rng.Intn(64)
	if err := c.open(false); err != nil {
		return err
	}
	var mu sync.Mutex
	var data []byte
	published := 0
	stop := make(chan struct{})
	var wg sync.WaitGroup
	var bad, evicted []string
	for g := 0; g < 3; g++ {
		wg.Add(1)
		rr := rng.Fork()
		go func() {
			defer wg.Done()
			defer func() {
				if e := recover(); e != nil {
					mu.Lock()
					bad = append(bad, fmt.Sprintf("panic: %v", e))
					mu.Unlock()
				}
			}()
			for {
				select {
				case <-stop:
					return
				default:
				}
				mu.Lock()
				p := published
				mu.Unlock()
				if p == 0 {
					continue
				}
				off := rr.Intn(p)
				n := 1 + rr.Intn(p-off)
				bs := make([]byte, n)
				m, err := c.app.ReadAt(bs, int64(off))
				mu.Lock()
				if err != nil && strings.Contains(err.Error(), "key not found") {
					evicted = append(evicted, fmt.Sprintf("ReadAt(%d bytes, %d) with published size %d, maxOpenedFiles %d: n=%d err=%v", n, off, p, c.maxOpen, m, err))
				} else if err != nil || m != n || !bytes.Equal(bs, data[off:off+n]) {
					bad = append(bad, fmt.Sprintf("ReadAt(%d,%d) with published size %d: n=%d err=%v", n, off, p, m, err))
				}
				mu.Unlock()
			}
		}()
	}
	for i := 0; i < nAppends; i++ {
		bs := rng.Bytes(c.genAppendSize(rng) + 1)
		off, _, err := c.app.Append(bs)
		mu.Lock()
		if err != nil || off != int64(len(data)) {
			bad = append(bad, fmt.Sprintf("Append: off=%d err=%v, expected %d", off, err, len(data)))
		}
		data = append(data, bs...)
		published = len(data)
		mu.Unlock()
		if i%7 == 0 {
			c.app.Flush()
		}
	}
	close(stop)
	wg.Wait()
	r.OracleChecks++
	r.Count("concurrent." + kind)
	if len(bad) > 0 {
		c.fail("ReadAt", "concurrent-read-deviates", strings.Join(bad[:c17Min(3, len(bad))], "; "))
	}
	if len(evicted) > 0 {
		r.CountN("concurrent.key-not-found", len(evicted))
		c.fail("ReadAt", "concurrent-key-not-found-under-eviction", strings.Join(evicted[:c17Min(3, len(evicted))], "; "))
	}
	return nil
}

// ---- known-finding probes: concrete op sequences (also the Lean witness theorems) ----

var c17ProbeF2 = []string{
	"s.new 4096 1 1 0 - 0",
	"s.append " + strings.Repeat("41", 100),
	"s.flush",
	"s.setoff 50",
	"s.append 6262626262",
	"s.read 15 40", // stale: 15×'A' instead of 10×'A' + "bbbbb"
	"s.read 60 45", // 55 stale 'A' followed by the buffer content, no EOF
	"s.size",
	"s.close",
	"s.reopen 4096 1 1 0", // size 100, expected 55
	"s.size",
}

var c17ProbeStaleTail = []string{
	"s.new 8 0 0 0 - 0",
	"s.append 0102030405060708090a",
	"s.setoff 3",
	"s.append 0b",
	"s.close",
	"s.reopen 8 0 0 0", // size 10: bytes 05..0a reappear
	"s.read 10 0",
}

var c17ProbeMulti = []string{
	"m.new 10 4096 10 1 1 0 - 0",
	"m.append " + strings.Repeat("41", 35),
	"m.setoff 5",
	"m.size",
	"m.read 20 0", // 20×'A': chunk 0 beyond offset 5 and chunk 1 are stale
	"m.append 6262",
	"m.read 20 0",
	"m.read 2 5",
	"m.close",
	"m.reopen 4096 10 1 1 0", // size 35: the highest-numbered chunk file becomes the current one again
	"m.read 20 0",
}

// compressed (lzw) variant of F2 with a 6-byte write buffer: entry B is written after a rewind over the flushed
// entry A; B's tail is still buffered, the file part of the read is served from A's rolled-back bytes.
var c17ProbeF2Compressed = []string{
	"s.new 6 0 0 0 - 3",
	"s.append 000102030405060708090a0b0c0d0e0f101112131415161718191a1b1c1d1e1f202122232425262728292a2b2c2d2e2f",
	"s.flush",
	"s.setoff 0",
	"s.append 6162636465666768696a6b6c6d6e6f707172737475767778797a",
	"s.read 26 0",
}

var c17ProbePrealloc = []string{
	"m.new 10 4096 10 1 1 1 - 0", // preallocated chunk 0 = 10 zero bytes of content, size 10
	"m.append 616263",           // rotates into the preallocated chunk 1 (SetOffset(0) on a 10-byte file)
	"m.flush",
	"m.append 6465",
	"m.read 5 10", // "abc" + two preallocated zeros instead of "abcde"
	"m.read 8 10", // 8 bytes, no EOF (size is 15)
}

// known finding (reachable with fault injection only; Lean witness readAt_after_failed_sync_witness): retryable sync,
// the fsync fails once — fileOffset goes back to 3 while the file holds 6 bytes; with two more bytes in the buffer a
// read of the whole log returns 01..06 04 05 (the file part runs to the physical end, then the buffer from its start).
var c17ProbeFailedSync = []string{
	"s.new 8 1 1 0 - 0",
	"s.append 010203",
	"s.sync",
	"s.append 040506",
	"s.syncfail",
	"s.append 0708",
	"s.read 8 0", // 0102030405060405
	"s.sync",     // the retry succeeds
	"s.read 8 0", // exact again
	"s.close",
	"s.reopen 8 1 1 0",
}

var c17ProbeFailedSyncMulti = []string{
	"m.new 16 8 2 1 1 0 - 0",
	"m.append 010203",
	"m.sync",
	"m.append 040506",
	"m.syncfail",
	"m.append 0708",
	"m.read 8 0",
	"m.sync",
	"m.read 8 0",
	"m.close",
	"m.reopen 8 2 1 1 0",
}

func runC17(r *hx.Result, rng *hx.Rng, thorough bool, replay string) error {
	r.Rule = "cases: all 1296 words of length 4 over {append 1, append 3, flush, sync, setOffset(size-1), setOffset(size-3)} on an 8|4|64-byte write buffer with a fixed observing epilogue (small-scope enumeration), then random operation sequences (append/read/reader/setOffset/flush/sync/discardUpto/switchReadOnly/close/reopen/copy/size/metadata; 35% of the cases in the 'buffer tail' profile: appends that stay in the write buffer, Flush without Sync, rewinds/reads aimed at the buffered tail) on real singleapp and multiapp instances in temp dirs × options (write buffer 1..64|4096, chunk size 1..64|default, maxOpenedFiles 1..3|10, retryable/auto sync, prealloc, compression none for the model stream and flate/gzip/lzw/zlib for the oracle-only stream). FAULT INJECTION on the real code (c17fault.go): all 343 words of length 3 over {append 1, append 3, flush, sync, setOffset(size-1), syncfail = Sync with a failing fsync (/dev/null dup3-ed over the descriptor of the writing file for the one call, after an un-faulted Flush), flushfail = Flush while every content write fails (RLIMIT_FSIZE at the header length)} with the same epilogue (append, read all, retry Sync, read all, Close, re-Open, sweep); 5% of the ops of the random uncompressed cases are fault bursts (syncfail / rofail / flushfail / syncwfail followed by retries, appends, reads across the rolled-back stretch, rewinds into it, close+reopen), each followed by Offset(), Size() and a read of the last two buffer-fulls; 40 oracle-only cases with 25% fault bursts incl. short writes (RLIMIT_FSIZE inside the pending range) and write/fsync failures inside Append. An evaluation is one read compared with the byte-array oracle; non-trivial when it has a non-empty range; distinct by (kind, chunk size, offset, length, size)."
	if replay != "" {
		b, err := os.ReadFile(replay)
		if err != nil {
			return err
		}
		var f struct {
			Replay c17Replay `json:"replay"`
		}
		if err := json.Unmarshal(b, &f); err != nil {
			return err
		}
		if err := c17Script(r, f.Replay.Ops, true, f.Replay.NoModel); err != nil {
			return err
		}
		return r.Flush()
	}
	fsyncOK, writeOK, fnote := c17FaultSelfTest()
	r.Notes = append(r.Notes, fnote)
	if !(fsyncOK && writeOK) {
		// not an error of the code under test: the run continues without the fault histories it cannot produce on this
		// platform, and the evidence says so (counter + note) instead of raising an alarm
		r.Count("fault-injection.unavailable")
		r.Notes = append(r.Notes, "REDUCED COVERAGE: fault injection (failing fsync / failing write) is not available on this platform: "+fnote)
	}
	probes := [][]string{c17ProbeF2, c17ProbeStaleTail, c17ProbeMulti, c17ProbePrealloc, c17ProbeF2Compressed}
	if fsyncOK {
		probes = append(probes, c17ProbeFailedSync, c17ProbeFailedSyncMulti)
	}
	for _, p := range probes {
		if err := c17Script(r, p, false, false); err != nil {
			return err
		}
	}
	if writeOK {
		if err := c17Script(r, c17ProbeChunkCreateFail, false, true); err != nil {
			return err
		}
	}
	if err := r.Flush(); err != nil {
		return err
	}
	t0 := time.Now()
	phase := func(name string) {
		r.Notes = append(r.Notes, fmt.Sprintf("phase %s done at %.1fs", name, time.Since(t0).Seconds()))
	}
	nS, nM, nZ, nops, nConc := 200, 240, 96, 70, 4
	nF := 40 // oracle-only cases with short writes and faults inside Append
	scopeLen := 4
	if ph := os.Getenv("VERIF_C17_PHASES"); ph != "" { // debugging aid: e.g. "z" runs only the compressed stream
		if !strings.Contains(ph, "s") {
			nS = 0
		}
		if !strings.Contains(ph, "m") {
			nM = 0
		}
		if !strings.Contains(ph, "z") {
			nZ = 0
		}
		if !strings.Contains(ph, "c") {
			nConc = 0
		}
		if !strings.Contains(ph, "f") {
			nF = 0
		}
		if !strings.Contains(ph, "w") {
			scopeLen = 0
		}
	}
	if thorough {
		nS, nM, nZ, nops, nConc = 1200, 1800, 500, 140, 24
		nF = 300
	}
	if scopeLen > 0 {
		passes := 1
		if thorough {
			passes = 3 // the same words under other draws of (kind, sync mode, buffer, chunk size)
		}
		for i := 0; i < passes; i++ {
			if err := c17SmallScope(r, rng.Fork(), c17ScopeAlphabet, scopeLen); err != nil {
				return err
			}
		}
		phase("small-scope")
		if fsyncOK && writeOK {
			// every word of length 3 over the fault alphabet, same observing epilogue (incl. the retry Sync, Close, re-Open)
			for i := 0; i < passes; i++ {
				if err := c17SmallScope(r, rng.Fork(), c17FaultAlphabet, 3); err != nil {
					return err
				}
			}
			phase("small-scope-faults")
		}
	}
	for i := 0; i < nS; i++ {
		if err := c17RandomCase(r, rng.Fork(), "s", 0, 10+rng.Intn(nops), thorough); err != nil {
			return err
		}
		if i%20 == 19 {
			if err := r.Flush(); err != nil {
				return err
			}
		}
	}
	phase("singleapp")
	for i := 0; i < nM; i++ {
		if err := c17RandomCase(r, rng.Fork(), "m", 0, 10+rng.Intn(nops), thorough); err != nil {
			return err
		}
		if i%20 == 19 {
			if err := r.Flush(); err != nil {
				return err
			}
		}
	}
	phase("multiapp")
	for i := 0; i < nZ; i++ {
		comp := 1 + i%4 // flate, gzip, lzw, zlib
		kind := "s"
		if i%8 >= 4 {
			kind = "m"
		}
		tz := time.Now()
		if err := c17RandomCase(r, rng.Fork(), kind, comp, 10+rng.Intn(nops/2), thorough); err != nil {
			return err
		}
		if d := time.Since(tz).Seconds(); d > 2 {
			r.Notes = append(r.Notes, fmt.Sprintf("slow compressed case %d (%s comp %d): %.1fs %s", r.Case(), kind, comp, d, c17LastNew))
		}
	}
	phase("compressed")
	for i := 0; i < nF && (fsyncOK || writeOK); i++ {
		kind := "s"
		if i%2 == 1 {
			kind = "m"
		}
		if err := c17FaultCase(r, rng.Fork(), kind, 10+rng.Intn(nops), thorough); err != nil {
			return err
		}
	}
	phase("oracle-only-faults")
	for i := 0; i < nConc; i++ {
		kind := "s"
		if i%2 == 1 {
			kind = "m"
		}
		if err := c17Concurrent(r, rng.Fork(), kind, 60); err != nil {
			return err
		}
	}
	phase("concurrent")
	return r.Flush()
}
