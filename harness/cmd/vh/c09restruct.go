package main

// C09 — structure-aware alterations and the commit-time ground truth.
//
// The bit-flip / field-overwrite streams of c09.go never change the LENGTH of anything: a field keeps its width, the
// record keeps its size. This file adds the alterations a party that understands the record grammar can make: a
// committed record is RE-SERIALISED with one grammar element inserted, removed or replaced — kv-metadata attributes
// (deleted / expiresAt / nonIndexable, every combination, non-canonical encodings), a key byte, a whole entry, the tx
// metadata, the header version (v0 <-> v1 layout) — with EVERY length / count field kept consistent and NO hash
// recomputed (the trailing Alh is the committed one; a recomputed one is K2, see c09.go). The new bytes are written at
// the record's offset: a shorter record leaves stale bytes behind it, a longer one overwrites the first bytes of what
// follows (the next record / the next tx's embedded values) or, for the last tx, extends the log. Both header versions
// are covered (version-0 records = data written by immudb <= 1.1, authenticated by the legacy digest).
//
// Oracle: unchanged ("a checked read either fails or returns exactly what was committed, all fields").
// The ground truth of the probe is additionally checked against what the harness handed to Set/Commit (c09Committed),
// so that a field lost consistently by writer and reader does not go unnoticed.
//
// Tie: besides `c09 parse` / `c09 step` on the altered stream, the REAL digest function selected by the altered header
// version (TxHeader.TxEntryDigest -> TxEntryDigest_v1_1 / _v1_2) is evaluated on the altered entries, the entry tree is
// built with embedded/htree, and the outcome (digests + Eh | error class) is compared with `c09 dg` (Tx/EntryDigest.lean).

import (
	"bytes"
	"crypto/sha256"
	"encoding/binary"
	"fmt"
	"os"
	"sort"
	"strings"
	"time"

	"github.com/codenotary/immudb/embedded/ahtree"
	"github.com/codenotary/immudb/embedded/htree"
	"github.com/codenotary/immudb/embedded/store"

	"verif/harness/internal/hx"
)

// ---------------------------------------------------------------- commit-time ground truth

type c09CommitEntry struct {
	Key     []byte
	HasMd   bool
	Deleted bool
	Expires int64 // unix seconds, -1 = not expirable
	NonIdx  bool
	Value   []byte
}

type c09CommitTx struct {
	Version   int
	TxMd      []byte
	Entries   []c09CommitEntry
	Ground    bool // content chosen so that the Alh ends with 0x00 (c09Grinder)
	Predicted bool // the Alh predicted before the commit is the one the store computed
}

func c09CommitEntryOf(key []byte, md *store.KVMetadata, val []byte) c09CommitEntry {
	ce := c09CommitEntry{Key: append([]byte{}, key...), Value: append([]byte{}, val...), Expires: -1}
	if md != nil {
		ce.HasMd = true
		ce.Deleted = md.Deleted()
		ce.NonIdx = md.NonIndexable()
		if md.IsExpirable() {
			if t, err := md.ExpirationTime(); err == nil {
				ce.Expires = t.Unix()
			}
		}
	}
	return ce
}

// c09MdStr renders kv metadata for the ORACLE: the serialised bytes AND every attribute as the accessors report it
// (a read that returns an entry whose NonIndexable()/Deleted()/ExpirationTime() differ from the committed ones differs,
// whatever Bytes() says). nil and attribute-less metadata render alike.
func c09MdStr(md *store.KVMetadata) string {
	if md == nil {
		return "-/"
	}
	var sb strings.Builder
	sb.WriteString(hx.Hex(md.Bytes()))
	sb.WriteString("/")
	if md.Deleted() {
		sb.WriteString("D")
	}
	if md.IsExpirable() {
		if t, err := md.ExpirationTime(); err == nil {
			fmt.Fprintf(&sb, "X%d", t.Unix())
		} else {
			sb.WriteString("X?")
		}
	}
	if md.NonIndexable() {
		sb.WriteString("N")
	}
	return sb.String()
}

// c09KVMdFromBytes builds a metadata object from (possibly non-canonical) attribute bytes; nil for no bytes; ok=false
// for bytes the grammar does not allow.
func c09KVMdFromBytes(b []byte) (*store.KVMetadata, bool) {
	if len(b) == 0 {
		return nil, true
	}
	md := store.NewKVMetadata()
	for j := 0; j < len(b); {
		switch b[j] {
		case 0:
			md.AsDeleted(true)
			j++
		case 1:
			if j+9 > len(b) {
				return md, false
			}
			md.ExpiresAt(time.Unix(int64(binary.BigEndian.Uint64(b[j+1:])), 0))
			j += 9
		case 2:
			md.AsNonIndexable(true)
			j++
		default:
			return md, false
		}
	}
	return md, true
}

func c09MdStrBytes(b []byte) string {
	md, _ := c09KVMdFromBytes(b)
	return c09MdStr(md)
}

// checkCommitted compares what the pristine store reads back (ReadTx on the unaltered copy) with what was handed to
// Set / WithMetadata / Commit.
func (s *c09Store) checkCommitted(r *hx.Result, id uint64, tx *store.Tx) {
	if int(id) > len(s.committed) {
		return
	}
	c := s.committed[id-1]
	bad := func(what string) {
		r.Fail("C09:ReadTx:committed-content-not-read-back", fmt.Sprintf("tx %d of the UNALTERED store: %s differs from what was committed", id, what),
			map[string]interface{}{"cfg": s.cfg, "tx": id, "seed": r.Seed})
	}
	r.OracleChecks++
	h := tx.Header()
	if h.Version != c.Version {
		bad("header version")
	}
	if !bytes.Equal(txmdBytes(h.Metadata), c.TxMd) {
		bad("tx metadata")
	}
	es := tx.Entries()
	if len(es) != len(c.Entries) || h.NEntries != len(c.Entries) {
		bad("entry count")
		return
	}
	for i, e := range es {
		ce := c.Entries[i]
		r.OracleChecks++
		if !bytes.Equal(e.Key(), ce.Key) {
			bad(fmt.Sprintf("key of entry %d", i))
		}
		if e.HVal() != sha256.Sum256(ce.Value) || e.VLen() != len(ce.Value) {
			bad(fmt.Sprintf("value digest/length of entry %d", i))
		}
		md := e.Metadata()
		got := c09CommitEntryOf(nil, md, nil)
		if got.Deleted != ce.Deleted || got.NonIdx != ce.NonIdx || got.Expires != ce.Expires {
			bad(fmt.Sprintf("kv metadata attributes of entry %d (read deleted=%v expires=%d nonIndexable=%v, committed %v/%d/%v)", i,
				got.Deleted, got.Expires, got.NonIdx, ce.Deleted, ce.Expires, ce.NonIdx))
		}
		if md != nil && len(md.Bytes()) > 0 && !ce.HasMd {
			bad(fmt.Sprintf("kv metadata presence of entry %d", i))
		}
		r.Count("committed.entry-compared")
	}
}

// checkCommittedValues: the values the ground-truth probe read are the committed ones.
func (s *c09Store) checkCommittedValues(r *hx.Result) {
	for id := uint64(1); id <= s.n && int(id) <= len(s.committed); id++ {
		for i, ce := range s.committed[id-1].Entries {
			v := s.base.m[fmt.Sprintf("ReadValue:%d:%d", id, i)]
			r.OracleChecks++
			if v == nil || v.Val != hx.Hex(ce.Value) {
				r.Fail("C09:ReadValue:committed-content-not-read-back", fmt.Sprintf("tx %d entry %d of the UNALTERED store: ReadValue differs from the committed value", id, i),
					map[string]interface{}{"cfg": s.cfg, "tx": id, "entry": i, "seed": r.Seed})
			}
		}
	}
}

// ---------------------------------------------------------------- choosing content so that a record can grow in place

// A record re-serialised ONE byte longer stays strictly inside its committed extent iff the last byte of its Alh equals
// the byte that follows the record (non-embedded values: the most significant byte of the next tx id = 0x00). The harness
// decides what is committed, so for every other transaction it varies a suffix of the last value until the Alh the store
// is ABOUT to compute ends with 0x00. The prediction uses the repository's own code only (Tx.BuildHashTree ->
// TxEntryDigest_v1_x, TxHeader.Alh, ahtree for BlRoot) and is compared with the header the commit returns; a wrong
// prediction costs nothing but the in-place cases (counted: grind.*).
type c09Grinder struct {
	aht  *ahtree.AHtree
	dir  string
	prev [32]byte
	n    uint64
}

func newC09Grinder() *c09Grinder {
	dir := hx.TempDir("c09g")
	aht, err := ahtree.Open(dir, ahtree.DefaultOptions())
	if err != nil {
		os.RemoveAll(dir)
		return &c09Grinder{}
	}
	return &c09Grinder{aht: aht, dir: dir, prev: sha256.Sum256(nil)} // PrevAlh of the first tx of a store: sha256("")
}

func (g *c09Grinder) close() {
	if g.aht != nil {
		g.aht.Close()
		os.RemoveAll(g.dir)
	}
}

type c09Pending struct {
	key []byte
	md  *store.KVMetadata
	val []byte
}

func (g *c09Grinder) predict(ver int, txmd *store.TxMetadata, ents []c09Pending) (alh [32]byte, ok bool) {
	if g.aht == nil {
		return alh, false
	}
	defer func() {
		if e := recover(); e != nil {
			ok = false
		}
	}()
	hdr := &store.TxHeader{ID: g.n + 1, Ts: c09FixedTs, BlTxID: g.n, PrevAlh: g.prev, Version: ver, Metadata: txmd, NEntries: len(ents)}
	if g.n > 0 {
		_, root, err := g.aht.Root()
		if err != nil {
			return alh, false
		}
		hdr.BlRoot = root
	}
	es := make([]*store.TxEntry, len(ents))
	for i, p := range ents {
		es[i] = store.NewTxEntry(p.key, p.md, len(p.val), sha256.Sum256(p.val), 0)
	}
	if err := store.NewTxWithEntries(hdr, es).BuildHashTree(); err != nil {
		return alh, false
	}
	return hdr.Alh(), true
}

// grind varies a suffix of the last value until the predicted Alh ends with `want`.
func (g *c09Grinder) grind(ver int, txmd *store.TxMetadata, ents []c09Pending, want byte) bool {
	if len(ents) == 0 {
		return false
	}
	last := &ents[len(ents)-1]
	base := last.val
	if len(base) > c09MaxValLen-6 {
		base = base[:c09MaxValLen-6]
	}
	for c := 0; c < 1<<13; c++ {
		last.val = append(append([]byte{}, base...), []byte(fmt.Sprintf("#%x", c))...)
		alh, ok := g.predict(ver, txmd, ents)
		if !ok {
			break
		}
		if alh[31] == want {
			return true
		}
	}
	last.val = base
	return false
}

func (g *c09Grinder) done(alh [32]byte) {
	g.n++
	g.prev = alh
	if g.aht != nil {
		if _, _, err := g.aht.Append(alh[:]); err != nil {
			g.aht.Close()
			os.RemoveAll(g.dir)
			g.aht = nil
		}
	}
}

// ---------------------------------------------------------------- raw record (re-)serialisation

type c09Hdr struct {
	ID, Ts, BlTxID  uint64
	BlRoot, PrevAlh [32]byte
	Version         int
	TxMd            []byte
	NEntries        int
}

func c09HdrOf(h *store.TxHeader) c09Hdr {
	return c09Hdr{ID: h.ID, Ts: uint64(h.Ts), BlTxID: h.BlTxID, BlRoot: h.BlRoot, PrevAlh: h.PrevAlh, Version: h.Version,
		TxMd: append([]byte{}, txmdBytes(h.Metadata)...), NEntries: h.NEntries}
}

// c09LayoutRaw: the record layout of performPrecommit from raw field values (metadata given as BYTES, so that
// non-canonical encodings and version/metadata combinations the writer never produces can be written).
func c09LayoutRaw(h c09Hdr, es []c09Entry, alh [32]byte) []byte {
	var b []byte
	u16 := func(v int) { b = append(b, byte(v>>8), byte(v)) }
	u32 := func(v int) { b = append(b, byte(v>>24), byte(v>>16), byte(v>>8), byte(v)) }
	u64 := func(v uint64) { b = append(b, be(8, v)...) }
	u64(h.ID)
	u64(h.Ts)
	u64(h.BlTxID)
	b = append(b, h.BlRoot[:]...)
	b = append(b, h.PrevAlh[:]...)
	u16(h.Version)
	if h.Version == 0 {
		u16(h.NEntries)
	} else {
		u16(len(h.TxMd))
		b = append(b, h.TxMd...)
		u32(h.NEntries)
	}
	for _, e := range es {
		u16(len(e.Md))
		b = append(b, e.Md...)
		u16(len(e.Key))
		b = append(b, e.Key...)
		u32(e.VLen)
		u64(uint64(e.VOff))
		b = append(b, e.HVal[:]...)
	}
	return append(b, alh[:]...)
}

// ---------------------------------------------------------------- the altered content (for the digest tie)

type c09AltEntry struct {
	Md   []byte `json:"md"` // canonical Bytes() of the metadata the altered bytes parse to
	Key  []byte `json:"key"`
	VLen int    `json:"vlen"`
	VOff int64  `json:"voff"`
	HVal []byte `json:"hval"`
}

type c09AltRec struct {
	Version int           `json:"version"`
	Entries []c09AltEntry `json:"entries"`
}

func c09AltOf(h c09Hdr, es []c09Entry) *c09AltRec {
	if len(es) == 0 {
		return nil
	}
	a := &c09AltRec{Version: h.Version}
	for _, e := range es {
		md, ok := c09KVMdFromBytes(e.Md)
		if !ok {
			return nil
		}
		a.Entries = append(a.Entries, c09AltEntry{Md: mdBytes(md), Key: e.Key, VLen: e.VLen, VOff: e.VOff, HVal: append([]byte{}, e.HVal[:]...)})
	}
	return a
}

// corrDigest: the real digest function of the (altered) header version on the (altered) entries + the entry tree,
// against `c09 dg`.
func (cr *c09Runner) corrDigest(a *c09AltRec) {
	if a == nil || len(a.Entries) == 0 {
		return
	}
	impl := func() (out string) {
		defer func() {
			if e := recover(); e != nil {
				out = "panic"
			}
		}()
		hdr := &store.TxHeader{Version: a.Version}
		df, err := hdr.TxEntryDigest()
		if err != nil {
			return "err:" + c09ErrClass(err)
		}
		digests := make([][sha256.Size]byte, 0, len(a.Entries))
		for _, ae := range a.Entries {
			md, _ := c09KVMdFromBytes(ae.Md)
			var hv [32]byte
			copy(hv[:], ae.HVal)
			d, err := df(store.NewTxEntry(ae.Key, md, ae.VLen, hv, ae.VOff))
			if err != nil {
				return "err:" + c09ErrClass(err)
			}
			digests = append(digests, d)
		}
		ht, err := htree.New(len(digests))
		if err != nil {
			return "err:htree"
		}
		if err := ht.BuildWith(digests); err != nil {
			return "err:htree"
		}
		root := ht.Root()
		ds := make([]string, len(digests))
		for i, d := range digests {
			ds[i] = hx.Hex(d[:])
		}
		return "ok " + strings.Join(ds, ",") + "|" + hx.Hex(root[:])
	}()
	var es []string
	for _, ae := range a.Entries {
		es = append(es, fmt.Sprintf("%s,%s,%d,%d,%s", hx.Hex(ae.Md), hx.Hex(ae.Key), ae.VLen, uint64(ae.VOff), hx.Hex(ae.HVal)))
	}
	cr.r.Corr(fmt.Sprintf("c09 dg %d %s", a.Version, strings.Join(es, ";")), impl)
	withMd := "no-md"
	for _, ae := range a.Entries {
		if len(ae.Md) > 0 {
			withMd = "md"
		}
	}
	cr.r.Count(fmt.Sprintf("tie.dg.v%d.%s.%s", a.Version, withMd, strings.SplitN(impl, " ", 2)[0]))
}

// ---------------------------------------------------------------- the restructuring stream

type c09MdSet struct {
	name  string
	class string // del | exp | nonidx | combo | noncanon
	bs    []byte
}

func c09MdSets() []c09MdSet {
	exp := func(t uint64) []byte { return append([]byte{1}, be(8, t)...) }
	cat := func(xs ...[]byte) []byte {
		var o []byte
		for _, x := range xs {
			o = append(o, x...)
		}
		return o
	}
	future, past := exp(4000000123), exp(1000000000)
	return []c09MdSet{
		{"del", "del", []byte{0}},
		{"exp", "exp", future},
		{"exp-past", "exp", past},
		{"nonidx", "nonidx", []byte{2}},
		{"del+exp", "combo", cat([]byte{0}, future)},
		{"del+nonidx", "combo", []byte{0, 2}},
		{"exp+nonidx", "combo", cat(future, []byte{2})},
		{"del+exp+nonidx", "combo", cat([]byte{0}, future, []byte{2})},
		{"nonidx-twice", "noncanon", []byte{2, 2}},
		{"nonidx,del", "noncanon", []byte{2, 0}},
		{"del-twice", "noncanon", []byte{0, 0}},
		{"nonidx,exp", "noncanon", cat([]byte{2}, future)},
	}
}

// restructMutations: every re-serialisation of record t with ONE grammar element inserted / removed / replaced.
// Class (c09Mut.Class) = "v<version>/<element>.<op>[.<attribute class>]".
func (s *c09Store) restructMutations(t *c09Tx, rng *hx.Rng) []c09Mut {
	var out []c09Mut
	h0 := t.Hdr
	cloneEs := func() []c09Entry {
		es := make([]c09Entry, len(t.Entries))
		for i, e := range t.Entries {
			es[i] = c09Entry{Key: append([]byte{}, e.Key...), Md: append([]byte{}, e.Md...), VLen: e.VLen, VOff: e.VOff, HVal: e.HVal}
		}
		return es
	}
	add := func(elem, op, detail, field string, h c09Hdr, es []c09Entry) {
		h.NEntries = len(es)
		raw := c09LayoutRaw(h, es, t.Alh)
		if bytes.Equal(raw, t.Raw) {
			return
		}
		d := 0
		for d < len(raw) && d < len(t.Raw) && raw[d] == t.Raw[d] {
			d++
		}
		if d >= len(raw) {
			return // a strict prefix of the original: nothing to write
		}
		kind := "restruct." + elem + "." + op
		class := fmt.Sprintf("v%d/%s.%s", t.Hdr.Version, elem, op)
		if detail != "" {
			kind += "." + detail
		}
		tail := "same-size"
		switch {
		case len(raw) < len(t.Raw):
			tail = "shorter"
		case len(raw) > len(t.Raw) && t.Off+int64(len(raw)) > s.txLogSz:
			tail = "longer-extends-log"
		case len(raw) > len(t.Raw):
			tail = "longer-overwrites-next"
			if bytes.Equal(raw[len(t.Raw):], s.txLogBytes[t.Off+int64(len(t.Raw)):t.Off+int64(len(raw))]) {
				tail = "longer-next-bytes-agree" // every altered byte is inside the committed extent of the record
			}
		}
		out = append(out, c09Mut{Kind: kind, Tx: int(t.ID), Field: field, Class: class, Tail: tail, Alt: c09AltOf(h, es),
			Patches: []c09Patch{{Log: "tx", Off: t.Off + int64(d), Bytes: append([]byte{}, raw[d:]...)}}})
	}
	n := len(t.Entries)
	// entries the per-entry alterations are applied to: first, last, one in between
	var js []int
	if n > 0 {
		js = append(js, 0)
		if n > 1 {
			js = append(js, n-1)
		}
		if n > 2 {
			js = append(js, 1+rng.Intn(n-2))
		}
	}
	// a foreign entry (from another transaction)
	var foreign *c09Entry
	for id := uint64(1); id <= s.n && foreign == nil; id++ {
		if id != t.ID && len(s.txs[id].Entries) > 0 {
			o := s.txs[id].Entries[rng.Intn(len(s.txs[id].Entries))]
			foreign = &c09Entry{Key: append([]byte{}, o.Key...), VLen: o.VLen, VOff: o.VOff, HVal: o.HVal}
			if h0.Version == 1 {
				foreign.Md = append([]byte{}, o.Md...)
			}
		}
	}
	for _, j := range js {
		p := fmt.Sprintf("e%d.", j)
		cur := t.Entries[j].Md
		// ---- kv metadata
		for _, ms := range c09MdSets() {
			if bytes.Equal(ms.bs, cur) {
				continue
			}
			es := cloneEs()
			es[j].Md = ms.bs
			if len(cur) == 0 {
				add("kvmd", "insert."+ms.class, ms.name, p+"kvmd", h0, es)
			} else {
				add("kvmd", "replace", ms.name, p+"kvmd", h0, es)
			}
		}
		if len(cur) > 0 {
			es := cloneEs()
			es[j].Md = nil
			add("kvmd", "remove", "", p+"kvmd", h0, es)
			// one attribute removed from a combination
			if md, ok := c09KVMdFromBytes(cur); ok && md != nil {
				for _, drop := range []string{"del", "exp", "nonidx"} {
					k := store.NewKVMetadata()
					if md.Deleted() && drop != "del" {
						k.AsDeleted(true)
					}
					if md.IsExpirable() && drop != "exp" {
						if tm, err := md.ExpirationTime(); err == nil {
							k.ExpiresAt(tm)
						}
					}
					if md.NonIndexable() && drop != "nonidx" {
						k.AsNonIndexable(true)
					}
					if nb := k.Bytes(); len(nb) > 0 && !bytes.Equal(nb, cur) {
						es := cloneEs()
						es[j].Md = nb
						add("kvmd", "remove", "attr-"+drop, p+"kvmd", h0, es)
					}
				}
			}
		}
		// ---- key
		key := t.Entries[j].Key
		{
			es := cloneEs()
			es[j].Key = append(append([]byte{}, key...), 'z')
			add("key", "insert", "tail", p+"key", h0, es)
			es = cloneEs()
			es[j].Key = append([]byte{'a'}, key...)
			add("key", "insert", "head", p+"key", h0, es)
			if len(key) > 1 {
				es = cloneEs()
				es[j].Key = append([]byte{}, key[:len(key)-1]...)
				add("key", "remove", "tail", p+"key", h0, es)
				es = cloneEs()
				es[j].Key = append([]byte{}, key[1:]...)
				add("key", "remove", "head", p+"key", h0, es)
			}
			es = cloneEs()
			es[j].Key = nil
			add("key", "remove", "all", p+"key", h0, es)
			for _, k := range s.keys {
				if len(k) != len(key) {
					es = cloneEs()
					es[j].Key = append([]byte{}, k...)
					add("key", "replace", "pool-key", p+"key", h0, es)
					break
				}
			}
		}
		// ---- whole entries
		{
			es := cloneEs()
			es = append(es[:j], es[j+1:]...)
			add("entry", "remove", "", fmt.Sprintf("e%d.entry", j), h0, es)
			es = cloneEs()
			es = append(es, es[j])
			add("entry", "insert", "duplicate", fmt.Sprintf("e%d.entry", j), h0, es)
			if foreign != nil {
				es = cloneEs()
				es = append(es[:j], append([]c09Entry{*foreign}, es[j:]...)...)
				add("entry", "insert", "foreign", fmt.Sprintf("e%d.entry", j), h0, es)
				es = cloneEs()
				es[j] = *foreign
				add("entry", "replace", "foreign", fmt.Sprintf("e%d.entry", j), h0, es)
			}
			if j+1 < n {
				es = cloneEs()
				es[j], es[j+1] = es[j+1], es[j]
				add("entry", "replace", "swap", fmt.Sprintf("e%d.entry", j), h0, es)
			}
		}
	}
	// ---- tx metadata (version 1) and the header version
	extra := func(x string) []byte { return append([]byte{1, 0, byte(len(x))}, x...) }
	trunc := func(id uint64) []byte { return append([]byte{0}, be(8, id)...) }
	if h0.Version == 1 {
		if len(h0.TxMd) == 0 {
			for _, v := range []struct {
				name string
				bs   []byte
			}{{"extra", extra("x")}, {"extra-empty", extra("")}, {"truncated", trunc(1)}, {"truncated+extra", append(trunc(2), extra("yz")...)}} {
				h := h0
				h.TxMd = v.bs
				add("txmd", "insert", v.name, "txmd", h, cloneEs())
			}
		} else {
			h := h0
			h.TxMd = nil
			add("txmd", "remove", "", "txmd", h, cloneEs())
			for _, v := range []struct {
				name string
				bs   []byte
			}{{"extra", extra("other-extra")}, {"truncated", trunc(1)}, {"truncated+extra", append(trunc(3), extra("q")...)}} {
				if bytes.Equal(v.bs, h0.TxMd) {
					continue
				}
				h := h0
				h.TxMd = v.bs
				add("txmd", "replace", v.name, "txmd", h, cloneEs())
			}
		}
		// version 1 -> 0 layout: no tx metadata, 16-bit count; kv metadata kept (must be refused) or dropped
		h := h0
		h.Version, h.TxMd = 0, nil
		add("version", "replace", "1to0", "version", h, cloneEs())
		es := cloneEs()
		for i := range es {
			es[i].Md = nil
		}
		add("version", "replace", "1to0-nokvmd", "version", h, es)
	} else {
		h := h0
		h.Version = 1
		add("version", "replace", "0to1", "version", h, cloneEs())
		h.TxMd = extra("x")
		add("version", "replace", "0to1+txmd", "version", h, cloneEs())
		// a version-0 header cannot carry tx metadata; the closest alteration: the 16-bit count replaced by
		// `txmdLen | txmd | count32` with the version left at 0 is just a different count (covered by num.set)
	}
	return out
}

// restructPhase: every class once (not charged to the budget: the classes are what this stream is for), then
// round-robin over the classes while the budget lasts.
func (cr *c09Runner) restructPhase(rng *hx.Rng, budget time.Duration) {
	s, r := cr.s, cr.r
	byClass := map[string][]c09Mut{}
	for id := uint64(1); id <= s.n; id++ {
		for _, m := range s.restructMutations(s.txs[id], rng.Fork()) {
			byClass[m.Class] = append(byClass[m.Class], m)
		}
	}
	classes := make([]string, 0, len(byClass))
	total := 0
	for c, ms := range byClass {
		classes = append(classes, c)
		total += len(ms)
		// seeded shuffle; then an alteration whose bytes all stay inside the committed extent of the record (the harder
		// test: nothing else in the log is touched) goes first, if the class has one
		for i := len(ms) - 1; i > 0; i-- {
			k := rng.Intn(i + 1)
			ms[i], ms[k] = ms[k], ms[i]
		}
		for i := range ms {
			if ms[i].Tail == "longer-next-bytes-agree" {
				ms[0], ms[i] = ms[i], ms[0]
				break
			}
		}
	}
	sort.Strings(classes)
	r.CountN("restruct.planned."+s.cfg.Name, total)
	r.CountN("restruct.classes."+s.cfg.Name, len(classes))
	start := time.Now()
	for pass := 0; ; pass++ {
		ran := false
		for _, c := range classes {
			ms := byClass[c]
			if pass >= len(ms) {
				continue
			}
			if pass > 0 && time.Since(start) >= budget {
				r.Count("restruct.cut-by-budget." + s.cfg.Name)
				return
			}
			ran = true
			m := ms[pass]
			r.Count("restruct.class." + c)
			r.Count("restruct.tail." + m.Tail)
			if m.Tail == "longer-next-bytes-agree" {
				r.Count(fmt.Sprintf("restruct.inside-committed-extent.v%d", s.txs[m.Tx].Hdr.Version))
			}
			cr.run(m, cr.cases%2 == 0)
			if cr.cases%50 == 0 {
				if err := r.Flush(); err != nil {
					r.Notes = append(r.Notes, "flush: "+err.Error())
					return
				}
			}
		}
		if !ran {
			return
		}
	}
}
