package main

// Replay of a C11/C12/C13 failure file (`./check Cxx quick --replay FILE`): the recorded SQL script is
// executed again on a fresh store (one *SQLTx per "[sN]" session tag, parameters rebuilt from their
// canonical tokens); every statement whose outcome differs from the recorded one is reported, and for
// C11 the two recorded queries are executed and compared again.  A replay that reproduces the recorded
// divergence fails with the recorded signature.

import (
	"crypto/sha1"
	"encoding/hex"
	"encoding/json"
	"fmt"
	"math"
	"os"
	"strconv"
	"strings"
	"time"

	"github.com/codenotary/immudb/embedded/sql"

	"verif/harness/internal/hx"
)

type sqlReplayFile struct {
	Signature string    `json:"signature"`
	Desc      string    `json:"desc"`
	Replay    c11Replay `json:"replay"`
}

func sqlParamFromTok(tok string) (interface{}, bool) {
	switch {
	case tok == "N":
		return nil, true
	case strings.HasPrefix(tok, "i:"):
		i, err := strconv.ParseInt(tok[2:], 10, 64)
		return i, err == nil
	case strings.HasPrefix(tok, "s:"):
		b, err := hex.DecodeString(tok[2:])
		return string(b), err == nil
	case strings.HasPrefix(tok, "x:"):
		b, err := hex.DecodeString(tok[2:])
		return b, err == nil
	case tok == "b:1":
		return true, true
	case tok == "b:0":
		return false, true
	case strings.HasPrefix(tok, "f:"):
		u, err := strconv.ParseUint(tok[2:], 16, 64)
		return math.Float64frombits(u), err == nil
	case strings.HasPrefix(tok, "t:"):
		ps := strings.Split(tok[2:], ":")
		if len(ps) != 2 {
			return nil, false
		}
		s, e1 := strconv.ParseInt(ps[0], 10, 64)
		n, e2 := strconv.ParseInt(ps[1], 10, 64)
		return time.Unix(s, n).UTC(), e1 == nil && e2 == nil
	}
	return nil, false
}

// "SQL   -- @p1=tok @p2=tok (ExecPreparedStmts)   => outcome"
func sqlParseScriptLine(l string) (sess string, q sqlText, recorded string, comment bool) {
	if strings.HasPrefix(l, "[s") {
		if i := strings.Index(l, "] "); i > 0 {
			sess, l = l[1:i], l[i+2:]
		}
	}
	if strings.HasPrefix(l, "--") || strings.HasPrefix(l, "…") {
		return sess, q, "", true
	}
	if i := strings.LastIndex(l, "=>"); i >= 0 {
		recorded = strings.TrimSpace(l[i+2:])
		l = strings.TrimSpace(l[:i])
	}
	l = strings.TrimSuffix(strings.TrimSpace(l), "(ExecPreparedStmts)")
	l = strings.TrimSpace(l)
	if strings.HasSuffix(l, "(Query)") { // executed through Engine.Query (autocommit = read-only transaction)
		l = strings.TrimSpace(strings.TrimSuffix(l, "(Query)"))
		q.ViaQuery = true
	}
	if i := strings.Index(l, "   -- @"); i >= 0 {
		q.Params = map[string]interface{}{}
		for _, pt := range strings.Fields(l[i+6:]) {
			if !strings.HasPrefix(pt, "@") {
				continue
			}
			kv := strings.SplitN(pt[1:], "=", 2)
			if len(kv) == 2 {
				if v, ok := sqlParamFromTok(kv[1]); ok {
					q.Params[kv[0]] = v
					q.PToks = append(q.PToks, pt)
				}
			}
		}
		l = strings.TrimSpace(l[:i])
	}
	q.SQL = l
	return sess, q, recorded, false
}

// recorded outcome of a script line executed through Engine.Query
func sqlQueryOutcome(q sqlQRes) string {
	if q.Err != "" {
		return "ERR " + q.Err
	}
	h := sha1.Sum([]byte(q.bag()))
	return fmt.Sprintf("ok rows=%d #%s", len(q.Rows), hex.EncodeToString(h[:4]))
}

func sqlReplay(r *hx.Result, path string) error {
	b, err := os.ReadFile(path)
	if err != nil {
		return err
	}
	var f sqlReplayFile
	if err := json.Unmarshal(b, &f); err != nil {
		return err
	}
	env, err := sqlOpenEnv("replay")
	if err != nil {
		return err
	}
	defer env.close()
	r.NextCase()
	txs := map[string]*sql.SQLTx{}
	diverged := 0
	for _, line := range f.Replay.Script {
		sess, q, rec, comment := sqlParseScriptLine(line)
		if comment {
			if strings.Contains(line, "close / reopen") {
				if err := env.reopen(); err != nil {
					return err
				}
				txs = map[string]*sql.SQLTx{}
			}
			if strings.Contains(line, "session closed") {
				if tx := txs[sess]; tx != nil {
					tx.Cancel()
					txs[sess] = nil
				}
			}
			continue
		}
		var res sqlXRes
		got := ""
		if q.ViaQuery {
			qr := sqlQuery(env.eng, txs[sess], q)
			res = sqlXRes{Err: qr.Err, Tx: txs[sess]}
			got = sqlQueryOutcome(qr) // row count and fingerprint: a query that succeeds with other rows has diverged
		} else {
			res = sqlExec(env.eng, txs[sess], q)
		}
		txs[sess] = res.Tx
		if got == "" {
			got = "ok"
		}
		if res.Err != "" {
			got = "ERR " + res.Err
		}
		r.OracleChecks++
		if rec != "" && rec != got && !(rec == "" || (rec == "ok" && got == "ok")) {
			if !(strings.HasPrefix(rec, "ER") && strings.HasPrefix(got, "ERR")) && !(rec != "ok" && !strings.HasPrefix(rec, "E") && got == "ERR "+rec) {
				diverged++
				r.Notes = append(r.Notes, fmt.Sprintf("replay: [%s] recorded %q, now %q", q.String(), rec, got))
			}
		}
	}
	r.Eval("replay|"+path, true)
	if f.Replay.Query != "" && f.Replay.Other != "" && strings.HasPrefix(strings.ToUpper(f.Replay.Other), "SELECT") {
		_, qa, _, _ := sqlParseScriptLine(f.Replay.Query)
		_, qb, _, _ := sqlParseScriptLine(f.Replay.Other)
		a, bres := sqlQuery(env.eng, txs[""], qa), sqlQuery(env.eng, txs[""], qb)
		r.OracleChecks++
		if a.bag() != bres.bag() {
			r.Fail(f.Signature, fmt.Sprintf("replayed: [%s] => %s %s VS [%s] => %s %s", qa.String(), a.Err, sqlRowsShow(a.Rows, 12), qb.String(), bres.Err, sqlRowsShow(bres.Rows, 12)), f.Replay)
		} else {
			r.Notes = append(r.Notes, "replay: the two recorded queries now agree")
		}
	} else {
		r.Notes = append(r.Notes, fmt.Sprintf("replay: script executed, %d statement outcomes differ from the recording; recorded failure: %s — %s", diverged, f.Signature, f.Desc))
		if diverged == 0 {
			// same outcomes as when the failure was recorded: the recorded divergence is what the engine still does
			r.Fail(f.Signature, "replayed with identical statement outcomes: "+f.Desc, f.Replay)
		}
	}
	for _, tx := range txs {
		if tx != nil {
			tx.Cancel()
		}
	}
	return nil
}
