package main

// C04 — deterministic recipes of the two cause-level findings of the compaction stage (known_findings.json).
// They use the hook of c04compact.go to put the code under test into the state in which the defect is certain,
// report it under its signature when they see it, and report nothing on a tree where it is repaired.

import (
	"context"
	"errors"
	"fmt"
	"os"
	"path/filepath"
	"regexp"
	"runtime"
	"strings"
	"sync/atomic"
	"time"

	"verif/harness/internal/hx"
)

func c04NewProbeCase(r *hx.Result, cfg c04Cfg, tag string) *c04Case {
	c := &c04Case{r: r, rng: hx.NewRng(7), no: r.NextCase(), cfg: cfg}
	c.defs = c04Layout(cfg.Layout)
	c.ref = newC04Ref(c.defs)
	c.hook = newC04DumpHook()
	c.ops = []string{}
	c.kind = "compact-probe-" + tag
	c.dropped = true // no correspondence lines: the probes are oracle only
	c.dir = hx.TempDir("c04p")
	return c
}

func (c *c04Case) probeCompact(onHit func(hit c04DumpHit)) error {
	done := make(chan error, 1)
	go func() {
		defer func() {
			if p := recover(); p != nil {
				done <- fmt.Errorf("panic in CompactIndexes: %v", p)
			}
		}()
		done <- c.st.CompactIndexes()
	}()
	for {
		select {
		case hit := <-c.hook.hits:
			onHit(hit)
			c.hook.release <- struct{}{}
		case err := <-done:
			c.hook.disarm()
			if err != nil && c.compactErrClass(err) == "other" {
				return err
			}
			return nil
		case <-time.After(60 * time.Second):
			return errors.New("CompactIndexes did not return within 60 s")
		}
	}
}

// (1) restartIndex while the indexing goroutine is inside indexSince (non-adaptive bulk waiting to fill up)
func c04ProbeRestartRace(r *hx.Result) {
	cfg := c04BaseCfg("compact-gate", "default", 4)
	cfg.Adaptive = false
	cfg.TimeoutMs = 1500
	c := c04NewProbeCase(r, cfg, "restart-race")
	defer os.RemoveAll(c.dir)
	defer func() {
		if p := recover(); p != nil {
			c.fail("C04:panic:compact-case", fmt.Sprintf("panic: %v", p))
		}
		if c.st != nil {
			c.st.Close()
		}
	}()
	if err := c.open(); err != nil {
		c.fail("C04:harness:open", err.Error())
		return
	}
	r.Count("compact.probe.restart-race")
	for i := 0; i < 4; i++ { // one full bulk: indexed at once
		if err := c.commitOne(c04Tx{Ents: []c04Ent{ent(fmt.Sprintf("k%d", i), "v")}}, true); err != nil {
			c.fail("C04:harness:compact-case", err.Error())
			return
		}
	}
	if !c.wait() {
		return
	}
	c.op("MaxBulkSize=4, AdaptiveBulkSize=false, BulkPreparationTimeout=1.5s; txs 1..4 committed and indexed (one full bulk); FlushIndexes(0,false)")
	if err := c.st.FlushIndexes(0, false); err != nil {
		c.fail("C04:harness:compact-case", err.Error())
		return
	}
	c.hook.arm(1, false, 0)
	err := c.probeCompact(func(hit c04DumpHit) {
		// tx 5: the indexing goroutine reads it and waits (up to 1.5 s) for tx 6 to fill the bulk
		if err := c.commitOne(c04Tx{Ents: []c04Ent{ent("k5", "v")}}, true); err != nil {
			c.op("commit failed: %v", err)
		}
		// until the indexing goroutine is inside indexSince, waiting for tx 6
		for t0 := time.Now(); time.Since(t0) < 3*time.Second && !c.ownIndexerInsideIndexSince(); {
			time.Sleep(5 * time.Millisecond)
		}
		c.op("dump stopped at %s: tx 5 committed (AsyncCommit), the indexing goroutine is inside indexSince waiting for the bulk to fill; dump released", hit.point)
	})
	if err != nil {
		c.fail(c04SigCompactErr, err.Error())
		return
	}
	c.op("CompactIndexes() returned")
	c.checkRestartRace("after CompactIndexes() returned")
	if c.raceSig == "" {
		r.Count("compact.probe.restart-race.not-observed")
		if os.Getenv("VH_LOG") != "" {
			buf := make([]byte, 1<<20)
			buf = buf[:runtime.Stack(buf, true)]
			for _, l := range strings.Split(string(buf), "\n") {
				if strings.Contains(l, "doIndexing(") || strings.Contains(l, "indexSince(") {
					fmt.Fprintln(os.Stderr, "   ", l)
				}
			}
			fmt.Fprintf(os.Stderr, "foreign %v\nprobe restart-race not observed: %v\n%s\n", c.foreign, c.ops, c04StoreStacks())
		}
	}
}

// (2) restartIndex of the SOURCE index of an injective index, held between Close of the live tree and the reopening
// of the dump, while the injective indexer looks up the previous row version.  The dependent index must not be
// restarted afterwards (its restart would start a new goroutine and hide the loss): CompactIndexes ranges over a map
// in an order the probe first observes (compaction no. 1); when the source comes first, the dependent index is kept
// below the compaction threshold (2) in compaction no. 2 by flushing the source alone (a snapshot at the last tx).
func c04ProbeIndexerGone(r *hx.Result) {
	cfg := c04BaseCfg("compact-gate", "rows+inj", 1)
	cfg.CompactionThld = 2
	c := c04NewProbeCase(r, cfg, "indexer-gone")
	defer os.RemoveAll(c.dir)
	defer func() {
		if p := recover(); p != nil {
			c.fail("C04:panic:compact-case", fmt.Sprintf("panic: %v", p))
		}
		if c.st != nil {
			c.st.Close()
		}
	}()
	if err := c.open(); err != nil {
		c.fail("C04:harness:open", err.Error())
		return
	}
	r.Count("compact.probe.indexer-gone")
	bail := func(err error) { c.fail("C04:harness:compact-case", "indexer-gone probe: "+err.Error()) }
	step := 0
	update := func() bool { // a tx that changes both indexes, indexed, then FlushIndexes
		step++
		if err := c.commitOne(c04Tx{Ents: []c04Ent{ent("r1", fmt.Sprintf("%cv", 'a'+step)), ent("r2", "bv")}}, true); err != nil {
			bail(err)
			return false
		}
		// hub-based wait: settle() takes snapshots at the last tx, which flushes every index
		return c.wait()
	}
	flushAll := func() bool {
		if err := c.st.FlushIndexes(0, false); err != nil {
			bail(err)
			return false
		}
		return true
	}
	for i := 0; i < 3; i++ {
		if !update() || !flushAll() {
			return
		}
	}
	c.op("CompactionThld=2; rows index r + injective index m over r; txs 1..3 (r1, r2) committed, indexed, flushed")
	atomic.StoreInt32(&c.hook.atReopen, 1)
	atomic.StoreInt32(&c.hook.noDump, 1)
	src, dep := c.idxPath(c.defs[0]), c.idxPath(c.defs[1])
	// compaction no. 1 (quiescent): both indexes restart from a dump = one snapshot each
	c.hook.arm(1, false, 0)
	if err := c.probeCompact(func(hit c04DumpHit) {}); err != nil {
		c.fail(c04SigCompactErr, err.Error())
		return
	}
	if !c.settle() { // the dumps are at the last tx, nothing is mutated: settle() flushes nothing
		return
	}
	// flush r alone: r has 2 snapshots again, m stays at the one of its dump = below the threshold
	if !update() {
		return
	}
	snap, err := c.st.SnapshotMustIncludeTxID(context.Background(), c.defs[0].Tgt, c.n)
	if err != nil {
		bail(err)
		return
	}
	snap.Close()
	c.op("CompactIndexes() no. 1 (quiescent); tx %d committed and indexed; snapshot of r at tx %d (flushes r alone: m stays below the compaction threshold)", c.n, c.n)
	// CompactIndexes ranges over a map: when m comes first it is refused (threshold) and nothing happens — again
	depRestarted, held := false, false
	for attempt := 0; attempt < 16 && !held; attempt++ {
		c.hook.arm(1, false, 0)
		err = c.probeCompact(func(hit c04DumpHit) {
			if hit.point != "reopen" {
				return
			}
			if strings.HasPrefix(hit.idxPath, dep+"#") {
				depRestarted = true
				return
			}
			if !strings.HasPrefix(hit.idxPath, src+"#") {
				return
			}
			// the source index is closed and not yet reopened: commit an update of r1; the injective indexer's
			// sourceIndexer.index.GetBetween(r1, 1, n-1) hits the closed tree
			held = true
			if err := c.commitOne(c04Tx{Ents: []c04Ent{ent("r1", "zw")}}, true); err != nil {
				c.op("commit failed: %v", err)
			}
			deadline := time.Now().Add(3 * time.Second)
			for time.Now().Before(deadline) {
				if _, gone := c.indexerGone(); gone {
					break
				}
				time.Sleep(5 * time.Millisecond)
			}
			c.op("CompactIndexes() (attempt %d): restartIndex of the source index r held between Close of the live tree and tbtree.Open of the dump: tx %d (update of r1) committed; restart released", attempt+1, c.n)
		})
		if err != nil {
			c.fail(c04SigCompactErr, err.Error())
			return
		}
	}
	c.op("CompactIndexes() returned (m restarted as well: %v)", depRestarted)
	if !held {
		r.Count("compact.probe.indexer-gone.not-held")
	}
	if c.settle() {
		r.Count("compact.probe.indexer-gone.not-observed")
		if os.Getenv("VH_LOG") != "" {
			fmt.Fprintf(os.Stderr, "probe indexer-gone not observed: %v\n%s\n", c.ops, c04StoreStacks())
		}
	}
}

var c04IndexSinceRe = regexp.MustCompile(`store\.\(\*indexer\)\.indexSince\((0x[0-9a-f]+)`)

// is an indexing goroutine of THIS store inside indexSince, waiting for the next transaction of its bulk?
func (c *c04Case) ownIndexerInsideIndexSince() bool {
	buf := make([]byte, 1<<20)
	buf = buf[:runtime.Stack(buf, true)]
	for _, g := range strings.Split(string(buf), "\n\n") {
		m := c04IndexSinceRe.FindStringSubmatch(g)
		if m != nil && !c.foreign[m[1]] && strings.Contains(g, "watchers.(*WatchersHub).WaitFor") {
			return true
		}
	}
	return false
}

// (3) a synced flush of the indexer discards the first chunk of the node log while a dump that was taken when the
// whole tree lived in that chunk has not read its nodes yet: Compact fails with EOF.  Then the oracle: the index still
// holds the log, a later compaction works.
func c04ProbeDumpDiscard(r *hx.Result) {
	cfg := c04BaseCfg("compact-gate", "default", 1)
	cfg.FlushThld, cfg.SyncThld = 1, 1 // every bulk is flushed and synced: flushTree discards unreferenced chunks
	cfg.CacheSize = 1                  // the dump has to read its nodes from the node log
	cfg.NodeSize = c04RequiredNodeSize(cfg.MaxKeyLen)
	c := c04NewProbeCase(r, cfg, "dump-discard")
	defer os.RemoveAll(c.dir)
	defer func() {
		if p := recover(); p != nil {
			c.fail("C04:panic:compact-case", fmt.Sprintf("panic: %v", p))
		}
		if c.st != nil {
			c.st.Close()
		}
	}()
	if err := c.open(); err != nil {
		c.fail("C04:harness:open", err.Error())
		return
	}
	r.Count("compact.probe.dump-discard")
	bail := func(err error) { c.fail("C04:harness:compact-case", "dump-discard probe: "+err.Error()) }
	chunk0 := filepath.Join(c.idxPath(c.defs[0]), "nodes", "00000000.n")
	size := func() int64 {
		fi, err := os.Stat(chunk0)
		if err != nil {
			return -1
		}
		return fi.Size()
	}
	step := 0
	upd := func() error {
		step++
		return c.commitOne(c04Tx{Ents: []c04Ent{ent(fmt.Sprintf("key-%02d", step%24), fmt.Sprintf("value-%06d-%s", step, strings.Repeat("x", 30)))}}, true)
	}
	// 1. fill the node log to about half of its first chunk (store FileSize = 64 KiB)
	for size() < 28000 && step < 600 {
		if err := upd(); err != nil {
			bail(err)
			return
		}
		if step%8 == 0 && !c.wait() {
			return
		}
	}
	if !c.wait() {
		return
	}
	before := size()
	c.op("FileSize=64KiB, FlushThld=SyncThld=1, MaxNodeSize=%d, cache 1: %d single-key txs over 24 keys committed and indexed; node log of the index = %d bytes, all in chunk 00000000.n", cfg.NodeSize, step, before)
	// 2. the dump is held before it reads its first node
	atomic.StoreInt32(&c.hook.atStart, 1)
	atomic.StoreInt32(&c.hook.noDump, 1)
	c.hook.arm(1, false, 0)
	seen := r.Distribution["compact.result.dump-chunk-discarded"]
	err := c.probeCompact(func(hit c04DumpHit) {
		if hit.point != "dump-start" {
			return
		}
		first := c.n + 1
		for n := 0; n < 1500 && size() >= 0; n++ {
			if err := upd(); err != nil {
				c.op("commit failed: %v", err)
				break
			}
			if n%8 == 7 {
				ctx, cancel := context.WithTimeout(context.Background(), 5*time.Second)
				c.st.WaitForIndexingUpto(ctx, c.n)
				cancel()
			}
		}
		ctx, cancel := context.WithTimeout(context.Background(), 5*time.Second)
		c.st.WaitForIndexingUpto(ctx, c.n)
		cancel()
		c.op("dump of the snapshot held at the top of fullDump (before its first node read); txs %d..%d committed and indexed meanwhile: every leaf rewritten beyond 64 KiB, chunk 00000000.n removed by flushTree: %v; dump released", first, c.n, size() < 0)
	})
	atomic.StoreInt32(&c.hook.atStart, 0)
	if err != nil {
		c.fail(c04SigCompactErr, err.Error())
		return
	}
	if r.Distribution["compact.result.dump-chunk-discarded"] == seen {
		r.Count("compact.probe.dump-discard.not-observed")
	}
	c.collectCompactions(make([]uint64, len(c.defs)))
	// 3. whatever the compaction answered: the index holds the log …
	if !c.settle() {
		return
	}
	if err := c.checkpoint(false); err != nil {
		if err.Error() != "stuck" {
			bail(err)
		}
		return
	}
	// 4. … and a later compaction works
	if err := upd(); err != nil {
		bail(err)
		return
	}
	if !c.wait() {
		return
	}
	if err := c.st.CompactIndexes(); err != nil && c04ErrClass(err) == "other" {
		c.fail(c04SigCompactErr, fmt.Sprintf("CompactIndexes() (quiescent) after a compaction that had failed: %v", err))
		return
	}
	c.op("tx %d committed; CompactIndexes() (quiescent) returned", c.n)
	if !c.settle() {
		return
	}
	if err := c.checkpoint(true); err != nil && err.Error() != "stuck" {
		bail(err)
	}
}

func c04CompactProbes(r *hx.Result) {
	c04ProbeRestartRace(r)
	c04ProbeIndexerGone(r)
	c04ProbeDumpDiscard(r)
}
