package main

// C02: what Open reloads (strengthening for the seeded change c02-a).
//
// (1) The REFERENCE LOG: everything the history ever wrote into the tx log, recorded byte for byte
//     (header bytes + ExportTx bytes, i.e. entries and values) at the moment it was pre-committed,
//     together with the tx that was live at id-1 at that moment (its parent) and whether it is still
//     live (not discarded by DiscardPrecommittedTxsSince, not dropped by an earlier reopen). It is fed
//     from the store's public readers right after every step and knows nothing of the Lean model.
//
// (2) The REOPEN ORACLE: after every close/reopen (or simulated crash + reopen) every tx the store
//     reports — committed AND pre-committed — must
//       R1  carry its own id and, as PrevAlh, the accumulated hash (own implementation, refAlh) of the
//           reloaded tx before it                                         (…:reloaded-tx-wrong-id / -chain-broken)
//       R2  be byte-identical to a tx the history wrote under that id, and that tx must have been
//           written on top of the tx now reloaded before it               (…:reloaded-tx-unknown / -wrong-parent)
//       R3  be the tx that was live under that id when the store was closed (…:committed-tx-replaced for
//           committed ids; …:stale-tx-reloaded for pre-committed ones: the documented "discarding may need
//           to be redone after re-opening the store", root of the known finding C02:history:blroot-wrong).
//
// (3) The STALE-TAIL cases: branch histories over several lives of ONE store. The tx log is never
//     truncated; a discard only moves the in-memory bookkeeping, and Open restarts precommittedTxLogSize
//     right behind the last reloaded tx, so the next life overwrites the records of the abandoned branch
//     IN PLACE. With txs of the same serialized size the overwrite leaves the following stale records
//     intact and aligned right behind the live tail — well-formed records with plausible ids — and the
//     only thing keeping them out of the history is the (id, PrevAlh) test of the reload loop.
//     Generator: lives × rounds of [discard (mostly the whole pending branch, what a replica does when it
//     resynchronises)] [pre-commit a branch of 1..3 txs of the case's fixed shape, a few of another shape]
//     [allow none / some / all] and then close/reopen (sometimes a crash copy), own commits or txs
//     replicated from a twin primary (identical re-replication = a legitimately surviving tail).

import (
	"bytes"
	"crypto/sha256"
	"fmt"
	"os"
	"strings"
	"time"

	"github.com/codenotary/immudb/embedded/store"
)

type c02Node struct {
	id     uint64
	hdr    []byte // TxHeader.Bytes()
	exp    []byte // ExportTx bytes (nil if the values were not readable any more)
	parent *c02Node
	dead   bool // discarded, or not reloaded by an earlier Open
}

type c02RefLog struct {
	nodes map[uint64][]*c02Node // every tx ever written, by id
	live  []*c02Node            // index id-1: what the store holds now (committed, then pre-committed)
}

func (c *c02Case) refLog() *c02RefLog {
	if c.ref == nil {
		c.ref = &c02RefLog{nodes: map[uint64][]*c02Node{}}
	}
	return c.ref
}

func sameNodeBytes(a, b *c02Node) bool {
	if a == nil || b == nil {
		return a == b
	}
	return a.id == b.id && bytes.Equal(a.hdr, b.hdr)
}

// readLive reads tx id (committed or pre-committed) through the public readers.
func (c *c02Case) readLive(id uint64) (h *store.TxHeader, hb, exp []byte, err error) {
	h, err = c.st.ReadTxHeader(id, true, false)
	if err != nil {
		return nil, nil, nil, err
	}
	hb, err = h.Bytes()
	if err != nil {
		return nil, nil, nil, err
	}
	c.hist.mu.Lock()
	trunc := c.hist.truncBelow
	c.hist.mu.Unlock()
	if id >= trunc {
		tx := store.NewTx(c.cfg.maxTxEntries+1, c.cfg.maxKeyLen)
		e := withTimeout(20*time.Second, func() error {
			var e error
			exp, e = c.st.ExportTx(id, true, false, tx)
			return e
		})
		if e != nil {
			exp = nil
		}
	}
	return h, hb, exp, nil
}

func (l *c02RefLog) top() *c02Node {
	if len(l.live) == 0 {
		return nil
	}
	return l.live[len(l.live)-1]
}

// intern returns the node with these bytes and this parent, creating it if the history never wrote it.
func (l *c02RefLog) intern(id uint64, hb, exp []byte, parent *c02Node) *c02Node {
	for _, n := range l.nodes[id] {
		if bytes.Equal(n.hdr, hb) && sameNodeBytes(n.parent, parent) && (n.exp == nil || exp == nil || bytes.Equal(n.exp, exp)) {
			if n.exp == nil {
				n.exp = exp
			}
			return n
		}
	}
	n := &c02Node{id: id, hdr: hb, exp: exp, parent: parent}
	l.nodes[id] = append(l.nodes[id], n)
	return n
}

func (c *c02Case) reloadFail(sig, desc string) {
	if strings.Contains(desc, ": key not found") {
		sig = "C02:history:transient-read-error-key-not-found"
	}
	c.r.Fail(sig, desc, c.replay())
}

// sync brings the reference log up to date after a step of the case.
func (l *c02RefLog) sync(c *c02Case) {
	if c.st == nil || c.closed {
		return
	}
	defer func() {
		if e := recover(); e != nil {
			c.reloadFail("C02:history:panic", fmt.Sprintf("[reflog] %v", e))
		}
	}()
	pid := c.st.LastPrecommittedTxID()
	// discarded
	if uint64(len(l.live)) > pid {
		for _, n := range l.live[pid:] {
			n.dead = true
		}
		l.live = l.live[:pid]
	}
	// the pre-committed txs we know must still be what the store shows (a discard + pre-commit under the
	// same id inside one step would otherwise go unnoticed)
	cid, _ := c.st.CommittedAlh()
	for uint64(len(l.live)) > cid {
		t := l.top()
		h, err := c.st.ReadTxHeader(t.id, true, false)
		if err != nil {
			break
		}
		if hb, _ := h.Bytes(); bytes.Equal(hb, t.hdr) {
			break
		}
		t.dead = true
		l.live = l.live[:len(l.live)-1]
		c.r.Count("reflog.replaced-within-step")
	}
	// written
	for id := uint64(len(l.live)) + 1; id <= pid; id++ {
		_, hb, exp, err := c.readLive(id)
		if err != nil {
			c.reloadFail("C02:precommitted:unreadable", fmt.Sprintf("tx %d (pre-committed id %d): %v", id, pid, err))
			return
		}
		n := l.intern(id, hb, exp, l.top())
		n.dead = false
		l.live = append(l.live, n)
		c.r.Count("reflog.written")
	}
}

// reopened: the oracle over what Open reloaded. crash: the store was not closed (a copy of its files
// was opened), so nothing is known about which branch should have survived: R3 is skipped.
func (l *c02RefLog) reopened(c *c02Case, crash bool) {
	defer func() {
		if e := recover(); e != nil {
			c.reloadFail("C02:history:panic", fmt.Sprintf("[reopen-oracle] %v", e))
		}
	}()
	atClose := l.live
	cid, _ := c.st.CommittedAlh()
	pid := c.st.LastPrecommittedTxID()
	c.r.Eval(fmt.Sprintf("reopen-oracle|crash=%v|committed=%d|precommitted=%d|live-at-close=%d", crash, c02MinI(int(cid), 3), c02MinI(int(pid-cid), 3),
		c02MinI(len(atClose), 3)), pid > 0)
	if pid < cid {
		c.reloadFail("C02:reopen:precommitted-below-committed", fmt.Sprintf("after Open: committed=%d precommitted=%d", cid, pid))
		return
	}
	newLive := make([]*c02Node, 0, pid)
	prevAlh := sha256.Sum256(nil)
	var prev *c02Node
	stale := 0
	for id := uint64(1); id <= pid; id++ {
		c.r.OracleChecks++
		what := "pre-committed"
		if id <= cid {
			what = "committed"
		}
		h, hb, exp, err := c.readLive(id)
		if err != nil {
			c.reloadFail("C02:reopen:reloaded-tx-unreadable", fmt.Sprintf("after Open (committed=%d precommitted=%d): %s tx %d: %v", cid, pid, what, id, err))
			break
		}
		// R1: ids dense, PrevAlh chain (own Alh implementation)
		if h.ID != id {
			c.reloadFail("C02:reopen:reloaded-tx-wrong-id", fmt.Sprintf("after Open: %s tx at id %d carries id %d", what, id, h.ID))
		}
		if h.PrevAlh != prevAlh {
			c.reloadFail("C02:reopen:reloaded-tx-chain-broken", fmt.Sprintf("after Open (committed=%d precommitted=%d): %s tx %d has PrevAlh %x… but the accumulated hash of the reloaded tx %d is %x…",
				cid, pid, what, id, h.PrevAlh[:6], id-1, prevAlh[:6]))
		}
		// R2: provenance
		var node *c02Node
		known := false
		for _, n := range l.nodes[id] {
			if !bytes.Equal(n.hdr, hb) || (n.exp != nil && exp != nil && !bytes.Equal(n.exp, exp)) {
				continue
			}
			known = true
			if sameNodeBytes(n.parent, prev) {
				node = n
				break
			}
		}
		switch {
		case node != nil:
		case known:
			c.reloadFail("C02:reopen:reloaded-tx-wrong-parent", fmt.Sprintf("after Open: %s tx %d was written by the history, but on top of a different tx %d than the one reloaded before it", what, id, id-1))
		default:
			c.reloadFail("C02:reopen:reloaded-tx-unknown", fmt.Sprintf("after Open: %s tx %d is not byte-identical to any tx the history wrote under that id", what, id))
		}
		if node == nil {
			node = l.intern(id, hb, exp, prev)
		}
		// R3: the live one
		if !crash {
			wasLive := int(id) <= len(atClose) && atClose[id-1] == node
			if !wasLive && id <= cid {
				c.reloadFail("C02:reopen:committed-tx-replaced", fmt.Sprintf("after Open: committed tx %d is not the tx that was live under that id when the store was closed", id))
			} else if !wasLive {
				stale++
				c.reloadFail("C02:reopen:stale-tx-reloaded", fmt.Sprintf("after Open (committed=%d precommitted=%d, %d txs live at Close): pre-committed tx %d is a tx that was discarded or dropped before the store was closed (dead=%v)",
					cid, pid, len(atClose), id, node.dead))
			}
		}
		node.dead = false
		newLive = append(newLive, node)
		prev = node
		prevAlh = refAlh(toRefHdr(h))
	}
	for i, n := range atClose {
		if i >= len(newLive) || newLive[i] != n {
			n.dead = true
			c.r.Count("reopen.live-tx-not-reloaded")
		}
	}
	if stale > 0 {
		c.r.Count("reopen.with-stale-reloaded")
	}
	if !crash && int(pid) > len(atClose) {
		// more txs than were live at Close: records lying BEHIND the live tail were parsed and accepted
		c.r.Count("reopen.reloaded-beyond-live-tail")
	}
	c.r.CountN("reopen.reloaded-precommitted", int(pid-cid))
	l.live = newLive
}

// ---------- stale-tail cases ----------

type c02Shape struct{ n, klen, vlen int }

func (c *c02Case) shapedEntries(sh c02Shape) []c02Entry {
	es := make([]c02Entry, sh.n)
	for i := range es {
		c.keyN++
		k := []byte(fmt.Sprintf("%0*d", sh.klen, c.keyN))
		es[i] = c02Entry{key: k[len(k)-sh.klen:], value: c.rng.Bytes(sh.vlen)}
	}
	return es
}

// crashReopen: the files as they are on disk right now are copied and opened (what a kill -9 leaves once
// the page cache is written back). Only done in SYNCED mode, right after the Sync() that follows every step
// there: tx log, commit log and value logs are fsynced, so nothing the history wrote may be missing; what
// the copy lacks compared with a clean Close is the final sync of the binary-linking tree and of the
// indexes (Open then takes the syncBinaryLinking / index catch-up paths). An unsynced store promises
// nothing after a kill (its commit log can even be ahead of its tx log — C03's business), so there the
// life ends with a plain close/reopen. From here on the case is oracle-only: the model has no crash step.
func (c *c02Case) crashReopen() {
	if c.spillRisk {
		return
	}
	if !c.cfg.synced {
		c.opReopen()
		return
	}
	c.r.Count("op.crash-reopen")
	dst := c.dir + "-crash"
	os.RemoveAll(dst)
	err := copyDir(c.dir, dst)
	c.st.Close()
	c.closed = true
	c.drainAll()
	os.RemoveAll(c.dir)
	c.dir = dst
	c.log("crash (files copied while open) + open")
	if err != nil {
		c.r.Count("op.crash-reopen.copy-failed")
		c.st = nil
		return
	}
	c.noCorr = true
	// what was acknowledged from buffers only may be gone (durability is C03's business): the committed
	// history is re-recorded from what the store shows now; the reference log of written txs is kept
	c.hist = &c02Hist{}
	if err := c.open(); err != nil {
		// a torn copy (files copied at different moments) may be refused: not a C02 matter
		c.r.Count("op.crash-reopen.open-refused")
		c.log("open after crash -> %v", err)
		c.st = nil
		return
	}
	c.refLog().reopened(c, true)
	c.after("crash-reopen")
}

// staleTailSetup: what the stale-tail cases have in common. write() pre-commits one tx of the case's shape
// (a few of another shape; in the replica flavour mostly the next tx of the twin primary).
func (c *c02Case) staleTailSetup() (write func(), frontier func() (uint64, uint64), ok bool) {
	c.cfg.ext = true
	c.cfg.embedded = false // with embedded values Open never reloads pre-committed txs
	c.stable = true
	if c.cfg.maxActive < 20 {
		c.cfg.maxActive = 20
	}
	c.repNextOnly = c.prim != nil
	if err := c.open(); err != nil {
		c.r.Fail("C02:harness:open", err.Error(), c.replay())
		return nil, nil, false
	}
	c.corr(fmt.Sprintf("new %s %d", c.cfg.tok(), b2i(c.cfg.ext)), "ok")
	c.after("open")
	shape := c02Shape{n: 1 + c.rng.Intn(2), klen: 4 + c.rng.Intn(4), vlen: c.rng.Intn(c02MinI(c.cfg.maxValueLen, 24) + 1)}
	if shape.n > c.cfg.maxTxEntries {
		shape.n = c.cfg.maxTxEntries
	}
	write = func() {
		if c.st == nil {
			return
		}
		if c.prim != nil && !c.rng.Chance(25) {
			c.opRepPrimary()
			return
		}
		sh := shape
		if c.rng.Chance(10) {
			// another size: the overwrite leaves misaligned garbage behind it
			if c.rng.Bool() {
				sh.klen = 4 + (sh.klen-3)%4
			} else {
				sh.n = 1 + sh.n%c02MinI(c.cfg.maxTxEntries, 3)
			}
			c.r.Count("stale-tail.other-shape")
		}
		c.shapeNext = c.shapedEntries(sh)
		c.opOwn()
	}
	frontier = func() (cid, pid uint64) {
		cid, _ = c.st.CommittedAlh()
		return cid, c.st.LastPrecommittedTxID()
	}
	return write, frontier, true
}

// endLife: close/reopen; sometimes a crash copy instead (from then on the case is oracle-only).
func (c *c02Case) endLife() {
	if c.st == nil {
		return
	}
	switch {
	case c.noCorr && c.rng.Chance(30), !c.noCorr && c.rng.Chance(6):
		c.crashReopen()
	default:
		c.opReopen()
	}
}

// staleTailFinish commits whatever the last Open reloaded, and one tx more: the committed-history oracle
// (chain, BlRoot, TxReader) then sees it as well.
func (c *c02Case) staleTailFinish(write func(), frontier func() (uint64, uint64)) {
	if c.st == nil {
		return
	}
	_, pid := frontier()
	c.doAllow(pid)
	write()
	if c.st == nil {
		return
	}
	_, pid = frontier()
	c.doAllow(pid)
}

// runStaleTail: random branch histories. Every life: 1–2 rounds of [discard] [branch] [allowance]; a life
// often starts by redoing the discard of the life before ("discarding may need to be redone after
// re-opening the store", DiscardPrecommittedTxsSince).
func (c *c02Case) runStaleTail(lives int) {
	defer c.finish()
	write, frontier, ok := c.staleTailSetup()
	if !ok {
		return
	}
	lastDiscard := uint64(0)
	for life := 0; life < lives && c.st != nil; life++ {
		rounds := 1 + c.rng.Intn(2)
		for r := 0; r < rounds && c.st != nil; r++ {
			cid, pid := frontier()
			switch {
			case pid == cid:
			case r == 0 && lastDiscard > cid && lastDiscard <= pid && c.rng.Chance(70):
				c.doDiscard(lastDiscard, "pending")
			case c.rng.Chance(65):
				t := cid + 1
				if c.rng.Chance(40) {
					t = cid + 1 + uint64(c.rng.Intn(int(pid-cid)))
				}
				lastDiscard = t
				c.doDiscard(t, "pending")
			}
			for b := []int{1, 1, 2, 2, 3, 4}[c.rng.Intn(6)]; b > 0; b-- {
				write()
			}
			if c.st == nil {
				return
			}
			cid, pid = frontier()
			switch x := c.rng.Intn(100); {
			case x < 45 || pid == cid:
			case x < 75:
				c.doAllow(pid)
			default:
				c.doAllow(cid + 1 + uint64(c.rng.Intn(int(pid-cid))))
			}
			if c.rng.Chance(6) {
				c.opSync()
			}
		}
		c.endLife()
	}
	c.staleTailFinish(write, frontier)
}

// runStaleTailScript: the resynchronisation workflow of a replica over two restarts, every parameter drawn
// at random. Life 1: [committed prefix] branch A pre-committed, discarded from some point t, branch B
// pre-committed there. Restart (A comes back, B lies behind it). Life 2: the discard is redone (mostly), a
// branch C — mostly shorter than B — is pre-committed in place of B's first records and (mostly) allowed.
// Restart: whatever of B lies behind C is well-formed and aligned if the sizes agree. Then everything that
// was reloaded is committed, and sometimes there is a third restart.
func (c *c02Case) runStaleTailScript() {
	defer c.finish()
	write, frontier, ok := c.staleTailSetup()
	if !ok {
		return
	}
	writeN := func(n int) {
		for ; n > 0 && c.st != nil; n-- {
			write()
		}
	}
	// life 1
	if p := c.rng.Intn(3); p > 0 {
		writeN(p)
		_, pid := frontier()
		c.doAllow(pid)
	}
	writeN(1 + c.rng.Intn(2))
	cid, pid := frontier()
	t := cid + 1
	if pid > cid && c.rng.Chance(35) {
		t = cid + 1 + uint64(c.rng.Intn(int(pid-cid)))
	}
	if pid > cid {
		c.doDiscard(t, "pending")
	}
	b := 2 + c.rng.Intn(4)
	writeN(b)
	if c.rng.Chance(15) {
		cid, pid = frontier()
		if pid > cid {
			c.doAllow(cid + 1 + uint64(c.rng.Intn(int(pid-cid))))
		}
	}
	c.endLife()
	if c.st == nil {
		return
	}
	// life 2
	cid, pid = frontier()
	switch x := c.rng.Intn(100); {
	case pid == cid:
	case x < 90 && t > cid && t <= pid:
		c.doDiscard(t, "pending")
	case x < 96:
		c.doDiscard(cid+1+uint64(c.rng.Intn(int(pid-cid))), "pending")
	}
	j := 1 + c.rng.Intn(b-1)
	if c.rng.Chance(12) {
		j = b + c.rng.Intn(2)
	}
	writeN(j)
	if c.st == nil {
		return
	}
	cid, pid = frontier()
	switch x := c.rng.Intn(100); {
	case pid == cid || x < 10:
	case x < 70:
		c.doAllow(pid)
	default:
		lo := cid + 1
		if t > lo && t <= pid {
			lo = t
		}
		c.doAllow(lo + uint64(c.rng.Intn(int(pid-lo)+1)))
	}
	c.endLife()
	if c.st == nil {
		return
	}
	// life 3
	if c.rng.Chance(60) {
		cid, pid = frontier()
		if pid > cid && c.rng.Chance(50) {
			c.doDiscard(cid+1+uint64(c.rng.Intn(int(pid-cid))), "pending")
		}
		writeN(1 + c.rng.Intn(2))
		if c.st != nil && c.rng.Chance(60) {
			_, pid = frontier()
			c.doAllow(pid)
		}
		c.endLife()
	}
	c.staleTailFinish(write, frontier)
}
