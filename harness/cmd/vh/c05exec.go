package main

// C05 execution layer: transaction programs run against the REAL embedded/store, every read result,
// every snapshot acquisition (index, SnapshotMustIncludeTxID value, snapshot ts) and every commit
// verdict is recorded.  Nothing here knows about the Lean model.

import (
	"bytes"
	"context"
	"errors"
	"fmt"
	"reflect"
	"sort"
	"strconv"
	"strings"
	"sync"
	"unsafe"

	"github.com/codenotary/immudb/embedded/store"

	"verif/harness/internal/hx"
)

// ---------- programs ----------

type c5spec struct {
	Seek, End, Pfx    []byte
	InclSeek, InclEnd bool
	Desc              bool
	Offset            int
	IgnDel            bool
}

type c5op struct {
	Kind string // get pget scan mark set del commit cancel
	Key  []byte // get/set/del key ; pget prefix
	Neq  []byte
	Val  []byte
	Ign  bool
	Spec c5spec
	Segs []int
}

func (s c5spec) tokens(withOffIgn bool) string {
	t := fmt.Sprintf("%s %s %s %s %s %s", hx.Hex(s.Seek), hx.Hex(s.End), hx.Hex(s.Pfx), b01(s.InclSeek), b01(s.InclEnd), b01(s.Desc))
	if withOffIgn {
		t += fmt.Sprintf(" %d %s", s.Offset, b01(s.IgnDel))
	}
	return t
}

// line fragment understood by lean/Driver/C05.lean
func (o c5op) line() string {
	switch o.Kind {
	case "get":
		return fmt.Sprintf("get %s %s", hx.Hex(o.Key), b01(o.Ign))
	case "pget":
		return fmt.Sprintf("pget %s %s %s", hx.Hex(o.Key), hx.Hex(o.Neq), b01(o.Ign))
	case "scan":
		segs := "_"
		if len(o.Segs) > 0 {
			ss := make([]string, len(o.Segs))
			for i, n := range o.Segs {
				ss[i] = strconv.Itoa(n)
			}
			segs = strings.Join(ss, ",")
		}
		return fmt.Sprintf("scan %s %s", o.Spec.tokens(true), segs)
	case "mark":
		return fmt.Sprintf("mark %s", o.Spec.tokens(false))
	case "set":
		return fmt.Sprintf("set %s %s", hx.Hex(o.Key), hx.Hex(o.Val))
	case "del":
		return fmt.Sprintf("del %s", hx.Hex(o.Key))
	}
	return o.Kind
}

func (o c5op) String() string { return o.line() }

// the key / prefix handed to tx.snap()
func (o c5op) snapKey() []byte {
	switch o.Kind {
	case "scan", "mark":
		return o.Spec.Pfx
	case "commit", "cancel":
		return nil
	}
	return o.Key
}

// ---------- recorded facts ----------

type c5row struct {
	Key []byte
	Tx  uint64
	Val []byte
	Del bool
}

func (r c5row) String() string {
	return fmt.Sprintf("%s:%d:%s:%s", hx.Hex(r.Key), r.Tx, hx.Hex(r.Val), b01(r.Del))
}

type c5res struct {
	Kind string // f nf rows ok committed conflict cancelled noentries noindex err
	Row  c5row
	Segs [][]c5row
	ID   uint64
	Err  string
}

func fmtRows(rows []c5row) string {
	if len(rows) == 0 {
		return "_"
	}
	ss := make([]string, len(rows))
	for i, r := range rows {
		ss[i] = r.String()
	}
	return strings.Join(ss, ";")
}

func (r c5res) String() string {
	switch r.Kind {
	case "f":
		return "f " + r.Row.String()
	case "rows":
		if len(r.Segs) == 0 {
			return "rows ."
		}
		ss := make([]string, len(r.Segs))
		for i, s := range r.Segs {
			ss[i] = fmtRows(s)
		}
		return "rows " + strings.Join(ss, "|")
	case "committed":
		return fmt.Sprintf("committed %d", r.ID)
	case "err":
		return "err:" + r.Err
	}
	return r.Kind
}

type c5acq struct {
	Idx     int    // index position
	LastPre uint64 // lastPrecommittedTxID handed to the SnapshotMustIncludeTxID callback
	MI      uint64 // value returned by the callback
	Base    uint64 // ts of the snapshot root that was handed out
}

type c5step struct {
	Op  c5op
	Res c5res
	Acq *c5acq // non-nil when this call acquired a snapshot
	// raw rows seen by the reader wrapper (own rows have Tx 0) — used only to classify oracle failures
}

type c5tx struct {
	ID       int
	Stale    int // -1: default options; otherwise SnapshotMustIncludeTxID returns min(Stale, lastPre)
	Prog     []c5op
	Steps    []c5step
	CommitLo uint64 // LastPrecommittedTxID before / after the Commit call (conflict window)
	CommitHi uint64
	Final    string // committed | conflict | cancelled | noentries | open | err
	CommitID uint64
	SnapTs   []uint64 // Snapshot.Ts() of each held snapshot just before Commit (base or base+1)
	SnapBase []uint64
	SnapPfx  [][]byte
}

// ---------- store ----------

type c5store struct {
	st   *store.ImmuStore
	dir  string
	idxs [][]byte
	mu   sync.Mutex
	// commit log as observed: id -> entries
	log map[uint64][]c5row
}

func c5open(tag string, idxs [][]byte, maxBulk int, synced bool) (*c5store, error) {
	dir := hx.TempDir(tag)
	io := store.DefaultIndexOptions().WithMaxBulkSize(maxBulk).WithMaxActiveSnapshots(200).WithCacheSize(64).
		WithFlushBufferSize(1 << 16).WithMaxBufferedDataSize(1 << 20).WithMaxGlobalBufferedDataSize(1 << 22)
	opts := store.DefaultOptions().WithLogger(quietLogger()).WithMultiIndexing(true).WithIndexOptions(io).
		WithSynced(synced).WithMaxConcurrency(24).WithMaxActiveTransactions(200).WithMaxTxEntries(16).
		WithMaxKeyLen(32).WithMaxValueLen(64).WithVLogCacheSize(0).WithTxLogCacheSize(16).WithWriteBufferSize(1 << 16).
		WithFileSize(1 << 20)
	st, err := store.Open(dir, opts)
	if err != nil {
		return nil, err
	}
	for _, p := range idxs {
		if err := st.InitIndexing(&store.IndexSpec{SourcePrefix: p, TargetPrefix: p}); err != nil {
			st.Close()
			return nil, err
		}
	}
	return &c5store{st: st, dir: dir, idxs: idxs, log: map[uint64][]c5row{}}, nil
}

func (s *c5store) close() {
	s.st.Close()
	removeAll(s.dir)
}

func (s *c5store) idxOf(key []byte) int {
	for i, p := range s.idxs {
		if bytes.HasPrefix(key, p) {
			return i
		}
	}
	return -1
}

// write-only commit (no preconditions, no read-set)
func (s *c5store) wcommit(entries []c5row) (uint64, error) {
	tx, err := s.st.NewWriteOnlyTx(context.Background())
	if err != nil {
		return 0, err
	}
	for _, e := range entries {
		var md *store.KVMetadata
		if e.Del {
			md = store.NewKVMetadata()
			md.AsDeleted(true)
		}
		if err := tx.Set(e.Key, md, e.Val); err != nil {
			tx.Cancel()
			return 0, err
		}
	}
	h, err := tx.Commit(context.Background())
	if err != nil {
		return 0, err
	}
	s.mu.Lock()
	s.log[h.ID] = entries
	s.mu.Unlock()
	return h.ID, nil
}

// force the index's reusable snapshot root (lastSnapRoot) to the current indexed state
func (s *c5store) refreshRoot(idx int) (uint64, error) {
	ctx := context.Background()
	last := s.st.LastCommittedTxID()
	sn, err := s.st.SnapshotMustIncludeTxID(ctx, s.idxs[idx], last)
	if err != nil {
		return 0, err
	}
	ts := sn.Ts()
	sn.Close()
	return ts, nil
}

// ---------- reflection: tx.snapshots (unexported) ----------

func c5snaps(tx *store.OngoingTx) []*store.Snapshot {
	f := reflect.ValueOf(tx).Elem().FieldByName("snapshots")
	if !f.IsValid() {
		return nil
	}
	return reflect.NewAt(f.Type(), unsafe.Pointer(f.UnsafeAddr())).Elem().Interface().([]*store.Snapshot)
}

// ts of the root the snapshot was created from (tbtree.Snapshot.ts = root.ts()+1, constant)
func c5snapBase(s *store.Snapshot) uint64 {
	f := reflect.ValueOf(s).Elem().FieldByName("snap")
	p := reflect.NewAt(f.Type(), unsafe.Pointer(f.UnsafeAddr())).Elem()
	g := p.Elem().FieldByName("ts")
	return reflect.NewAt(g.Type(), unsafe.Pointer(g.UnsafeAddr())).Elem().Uint() - 1
}

func c5snapPrefix(s *store.Snapshot) []byte {
	f := reflect.ValueOf(s).Elem().FieldByName("prefix")
	return reflect.NewAt(f.Type(), unsafe.Pointer(f.UnsafeAddr())).Elem().Bytes()
}

// ---------- running one transaction ----------

type c5runner struct {
	s    *c5store
	rec  *c5tx
	tx   *store.OngoingTx
	last struct {
		called  bool
		lastPre uint64
		mi      uint64
	}
	nsnaps int
}

func (s *c5store) begin(rec *c5tx) (*c5runner, error) {
	r := &c5runner{s: s, rec: rec}
	opts := store.DefaultTxOptions().WithSnapshotMustIncludeTxID(func(lastPre uint64) uint64 {
		mi := lastPre
		if rec.Stale >= 0 && uint64(rec.Stale) < lastPre {
			mi = uint64(rec.Stale)
		}
		r.last.called, r.last.lastPre, r.last.mi = true, lastPre, mi
		return mi
	})
	tx, err := s.st.NewTx(context.Background(), opts)
	if err != nil {
		return nil, err
	}
	r.tx = tx
	rec.Final = "open"
	return r, nil
}

func rowOf(key []byte, v store.ValueRef) (c5row, error) {
	val, err := v.Resolve()
	if err != nil {
		return c5row{}, err
	}
	md := v.KVMetadata()
	return c5row{Key: append([]byte{}, key...), Tx: v.Tx(), Val: val, Del: md != nil && md.Deleted()}, nil
}

func filtersOf(ign bool) []store.FilterFn {
	if ign {
		return []store.FilterFn{store.IgnoreExpired, store.IgnoreDeleted}
	}
	return nil
}

// exec runs one API call and records it; it never panics (a panic of the code under test becomes res.Kind = "panic")
func (r *c5runner) exec(op c5op) (res c5res) {
	ctx := context.Background()
	r.last.called = false
	defer func() {
		if p := recover(); p != nil {
			res = c5res{Kind: "panic", Err: fmt.Sprint(p)}
		}
		st := c5step{Op: op, Res: res}
		if op.Kind != "commit" && op.Kind != "cancel" {
			sn := c5snaps(r.tx)
			if len(sn) > r.nsnaps && r.last.called {
				ns := sn[len(sn)-1]
				st.Acq = &c5acq{Idx: r.s.idxOf(c5snapPrefix(ns)), LastPre: r.last.lastPre, MI: r.last.mi, Base: c5snapBase(ns)}
			}
			r.nsnaps = len(sn)
		}
		r.rec.Steps = append(r.rec.Steps, st)
	}()
	errRes := func(err error) c5res {
		switch {
		case errors.Is(err, store.ErrKeyNotFound):
			return c5res{Kind: "nf"}
		case errors.Is(err, store.ErrIndexNotFound):
			return c5res{Kind: "noindex"}
		case errors.Is(err, store.ErrTxReadConflict):
			return c5res{Kind: "conflict"}
		case errors.Is(err, store.ErrNoEntriesProvided):
			return c5res{Kind: "noentries"}
		case errors.Is(err, store.ErrAlreadyClosed):
			return c5res{Kind: "closed"}
		}
		return c5res{Kind: "err", Err: err.Error()}
	}
	switch op.Kind {
	case "get":
		v, err := r.tx.GetWithFilters(ctx, op.Key, filtersOf(op.Ign)...)
		if err != nil {
			return errRes(err)
		}
		row, err := rowOf(op.Key, v)
		if err != nil {
			return errRes(err)
		}
		return c5res{Kind: "f", Row: row}
	case "pget":
		k, v, err := r.tx.GetWithPrefixAndFilters(ctx, op.Key, op.Neq, filtersOf(op.Ign)...)
		if err != nil {
			return errRes(err)
		}
		row, err := rowOf(k, v)
		if err != nil {
			return errRes(err)
		}
		return c5res{Kind: "f", Row: row}
	case "scan":
		kr, err := r.tx.NewKeyReader(store.KeyReaderSpec{SeekKey: op.Spec.Seek, EndKey: op.Spec.End, Prefix: op.Spec.Pfx,
			InclusiveSeek: op.Spec.InclSeek, InclusiveEnd: op.Spec.InclEnd, DescOrder: op.Spec.Desc,
			Offset: uint64(op.Spec.Offset), Filters: filtersOf(op.Spec.IgnDel)})
		if err != nil {
			return errRes(err)
		}
		defer kr.Close()
		out := c5res{Kind: "rows"}
		for si, n := range op.Segs {
			if si > 0 {
				if err := kr.Reset(); err != nil {
					return errRes(err)
				}
			}
			seg := []c5row{}
			for j := 0; j < n; j++ {
				k, v, err := kr.Read(ctx)
				if errors.Is(err, store.ErrNoMoreEntries) {
					break
				}
				if err != nil {
					return errRes(err)
				}
				row, err := rowOf(k, v)
				if err != nil {
					return errRes(err)
				}
				seg = append(seg, row)
			}
			out.Segs = append(out.Segs, seg)
		}
		return out
	case "mark":
		err := r.tx.MarkPrefixScanned(ctx, store.KeyReaderSpec{SeekKey: op.Spec.Seek, EndKey: op.Spec.End, Prefix: op.Spec.Pfx,
			InclusiveSeek: op.Spec.InclSeek, InclusiveEnd: op.Spec.InclEnd, DescOrder: op.Spec.Desc})
		if err != nil {
			return errRes(err)
		}
		return c5res{Kind: "ok"}
	case "set":
		if err := r.tx.Set(op.Key, nil, op.Val); err != nil {
			return errRes(err)
		}
		return c5res{Kind: "ok"}
	case "del":
		if err := r.tx.Delete(ctx, op.Key); err != nil {
			return errRes(err)
		}
		return c5res{Kind: "ok"}
	case "cancel":
		if err := r.tx.Cancel(); err != nil {
			return errRes(err)
		}
		r.rec.Final = "cancelled"
		return c5res{Kind: "cancelled"}
	case "commit":
		for _, sn := range c5snaps(r.tx) {
			r.rec.SnapTs = append(r.rec.SnapTs, sn.Ts())
			r.rec.SnapBase = append(r.rec.SnapBase, c5snapBase(sn))
			r.rec.SnapPfx = append(r.rec.SnapPfx, append([]byte{}, c5snapPrefix(sn)...))
		}
		r.rec.CommitLo = r.s.st.LastPrecommittedTxID()
		h, err := r.tx.Commit(ctx)
		r.rec.CommitHi = r.s.st.LastPrecommittedTxID()
		if err != nil {
			res := errRes(err)
			r.rec.Final = res.Kind
			return res
		}
		r.rec.Final = "committed"
		r.rec.CommitID = h.ID
		r.s.mu.Lock()
		r.s.log[h.ID] = r.rec.ownAtEnd()
		r.s.mu.Unlock()
		return c5res{Kind: "committed", ID: h.ID}
	}
	return c5res{Kind: "err", Err: "unknown op " + op.Kind}
}

// the write set of the transaction, derived from the program and the recorded results (a del that
// answered nf wrote nothing)
func (t *c5tx) ownAt(upto int) []c5row {
	var own []c5row
	put := func(e c5row) {
		for i := range own {
			if bytes.Equal(own[i].Key, e.Key) {
				own[i] = e
				return
			}
		}
		own = append(own, e)
	}
	for i := 0; i < upto && i < len(t.Steps); i++ {
		st := t.Steps[i]
		if st.Res.Kind != "ok" {
			continue
		}
		switch st.Op.Kind {
		case "set":
			put(c5row{Key: st.Op.Key, Val: st.Op.Val})
		case "del":
			put(c5row{Key: st.Op.Key, Del: true})
		}
	}
	return own
}

func (t *c5tx) ownAtEnd() []c5row { return t.ownAt(len(t.Steps)) }

func c5EntriesTok(es []c5row) string {
	if len(es) == 0 {
		return "_"
	}
	ss := make([]string, len(es))
	for i, e := range es {
		ss[i] = fmt.Sprintf("%s:%s:%s", hx.Hex(e.Key), hx.Hex(e.Val), b01(e.Del))
	}
	return strings.Join(ss, ",")
}

func sortedKeys(keys [][]byte) [][]byte {
	out := append([][]byte{}, keys...)
	sort.Slice(out, func(i, j int) bool { return bytes.Compare(out[i], out[j]) < 0 })
	return out
}
