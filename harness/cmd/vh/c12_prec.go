package main

// C12 — error precedence of one VALUES row: TWO simultaneous defects in one INSERT / UPSERT /
// INSERT … ON CONFLICT DO NOTHING row, so that every statement shows which of the two checks the engine
// reaches first (UpsertIntoStmt.execAt: column loop → CHECK → encodedKey column by column → pkMustExist →
// existing key → doUpsert: encodeRowValue → UNIQUE lookups).  The Lean model (`Dml.insRow`) has to give the
// SAME error class; the Go reference only has to agree that the statement fails.
//
//   * c12Defects / c12ApplyPair: the defects and how they are injected into a generated statement;
//   * bias: every sequential case injects a random pair into about one INSERT-family statement in six
//     (own random stream: the statements of the older modes are unchanged);
//   * runPrecedence: dedicated cases on hand-built schemas (composite key VARCHAR[n]+INTEGER in both orders,
//     AUTO_INCREMENT key, NOT NULL column, bounded VARCHAR, CHECK; one variant with a UNIQUE index) that sweep
//     ALL applicable pairs × the three statement kinds on every seed.

import (
	"bytes"
	"sort"
	"strconv"
	"strings"

	"github.com/codenotary/immudb/embedded/sql"

	"verif/harness/internal/hx"
)

type c12Defect struct {
	name string // class, without column numbers
	cols []int  // columns the defect occupies (two defects of a pair must not share a column)
	do   func(d *dml, row int)
}

func dmlColPos(d *dml, ci int) int {
	for k, c := range d.Cols {
		if c == ci {
			return k
		}
	}
	return -1
}

func dmlDropCol(d *dml, ci int) {
	k := dmlColPos(d, ci)
	if k < 0 {
		return
	}
	d.Cols = append(append([]int{}, d.Cols[:k]...), d.Cols[k+1:]...)
	for r := range d.Rows {
		d.Rows[r] = append(append([]c15Val{}, d.Rows[r][:k]...), d.Rows[r][k+1:]...)
	}
}

// set the value of column ci in row `row`; when the statement does not list the column it is added (the other
// rows get `fill`)
func dmlSetVal(d *dml, row, ci int, v, fill c15Val) {
	k := dmlColPos(d, ci)
	if k < 0 {
		d.Cols = append(d.Cols, ci)
		for r := range d.Rows {
			d.Rows[r] = append(d.Rows[r], fill)
		}
		k = len(d.Cols) - 1
	}
	d.Rows[row][k] = v
}

func c12TooLong(col sqlCol, rng *hx.Rng) c15Val {
	if col.Ty == sql.BLOBType {
		return c15Val{ty: col.Ty, x: bytes.Repeat([]byte{7}, col.MaxLen+1+rng.Intn(2))}
	}
	return c15Val{ty: col.Ty, s: strings.Repeat("x", col.MaxLen+1+rng.Intn(2))}
}

func c12Bounded(col sqlCol) bool {
	return (col.Ty == sql.VarcharType || col.Ty == sql.BLOBType) && col.MaxLen > 0
}

// a valid non-NULL value of the column (CHECK column: a value that satisfies the CHECK)
func c12GoodVal(rng *hx.Rng, sc *sqlSchema, ci int) c15Val {
	col := sc.Cols[ci]
	for try := 0; try < 30; try++ {
		v := sqlGenVal(rng, col, sqlGenOpts{}, true)
		if v.null || !refFits(col, v) {
			continue
		}
		if sc.Check != nil && sc.Check.P.K == "cmp" && sc.Check.P.Col == ci {
			row := make([]c15Val, len(sc.Cols))
			row[ci] = v
			if ok, n, e := sc.Check.P.eval(sc, row); !ok || n || e != "" {
				continue
			}
		}
		return v
	}
	if sc.Check != nil && sc.Check.P.K == "cmp" && sc.Check.P.Col == ci {
		// `col >= k`, `col <> k`, `col < k`
		k := sc.Check.P.V.i
		if sc.Check.P.Op == "<" {
			return c15Val{ty: sql.IntegerType, i: k - 1}
		}
		return c15Val{ty: sql.IntegerType, i: k + 1}
	}
	return sqlGenVal(rng, col, sqlGenOpts{}, true)
}

// the defects applicable to the statement's table in its present state (live rows / high-water mark of the reference)
func c12Defects(rng *hx.Rng, sc *sqlSchema, idx []sqlIdx, live [][]c15Val, maxPK int64) []c12Defect {
	var out []c12Defect
	for _, p := range sc.PK {
		p := p
		col := sc.Cols[p]
		if !col.AutoInc {
			out = append(out, c12Defect{name: "key-omit", cols: []int{p}, do: func(d *dml, row int) { dmlDropCol(d, p) }})
		}
		out = append(out, c12Defect{name: "key-null", cols: []int{p}, do: func(d *dml, row int) {
			dmlSetVal(d, row, p, sqlNull(col.Ty), sqlNull(col.Ty))
		}})
		if c12Bounded(col) {
			out = append(out, c12Defect{name: "key-long", cols: []int{p}, do: func(d *dml, row int) {
				dmlSetVal(d, row, p, c12TooLong(col, rng), c12GoodVal(rng, sc, p))
			}})
		}
	}
	var nn, bounded []int
	for ci, col := range sc.Cols {
		if sc.isPK(ci) || col.AutoInc {
			continue
		}
		if col.NotNull {
			nn = append(nn, ci)
		}
		if c12Bounded(col) {
			bounded = append(bounded, ci)
		}
	}
	if len(nn) > 0 {
		a, b := nn[rng.Intn(len(nn))], nn[rng.Intn(len(nn))]
		out = append(out, c12Defect{name: "nn-omit", cols: []int{a}, do: func(d *dml, row int) { dmlDropCol(d, a) }})
		out = append(out, c12Defect{name: "nn-null", cols: []int{b}, do: func(d *dml, row int) {
			dmlSetVal(d, row, b, sqlNull(sc.Cols[b].Ty), c12GoodVal(rng, sc, b))
		}})
	}
	if len(bounded) > 0 {
		ci := bounded[rng.Intn(len(bounded))]
		out = append(out, c12Defect{name: "val-long", cols: []int{ci}, do: func(d *dml, row int) {
			dmlSetVal(d, row, ci, c12TooLong(sc.Cols[ci], rng), c12GoodVal(rng, sc, ci))
		}})
	}
	if sc.Check != nil && sc.Check.P.K == "cmp" && !sc.isPK(sc.Check.P.Col) {
		ci, k := sc.Check.P.Col, sc.Check.P.V.i
		bad := k - 1 // violates `col >= k`
		switch sc.Check.P.Op {
		case "<>":
			bad = k
		case "<":
			bad = k + int64(rng.Intn(2))
		}
		out = append(out, c12Defect{name: "check", cols: []int{ci}, do: func(d *dml, row int) {
			dmlSetVal(d, row, ci, c15Val{ty: sql.IntegerType, i: bad}, c12GoodVal(rng, sc, ci))
		}})
	}
	if len(live) > 0 {
		lr := live[rng.Intn(len(live))]
		out = append(out, c12Defect{name: "key-exists", cols: append([]int{}, sc.PK...), do: func(d *dml, row int) {
			for _, p := range sc.PK {
				dmlSetVal(d, row, p, lr[p], lr[p])
			}
		}})
		for _, ix := range idx {
			if !ix.Unique {
				continue
			}
			keyed := false
			for _, ci := range ix.Cols {
				if sc.isPK(ci) {
					keyed = true
				}
			}
			if keyed {
				continue
			}
			ix := ix
			ur := live[rng.Intn(len(live))]
			out = append(out, c12Defect{name: "unique-taken", cols: append([]int{}, ix.Cols...), do: func(d *dml, row int) {
				for _, ci := range ix.Cols {
					dmlSetVal(d, row, ci, ur[ci], ur[ci])
				}
			}})
			break
		}
	}
	if sc.autoInc() && maxPK >= 1 {
		p := sc.PK[0]
		isLive := map[int64]bool{}
		for _, r := range live {
			isLive[r[p].i] = true
		}
		for k := maxPK; k >= 1 && k > maxPK-40; k-- {
			if !isLive[k] {
				k := k
				out = append(out, c12Defect{name: "auto-stale", cols: []int{p}, do: func(d *dml, row int) {
					dmlSetVal(d, row, p, c15Val{ty: sql.IntegerType, i: k}, c15Val{ty: sql.IntegerType, i: k})
				}})
				break
			}
		}
	}
	return out
}

func c12Disjoint(a, b c12Defect) bool {
	for _, x := range a.cols {
		for _, y := range b.cols {
			if x == y {
				return false
			}
		}
	}
	return true
}

func c12PairName(a, b c12Defect) string {
	n := []string{a.name, b.name}
	sort.Strings(n)
	return n[0] + "+" + n[1]
}

// all pairs of defects that can be applied together
func c12Pairs(ds []c12Defect) [][2]c12Defect {
	var out [][2]c12Defect
	for i := range ds {
		for j := i + 1; j < len(ds); j++ {
			if ds[i].name != ds[j].name && c12Disjoint(ds[i], ds[j]) {
				out = append(out, [2]c12Defect{ds[i], ds[j]})
			}
		}
	}
	return out
}

// inject the pair into one row of an INSERT-family statement (the statement must list a column before a defect can
// drop it: dropping an unlisted column is the same defect)
func c12ApplyPair(d *dml, row int, p [2]c12Defect) {
	// value defects first, omissions last (an omission removes the column from every row)
	a, b := p[0], p[1]
	if strings.HasSuffix(a.name, "-omit") {
		a, b = b, a
	}
	a.do(d, row)
	b.do(d, row)
}

// bias of the sequential mode: about one INSERT-family statement in six carries a random pair
func (c *c12Case) maybeDoubleDefect(d *dml, pend *refTable) {
	if c.dd == nil || (d.K != "insert" && d.K != "upsert" && d.K != "insert-ocn") || len(d.Rows) == 0 || c.dd.Intn(6) != 0 {
		return
	}
	var live [][]c15Val
	var maxPK int64
	if pend != nil && !(pend.maxPK == -1 && pend.rows == nil) {
		live, maxPK = pend.rows, pend.maxPK
	}
	pairs := c12Pairs(c12Defects(c.dd, c.sc, c.idxLive, live, maxPK))
	if len(pairs) == 0 {
		return
	}
	p := pairs[c.dd.Intn(len(pairs))]
	saveCols, saveRows := append([]int{}, d.Cols...), make([][]c15Val, len(d.Rows))
	for i, r := range d.Rows {
		saveRows[i] = append([]c15Val{}, r...)
	}
	c12ApplyPair(d, c.dd.Intn(len(d.Rows)), p)
	if len(d.Cols) == 0 {
		d.Cols, d.Rows = saveCols, saveRows // `INSERT INTO t() VALUES ()` is a syntax error, not a constraint
		return
	}
	c.r.Count("dd." + c12PairName(p[0], p[1]))
	c.r.Count("dd.injected")
}

// ---------------------------------------------------------------- dedicated cases: the full sweep

func c12PrecedenceSchema(rng *hx.Rng, variant int) *sqlSchema {
	o := sqlGenOpts{}
	sc := &sqlSchema{Name: "t"}
	bounded := func(name string, ty sql.SQLValueType) sqlCol {
		c := sqlNewCol(rng, name, ty, o)
		if c.MaxLen == 0 {
			c.MaxLen = 3
			c.Pool = sqlGenPool(rng, c, o)
		}
		return c
	}
	switch variant % 4 {
	case 1:
		c := sqlNewCol(rng, "id", sql.IntegerType, o)
		c.AutoInc = true
		sc.Cols = append(sc.Cols, c)
		sc.PK = []int{0}
	case 3:
		sc.Cols = append(sc.Cols, sqlNewCol(rng, "k1", sql.IntegerType, o), bounded("k2", []sql.SQLValueType{sql.VarcharType, sql.BLOBType}[rng.Intn(2)]))
		sc.PK = []int{0, 1}
	default:
		sc.Cols = append(sc.Cols, bounded("k1", sql.VarcharType), sqlNewCol(rng, "k2", sql.IntegerType, o))
		sc.PK = []int{0, 1}
	}
	for _, p := range sc.PK {
		if !sc.Cols[p].AutoInc && rng.Intn(3) == 0 {
			sc.Cols[p].NotNull = true
		}
	}
	nn := sqlNewCol(rng, "nn", []sql.SQLValueType{sql.IntegerType, sql.BooleanType, sql.TimestampType}[rng.Intn(3)], o)
	nn.NotNull = true
	vs := bounded("vs", []sql.SQLValueType{sql.VarcharType, sql.BLOBType}[rng.Intn(2)])
	ck := sqlNewCol(rng, "ck", sql.IntegerType, o)
	opt := sqlNewCol(rng, "o", sqlColTypes[rng.Intn(len(sqlColTypes))], o)
	sc.Cols = append(sc.Cols, nn, vs, ck, opt)
	ckI := len(sc.Cols) - 2
	sc.Check = &sqlCheck{P: &pexp{K: "cmp", Col: ckI, Op: []string{">=", "<>", "<"}[rng.Intn(3)], V: c15Val{ty: sql.IntegerType, i: int64(rng.Intn(5)) - 1}}}
	if variant%4 == 2 {
		vsI := len(sc.Cols) - 3
		sc.Cols[vsI].MaxLen = 8 // room for distinct values
		sc.Cols[vsI].Pool = sqlGenPool(rng, sc.Cols[vsI], o)
		sc.Idx = []sqlIdx{{Cols: []int{vsI}, Unique: true}} // UNIQUE (vs)
	}
	return sc
}

// a valid single-row statement with a key that is not in the table
func (c *c12Case) precBase(kind string, fresh *int64) *dml {
	sc := c.sc
	d := &dml{K: kind}
	var row []c15Val
	for ci, col := range sc.Cols {
		if col.AutoInc {
			continue // generated
		}
		v := c12GoodVal(c.rng, sc, ci)
		if sc.isPK(ci) && col.Ty == sql.IntegerType {
			*fresh++
			v = c15Val{ty: sql.IntegerType, i: 1000 + *fresh}
		}
		for _, ix := range c.idxLive {
			if ix.Unique && len(ix.Cols) == 1 && ix.Cols[0] == ci {
				// a value no other row holds (the UNIQUE column must not add a third defect)
				*fresh++
				u := "u" + strconv.FormatInt(*fresh, 36)
				if col.Ty == sql.BLOBType {
					v = c15Val{ty: col.Ty, x: []byte(u)}
				} else {
					v = c15Val{ty: col.Ty, s: u}
				}
			}
		}
		d.Cols = append(d.Cols, ci)
		row = append(row, v)
	}
	d.Rows = [][]c15Val{row}
	return d
}

func (c *c12Case) runPrecedence(thorough bool, variant int) {
	r, rng := c.r, c.rng
	r.NextCase()
	c.sc = c12PrecedenceSchema(rng, variant)
	if !c.setupSchema("c12p") {
		return
	}
	defer c.env.close()
	r.Count("mode.precedence")
	c.corr = true
	if len(c.idxLive) > 0 {
		c.single = true
		r.Count("corr.single-row")
	} else {
		r.Count("corr.full")
	}
	c.r.Corr("c12 tbl "+c12SchemaToks(c.sc, c.idxLive), "ok")
	var fresh int64
	run := func(d *dml) {
		c.forced = d
		c.unit()
		c.forced = nil
	}
	// a few rows, one of them deleted again (stale auto-increment key, deleted UNIQUE entry)
	for i := 0; i < 5; i++ {
		run(c.precBase("insert", &fresh))
	}
	if len(c.ref.rows) > 1 {
		victim := c.ref.rows[rng.Intn(len(c.ref.rows))]
		var p *pexp
		for _, ci := range c.sc.PK {
			a := &pexp{K: "cmp", Col: ci, Op: "=", V: victim[ci]}
			if p == nil {
				p = a
			} else {
				p = &pexp{K: "and", L: p, R: a}
			}
		}
		run(&dml{K: "delete", Where: p})
	}
	rounds := 1
	if thorough {
		rounds = 3
	}
	for round := 0; round < rounds; round++ {
		for _, kind := range []string{"insert", "upsert", "insert-ocn"} {
			// the set of pairs is recomputed per statement (live rows change when an UPSERT pair happens to be valid)
			n := len(c12Pairs(c12Defects(rng, c.sc, c.idxLive, c.ref.rows, c.ref.maxPK)))
			for k := 0; k < n; k++ {
				pairs := c12Pairs(c12Defects(rng, c.sc, c.idxLive, c.ref.rows, c.ref.maxPK))
				if k >= len(pairs) {
					break
				}
				d := c.precBase(kind, &fresh)
				c12ApplyPair(d, 0, pairs[k])
				if len(d.Cols) == 0 {
					continue
				}
				if rng.Bool() {
					rngShuffle(rng, len(d.Cols), func(i, j int) {
						d.Cols[i], d.Cols[j] = d.Cols[j], d.Cols[i]
						d.Rows[0][i], d.Rows[0][j] = d.Rows[0][j], d.Rows[0][i]
					})
				}
				r.Count("dd." + c12PairName(pairs[k][0], pairs[k][1]))
				r.Count("dd.sweep")
				run(d)
			}
		}
	}
	if len(r.Samples) < 4 {
		r.Sample(map[string]interface{}{"case": r.Case(), "mode": "precedence", "schema": c.sc.createTable("t"), "script_tail": c.script[max(0, len(c.script)-6):]})
	}
}
