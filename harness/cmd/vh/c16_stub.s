// Intentionally empty: its presence lets the compiler accept the body-less //go:linkname
// declarations in c16.go (access to unexported decoders of embedded/store).
