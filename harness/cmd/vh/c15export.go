// C15 — the exported-transaction codec (ExportTx -> frame -> ReplicateTx) on REAL stores.
//
// Every case is a primary store (header version 0/1, embedded values / value logs / value logs with small
// files + TruncateUptoTx) holding transactions of 1..MaxTxEntries entries. Each entry draws independently
//   - its KV metadata: none, non-nil but empty, deleted, expirable, non-indexable and every combination,
//   - its value: empty, one byte, maximal, boundary-biased size,
//
// so a transaction MIXES entries with and without metadata in every order. The transactions are exported
// in a random order through ONE shared holder (as the replication server does) and, on some stores, twice.
//
// Oracle (model independent): the bytes ExportTx returns are parsed by c15xParse — the harness's own parser
// of the documented frame, written against the format, not against the code — and must equal the committed
// transaction: header field by field, per entry the key, the KV metadata bytes EXACTLY (expected bytes from
// the harness's own serialiser c15xWantMd; absent stays absent), and the value (or its SHA-256 when the
// transaction was truncated). The same bytes replicated into an empty replica (ReplicateTx in id order) must
// be accepted and give the same Alh, keys, metadata, value hashes and values; the replica's own ExportTx
// must return the same bytes again.
//
// Correspondence: the COMMITTED transaction (literal inputs + the header Commit returned) is encoded by the
// Lean `exportTx` (`c15 xp.enc`) and must give the bytes of the real ExportTx; the Lean `parseExported` of
// those bytes (`c15 xp.dec`) must give what the replica stored.
package main

import (
	"bytes"
	"context"
	"crypto/sha256"
	"encoding/binary"
	"errors"
	"fmt"
	"io"
	"math"
	"os"
	"path/filepath"
	"strings"
	"time"

	"github.com/codenotary/immudb/embedded/store"

	"verif/harness/internal/hx"
)

// ---------------------------------------------------------------- the harness's own view of the format

// documented attribute codes of KVMetadata (embedded/store/kv_metadata.go)
const (
	c15xDeletedCode      = 0
	c15xExpiresAtCode    = 1
	c15xNonIndexableCode = 2
)

type c15xMdSpec struct {
	present      bool // md != nil
	deleted      bool
	expirable    bool
	expiresAt    int64
	nonIndexable bool
}

func (m c15xMdSpec) kind() string {
	if !m.present {
		return "none"
	}
	var p []string
	if m.deleted {
		p = append(p, "deleted")
	}
	if m.expirable {
		p = append(p, "expirable")
	}
	if m.nonIndexable {
		p = append(p, "nonindexable")
	}
	if len(p) == 0 {
		return "empty-non-nil"
	}
	return strings.Join(p, "+")
}

// tok: the token of the Lean driver (`-` = nil, `d:x:ni`).
func (m c15xMdSpec) tok() string {
	if !m.present {
		return "-"
	}
	x := "-"
	if m.expirable {
		x = fmt.Sprintf("%d", m.expiresAt)
	}
	return fmt.Sprintf("%s:%s:%s", c15x01(m.deleted), x, c15x01(m.nonIndexable))
}

func c15x01(b bool) string {
	if b {
		return "1"
	}
	return "0"
}

// c15xWantMd: the serialisation the format documents (attributes in code order; expiresAt = code + 8-byte
// big-endian unix seconds). nil = nothing is written (mdLen = 0).
func (m c15xMdSpec) wantBytes() []byte {
	if !m.present {
		return nil
	}
	var b []byte
	if m.deleted {
		b = append(b, c15xDeletedCode)
	}
	if m.expirable {
		var t [8]byte
		binary.BigEndian.PutUint64(t[:], uint64(m.expiresAt))
		b = append(append(b, c15xExpiresAtCode), t[:]...)
	}
	if m.nonIndexable {
		b = append(b, c15xNonIndexableCode)
	}
	return b
}

func (m c15xMdSpec) build() *store.KVMetadata {
	if !m.present {
		return nil
	}
	md := store.NewKVMetadata()
	if m.deleted {
		md.AsDeleted(true)
	}
	if m.expirable {
		md.ExpiresAt(time.Unix(m.expiresAt, 0))
	}
	if m.nonIndexable {
		md.AsNonIndexable(true)
	}
	return md
}

func c15xMdTokOf(md *store.KVMetadata) string {
	if md == nil {
		return "-"
	}
	x := "-"
	if md.IsExpirable() {
		t, _ := md.ExpirationTime()
		x = fmt.Sprintf("%d", t.Unix())
	}
	return fmt.Sprintf("%s:%s:%s", c15x01(md.Deleted()), x, c15x01(md.NonIndexable()))
}

type c15xEntry struct {
	key []byte
	md  c15xMdSpec
	val []byte
}

type c15xTx struct {
	id      uint64
	entries []c15xEntry
	hdr     *store.TxHeader // what Commit returned
	alh     [32]byte
	exp     []byte // ExportTx bytes (nil: not exportable)
	trunc   bool   // exported by digest
}

// frame as parsed by the harness
type c15xFrameEntry struct {
	key, md, payload []byte // md == nil <=> mdLen == 0
}

type c15xFrame struct {
	id, blTxID       uint64
	ts               int64
	prevAlh, eh, blr [32]byte
	version          int
	txmd             []byte
	nentries         int
	entries          []c15xFrameEntry
	trunc            bool
}

// c15xParse: independent parser of
//
//	hdrLen(4) hdr { kLen(2) key mdLen(2) md vLen(4) value|digest }*nentries tLen(2)=1 flag(1)
//	hdr = id(8) prevAlh(32) ts(8) version(2) [v0: nentries(2)] [v1: mdLen(2) md nentries(4)] eh(32) blTxID(8) blRoot(32)
func c15xParse(b []byte) (f *c15xFrame, err error) {
	pos := 0
	need := func(n int, what string) error {
		if n < 0 || len(b)-pos < n {
			return fmt.Errorf("%s: need %d bytes at offset %d, frame has %d", what, n, pos, len(b))
		}
		return nil
	}
	u16 := func(what string) (int, error) {
		if e := need(2, what); e != nil {
			return 0, e
		}
		v := int(b[pos])<<8 | int(b[pos+1])
		pos += 2
		return v, nil
	}
	u32 := func(what string) (int, error) {
		if e := need(4, what); e != nil {
			return 0, e
		}
		v := int(b[pos])<<24 | int(b[pos+1])<<16 | int(b[pos+2])<<8 | int(b[pos+3])
		pos += 4
		return v, nil
	}
	u64 := func(what string) (uint64, error) {
		if e := need(8, what); e != nil {
			return 0, e
		}
		var v uint64
		for k := 0; k < 8; k++ {
			v = v<<8 | uint64(b[pos+k])
		}
		pos += 8
		return v, nil
	}
	take := func(n int, what string) ([]byte, error) {
		if e := need(n, what); e != nil {
			return nil, e
		}
		v := append([]byte{}, b[pos:pos+n]...)
		pos += n
		return v, nil
	}
	f = &c15xFrame{}
	hdrLen, err := u32("hdrLen")
	if err != nil {
		return nil, err
	}
	if err = need(hdrLen, "header"); err != nil {
		return nil, err
	}
	hdrEnd := pos + hdrLen
	if f.id, err = u64("hdr.id"); err != nil {
		return nil, err
	}
	var x []byte
	if x, err = take(32, "hdr.prevAlh"); err != nil {
		return nil, err
	}
	copy(f.prevAlh[:], x)
	var ts uint64
	if ts, err = u64("hdr.ts"); err != nil {
		return nil, err
	}
	f.ts = int64(ts)
	if f.version, err = u16("hdr.version"); err != nil {
		return nil, err
	}
	switch f.version {
	case 0:
		if f.nentries, err = u16("hdr.nentries"); err != nil {
			return nil, err
		}
	case 1:
		var l int
		if l, err = u16("hdr.mdLen"); err != nil {
			return nil, err
		}
		if f.txmd, err = take(l, "hdr.md"); err != nil {
			return nil, err
		}
		if f.nentries, err = u32("hdr.nentries"); err != nil {
			return nil, err
		}
	default:
		return nil, fmt.Errorf("hdr.version %d", f.version)
	}
	if x, err = take(32, "hdr.eh"); err != nil {
		return nil, err
	}
	copy(f.eh[:], x)
	if f.blTxID, err = u64("hdr.blTxID"); err != nil {
		return nil, err
	}
	if x, err = take(32, "hdr.blRoot"); err != nil {
		return nil, err
	}
	copy(f.blr[:], x)
	if pos != hdrEnd {
		return nil, fmt.Errorf("header: declared %d bytes, fields take %d", hdrLen, hdrLen-(hdrEnd-pos))
	}
	for e := 0; e < f.nentries; e++ {
		var fe c15xFrameEntry
		var l int
		if l, err = u16(fmt.Sprintf("entry %d kLen", e)); err != nil {
			return nil, err
		}
		if fe.key, err = take(l, fmt.Sprintf("entry %d key", e)); err != nil {
			return nil, err
		}
		if l, err = u16(fmt.Sprintf("entry %d mdLen", e)); err != nil {
			return nil, err
		}
		if l > 0 {
			if fe.md, err = take(l, fmt.Sprintf("entry %d md", e)); err != nil {
				return nil, err
			}
		}
		if l, err = u32(fmt.Sprintf("entry %d vLen", e)); err != nil {
			return nil, err
		}
		if fe.payload, err = take(l, fmt.Sprintf("entry %d value", e)); err != nil {
			return nil, err
		}
		f.entries = append(f.entries, fe)
	}
	tl, err := u16("trailer length")
	if err != nil {
		return nil, err
	}
	if tl != 1 {
		return nil, fmt.Errorf("trailer length %d", tl)
	}
	fl, err := take(1, "trailer flag")
	if err != nil {
		return nil, err
	}
	if fl[0] > 1 {
		return nil, fmt.Errorf("trailer flag %d", fl[0])
	}
	f.trunc = fl[0] == 1
	if pos != len(b) {
		return nil, fmt.Errorf("%d bytes after the trailer", len(b)-pos)
	}
	return f, nil
}

// ---------------------------------------------------------------- generators

func c15xGenMd(rng *hx.Rng, ver int) c15xMdSpec {
	if ver == 0 { // version-0 headers cannot carry kv-metadata: nil or non-nil-but-empty
		if rng.Chance(80) {
			return c15xMdSpec{}
		}
		return c15xMdSpec{present: true}
	}
	k := rng.Intn(100)
	m := c15xMdSpec{present: true}
	exp := func() {
		m.expirable = true
		m.expiresAt = []int64{0, 1, -1, 1 << 32, math.MaxInt64, math.MinInt64, int64(1_600_000_000 + rng.Intn(400_000_000)), int64(rng.U64())}[rng.Intn(8)]
		switch v := rng.Intn(100); {
		case v < 35: // already expired when read back (ReadValue refuses such entries; ExportTx must not care)
			m.expiresAt = int64(1_600_000_000 + rng.Intn(100_000_000))
		case v < 75: // not yet expired
			m.expiresAt = int64(4_000_000_000 + rng.Intn(1_000_000_000))
		}
	}
	switch {
	case k < 34:
		return c15xMdSpec{}
	case k < 40:
		return m // non-nil, no attribute
	case k < 52:
		m.deleted = true
	case k < 64:
		exp()
	case k < 76:
		m.nonIndexable = true
	case k < 82:
		m.deleted = true
		exp()
	case k < 88:
		m.deleted = true
		m.nonIndexable = true
	case k < 94:
		exp()
		m.nonIndexable = true
	default:
		m.deleted = true
		exp()
		m.nonIndexable = true
	}
	return m
}

type c15xSpec struct {
	ver    int
	mode   int // 0 embedded values, 1 value logs, 2 value logs with small files + TruncateUptoTx
	maxEnt int
	maxKey int
	maxVal int
	nTx    int
}

func (sp c15xSpec) label() string {
	return fmt.Sprintf("v%d.%s", sp.ver, []string{"embedded", "vlog", "truncated"}[sp.mode])
}

func (sp c15xSpec) String() string {
	return fmt.Sprintf("%s maxEnt=%d maxKey=%d maxVal=%d nTx=%d", sp.label(), sp.maxEnt, sp.maxKey, sp.maxVal, sp.nTx)
}

func (sp c15xSpec) options(clock *int64, embedded bool) *store.Options {
	o := store.DefaultOptions().WithSynced(false).WithMaxConcurrency(2).WithWriteTxHeaderVersion(sp.ver).
		WithLogger(quietLogger()).WithMaxValueLen(sp.maxVal).WithMaxKeyLen(sp.maxKey).WithMaxTxEntries(sp.maxEnt).
		WithEmbeddedValues(embedded).
		// the default write buffers (4 MB per log, 16 MB per hash-tree log) make Open zero ~60 MB: most of a case's time
		WithWriteBufferSize(1 << 16).WithAHTOptions(store.DefaultAHTOptions().WithWriteBufferSize(1 << 16))
	if clock != nil {
		o = o.WithTimeFunc(func() time.Time { *clock++; return time.Unix(1_700_000_000+*clock, 0) })
	}
	return o
}

func c15xGenTx(rng *hx.Rng, sp c15xSpec, k int) []c15xEntry {
	ne := 1
	switch rng.Intn(5) {
	case 0:
		ne = 1
	case 1:
		ne = sp.maxEnt
	case 2:
		ne = 2 + rng.Intn(3)
	default:
		ne = 1 + rng.Intn(sp.maxEnt)
	}
	if ne > sp.maxEnt {
		ne = sp.maxEnt
	}
	pool := [][]byte{[]byte("a"), {0}, {0xff, 0x00}, bytes.Repeat([]byte("K"), sp.maxKey)}
	used := map[string]bool{}
	var es []c15xEntry
	for e := 0; e < ne; e++ {
		var key []byte
		if rng.Chance(25) {
			key = pool[rng.Intn(len(pool))]
		} else {
			key = []byte(fmt.Sprintf("k%d.%d.", k, e))
			if room := sp.maxKey - len(key); room > 0 {
				key = append(key, rng.Bytes(rng.Intn(room+1))...)
			}
		}
		if used[string(key)] {
			key = []byte(fmt.Sprintf("u%d.%d", k, e))
		}
		used[string(key)] = true
		var val []byte
		switch sp.mode {
		case 2: // values must fill value-log files; the first transactions carry no empty value
			if k > 2 && rng.Chance(8) {
				val = nil
			} else {
				val = rng.Bytes(30 + rng.Intn(sp.maxVal-29))
			}
		default:
			switch v := rng.Intn(100); {
			case v < 15:
				val = nil
			case v < 25:
				val = rng.Bytes(1)
			case v < 35:
				val = rng.Bytes(sp.maxVal)
			default:
				val = rng.Bytes(rng.Size(sp.maxVal))
			}
		}
		es = append(es, c15xEntry{key: key, md: c15xGenMd(rng, sp.ver), val: val})
	}
	return es
}

// ---------------------------------------------------------------- calls into the code under test (panic safe)

func c15xExport(st *store.ImmuStore, id uint64, skip bool, holder *store.Tx) (b []byte, err error, panicked string) {
	defer func() {
		if e := recover(); e != nil {
			panicked = fmt.Sprint(e)
		}
	}()
	b, err = st.ExportTx(id, false, skip, holder)
	if b != nil {
		b = append([]byte{}, b...)
	}
	return
}

func c15xReplicate(st *store.ImmuStore, b []byte) (h *store.TxHeader, err error, panicked string) {
	defer func() {
		if e := recover(); e != nil {
			panicked = fmt.Sprint(e)
		}
	}()
	ctx, cancel := context.WithTimeout(context.Background(), 20*time.Second)
	defer cancel()
	h, err = st.ReplicateTx(ctx, b, false, false)
	return
}

func c15xHdrArg(h *store.TxHeader) string {
	mdArg := "nil - none"
	if h.Metadata != nil {
		mdArg = "md " + c15MdTok(h.Metadata)
	}
	return fmt.Sprintf("%d %d %d %s %s %d %s %d %s", h.ID, h.Ts, h.BlTxID, hx.Hex(h.BlRoot[:]), hx.Hex(h.PrevAlh[:]), h.Version, mdArg, h.NEntries, hx.Hex(h.Eh[:]))
}

// c15xHdrTokNorm: as c15HdrTok; a non-nil metadata without attributes is serialised like nil.
func c15xHdrTokNorm(h *store.TxHeader) string {
	c := *h
	if c.Metadata != nil {
		if b, cls := c15TxmdBytes(c.Metadata); cls == "ok" && len(b) == 0 {
			c.Metadata = nil
		}
	}
	return c15HdrTok(&c)
}

func c15xTxReplay(sp c15xSpec, t *c15xTx) map[string]interface{} {
	var es []string
	for _, e := range t.entries {
		es = append(es, fmt.Sprintf("Set(key=%s, md=%s, value[%d]=%s)", hx.Hex(e.key), e.md.kind()+"("+e.md.tok()+")", len(e.val), c15xShort(hx.Hex(e.val))))
	}
	rp := map[string]interface{}{"kind": "export", "store": sp.String(), "tx": t.id, "entries": es,
		"then": fmt.Sprintf("ExportTx(%d, false, false, holder)", t.id)}
	if t.exp != nil {
		rp["exported"] = c15xShort(hx.Hex(t.exp))
	}
	return rp
}

func c15xShort(s string) string {
	if len(s) > 600 {
		return s[:600] + fmt.Sprintf("…(%d hex digits)", len(s))
	}
	return s
}

// ---------------------------------------------------------------- one store

func c15xLap(r *hx.Result, what string, t *time.Time) {
	prev, _ := r.Extra["export_lap_"+what].(float64)
	r.Extra["export_lap_"+what] = prev + time.Since(*t).Seconds()
	*t = time.Now()
}

func c15ExportStore(r *hx.Result, rng *hx.Rng, sp c15xSpec) {
	lap := time.Now()
	defer c15xLap(r, "close", &lap)
	r.NextCase()
	r.Count("xp.store." + sp.label())
	dir := hx.TempDir("c15x")
	defer os.RemoveAll(dir)
	var clock int64
	opts := sp.options(&clock, sp.mode == 0)
	if sp.mode == 2 {
		opts = opts.WithFileSize(256 << rng.Intn(2)).WithMaxIOConcurrency(1)
	} else {
		opts = opts.WithFileSize(1 << (10 + rng.Intn(8)))
	}
	st, err := store.Open(filepath.Join(dir, "p"), opts)
	if err != nil {
		r.Inconclusive = append(r.Inconclusive, "c15 export: store.Open: "+err.Error())
		return
	}
	defer st.Close()
	ctx := context.Background()
	c15xLap(r, "open", &lap)

	// ---- commit
	txs := []*c15xTx{nil}
	for k := 1; k <= sp.nTx; k++ {
		es := c15xGenTx(rng, sp, k)
		otx, err := st.NewWriteOnlyTx(ctx)
		if err != nil {
			r.Inconclusive = append(r.Inconclusive, "c15 export: NewWriteOnlyTx: "+err.Error())
			return
		}
		for _, e := range es {
			if err := otx.Set(e.key, e.md.build(), e.val); err != nil {
				r.Inconclusive = append(r.Inconclusive, fmt.Sprintf("c15 export: Set(%s): %v", sp, err))
				otx.Cancel()
				return
			}
		}
		if sp.ver == 1 && rng.Chance(25) {
			md := store.NewTxMetadata()
			if rng.Chance(70) {
				md.WithExtra(rng.Bytes(1 + rng.Size(60)))
			}
			if rng.Chance(40) {
				md.WithTruncatedTxID(uint64(1 + rng.Intn(k)))
			}
			otx.WithMetadata(md)
			r.Count("xp.tx.txmetadata")
		}
		hdr, err := otx.Commit(ctx)
		if err != nil {
			r.Inconclusive = append(r.Inconclusive, fmt.Sprintf("c15 export: Commit(%s): %v", sp, err))
			return
		}
		t := &c15xTx{id: hdr.ID, entries: es, hdr: hdr, alh: hdr.Alh()}
		txs = append(txs, t)
		c15xCountTx(r, t)
	}
	if sp.mode == 2 {
		upto := uint64(sp.nTx - rng.Intn(2))
		if err := st.TruncateUptoTx(upto); err != nil {
			r.Inconclusive = append(r.Inconclusive, fmt.Sprintf("c15 export: TruncateUptoTx(%d): %v", upto, err))
			return
		}
		r.Count("xp.store.truncated-upto")
	}

	c15xLap(r, "commit", &lap)
	// ---- export in a random order through one shared holder
	holder := store.NewTx(sp.maxEnt, sp.maxKey)
	rd := store.NewTx(sp.maxEnt, sp.maxKey)
	order := make([]int, sp.nTx)
	for i := range order {
		order[i] = i + 1
	}
	for i := len(order) - 1; i > 0; i-- {
		j := rng.Intn(i + 1)
		order[i], order[j] = order[j], order[i]
	}
	for _, k := range order {
		c15xCheckExport(r, rng, sp, st, txs[k], holder, rd)
	}
	if rng.Chance(40) { // a second pass, other order: the holder now carries the state of another transaction
		for i := len(order) - 1; i > 0; i-- {
			j := rng.Intn(i + 1)
			order[i], order[j] = order[j], order[i]
		}
		for _, k := range order {
			t := txs[k]
			if t.exp == nil {
				continue
			}
			skip := rng.Bool()
			b, err, pan := c15xExport(st, t.id, skip, holder)
			r.Count("xp.export.second-pass")
			r.OracleChecks++
			if skip && pan == "" && err == nil {
				// skipIntegrityCheck: readTx does not build the hash tree, the exported header carries Eh = 0 (such an
				// export is meant for ReplicateTx(skipIntegrityCheck=true), which recomputes Eh); everything else is equal
				if f, perr := c15xParse(b); perr == nil && len(b) == len(t.exp) && (f.eh == [32]byte{} || f.eh == t.hdr.Eh) {
					if f.eh == [32]byte{} {
						r.Count("xp.export.skipIntegrityCheck.eh-zero")
					}
					off := 4 + 8 + 32 + 8 + 2 + 2 // hdrLen id prevAlh ts version nentries(v0)
					if f.version == 1 {
						off = 4 + 8 + 32 + 8 + 2 + 2 + len(f.txmd) + 4
					}
					b = append(append(append([]byte{}, b[:off]...), t.hdr.Eh[:]...), b[off+32:]...)
				}
			}
			if pan != "" || err != nil || !bytes.Equal(b, t.exp) {
				rp := c15xTxReplay(sp, t)
				rp["second"] = c15xShort(hx.Hex(b))
				r.Fail("C15:ExportTx:not-deterministic", fmt.Sprintf("tx %d of store %s: a second ExportTx through the same holder (after exporting other transactions) gives err=%v panic=%q and different bytes", t.id, sp, err, pan), rp)
			}
		}
	}

	c15xLap(r, "export", &lap)
	// ---- replicate into an empty replica, in id order
	ropts := sp.options(nil, rng.Bool()).WithWriteTxHeaderVersion(rng.Intn(2)).WithFileSize(1 << (10 + rng.Intn(8)))
	rst, err := store.Open(filepath.Join(dir, "r"), ropts)
	if err != nil {
		r.Inconclusive = append(r.Inconclusive, "c15 export: replica store.Open: "+err.Error())
		return
	}
	defer rst.Close()
	c15xLap(r, "ropen", &lap)
	defer c15xLap(r, "replicate", &lap)
	for k := 1; k <= sp.nTx; k++ {
		t := txs[k]
		if t.exp == nil {
			r.Count("xp.replicate.stopped-at-unexportable-tx")
			break
		}
		if !c15xCheckReplica(r, sp, rst, t, holder, rd) {
			break
		}
	}
}

func c15xCountTx(r *hx.Result, t *c15xTx) {
	n := len(t.entries)
	switch {
	case n == 1:
		r.Count("xp.tx.entries.1")
	case n <= 3:
		r.Count("xp.tx.entries.2-3")
	case n <= 8:
		r.Count("xp.tx.entries.4-8")
	default:
		r.Count("xp.tx.entries.9+")
	}
	with, without := 0, 0
	mdThenNone, noneThenMd, mdThenOtherMd := false, false, false
	kinds := map[string]bool{}
	var lastMd []byte
	for _, e := range t.entries {
		r.Count("xp.entry.md." + e.md.kind())
		switch {
		case len(e.val) == 0:
			r.Count("xp.entry.value.empty")
		case len(e.val) == 1:
			r.Count("xp.entry.value.1")
		default:
			r.Count("xp.entry.value.longer")
		}
		wb := e.md.wantBytes()
		kinds[e.md.kind()] = true
		if len(wb) > 0 {
			if without > 0 {
				noneThenMd = true
			}
			if lastMd != nil && !bytes.Equal(lastMd, wb) {
				mdThenOtherMd = true
			}
			lastMd = wb
			with++
		} else {
			if with > 0 {
				mdThenNone = true
			}
			without++
		}
	}
	switch {
	case with == 0:
		r.Count("xp.tx.mdmix.no-entry-has-metadata")
	case without == 0:
		r.Count("xp.tx.mdmix.every-entry-has-metadata")
	default:
		r.Count("xp.tx.mdmix.mixed")
	}
	if mdThenNone {
		r.Count("xp.tx.order.metadata-then-none")
	}
	if noneThenMd {
		r.Count("xp.tx.order.none-then-metadata")
	}
	if mdThenOtherMd {
		r.Count("xp.tx.order.metadata-then-different-metadata")
	}
	if len(kinds) >= 3 {
		r.Count("xp.tx.mdmix.3+kinds")
	}
}

// c15xCheckExport: ExportTx(t) against the committed transaction (oracle) and against the Lean encoder.
func c15xCheckExport(r *hx.Result, rng *hx.Rng, sp c15xSpec, st *store.ImmuStore, t *c15xTx, holder, rd *store.Tx) {
	// what the store says about the values (ReadTx + ReadValue: not the export path)
	present, gone, empty, expired := 0, 0, 0, 0
	if err := st.ReadTx(t.id, false, rd); err != nil {
		r.Fail("C15:ReadTx:committed-tx-unreadable", fmt.Sprintf("store %s: ReadTx(%d): %v", sp, t.id, err), c15xTxReplay(sp, t))
		return
	}
	for _, e := range rd.Entries() {
		if e.VLen() == 0 {
			empty++
			continue
		}
		_, err := st.ReadValue(e)
		switch {
		case err == nil:
			present++
		case errors.Is(err, io.EOF):
			gone++
		case errors.Is(err, store.ErrExpiredEntry):
			expired++ // ReadValue does not say whether the value is still there
		default:
			r.Fail("C15:ReadValue:committed-value-unreadable", fmt.Sprintf("store %s tx %d: ReadValue: %v", sp, t.id, err), c15xTxReplay(sp, t))
			return
		}
	}
	b, err, pan := c15xExport(st, t.id, false, holder)
	key := fmt.Sprintf("xp %s tx%d %x", sp, t.id, t.alh[:6])
	nontrivial := len(t.entries) > 1
	r.Eval(key, nontrivial)
	r.OracleChecks++
	if pan != "" {
		r.Fail("C15:ExportTx:panic", fmt.Sprintf("store %s: ExportTx(%d) panicked: %s", sp, t.id, pan), c15xTxReplay(sp, t))
		return
	}
	if err != nil {
		partially := strings.Contains(err.Error(), "partially truncated")
		switch {
		case partially && sp.mode == 2 && ((gone > 0 && present > 0) || expired > 0):
			r.Count("xp.export.partially-truncated") // some values deleted, some not: documented refusal
		case partially && gone > 0 && present == 0 && empty > 0:
			r.Count("xp.export.wholly-truncated-with-empty-value")
			r.Fail("C15:ExportTx:wholly-truncated-tx-with-empty-value-not-exportable",
				fmt.Sprintf("store %s: every non-empty value of tx %d was deleted by TruncateUptoTx and the tx also holds %d empty value(s): ExportTx fails with %q instead of exporting the tx by digest (the tx can no longer be replicated)", sp, t.id, empty, err.Error()),
				c15xTxReplay(sp, t))
		default:
			r.Fail("C15:ExportTx:committed-tx-not-exportable", fmt.Sprintf("store %s: ExportTx(%d): %v (values: %d readable, %d deleted, %d empty)", sp, t.id, err, present, gone, empty), c15xTxReplay(sp, t))
		}
		return
	}
	t.exp = b
	t.trunc = gone > 0
	if sp.mode == 2 && gone == 0 && present == 0 && expired > 0 {
		// every non-empty value belongs to an expired entry: ReadValue cannot tell whether the values were deleted
		r.Count("xp.export.truncation-not-observable")
		t.trunc = len(b) > 0 && b[len(b)-1] == 1
	}
	if t.trunc {
		r.Count("xp.export.by-digest")
	} else {
		r.Count("xp.export.with-values")
	}
	rp := func() map[string]interface{} { return c15xTxReplay(sp, t) }

	// ---- oracle: own parser, compare with the committed transaction
	f, perr := c15xParse(b)
	if perr != nil {
		r.Fail("C15:ExportTx:frame-malformed", fmt.Sprintf("store %s tx %d: the exported bytes are not a well-formed frame: %v", sp, t.id, perr), rp())
		return
	}
	h := t.hdr
	var wantTxmd []byte
	if h.Metadata != nil {
		wantTxmd, _ = c15TxmdBytes(h.Metadata)
	}
	if f.id != h.ID || f.ts != h.Ts || f.blTxID != h.BlTxID || f.prevAlh != h.PrevAlh || f.eh != h.Eh || f.blr != h.BlRoot ||
		f.version != h.Version || f.nentries != h.NEntries || !bytes.Equal(f.txmd, wantTxmd) || f.version != sp.ver {
		r.Fail("C15:ExportTx:header-differs", fmt.Sprintf("store %s tx %d: exported header (id=%d ts=%d bl=%d ver=%d n=%d txmd=%s) differs from the committed one (%s)", sp, t.id, f.id, f.ts, f.blTxID, f.version, f.nentries, hx.Hex(f.txmd), c15HdrTok(h)), rp())
	}
	if f.nentries != len(t.entries) || len(f.entries) != len(t.entries) {
		r.Fail("C15:ExportTx:entry-count-differs", fmt.Sprintf("store %s tx %d: %d entries exported, %d committed", sp, t.id, len(f.entries), len(t.entries)), rp())
		return
	}
	if f.trunc != t.trunc {
		r.Fail("C15:ExportTx:truncation-flag-wrong", fmt.Sprintf("store %s tx %d: trailer flag %v, values deleted: %v", sp, t.id, f.trunc, t.trunc), rp())
	}
	for i, e := range t.entries {
		fe := f.entries[i]
		if !bytes.Equal(fe.key, e.key) {
			r.Fail("C15:ExportTx:entry-key-differs", fmt.Sprintf("store %s tx %d entry %d: exported key %s, committed %s", sp, t.id, i, hx.Hex(fe.key), hx.Hex(e.key)), rp())
		}
		want := e.md.wantBytes()
		if !bytes.Equal(fe.md, want) {
			r.Fail("C15:ExportTx:entry-kvmetadata-differs", fmt.Sprintf("store %s tx %d entry %d of %d (key %s, committed metadata %s): exported KV metadata bytes %s, committed %s", sp, t.id, i, len(t.entries), hx.Hex(e.key), e.md.kind(), hx.Hex(fe.md), hx.Hex(want)), rp())
		}
		wantPl := e.val
		if f.trunc {
			d := sha256.Sum256(e.val)
			wantPl = d[:]
		}
		if !bytes.Equal(fe.payload, wantPl) {
			r.Fail("C15:ExportTx:entry-value-differs", fmt.Sprintf("store %s tx %d entry %d: exported value/digest %s, committed %s (by digest: %v)", sp, t.id, i, c15xShort(hx.Hex(fe.payload)), c15xShort(hx.Hex(wantPl)), f.trunc), rp())
		}
	}

	// ---- correspondence: the committed transaction through the Lean encoder
	var sb strings.Builder
	fmt.Fprintf(&sb, "c15 xp.enc %s %s %d", c15xHdrArg(h), c15x01(t.trunc), len(t.entries))
	for _, e := range t.entries {
		pl := e.val
		if t.trunc {
			d := sha256.Sum256(e.val)
			pl = d[:]
		}
		fmt.Fprintf(&sb, " %s %s %s", hx.Hex(e.key), e.md.tok(), hx.Hex(pl))
	}
	r.Corr(sb.String(), "ok "+hx.Hex(b))
	if len(r.Samples) < 6 && len(t.entries) >= 2 && len(t.entries) <= 4 && len(b) < 400 {
		r.Sample(map[string]interface{}{"export": c15xTxReplay(sp, t)})
	}
}

// c15xCheckReplica: ReplicateTx of the exported bytes; false = the replica cannot take further transactions.
func c15xCheckReplica(r *hx.Result, sp c15xSpec, rst *store.ImmuStore, t *c15xTx, holder, rd *store.Tx) bool {
	rp := func() map[string]interface{} {
		m := c15xTxReplay(sp, t)
		m["then2"] = "ReplicateTx(exported, false, false) on an empty replica holding txs 1.." + fmt.Sprint(t.id-1)
		return m
	}
	h, err, pan := c15xReplicate(rst, t.exp)
	r.OracleChecks++
	if pan != "" {
		r.Fail("C15:ReplicateTx:panic-on-genuine-export", fmt.Sprintf("store %s tx %d: %s", sp, t.id, pan), rp())
		return false
	}
	if err != nil {
		r.Fail("C15:ReplicateTx:genuine-export-rejected", fmt.Sprintf("store %s: the replica rejects the export of tx %d (%d entries): %v", sp, t.id, len(t.entries), err), rp())
		return false
	}
	r.Count("xp.replicate.ok")
	if h.Alh() != t.alh {
		r.Fail("C15:ReplicateTx:alh-differs", fmt.Sprintf("store %s tx %d: replica Alh %x, primary %x", sp, t.id, h.Alh(), t.alh), rp())
	}
	if err := rst.ReadTx(t.id, false, rd); err != nil {
		r.Fail("C15:ReplicateTx:replicated-tx-unreadable", fmt.Sprintf("store %s tx %d: ReadTx on the replica: %v", sp, t.id, err), rp())
		return false
	}
	res := rd.Entries()
	if len(res) != len(t.entries) {
		r.Fail("C15:ReplicateTx:entries-differ", fmt.Sprintf("store %s tx %d: replica holds %d entries, primary committed %d", sp, t.id, len(res), len(t.entries)), rp())
		return false
	}
	rh := rd.Header()
	var sb strings.Builder
	emptyDigest := sha256.Sum256(nil)
	byDigest := false
	for _, e := range res {
		if e.VLen() == 0 && e.HVal() != emptyDigest {
			byDigest = true
		}
	}
	fmt.Fprintf(&sb, "ok %s %s %d", c15xHdrTokNorm(rh), c15x01(byDigest), len(res))
	for i, e := range res {
		in := t.entries[i]
		var mdb []byte
		if e.Metadata() != nil {
			mdb = e.Metadata().Bytes()
		}
		hv := e.HVal()
		if !bytes.Equal(e.Key(), in.key) || !bytes.Equal(mdb, in.md.wantBytes()) || hv != sha256.Sum256(in.val) {
			r.Fail("C15:ReplicateTx:entries-differ", fmt.Sprintf("store %s tx %d entry %d: replica holds key %s metadata %s hVal %x; committed key %s metadata %s hVal %x", sp, t.id, i, hx.Hex(e.Key()), hx.Hex(mdb), hv[:6], hx.Hex(in.key), hx.Hex(in.md.wantBytes()), sha256.Sum256(in.val)), rp())
		}
		pl := hv[:]
		if !byDigest {
			v, err := rst.ReadValue(e)
			if errors.Is(err, store.ErrExpiredEntry) {
				// ReadValue refuses expired entries; the stored hash (compared above) binds the value
				r.Count("xp.replica.value-of-expired-entry-not-readable")
				v, err = in.val, nil
			}
			if err != nil || !bytes.Equal(v, in.val) {
				r.Fail("C15:ReplicateTx:value-differs", fmt.Sprintf("store %s tx %d entry %d: replica value %s (err %v), committed %s", sp, t.id, i, c15xShort(hx.Hex(v)), err, c15xShort(hx.Hex(in.val))), rp())
			}
			pl = v
		}
		fmt.Fprintf(&sb, " %s %s %s", hx.Hex(e.Key()), c15xMdTokOf(e.Metadata()), hx.Hex(pl))
	}
	if byDigest != t.trunc {
		r.Fail("C15:ReplicateTx:truncation-differs", fmt.Sprintf("store %s tx %d: exported by digest=%v, replica stored without values=%v", sp, t.id, t.trunc, byDigest), rp())
	}
	r.Corr("c15 xp.dec "+hx.Hex(t.exp), sb.String())
	if !t.trunc { // (a replica cannot re-export a tx it received by digest: known finding of C07)
		b, err, pan := c15xExport(rst, t.id, false, holder)
		r.OracleChecks++
		if pan != "" || err != nil || !bytes.Equal(b, t.exp) {
			m := rp()
			m["reexported"] = c15xShort(hx.Hex(b))
			r.Fail("C15:ExportTx:replica-reexport-differs", fmt.Sprintf("store %s tx %d: ExportTx on the replica gives err=%v panic=%q and bytes that differ from the primary's export", sp, t.id, err, pan), m)
		}
		r.Count("xp.replica.reexport")
	}
	return true
}

// ---------------------------------------------------------------- deterministic probe (known finding)

// c15ExportProbeEmptyValueTruncated: a transaction with a non-empty and an empty value whose value-log file
// was deleted by TruncateUptoTx.
func c15ExportProbeEmptyValueTruncated(r *hx.Result) {
	sp := c15xSpec{ver: 1, mode: 2, maxEnt: 4, maxKey: 16, maxVal: 256, nTx: 6}
	dir := hx.TempDir("c15xp")
	defer os.RemoveAll(dir)
	st, err := store.Open(filepath.Join(dir, "p"), sp.options(nil, false).WithFileSize(256).WithMaxIOConcurrency(1))
	if err != nil {
		r.Inconclusive = append(r.Inconclusive, "c15 export probe: "+err.Error())
		return
	}
	defer st.Close()
	ctx := context.Background()
	var first *c15xTx
	for k := 1; k <= sp.nTx; k++ {
		es := []c15xEntry{{key: []byte(fmt.Sprintf("k%d.a", k)), val: bytes.Repeat([]byte{byte(k)}, 200)}, {key: []byte(fmt.Sprintf("k%d.b", k))}}
		otx, err := st.NewWriteOnlyTx(ctx)
		if err != nil {
			r.Inconclusive = append(r.Inconclusive, "c15 export probe: "+err.Error())
			return
		}
		for _, e := range es {
			otx.Set(e.key, nil, e.val)
		}
		hdr, err := otx.Commit(ctx)
		if err != nil {
			r.Inconclusive = append(r.Inconclusive, "c15 export probe: "+err.Error())
			return
		}
		if k == 1 {
			first = &c15xTx{id: hdr.ID, entries: es, hdr: hdr, alh: hdr.Alh()}
		}
	}
	if err := st.TruncateUptoTx(uint64(sp.nTx)); err != nil {
		r.Inconclusive = append(r.Inconclusive, "c15 export probe: TruncateUptoTx: "+err.Error())
		return
	}
	r.Count("xp.probe.empty-value-in-truncated-tx")
	c15xCheckExport(r, hx.NewRng(1), sp, st, first, store.NewTx(sp.maxEnt, sp.maxKey), store.NewTx(sp.maxEnt, sp.maxKey))
}

// ---------------------------------------------------------------- part 5: driver

func c15ExportPart(r *hx.Result, rng *hx.Rng, thorough bool, round int) {
	t0 := time.Now()
	defer func() {
		prev, _ := r.Extra["export_part_s"].(float64)
		r.Extra["export_part_s"] = prev + time.Since(t0).Seconds()
	}()
	// opening a store costs far more than the transactions in it: few stores, several transactions each
	stores := 9
	if thorough {
		stores = 24
	}
	for i := 0; i < stores; i++ {
		sp := c15xSpec{
			ver:    1,
			mode:   i % 3, // every mode in every round
			maxEnt: []int{1, 2, 3, 4, 6, 8, 16, 33}[rng.Intn(8)],
			maxKey: []int{8, 24, 64, 200}[rng.Intn(4)],
			maxVal: []int{64, 256, 1024}[rng.Intn(3)],
			nTx:    4 + rng.Intn(7),
		}
		if i%6 == 3+round%2 { // version-0 headers: embedded values in even rounds, value logs in odd ones
			sp.ver = 0
		}
		if sp.maxEnt < 3 && rng.Chance(60) {
			sp.maxEnt = 3 + rng.Intn(6)
		}
		if sp.mode == 2 {
			sp.nTx = 8 + rng.Intn(5)
			if sp.maxEnt > 6 {
				sp.maxEnt = 6
			}
			if sp.maxVal < 256 {
				sp.maxVal = 256
			}
		}
		c15ExportStore(r, rng.Fork(), sp)
	}
	if round == 0 {
		c15ExportProbeEmptyValueTruncated(r)
	}
}
